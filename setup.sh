#!/bin/sh
# MANIFEST.setup_cmd: full offline build of the Coq development and the extracted driver.
set -e
cd "$(dirname "$0")"
export PYTHONPATH="${NV_REPO:-/repo}:$(pwd)" PYTHONHASHSEED=0 PYTHONDONTWRITEBYTECODE=1
# no admitted proofs, declared axioms or disabled kernel checks anywhere in the development
if grep -rnE '\b(Admitted|admit|Axiom|Parameter|Conjecture|Admit Obligations)\b|Unset Guard|bypass_check|type-in-type|impredicative-set' coq --include='*.v' | grep -v '^coq/Gen/' ; then
  echo "forbidden construct found" >&2; exit 1
fi
/venv/bin/python -B -c "
from harness import core
st = core.build('Props/C02.v')
import sys, json
print('build', st['build_s'], 's; make rc', st.get('make_rc'), '; extract ok', st['extract_ok'])
if st.get('make_rc') != 0:
    print(st['make_log_tail']); sys.exit(1)
if not st['extract_ok']:
    print(st['errors']); sys.exit(1)
"
