(* driver.ml — line protocol around the extracted command table.
   input line:  <cmd> <tok> <tok> ...      output line: <tok...>
   tokens: i<hex> | i-<hex> | s<hexbytes> | T | F | N | [ ... ] | !<ExnName> *)
open Model

let hexval c = match c with
  | '0'..'9' -> Char.code c - 48 | 'a'..'f' -> Char.code c - 87 | 'A'..'F' -> Char.code c - 55
  | _ -> failwith "hex"

(* bits, least significant first *)
let bits_of_hex (h : string) : bool list =
  let n = String.length h in
  let acc = ref [] in
  for i = 0 to n - 1 do
    let v = hexval h.[i] in
    (* most significant nibble first in the string; we prepend so final list is LSB first *)
    acc := ((v land 1) = 1) :: ((v land 2) = 2) :: ((v land 4) = 4) :: ((v land 8) = 8) :: !acc
  done; !acc

let rec strip_top (l : bool list) : bool list =  (* l is MSB-first *)
  match l with false :: t -> strip_top t | _ -> l

let pos_of_bits_lsb (l : bool list) : positive option =
  let msb = strip_top (List.rev l) in
  match msb with
  | [] -> None
  | _ :: rest -> Some (List.fold_left (fun acc b -> if b then XI acc else XO acc) XH rest)

let z_of_tok (s : string) : z =
  let neg = String.length s > 0 && s.[0] = '-' in
  let h = if neg then String.sub s 1 (String.length s - 1) else s in
  match pos_of_bits_lsb (bits_of_hex h) with
  | None -> Z0
  | Some p -> if neg then Zneg p else Zpos p

let hex_of_pos (p : positive) : string =
  let rec bits p acc = match p with XH -> true :: acc | XO q -> bits q (false :: acc) | XI q -> bits q (true :: acc) in
  let msb = bits p [] in   (* msb first *)
  let n = List.length msb in
  let pad = (4 - n mod 4) mod 4 in
  let l = (List.init pad (fun _ -> false)) @ msb in
  let b = Buffer.create 40 in
  let rec go l = match l with
    | a :: b1 :: c :: d :: t ->
      let v = (if a then 8 else 0) + (if b1 then 4 else 0) + (if c then 2 else 0) + (if d then 1 else 0) in
      Buffer.add_char b "0123456789abcdef".[v]; go t
    | _ -> () in
  go l; Buffer.contents b

let string_of_chars (l : char list) : string =
  let b = Buffer.create 16 in List.iter (Buffer.add_char b) l; Buffer.contents b
let chars_of_string (s : string) : char list = List.init (String.length s) (String.get s)

let exn_name = function
  | AddrFormatError -> "AddrFormatError" | AddrConversionError -> "AddrConversionError"
  | ValueError -> "ValueError" | TypeError -> "TypeError" | IndexError -> "IndexError"
  | KeyError -> "KeyError" | StructError -> "StructError" | NotRegisteredError -> "NotRegisteredError"
  | AttributeError -> "AttributeError" | OverflowError -> "OverflowError"
  | OutOfFuel -> "OutOfFuel" | Unsupported -> "Unsupported"

let exn_of_name = function
  | "AddrFormatError" -> AddrFormatError | "AddrConversionError" -> AddrConversionError
  | "ValueError" -> ValueError | "TypeError" -> TypeError | "IndexError" -> IndexError
  | "KeyError" -> KeyError | "StructError" -> StructError | "NotRegisteredError" -> NotRegisteredError
  | "AttributeError" -> AttributeError | "OverflowError" -> OverflowError
  | "OutOfFuel" -> OutOfFuel | _ -> Unsupported

let rec print_val (b : Buffer.t) (v : pyval) : unit =
  match v with
  | PInt Z0 -> Buffer.add_string b "i0"
  | PInt (Zpos p) -> Buffer.add_string b "i"; Buffer.add_string b (hex_of_pos p)
  | PInt (Zneg p) -> Buffer.add_string b "i-"; Buffer.add_string b (hex_of_pos p)
  | PStr s -> Buffer.add_char b 's';
    List.iter (fun c -> Buffer.add_string b (Printf.sprintf "%02x" (Char.code c))) s
  | PBool true -> Buffer.add_char b 'T'
  | PBool false -> Buffer.add_char b 'F'
  | PNone -> Buffer.add_char b 'N'
  | PExn e -> Buffer.add_char b '!'; Buffer.add_string b (exn_name e)
  | PList l -> Buffer.add_char b '[';
    List.iter (fun x -> Buffer.add_char b ' '; print_val b x) l; Buffer.add_string b " ]"

let unhex (s : string) : char list =
  let n = String.length s / 2 in
  List.init n (fun i -> Char.chr (hexval s.[2*i] * 16 + hexval s.[2*i+1]))

(* parse a token list into values *)
let rec parse_vals (toks : string list) : pyval list * string list =
  match toks with
  | [] -> ([], [])
  | "]" :: rest -> ([], rest)
  | "[" :: rest ->
    let (inner, rest') = parse_vals rest in
    let (more, rest'') = parse_vals rest' in
    (PList inner :: more, rest'')
  | t :: rest ->
    let v = match t.[0] with
      | 'i' -> PInt (z_of_tok (String.sub t 1 (String.length t - 1)))
      | 's' -> PStr (unhex (String.sub t 1 (String.length t - 1)))
      | 'T' -> PBool true | 'F' -> PBool false | 'N' -> PNone
      | '!' -> PExn (exn_of_name (String.sub t 1 (String.length t - 1)))
      | _ -> failwith ("bad token " ^ t) in
    let (more, rest') = parse_vals rest in
    (v :: more, rest')

let () =
  let b = Buffer.create 256 in
  try
    while true do
      let line = input_line stdin in
      let toks = List.filter (fun s -> s <> "") (String.split_on_char ' ' line) in
      (match toks with
       | [] -> print_string "\n"
       | cmd :: rest ->
         let (args, _) = parse_vals rest in
         Buffer.clear b;
         (try print_val b (nv_run (chars_of_string cmd) args)
          with Stack_overflow -> (Buffer.clear b; Buffer.add_string b "!DriverStackOverflow"));
         print_string (Buffer.contents b); print_char '\n')
    done
  with End_of_file -> ()
