(* Props/C19_code.v — CODC: property C19, part B (index rows produced by netaddr's own registry parsers from any well-formed
   registry text delimit every record exactly) stated DIRECTLY about the Gallina definitions that harness/gen/pysrc.py
   regenerates on every run from the CURRENT text of OUIIndexParser.parse / IABIndexParser.parse of netaddr/eui/ieee.py
   (coq/Gen/pysrc_ieee_gen.v: src_OUIIndexParser_parse, src_IABIndexParser_parse, the `while True` loops as Fixpoints on fuel).
   Each theorem is the theorem of the same name in Props/C19.v with the model parser replaced by the generated one.
   SHAPES.  The registry file self.fh (binary mode) is the list of its lines, terminator included; the second argument is the
   position tell() starts from (0: the file is read from its beginning).  The generated parser answers `Ok rows` -- the rows
   handed to self.notify, in order -- when parse() ends normally, `Raise e` otherwise.  A row is the list [key; offset; size]:
   oui_row (k, off, size) = [k; off; size] (ints); iab_row (k, off, size) = [BiI k'; BiI off; BiI size] with the key an int
   once the (base 16) line has been read (`bi` = bytes-or-int, Model/SrcPreludeIeee.v).  The vocabulary of Props/C19.v is
   unchanged: a well-formed registry = header lines without `(hex)`, then >= 1 records, each a `(hex)` line followed by lines
   without `(hex)` (IAB: exactly one of them with `(base 16)`); any terminators, duplicates allowed; oui_expected / iab_expected:
   row i = (key_i, bytes before record i, bytes of record i); abut: the rows tile the file from the end of the header.
   HYPOTHESES.  Exactly those of the model theorems; the tie C19_source_tie has none.
   CLAUSES STILL ABOUT THE MODEL.  (1) PART A (IANA lookups: C19_iana_lookup_exact, _exact_set, C19_iana_ids_coherent,
   C19_within_bounds): netaddr/ip/iana.py is not translated (query / _within_bounds and the SAX loaders stay tied by
   correspondence and by the regenerated IANA_INFO literal).  (2) C19_index_keys_hex is about the key expressions
   (int(line.split()[0].replace(b'-', b''), 16), ... >> 12), which are inlined in the generated loops and have no generated
   definition of their own; the keys of C19_index_exact_of_source are those expressions' values (o_key / i_key through
   wf_orec / wf_irec).  (3) PART C, C19_registered (OUI(k) / IAB(k) raise NotRegisteredError iff the index has no rows): OUI.__init__
   / IAB.__init__ are not translated; their callees _parse_data / __str__ are (C19_source_tie_b) but no headline theorem of
   Props/C19.v is about them.  (4) When the model parser raises, it additionally keeps the rows delivered before the exception;
   the generated function does not represent them (C19_parse_of_source says what is represented).  The bytes methods (`in`,
   split, replace, int(b, 16), len) are prelude symbols = the model's own string functions.
   Nothing but statements closed by `exact`, each followed by Print Assumptions. *)
From Coq Require Import String Ascii.
From NV Require Import Base.Tac Base.PyVal Base.PyStr Model.Ip Model.Ieee Model.SrcPrelude Model.SrcPreludeStr
  Model.SrcPreludeIeee Gen.pysrc_ieee_gen Proofs.C19_ieee Proofs.Code_C19.
Import ListNotations.
Open Scope list_scope.
Open Scope Z_scope.

(* index rows of the GENERATED OUIIndexParser.parse / IABIndexParser.parse for every well-formed registry: parse() ends
   normally and notifies exactly row i = (key_i, bytes before record i, bytes of record i), in order *)
Theorem C19_index_exact_of_source :
  (forall hdr recs, Forall plain hdr -> recs <> [] -> Forall wf_orec recs ->
     src_OUIIndexParser_parse (hdr ++ flat_map olines recs) 0 = Ok (map oui_row (oui_expected (total hdr) recs)) /\
     abut (total hdr) (oui_expected (total hdr) recs) (total (hdr ++ flat_map olines recs)) /\
     map (fun x => fst (fst x)) (oui_expected (total hdr) recs) = map o_key recs) /\
  (forall hdr recs, Forall plain hdr -> recs <> [] -> Forall wf_irec recs ->
     src_IABIndexParser_parse (hdr ++ flat_map ilines recs) 0 = Ok (map iab_row (iab_expected (total hdr) recs)) /\
     abut (total hdr) (iab_expected (total hdr) recs) (total (hdr ++ flat_map ilines recs))).
Proof. exact index_exact_of_source. Qed.
Print Assumptions C19_index_exact_of_source.

(* a registry without any record: the generated parsers raise AttributeError (`record.append` on None) *)
Theorem C19_index_empty_raises_of_source : forall hdr, Forall plain hdr ->
  src_OUIIndexParser_parse hdr 0 = Raise AttributeError /\ src_IABIndexParser_parse hdr 0 = Raise AttributeError.
Proof. exact index_empty_raises_of_source. Qed.
Print Assumptions C19_index_empty_raises_of_source.

(* for ANY file, well formed or not: the generated parser notifies exactly the rows of the model parser when that ends
   normally, and raises the model's exception otherwise *)
Theorem C19_parse_of_source : forall lines,
  (src_OUIIndexParser_parse lines 0 =
     match oui_parse lines with (rows, None) => Ok (map oui_row rows) | (_, Some e) => Raise e end) /\
  (src_IABIndexParser_parse lines 0 =
     match iab_parse lines with (rows, None) => Ok (map iab_row rows) | (_, Some e) => Raise e end).
Proof. exact parse_of_source. Qed.
Print Assumptions C19_parse_of_source.

(* the vocabulary added here is what the header says *)
Theorem C19_code_vocabulary : forall k off size s,
  oui_row (k, off, size) = [k; off; size] /\
  iab_row (KI k, off, size) = [BiI k; BiI off; BiI size] /\
  iab_row (KB s, off, size) = [BiB s; BiI off; BiI size].
Proof. exact (fun k off size s => conj eq_refl (conj eq_refl eq_refl)). Qed.
Print Assumptions C19_code_vocabulary.

(* non-vacuity: the two-record CRLF/LF IAB registry of C19_nonvacuous (a two-line header, a record with CRLF terminators and
   an address line, a record with LF terminators and an unterminated last line) run through the GENERATED parser *)
Example C19_code_nonvacuous :
  src_IABIndexParser_parse C19_ieee.sample_iab 0 = Ok [[BiI 84683452; BiI 8; BiI 64]; [BiI 17406710177; BiI 72; BiI 44]] /\
  src_OUIIndexParser_parse ["header" ++ C19_ieee.LF; "00-CA-FE   (hex)  ACME" ++ C19_ieee.CRLF; "00CAFE (base 16) ACME" ++ C19_ieee.CRLF;
                            "00-00-01   (hex)  XEROX" ++ C19_ieee.LF]%string 0 = Ok [[51966; 7; 47]; [1; 54; 24]] /\
  src_OUIIndexParser_parse ["header" ++ C19_ieee.LF]%string 0 = Raise AttributeError.
Proof. repeat split; vm_compute; reflexivity. Qed.
