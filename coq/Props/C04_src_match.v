(* Props/C04_src_match.v -- source tie for C04, second part: the Gallina definitions that harness/gen/pysrc.py regenerates on
   every run from the CURRENT text of all_matching_cidrs / smallest_matching_cidr / largest_matching_cidr and of
   IPListMixin.__contains__ (coq/Gen/pysrc_match_gen.v) are equal to the hand-written model of Model/Contains.v that the
   theorems of Props/C04.v are about (at the real widths, W = Ip.width).
   `ip` is an already constructed IPAddress object and `cidrs` a list of already constructed IPNetwork objects (the copies
   `IPAddress(ip)`, `[IPNetwork(cidr) for cidr in cidrs]` are the identity; conversion from text is the constructors'
   business); `sorted(..)` is the symbol py_sorted_nets (= Contains.py_sorted, NOT translated); `ip in cidr` and
   `cidr.network not in matches[-1]` are the regenerated IPNetwork.__contains__ / .network; `matches[-1]` is py_index;
   `match = None` ... `match is not None and ..` is an `option net`; the early `break` ends the generated loop.
   Hypothesis of the three functions: the candidates are well formed (C02.wf_net: version 4 / 6, value and prefix in range;
   implied by wf_obj of Props/C04.v's theorems): the code builds `cidr.network` through the range-checking constructor and
   takes the shift count width - prefixlen as non-negative; the model does neither.
   IPListMixin.__contains__ (for a receiver class that overrides it, `:mixin`): no hypothesis; the operand kind OOther (the
   parser fallback `IPAddress(other) in self`) is NOT translated (Raise Unsupported), as in Props/C04_src.v.
   Nothing but the statement closed by `exact`, followed by Print Assumptions. *)
From NV Require Import Base.Tac Base.PyVal Model.Ip Model.Contains Model.SrcPrelude Model.SrcPreludeSRCE Model.SrcPreludeMatch
  Gen.pysrc_gen Gen.pysrc_match_gen Proofs.C02 Proofs.GenOk_Src_C04 Proofs.GenOk_Src_C04_match.
Import ListNotations.
Open Scope Z_scope.

Theorem C04_source_tie_match :
  (forall ipver ipv cidrs, Forall wf_net cidrs ->
     src_all_matching_cidrs (ipver, ipv) cidrs = all_matching_cidrs width ipver ipv cidrs /\
     src_smallest_matching_cidr (ipver, ipv) cidrs = smallest_matching_cidr width ipver ipv cidrs /\
     src_largest_matching_cidr (ipver, ipv) cidrs = largest_matching_cidr width ipver ipv cidrs) /\
  (forall ipver ipv l matches, Forall wf_net l -> Forall wf_net matches ->
     src_all_matching_cidrs_loop1 (ipver, ipv) l matches = scan_all width ipver ipv l matches) /\
  (forall ipver ipv l mat, Forall wf_net l -> (forall m, mat = Some m -> wf_net m) ->
     src_smallest_matching_cidr_loop1 (ipver, ipv) l mat = scan_smallest width ipver ipv l mat) /\
  (forall ipver ipv l mat, Forall wf_net l ->
     src_largest_matching_cidr_loop1 (ipver, ipv) l mat =
       omap (fun r => match r with Some c => Some c | None => mat end) (scan_largest width ipver ipv l)) /\
  (forall ver v p o, src_IPNetwork_contains_mixin ver (width ver) v p (operand_of o) = mixin_contains width (Net ver v p) o) /\
  (forall ver w s e o, src_IPRange_contains_mixin ver w s e (operand_of o) = mixin_contains width (Rng ver s e) o) /\
  (forall ver w v p s e, src_IPNetwork_contains_mixin ver w v p OOther = Raise Unsupported /\
                         src_IPRange_contains_mixin ver w s e OOther = Raise Unsupported).
Proof. exact C04_match_tie_ok. Qed.
Print Assumptions C04_source_tie_match.

(* the generated definitions compute: 10.0.0.77 against [10.0.0.64/26, 192.168.0.0/16, 10.0.0.0/8, 10.0.0.0/24] *)
Example C04_src_match_nonvacuous :
  let cs := [ {| nver := 4; nval := 167772224; nplen := 26 |}; {| nver := 4; nval := 3232235520; nplen := 16 |};
              {| nver := 4; nval := 167772160; nplen := 8 |}; {| nver := 4; nval := 167772160; nplen := 24 |} ] in
  src_all_matching_cidrs (4, 167772237) cs =
    Ok [ {| nver := 4; nval := 167772160; nplen := 8 |}; {| nver := 4; nval := 167772160; nplen := 24 |};
         {| nver := 4; nval := 167772224; nplen := 26 |} ] /\
  src_smallest_matching_cidr (4, 167772237) cs = Ok (Some {| nver := 4; nval := 167772224; nplen := 26 |}) /\
  src_largest_matching_cidr (4, 167772237) cs = Ok (Some {| nver := 4; nval := 167772160; nplen := 8 |}) /\
  src_largest_matching_cidr (4, 1) cs = Ok None.
Proof. repeat split; vm_compute; reflexivity. Qed.
