(* Props/C17_src.v -- source tie for C17, glob part: the Gallina definitions that harness/gen/pysrc.py (class FnB) regenerates on
   every run from the CURRENT text of netaddr/ip/glob.py (coq/Gen/pysrc_glob_gen.v) are equal to the hand-written model of
   Model/Glob.v that the theorems of Props/C17.v are about:
     src__octet_value = octet_value (ValueError for None);  src_valid_glob (+ its `for` loop with the two flags, the
     `return False`s and the two `try .. except ValueError: return False`) = valid_glob / valid_glob_loop;
     src_glob_to_iptuple / src_glob_to_iprange (+ their token loops) = glob_to_iptuple / glob_to_iprange, the two IPAddress
     objects being (4, value) and the IPRange object (4, start, end);
     src_iprange_to_globs__iprange_to_glob (the inner function, `for i in range(4)` with t1[i] / t2[i]) = iprange_to_glob1;
     src_iprange_to_globs (try / except AddrConversionError with the CIDR fallback loop) = iprange_to_globs;
     src_glob_to_cidrs = glob_to_cidrs;  src_cidr_to_glob = cidr_to_glob.
   Text is a Coq string; split / join / `in` / '%s' / str(int) / int(str) are the CPython-validated models of Base/PyStr.v.
   NOT translated, used as named symbols that ARE the hand model (Model/SrcPreludeGlob.v): IPAddress(str) = py_ipaddress_of_str
   (Glob.ip_of_canon), IPRange(str, str) = py_iprange_of_strs, str(IPAddress) = py_addr_str (Glob.int_to_str4), IPNetwork(ip) of
   an IPAddress inside iprange_to_cidrs = py_net_of_addr.  Translated callees used as generated: iprange_to_cidrs
   (Gen/pysrc_iprange_gen.v; it instantiates the model's parameter `to_cidrs`: src_to_cidrs), IPNetwork.__getitem__ for
   cidr[0] / cidr[-1] (Gen/pysrc_listlike_gen.v), IPAddress.version.
   Hypotheses: none for the text functions.  iprange_to_globs: for mixed versions model and generated code both say
   Unsupported (str() of an IPv6 address is not modelled; stated for an in-range IPv4 operand); for IPv4 the blocks that iprange_to_cidrs returns for these
   bounds are IPv4 blocks inside the address space (net4_ok) -- the generated code builds the IPAddress objects cidr[0],
   cidr[-1] through the range-checking constructor, the model applies net_first / net_last directly; the hypothesis of
   C17_to_globs (cidrs_tile) implies it.  cidr_to_glob: the network is inside its address space (prefixlen <= width).
   The IPGlob class: the object is its state (_start, _end: IPAddress objects; _glob: Some text | None = the slot is unset);
   src_IPGlob_get_glob / src_IPGlob_str = ipglob_str (AttributeError on an unset slot); src_IPGlob_set_glob = set_glob (on success the
   new state, on failure the exception -- the model also says which state a failing setter leaves, the generated definition does
   not); src_IPGlob_init = ipglob_new and src_IPGlob_setstate = ipglob_setstate (constructors: they start from unset slots; `self.glob = ..`
   is the setter _set_glob read from `glob = property(_get_glob, _set_glob, ..)`); src_IPGlob_getstate = ipglob_getstate (IPv4 object).
   super(IPGlob, self).__init__ / __getstate__ / __setstate__ (IPRange's methods) are NOT translated: hand-model symbols
   py_iprange_init / py_iprange_getstate / py_iprange_setstate (Model/SrcPreludeGlob.v).  Hypothesis to_cidrs_wf: for valid ordered IPv4
   bounds the translated iprange_to_cidrs returns IPv4 blocks inside the address space (as above; DISCHARGED from C05 in
   Props/C17_src_closed.v, which restates these equalities without it); __setstate__: start <= end.
   A source edit that changes one of these functions changes the generated term and this theorem stops compiling.
   Nothing but the statement closed by `exact`, followed by Print Assumptions. *)
From Coq Require Import String.
From NV Require Import Base.Tac Base.PyVal Base.PyStr Model.Ip Model.Glob Model.SrcPrelude Model.SrcPreludeGlob
  Gen.pysrc_iprange_gen Gen.pysrc_glob_gen Proofs.GenOk_Src_C17.
Import ListNotations.
Open Scope Z_scope.

Theorem C17_source_tie :
  (forall token, src__octet_value token = oo (octet_value token) ValueError) /\
  (forall xs sh sa, src_valid_glob_loop1 xs sh sa = Ok (if valid_glob_loop xs sh sa then inr tt else inl false)) /\
  (forall s, src_valid_glob s = Ok (valid_glob s)) /\
  (forall s, src_glob_to_iptuple s = omap (fun t => ((4, fst t), (4, snd t))) (glob_to_iptuple s)) /\
  (forall s, src_glob_to_iprange s = omap (fun t => (4, fst t, snd t)) (glob_to_iprange s)) /\
  (forall lb ub, src_iprange_to_globs__iprange_to_glob (4, lb) (4, ub) = iprange_to_glob1 lb ub) /\
  (forall s e,
     (forall nets, src_iprange_to_cidrs (py_net_of_addr (4, s)) (py_net_of_addr (4, e)) = Ok nets -> Forall net4_ok nets) ->
     src_iprange_to_globs (4, s) (4, e) = iprange_to_globs src_to_cidrs (4, s) (4, e)) /\
  (forall to_cidrs sv s ev e, sv <> 4 -> ev <> 4 ->
     src_iprange_to_globs (sv, s) (ev, e) = iprange_to_globs to_cidrs (sv, s) (ev, e)) /\
  (forall to_cidrs sv s ev e, (sv = 4 <-> ev <> 4) -> (sv = 4 -> 0 <= s < 2 ^ 32) ->
     src_iprange_to_globs (sv, s) (ev, e) = iprange_to_globs to_cidrs (sv, s) (ev, e)) /\
  (forall s, omap blocks_of (src_glob_to_cidrs s) = glob_to_cidrs src_to_cidrs s) /\
  (forall v p, net4_ok {| nver := 4; nval := v; nplen := p |} ->
     (forall nets, src_iprange_to_cidrs (py_net_of_addr (4, net_first 32 v p)) (py_net_of_addr (4, net_last 32 v p)) = Ok nets ->
                   Forall net4_ok nets) ->
     src_cidr_to_glob {| nver := 4; nval := v; nplen := p |} = cidr_to_glob src_to_cidrs 4 v p) /\
  (forall to_cidrs v p, 0 <= net_first 128 v p <= net_last 128 v p -> net_last 128 v p <= max_int 6 ->
     src_cidr_to_glob {| nver := 6; nval := v; nplen := p |} = cidr_to_glob to_cidrs 6 v p) /\
  (forall s e g, src_IPGlob_get_glob s e g = ipglob_str (obj_of s e g)) /\
  (forall s e g, src_IPGlob_str s e g = ipglob_str (obj_of s e g)) /\
  (forall s e g ipglob, to_cidrs_wf ->
     src_IPGlob_set_glob s e g ipglob =
     match set_glob src_to_cidrs (obj_of s e g) ipglob with (o', None) => Ok (st_of o') | (_, Some ex) => Raise ex end) /\
  (forall ipglob, to_cidrs_wf -> src_IPGlob_init ipglob = omap st_of (ipglob_new src_to_cidrs ipglob)) /\
  (forall s e g, fst s = 4 -> src_IPGlob_getstate s e g = ipglob_getstate (obj_of s e g)) /\
  (forall s e ver, s <= e -> to_cidrs_wf ->
     src_IPGlob_setstate (s, e, ver) = omap st_of (ipglob_setstate src_to_cidrs (s, e, ver))).
Proof. exact C17_tie_ok. Qed.
Print Assumptions C17_source_tie.

(* the generated definitions compute: '192.0.2-3.*' is a glob with bounds 192.0.2.0 .. 192.0.3.255, '192.0.*.5' is none,
   10.0.0.254 .. 10.0.1.1 needs the CIDR fallback (2 globs), 192.0.2.0/24 is '192.0.2.*' *)
Example C17_src_nonvacuous :
  src_valid_glob "192.0.2-3.*" = Ok true /\ src_valid_glob "192.0.*.5" = Ok false /\ src_valid_glob "010.0.0.*" = Ok false /\
  src_glob_to_iptuple "192.0.2-3.*" = Ok ((4, 3221225984), (4, 3221226495)) /\
  src_glob_to_iprange "192.0.2.*.1" = Raise AddrFormatError /\
  src_iprange_to_globs (4, 167772161) (4, 167772166) = Ok ["10.0.0.1-6"]%string /\
  src_iprange_to_globs (4, 167772414) (4, 167772417) = Ok ["10.0.0.254-255"; "10.0.1.0-1"]%string /\
  src_iprange_to_globs (6, 1) (6, 2) = Raise AddrConversionError /\
  src_cidr_to_glob {| nver := 4; nval := 3221225985; nplen := 24 |} = Ok "192.0.2.*"%string /\
  omap blocks_of (src_glob_to_cidrs "192.0.2.4-7") = Ok [(3221225988, 30)] /\
  src_IPGlob_init "192.0.2.*" = Ok ((4, 3221225984), (4, 3221226239), Some "192.0.2.*"%string) /\
  src_IPGlob_init "192.0.2.5-1" = Raise AddrFormatError /\
  src_IPGlob_str (4, 0) (4, 255) None = Raise AttributeError /\
  src_IPGlob_setstate (3221225984, 3221226239, 4) = Ok ((4, 3221225984), (4, 3221226239), Some "192.0.2.*"%string) /\
  src_IPGlob_getstate (4, 3221225984) (4, 3221226239) (Some "192.0.2.*"%string) = (3221225984, 3221226239, 4).
Proof. repeat split; vm_compute; reflexivity. Qed.
