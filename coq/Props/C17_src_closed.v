(* Props/C17_src_closed.v -- the C17 source tie (Props/C17_src.v) with its hypotheses about iprange_to_cidrs DISCHARGED: for valid
   ordered IPv4 bounds the translated iprange_to_cidrs (equal to its model by C05_source_tie) returns the maximal aligned blocks
   of [lo, hi] (Proofs/Coherence_Cidrs.v, from the C05 theorems), which are IPv4 blocks inside the address space (to_cidrs_wf), and
   the instance src_to_cidrs of the glob model's parameter is the executable decomposition to_cidrs_exec that the correspondence
   commands and C17_to_globs_exec use.  Hence, with no hypothesis but well-formed arguments: src_iprange_to_globs = iprange_to_globs
   (0 <= start <= end < 2^32), src_cidr_to_glob = cidr_to_glob (any well-formed IPv4 or IPv6 network), src_IPGlob_set_glob /
   src_IPGlob_init = set_glob / ipglob_new (all texts), src_IPGlob_setstate = ipglob_setstate (start <= end).
   A separate obligation: it depends on the C05 / C09 source ties and proofs, Props/C17_src.v does not.
   Nothing but the statement closed by `exact`, followed by Print Assumptions. *)
From Coq Require Import String.
From NV Require Import Base.Tac Base.PyVal Base.PyStr Model.Ip Model.Glob Model.SrcPrelude Model.SrcPreludeGlob
  Gen.pysrc_iprange_gen Gen.pysrc_glob_gen Proofs.GenOk_Src_C17 Proofs.GenOk_Src_C17_closed.
Import ListNotations.
Open Scope Z_scope.

Theorem C17_source_tie_closed :
  to_cidrs_wf /\
  (forall lo hi, 0 <= lo <= hi -> hi < 2 ^ 32 -> src_to_cidrs lo hi = to_cidrs_exec lo hi) /\
  (forall s e, 0 <= s <= e -> e < 2 ^ 32 -> src_iprange_to_globs (4, s) (4, e) = iprange_to_globs src_to_cidrs (4, s) (4, e)) /\
  (forall ver v p, valid_ver ver = true -> 0 <= p <= width ver -> 0 <= v < 2 ^ width ver ->
     src_cidr_to_glob {| nver := ver; nval := v; nplen := p |} = cidr_to_glob src_to_cidrs ver v p) /\
  (forall s e g ipglob,
     src_IPGlob_set_glob s e g ipglob =
     match set_glob src_to_cidrs (obj_of s e g) ipglob with (o', None) => Ok (st_of o') | (_, Some ex) => Raise ex end) /\
  (forall ipglob, src_IPGlob_init ipglob = omap st_of (ipglob_new src_to_cidrs ipglob)) /\
  (forall s e ver, s <= e -> src_IPGlob_setstate (s, e, ver) = omap st_of (ipglob_setstate src_to_cidrs (s, e, ver))).
Proof. exact C17_tie_closed_ok. Qed.
Print Assumptions C17_source_tie_closed.

(* non-vacuity: the generated constructor and setter compute *)
Example C17_src_closed_nonvacuous :
  src_IPGlob_set_glob (4, 0) (4, 0) None "10.0.0-1.*" = Ok ((4, 167772160), (4, 167772671), Some "10.0.0-1.*"%string) /\
  src_IPGlob_set_glob (4, 0) (4, 0) None "10.0.0-1.5" = Raise AddrFormatError.
Proof. split; vm_compute; reflexivity. Qed.
