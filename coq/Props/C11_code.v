(* Props/C11_code.v — property C11, CODE-LEVEL: the theorems of Props/C11.v stated directly about the definitions that
   harness/gen/pysrc.py regenerates on every run from the CURRENT text of netaddr/ip/__init__.py:
     src_IPNetwork_subnet_start / src_IPNetwork_subnet_next    (Gen/pysrc_subnet_gen.v: the generator IPNetwork.subnet —
                                                                prologue and one resumption)
     src_IPNetwork_next, src_IPNetwork_previous, src_IPNetwork_iter_hosts           (Gen/pysrc_subnet_gen.v)
     src_IPNetwork_supernet (with its `while` loop), src_IPNetwork_iadd, src_IPNetwork_isub     (Gen/pysrc_gen.v)
   A source edit that changes one of them changes the generated term and these theorems stop compiling (with the ties
   C11_source_tie, C11_source_tie_subnet).  Generated methods take the state (ver, w, v, p) first; result objects are `net`
   records.  Vocabulary (Proofs/Code_C11.v):
     code_subnet_take ver v p q count fmt k = (count the generator runs to, its first k items), built from the generated
                                              prologue / resumption with the consumer py_gen_take
     code_net_iadd / code_net_isub ver n k   = the generated __iadd__ / __isub__ with the assigned value put back into (v, p);
                                               apply_inplace reads (receiver afterwards, exception)
     code_hosts_take ver v p k               = (number of hosts, first k hosts): the generated iter_hosts, then the range
                                               iterator it returns stepped by the model's generator.
   Hypotheses: those of Props/C11.v with w := width ver and, where objects are built through the version-checking
   constructor (supernet, next / previous, iter_hosts) or the tie needs it (__iadd__ / __isub__), version 4 or 6.
   The model theorems hold for any width w >= 0; the generated code exists for the two real families only.
   TIE HYPOTHESIS NOT IMPLIED by the model theorem's hypotheses: the supernet tie holds for prefixlen <= p <= width only
   (the generated loop assigns _prefixlen directly and says Unsupported where the model says ValueError), so
   C11_supernet_above (p < q <= w raises ValueError) and the q > w half of C11_supernet_invalid stay about the model;
   C11_supernet_invalid_of_source covers q < 0.
   Clauses still about the model: those two; the stepping of the IPRange iterator that iter_hosts returns
   (Subnet.iter_iprange / iprange_next inside code_hosts_take; the generated iter_iprange is tied to ListLike's copy in
   Props/C10_src_iter.v).  C11_subnet_tiles, C11_supernet_contains, C11_fits_def, C11_zseq mention no function of the code
   (arithmetic facts / vocabulary) and are not repeated.
   Nothing but statements closed by `exact`, each followed by Print Assumptions. *)
From NV Require Import Base.Tac Base.PyVal Base.Bits Model.Ip Model.Subnet Gen.pysrc_gen Gen.pysrc_subnet_gen
  Proofs.C11 Proofs.Code_C11.
Import ListNotations.
Open Scope Z_scope.

(* subnet(q, count) for p <= q <= w: the i-th block produced is {first N + i*2^(w-q); q} for 0 <= i < count (count
   defaulting to 2^(q-p)), the generator stops after exactly `count` blocks; ValueError iff count is outside [1, 2^(q-p)] *)
Theorem C11_subnet_of_source : forall ver v p q count fmt, 0 <= p <= q -> q <= width ver -> 0 <= v < 2 ^ width ver ->
  let w := width ver in
  let M := 2 ^ (q - p) in
  let c := match count with None => M | Some c => c end in
  (1 <= c <= M -> forall k,
     code_subnet_take ver v p q count fmt k =
       Ok (c, map (fun i => {| nver := ver; nval := floor2 v (w - p) + i * 2 ^ (w - q); nplen := q |})
                  (zseq 0 (Nat.min k (Z.to_nat c)))))
  /\ (~ (1 <= c <= M) -> forall k, code_subnet_take ver v p q count fmt k = Raise ValueError).
Proof. exact code_subnet_take_spec. Qed.
Print Assumptions C11_subnet_of_source.

Theorem C11_subnet_below_of_source : forall ver v p q count fmt k, 0 <= p <= width ver -> q < p ->
  code_subnet_take ver v p q count fmt k = Ok (0, []).
Proof. exact code_subnet_take_below. Qed.
Print Assumptions C11_subnet_below_of_source.

(* supernet(q) for q <= p: the list [{first N masked to r; r} | r = q..p-1], outermost first *)
Theorem C11_supernet_of_source : forall ver v p q, valid_ver ver = true -> 0 <= q <= p -> p <= width ver ->
  0 <= v < 2 ^ width ver ->
  src_IPNetwork_supernet ver (width ver) v p q =
    Ok (map (fun r => {| nver := ver; nval := floor2 v (width ver - r); nplen := r |}) (zseq q (Z.to_nat (p - q)))).
Proof. exact code_supernet_spec. Qed.
Print Assumptions C11_supernet_of_source.

(* a negative prefix length raises ValueError *)
Theorem C11_supernet_invalid_of_source : forall ver v p q, valid_ver ver = true -> q < 0 -> q <= p -> p <= width ver ->
  src_IPNetwork_supernet ver (width ver) v p q = Raise ValueError.
Proof. exact code_supernet_negative. Qed.
Print Assumptions C11_supernet_invalid_of_source.

Theorem C11_supernet_terminates_of_source : forall ver v p q, valid_ver ver = true -> 0 <= p <= width ver ->
  0 <= v < 2 ^ width ver -> q <= p -> src_IPNetwork_supernet ver (width ver) v p q <> Raise OutOfFuel.
Proof. exact code_supernet_no_fuel. Qed.
Print Assumptions C11_supernet_terminates_of_source.

(* N += k / N.next(k) give {first N + k*size; p}, N -= k / N.previous(k) give {first N - k*size; p} exactly when that
   whole block lies in [0, 2^w); otherwise IndexError and, for the in-place forms, the receiver is as it was *)
Theorem C11_step_of_source : forall ver v p k, valid_ver ver = true -> 0 <= p <= width ver -> 0 <= v < 2 ^ width ver ->
  let w := width ver in
  let F := floor2 v (w - p) in
  let T := 2 ^ (w - p) in
  let up := F + k * T in
  let down := F - k * T in
  (T | up) /\ (T | down) /\
  (fits w p up ->
     apply_inplace (fun n => code_net_iadd ver n k) (v, p) = ((up, p), None) /\
     src_IPNetwork_next ver w v p k = Ok {| nver := ver; nval := up; nplen := p |}) /\
  (~ fits w p up ->
     apply_inplace (fun n => code_net_iadd ver n k) (v, p) = ((v, p), Some IndexError) /\
     src_IPNetwork_next ver w v p k = Raise IndexError) /\
  (fits w p down ->
     apply_inplace (fun n => code_net_isub ver n k) (v, p) = ((down, p), None) /\
     src_IPNetwork_previous ver w v p k = Ok {| nver := ver; nval := down; nplen := p |}) /\
  (~ fits w p down ->
     apply_inplace (fun n => code_net_isub ver n k) (v, p) = ((v, p), Some IndexError) /\
     src_IPNetwork_previous ver w v p k = Raise IndexError).
Proof. exact code_step_spec. Qed.
Print Assumptions C11_step_of_source.

(* iter_hosts: first+1..last-1 for IPv4 blocks of >= 4 addresses, every address of IPv4 /31 and /32, first+1..last for
   IPv6, nothing for /128 *)
Theorem C11_hosts_of_source : forall ver v p, valid_ver ver = true -> 0 <= p <= width ver -> 0 <= v < 2 ^ width ver ->
  let w := width ver in
  let F := floor2 v (w - p) in
  let L := F + 2 ^ (w - p) - 1 in
  let yields (lo hi : Z) := forall k, code_hosts_take ver v p k =
        Ok (hi - lo + 1, map (fun i => (ver, i)) (zseq lo (Nat.min k (Z.to_nat (hi - lo + 1))))) in
  (ver = 4 -> p <= 30 -> yields (F + 1) (L - 1)) /\
  (ver = 4 -> 31 <= p -> yields F L) /\
  (ver = 6 -> p <= 127 -> yields (F + 1) L) /\
  (ver = 6 -> p = 128 -> forall k, code_hosts_take ver v p k = Ok (0, [])).
Proof. exact code_hosts_cases. Qed.
Print Assumptions C11_hosts_of_source.

(* non-vacuity: 192.168.1.1/24 split into /26 blocks, its supernets down to /22, one step up, its hosts — computed by the
   generated definitions *)
Example C11_code_nonvacuous :
  code_subnet_take 4 3232235777 24 26 None None 10 =
    Ok (4, [ {| nver := 4; nval := 3232235776; nplen := 26 |}; {| nver := 4; nval := 3232235840; nplen := 26 |};
             {| nver := 4; nval := 3232235904; nplen := 26 |}; {| nver := 4; nval := 3232235968; nplen := 26 |} ]) /\
  src_IPNetwork_supernet 4 32 3232235777 24 22 =
    Ok [ {| nver := 4; nval := 3232235520; nplen := 22 |}; {| nver := 4; nval := 3232235520; nplen := 23 |} ] /\
  src_IPNetwork_next 4 32 3232235777 24 1 = Ok {| nver := 4; nval := 3232236032; nplen := 24 |} /\
  code_hosts_take 4 3232235777 30 5 = Ok (2, [(4, 3232235777); (4, 3232235778)]).
Proof. repeat split; vm_compute; reflexivity. Qed.
