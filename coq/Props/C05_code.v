(* Props/C05_code.v — property C05, CODE-LEVEL: the theorems of Props/C05.v stated directly about the definitions that
   harness/gen/pysrc.py regenerates on every run from the CURRENT text of netaddr/ip/__init__.py:
     src_iprange_to_cidrs                        (Gen/pysrc_iprange_gen.v: iprange_to_cidrs, which calls the regenerated
                                                  spanning_cidr and cidr_partition)
     src_cidr_merge, src_IPRange_cidrs           (Gen/pysrc_merge_gen.v: cidr_merge as written, IPRange.cidrs)
     src_IPNetwork_first, src_IPNetwork_last     (Gen/pysrc_gen.v, through code_first / code_last)
   A source edit that changes one of them changes the generated term and these theorems stop compiling (with the ties
   C05_source_tie, C05_source_tie_merge).
   Vocabulary (Proofs/NetDen.v, unchanged): wf_net, wf_mitem (a well-formed network or a range 0 <= s <= e < 2^width of
   version 4/6), den / den_items (denotation), canon_nets (canonical list), fam.  It is built on nf / nl = first / last of an
   object, which ARE the generated first / last: C05_vocabulary_of_source (by conversion).
   Hypotheses: exactly those of Props/C05.v.  The ties' hypotheses (valid version of `start`; well-formed items) are implied
   by them; nothing extra is assumed.
   Clauses still about the model: inside cidr_merge the call `ranges.sort()` is the prelude symbol py_sort_ranges
   (= Merge.rt_sort, the hand model of list.sort on the range tuples); everything else the property goes through is
   translated.  C05_canon_unique / C05_canon_minimal of Props/C05.v mention no function of the code (facts about the
   vocabulary) and are not repeated.
   Nothing but statements closed by `exact`, each followed by Print Assumptions. *)
From NV Require Import Base.Tac Base.PyVal Base.Canon Model.Ip Model.Span Model.Merge Model.Sets Model.SrcPrelude
  Gen.pysrc_gen Gen.pysrc_iprange_gen Gen.pysrc_merge_gen Proofs.C02 Proofs.NetDen Proofs.Code_C09 Proofs.Code_C05.
From Coq Require Import Sorting.Permutation.
Import ListNotations.
Open Scope Z_scope.

(* the first / last on which the denotation vocabulary is built are the generated ones *)
Theorem C05_vocabulary_of_source : forall n ver x,
  nf n = code_first n /\ nl n = code_last n /\
  (in_net n ver x <-> nver n = ver /\ code_first n <= x <= code_last n) /\
  (hostfree n <-> nval n = code_first n) /\
  net_blk n = {| bv := code_first n; bp := nplen n |} /\
  (forall z, mi_first (MNet n) = code_first n /\ mi_last (MNet n) = code_last n /\
             mi_first (MRange ver x z) = x /\ mi_last (MRange ver x z) = z).
Proof. exact code_vocabulary. Qed.
Print Assumptions C05_vocabulary_of_source.

(* iprange_to_cidrs(start, end), start.first <= end.last, one family: the canonical list of exactly [start.first, end.last] *)
Theorem C05_iprange_to_cidrs_of_source : forall s e, wf_net s -> wf_net e -> nver s = nver e -> code_first s <= code_last e ->
  exists l, src_iprange_to_cidrs s e = Ok l /\ canon_nets l /\
    forall ver x, den l ver x <-> (ver = nver s /\ code_first s <= x <= code_last e).
Proof. exact code_range. Qed.
Print Assumptions C05_iprange_to_cidrs_of_source.

(* address endpoints; IPRange(lo, hi).cidrs() returns the same list *)
Theorem C05_iprange_addresses_of_source : forall ver lo hi, valid_ver ver = true -> 0 <= lo <= hi -> hi < 2 ^ width ver ->
  exists l, src_iprange_to_cidrs (addr_net ver lo) (addr_net ver hi) = Ok l /\
    src_IPRange_cidrs ver (width ver) lo hi = Ok l /\ canon_nets l /\
    forall v x, den l v x <-> v = ver /\ lo <= x <= hi.
Proof. exact code_range_addrs. Qed.
Print Assumptions C05_iprange_addresses_of_source.

(* cidr_merge of any finite list of well-formed inputs: the canonical list of exactly the union *)
Theorem C05_cidr_merge_of_source : forall items, Forall wf_mitem items ->
  exists l, src_cidr_merge items = Ok l /\ canon_nets l /\ forall ver x, den l ver x <-> den_items items ver x.
Proof. exact code_merge. Qed.
Print Assumptions C05_cidr_merge_of_source.

Theorem C05_merge_unique_of_source : forall items l l', Forall wf_mitem items -> src_cidr_merge items = Ok l ->
  canon_nets l' -> (forall ver x, den l' ver x <-> den_items items ver x) -> l' = l.
Proof. exact code_merge_unique. Qed.
Print Assumptions C05_merge_unique_of_source.

Theorem C05_merge_minimal_of_source : forall items l l', Forall wf_mitem items -> src_cidr_merge items = Ok l ->
  Forall wf_net l' -> (forall ver x, den l' ver x <-> den_items items ver x) ->
  (length (fam 4 l) <= length (fam 4 l'))%nat /\ (length (fam 6 l) <= length (fam 6 l'))%nat /\
  (length l <= length l')%nat.
Proof. exact code_merge_minimal. Qed.
Print Assumptions C05_merge_minimal_of_source.

Theorem C05_iprange_unique_of_source : forall s e l l', wf_net s -> wf_net e -> nver s = nver e ->
  code_first s <= code_last e -> src_iprange_to_cidrs s e = Ok l ->
  canon_nets l' -> (forall ver x, den l' ver x <-> (ver = nver s /\ code_first s <= x <= code_last e)) -> l' = l.
Proof. exact code_range_unique. Qed.
Print Assumptions C05_iprange_unique_of_source.

Theorem C05_iprange_minimal_of_source : forall s e l l', wf_net s -> wf_net e -> nver s = nver e ->
  code_first s <= code_last e -> src_iprange_to_cidrs s e = Ok l ->
  Forall wf_net l' -> (forall ver x, den l' ver x <-> (ver = nver s /\ code_first s <= x <= code_last e)) ->
  (length l <= length l')%nat.
Proof. exact code_range_minimal. Qed.
Print Assumptions C05_iprange_minimal_of_source.

(* the result depends only on the set of addresses of the inputs: not on their order ... *)
Theorem C05_order_free_of_source : forall xs ys, Forall wf_mitem xs -> Permutation xs ys ->
  src_cidr_merge xs = src_cidr_merge ys.
Proof. exact code_merge_perm. Qed.
Print Assumptions C05_order_free_of_source.

(* ... nor on repetition ... *)
Theorem C05_repetition_free_of_source : forall xs ys, Forall wf_mitem xs -> (forall m, In m xs <-> In m ys) ->
  src_cidr_merge xs = src_cidr_merge ys.
Proof. exact code_merge_dup. Qed.
Print Assumptions C05_repetition_free_of_source.

(* ... nor on how the same addresses are presented *)
Theorem C05_denotation_only_of_source : forall xs ys, Forall wf_mitem xs -> Forall wf_mitem ys ->
  (forall ver x, den_items xs ver x <-> den_items ys ver x) -> src_cidr_merge xs = src_cidr_merge ys.
Proof. exact code_merge_ext. Qed.
Print Assumptions C05_denotation_only_of_source.

(* merging the result again changes nothing (every canonical list is a fixed point) *)
Theorem C05_merge_idempotent_of_source : forall items l, Forall wf_mitem items -> src_cidr_merge items = Ok l ->
  src_cidr_merge (map MNet l) = Ok l.
Proof. exact code_merge_idempotent. Qed.
Print Assumptions C05_merge_idempotent_of_source.

Theorem C05_canonical_fixpoint_of_source : forall l, canon_nets l -> src_cidr_merge (map MNet l) = Ok l.
Proof. exact code_merge_fixpoint. Qed.
Print Assumptions C05_canonical_fixpoint_of_source.

(* a single range through cidr_merge and through iprange_to_cidrs give the same list *)
Theorem C05_merge_range_agree_of_source : forall ver lo hi, valid_ver ver = true -> 0 <= lo <= hi -> hi < 2 ^ width ver ->
  src_cidr_merge [MRange ver lo hi] = src_iprange_to_cidrs (addr_net ver lo) (addr_net ver hi).
Proof. exact code_merge_one_range. Qed.
Print Assumptions C05_merge_range_agree_of_source.

(* non-vacuity: the items of C05_nonvacuous meet the hypotheses and the generated definitions compute the results *)
Example C05_code_nonvacuous :
  let items := [ MNet {| nver := 6; nval := 1; nplen := 127 |};
                 MNet {| nver := 4; nval := 167772417 + 127; nplen := 32 |};
                 MRange 4 167772416 (167772416 + 127);
                 MNet {| nver := 4; nval := 167772161; nplen := 24 |} ] in
  Forall wf_mitem items /\
  src_cidr_merge items = Ok [ {| nver := 4; nval := 167772160; nplen := 24 |}; {| nver := 4; nval := 167772416; nplen := 25 |};
                              {| nver := 4; nval := 167772544; nplen := 32 |}; {| nver := 6; nval := 0; nplen := 127 |} ] /\
  src_iprange_to_cidrs {| nver := 4; nval := 167772161; nplen := 32 |} {| nver := 4; nval := 167772164; nplen := 32 |}
    = Ok [ {| nver := 4; nval := 167772161; nplen := 32 |}; {| nver := 4; nval := 167772162; nplen := 31 |};
           {| nver := 4; nval := 167772164; nplen := 32 |} ].
Proof.
  cbn zeta. split; [|split].
  - repeat constructor; cbn; lia.
  - vm_compute. reflexivity.
  - vm_compute. reflexivity.
Qed.
