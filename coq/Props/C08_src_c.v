(* Props/C08_src_c.v — source tie for C08, third part (tag SRCF): text and dialect handling.  The Gallina definitions that
   harness/gen/pysrc.py regenerates on every run from the CURRENT text of int_to_str of netaddr/strategy/eui48.py, eui64.py
   (coq/Gen/pysrc_eui48b_gen.v, pysrc_eui64b_gen.v; with the records of the dialect classes mac_eui48 / eui64_base read from
   their class bodies) and of EUI._validate_dialect, _set_dialect, _get_dialect (property `dialect`), format, __str__,
   __getstate__ of netaddr/eui/__init__.py (coq/Gen/pysrc_euib_gen.v) are equal to Model/Eui.v int_to_str, validate_dialect,
   eui_set_dialect, eui_format, eui_str (the functions the theorems of Props/C08.v are about); __getstate__ is the triple
   (value, version, dialect).
   Reading: `[dialect.word_fmt % i for i in words]` = py_map_o (py_fmt_int fmt) = Eui.map_outcome (apply_fmt fmt), `sep.join` =
   PyStr.join; the argument of _validate_dialect is a Model/Eui.v darg (None | a class with word_size and word_fmt, seen as its
   record | any other object); _set_dialect answers the new dialect.
   Hypotheses: wf_dial = 0 <= word_size /\ 0 <= num_words for an explicitly given dialect (the translated
   netaddr.strategy.int_to_words guards 2 ** e, as in C08_source_tie); wf_ver = version 48 or 64 where the method goes through
   self._module; none for _validate_dialect, _set_dialect, dialect, __getstate__.
   Nothing but the statement closed by `exact`, followed by Print Assumptions. *)
From Coq Require Import String Ascii.
From NV Require Import Base.Tac Base.PyVal Base.PyStr Model.Ip Model.Eui Model.SrcPrelude Model.SrcPreludeStr
  Model.SrcPreludeEui Model.SrcPreludeEui2
  Gen.pysrc_strategy_gen Gen.pysrc_eui48_gen Gen.pysrc_eui64_gen Gen.pysrc_eui_gen
  Gen.pysrc_eui48b_gen Gen.pysrc_eui64b_gen Gen.pysrc_euib_gen Proofs.GenOk_Src_C08_b Proofs.GenOk_Src_C08_c.
Import ListNotations.
Open Scope Z_scope.

Theorem C08_source_tie_c :
  (src_eui48_mac_eui48_rec = mac_eui48 /\ src_eui64_eui64_base_rec = eui64_base) /\
  (forall v d, wf_dial d -> src_eui48_int_to_str v (Some d) = Eui.int_to_str v d /\ src_eui64_int_to_str v (Some d) = Eui.int_to_str v d) /\
  (forall v, src_eui48_int_to_str v None = Eui.int_to_str v (default_dialect 48) /\
             src_eui64_int_to_str v None = Eui.int_to_str v (default_dialect 64)) /\
  (forall ver v d a, let e := {| ever := ver; evalue := v; edialect := d |} in
     src_EUI_validate_dialect ver v a = validate_dialect ver a /\
     omap (fun dd => {| ever := ver; evalue := v; edialect := dd |}) (src_EUI_set_dialect ver v a) = eui_set_dialect e a /\
     src_EUI_dialect ver v d = edialect e /\ src_EUI_getstate ver v d = (evalue e, ever e, edialect e) /\
     (wf_ver ver -> wf_dial d -> src_EUI_str ver v d = eui_str e) /\
     (wf_ver ver -> (forall r, a = DRec r -> wf_dial r) -> src_EUI_format ver v a = eui_format e a)).
Proof. exact C08_tie_c_ok. Qed.
Print Assumptions C08_source_tie_c.

(* the generated definitions compute: str(EUI('00-1B-77-49-54-FD')) in three dialects; a dialect without word_fmt is refused *)
Example C08_src_c_nonvacuous :
  src_EUI_str 48 117965411581 mac_eui48 = Ok "00-1B-77-49-54-FD"%string /\
  src_EUI_format 48 117965411581 (DRec mac_cisco) = Ok "001b.7749.54fd"%string /\
  src_EUI_format 48 117965411581 (DRec mac_unix) = Ok "0:1b:77:49:54:fd"%string /\
  src_EUI_format 64 1 DNone = Ok "00-00-00-00-00-00-00-01"%string /\
  src_EUI_set_dialect 48 0 DBad = Raise TypeError.
Proof. repeat split; vm_compute; reflexivity. Qed.
