(* Props/C06_bulk.v — property C06, part A: the stored dict of an IPSet as a Python dict, the order-free invariant
   SetInv, what iter_cidrs/repr/iteration show, extensional equality, the bulk constructors and mutators, and the
   history theorem.  Nothing but statements closed by `exact`, each followed by Print Assumptions.
   Vocabulary (Proofs/NetDen.v, Proofs/C06_inv.v, Proofs/C06_bulk.v): wfh = well formed and host-bit-free;
   in_net n ver x = address (ver, x) lies in n; den l = union of in_net over l; canon_nets l = every family of l is
   canonical in the sense of Base/Canon.v (aligned, strictly ascending, disjoint, sibling-free), IPv4 first;
   SetInv d = keys wfh, pairwise non-overlapping, no two siblings (no order); net_below a b = a's family is lower, or
   same family and a ends before b starts; skey_le = lexicographic <= on IPNetwork.sort_key().
   The C05 specifications iprange_to_cidrs_spec / cidr_merge_spec and add_spec / remove_spec are discharged in
   Proofs/C06_inst.v (from Proofs/C05.v and Proofs/C06_add.v); inter_spec, diff_spec, xor_spec (Proofs/C06_inv.v:
   `set_intersection/difference/symdiff a b` of SetInv operands return a SetInv dict denoting the set-theoretic result)
   are the only hypotheses left, in the three all-operation history theorems of section 8(b). *)
From NV Require Import Base.Tac Base.PyVal Base.Bits Base.Canon Model.Ip Model.Partition Model.Span Model.Merge Model.Sets
  Proofs.C02 Proofs.NetDen Proofs.C06_inv Proofs.C06_bulk Proofs.C06_inst.
From Coq Require Import Sorting.Sorted Sorting.Permutation.
From NV Require Import Extract.Cmd_Sets.
Open Scope Z_scope.

(* ---------------------------------------------------------------- 1. the dict *)
(* single-key operations.  IPNetwork.__eq__/__hash__ use (version, first, last): on host-bit-free well-formed keys this
   is object identity, and key-equal objects denote the same addresses whatever their host bits; `k in d`;
   d[k] = True (an equal key keeps the old key object, a new key is appended); del d[k] (removes the first = only key
   equal to k, keeps the order of the others; KeyError when absent) *)
Theorem C06_dict_ops :
  (forall a b, wfh a -> wfh b -> (key_eqb a b = true <-> a = b)) /\
  (forall a b ver x, key_eqb a b = true -> (in_net a ver x <-> in_net b ver x)) /\
  (forall k d, dmem k d = true <-> exists k', In k' d /\ key_eqb k k' = true) /\
  (forall x d k, In x (dset d k) <-> In x d \/ (x = k /\ dmem k d = false)) /\
  (forall d k ver x, den (dset d k) ver x <-> den d ver x \/ in_net k ver x) /\
  (forall k d, dmem k d = true ->
     exists d1 k' d2, d = d1 ++ k' :: d2 /\ key_eqb k k' = true /\ dmem k d1 = false /\ ddel d k = Ok (d1 ++ d2)) /\
  (forall k d, dmem k d = false -> ddel d k = Raise KeyError).
Proof.
  exact (conj wfh_key_eqb_iff (conj key_eqb_in_net (conj dmem_iff (conj in_dset (conj den_dset (conj ddel_split ddel_raise)))))).
Qed.
Print Assumptions C06_dict_ops.

(* d.update(other) / dict.fromkeys(l) / dict == dict (on duplicate-free host-bit-free key lists: same keys, any order) *)
Theorem C06_dict_bulk :
  (forall l d ver x, den (dupdate d l) ver x <-> den d ver x \/ den l ver x) /\
  (forall l d x, dmem x (dupdate d l) = true <-> dmem x d = true \/ dmem x l = true) /\
  (forall l d x, Forall wfh d -> Forall wfh l -> (In x (dupdate d l) <-> In x d \/ In x l)) /\
  (forall l d, Forall wfh d -> Forall wfh l -> NoDup d -> NoDup (dupdate d l)) /\
  (forall l d, Forall wfh (d ++ l) -> NoDup (d ++ l) -> dupdate d l = d ++ l) /\
  (forall l, Forall wfh l -> NoDup l -> dfromkeys l = l) /\
  (forall l ver x, den (dfromkeys l) ver x <-> den l ver x) /\
  (forall l x, dmem x (dfromkeys l) = dmem x l) /\
  (forall a b, Forall wfh a -> Forall wfh b -> NoDup a -> NoDup b -> (dict_eqb a b = true <-> Permutation a b)).
Proof.
  exact (conj den_dupdate (conj dmem_dupdate (conj in_dupdate_wfh (conj NoDup_dupdate (conj dupdate_fresh
        (conj dfromkeys_id (conj den_dfromkeys (conj dmem_dfromkeys dict_eqb_iff)))))))).
Qed.
Print Assumptions C06_dict_bulk.

(* ---------------------------------------------------------------- 2. sorted() *)
(* a permutation of the input, ascending by sort_key; on a valid stored state strictly ascending by (version, first),
   each block ending before the next starts *)
Theorem C06_sorted :
  (forall l, Permutation (sorted l) l) /\
  (forall l, StronglySorted skey_le (sorted l)) /\
  (forall d, SetInv d -> StronglySorted net_below (sorted d)).
Proof. exact (conj sorted_perm (conj sorted_SS SetInv_sorted_below)). Qed.
Print Assumptions C06_sorted.

(* ---------------------------------------------------------------- 3./4. invariant <-> canonical list *)
Theorem C06_inv_order_free : forall d d', Permutation d d' -> SetInv d -> SetInv d'.
Proof. exact SetInv_perm. Qed.
Print Assumptions C06_inv_order_free.

Theorem C06_inv_alt : forall d, SetInv d <->
  Forall wfh d /\ NoDup d /\ (forall a b, In a d -> In b d -> a <> b -> ~ overlap a b) /\
  (forall a b, In a d -> In b d -> ~ siblings a b).
Proof. exact SetInv_alt. Qed.
Print Assumptions C06_inv_alt.

Theorem C06_canon_nets_iff : forall l, canon_nets l <->
  Forall wfh l /\ StronglySorted net_below l /\ (forall a b, In a l -> In b l -> ~ siblings a b).
Proof. exact canon_nets_iff. Qed.
Print Assumptions C06_canon_nets_iff.

Theorem C06_canon_inv : forall l, canon_nets l -> SetInv l /\ dfromkeys l = l /\ SetInv (dfromkeys l).
Proof. exact (fun l C => conj (canon_nets_SetInv l C) (conj (dfromkeys_canon l C) (SetInv_dfromkeys l C))). Qed.
Print Assumptions C06_canon_inv.

(* a set of addresses of both families has at most one canonical list *)
Theorem C06_canon_unique : forall l1 l2, canon_nets l1 -> canon_nets l2 ->
  (forall ver x, den l1 ver x <-> den l2 ver x) -> l1 = l2.
Proof. exact canon_nets_unique. Qed.
Print Assumptions C06_canon_unique.

(* iter_cidrs() / repr() / iteration expose sorted(self._cidrs) *)
Theorem C06_shown : forall d, SetInv d ->
  canon_nets (sorted d) /\ forall ver x, den (sorted d) ver x <-> den d ver x.
Proof. exact C06_inv.C06_shown. Qed.
Print Assumptions C06_shown.

Theorem C06_shown_unique : forall d l, SetInv d -> canon_nets l ->
  (forall ver x, den l ver x <-> den d ver x) -> sorted d = l.
Proof. exact C06_inv.C06_shown_unique. Qed.
Print Assumptions C06_shown_unique.

(* minimal: no list of well-formed networks (host bits or not, in any order) with the same addresses is shorter *)
Theorem C06_shown_minimal : forall d l', SetInv d -> Forall wf_net l' ->
  (forall ver x, den l' ver x <-> den d ver x) -> (length (sorted d) <= length l')%nat.
Proof. exact C06_inv.C06_shown_minimal. Qed.
Print Assumptions C06_shown_minimal.

(* ---------------------------------------------------------------- 5. == is extensional *)
Theorem C06_extensional : forall a b, SetInv a -> SetInv b ->
  (dict_eqb a b = true <-> forall ver x, den a ver x <-> den b ver x).
Proof. exact C06_inv.C06_extensional. Qed.
Print Assumptions C06_extensional.

(* ---------------------------------------------------------------- 6. bulk constructors and mutators *)
(* (the specifications of iprange_to_cidrs / cidr_merge / add / remove are discharged in Proofs/C06_inst.v by
   Proofs/C05 and Proofs/C06_add.v; the hypothetical forms stay available in Proofs/C06_bulk.v) *)
(* IPSet(None | IPNetwork | IPRange/IPGlob | IPSet | iterable of ints, addresses, networks, ranges) *)
Theorem C06_init : forall a, wf_sarg a ->
  exists d, set_init a = Ok d /\ SetInv d /\ forall ver x, den d ver x <-> in_sarg a ver x.
Proof. exact C06_init_inst. Qed.
Print Assumptions C06_init.

(* compact(): whatever well-formed networks are stored, the result is the canonical list of their union *)
Theorem C06_compact : forall d, Forall wf_net d ->
  exists d', set_compact d = Ok d' /\ SetInv d' /\ canon_nets d' /\ forall ver x, den d' ver x <-> den d ver x.
Proof. exact C06_compact_inst. Qed.
Print Assumptions C06_compact.

(* update(IPSet | IPNetwork | IPRange | iterable); update(None) raises TypeError *)
Theorem C06_update : forall d a, SetInv d -> wf_sarg a -> a <> ANone ->
  exists d', set_update d a = Ok d' /\ SetInv d' /\ forall ver x, den d' ver x <-> den d ver x \/ in_sarg a ver x.
Proof. exact C06_update_inst. Qed.
Print Assumptions C06_update.

Theorem C06_update_none : forall d, set_update d ANone = Raise TypeError.
Proof. exact update_none. Qed.
Print Assumptions C06_update_none.

Theorem C06_union : forall a b, SetInv a -> SetInv b ->
  exists d, set_union a b = Ok d /\ SetInv d /\ forall ver x, den d ver x <-> den a ver x \/ den b ver x.
Proof. exact C06_union_inst. Qed.
Print Assumptions C06_union.

Theorem C06_copy : forall d, SetInv d ->
  dupdate [] d = d /\ SetInv (dupdate [] d) /\ forall ver x, den (dupdate [] d) ver x <-> den d ver x.
Proof. exact C06_bulk.C06_copy. Qed.
Print Assumptions C06_copy.

Theorem C06_clear : SetInv [] /\ forall ver x, ~ den [] ver x.
Proof. exact C06_bulk.C06_clear. Qed.
Print Assumptions C06_clear.

(* add(IPRange | IPGlob), the bulk branch of add(); update(IPRange) is the same call *)
Theorem C06_add_range : forall d ver s e, Forall wf_net d -> valid_ver ver = true -> 0 <= s <= e -> e < 2 ^ width ver ->
  exists d', set_add d (ERange ver s e) = Ok d' /\ SetInv d' /\ canon_nets d' /\
    forall ver' x, den d' ver' x <-> den d ver' x \/ (ver' = ver /\ s <= x <= e).
Proof. exact C06_add_range_inst. Qed.
Print Assumptions C06_add_range.

(* pop(): KeyError exactly on the empty set; otherwise the last inserted key is removed and returned *)
Theorem C06_pop : forall d, SetInv d ->
  match set_pop d with
  | Ok (d', k) => In k d /\ SetInv d' /\ forall ver x, den d' ver x <-> den d ver x /\ ~ in_net k ver x
  | Raise e => e = KeyError /\ d = []
  end.
Proof. exact C06_bulk.C06_pop. Qed.
Print Assumptions C06_pop.

(* pickle round trip: the same stored dict, key for key *)
Theorem C06_pickle : forall d, SetInv d ->
  exists d', set_setstate (set_getstate d) = Ok d' /\ d' = d /\ SetInv d' /\ forall ver x, den d' ver x <-> den d ver x.
Proof. exact C06_bulk.C06_pickle. Qed.
Print Assumptions C06_pickle.

(* ---------------------------------------------------------------- 8. histories *)
(* the typed machine is the extracted register machine of Extract/Cmd_Sets.v *)
Theorem C06_step_enc : forall rs o, fst (step rs (enc_op o)) = ostep rs o.
Proof. exact step_enc. Qed.
Print Assumptions C06_step_enc.

Theorem C06_steps_enc : forall ops rs,
  fold_left (fun rs o => fst (step rs o)) (map enc_op ops) rs = fold_left ostep ops rs.
Proof. exact steps_enc. Qed.
Print Assumptions C06_steps_enc.

(* (a) histories of init/add/remove/update/clear/compact/copy/pickle/pop/union (sweep_free: no & - ^): unconditional *)
Theorem C06_step_core : forall rs s o, sweep_free o -> Rel rs s -> wf_op o ->
  exists s', astep s o s' /\ Rel (ostep rs o) s'.
Proof. exact C06_step_core_inst. Qed.
Print Assumptions C06_step_core.

Theorem C06_reachable_core : forall ops rs s, Rel rs s -> Forall wf_op ops -> Forall sweep_free ops ->
  exists s', aruns s ops s' /\ Rel (fold_left ostep ops rs) s'.
Proof. exact C06_reachable_core_inst. Qed.
Print Assumptions C06_reachable_core.

(* from the four empty registers: after ANY such history every register satisfies the invariant, shows the canonical
   list of the set the abstract run assigns to it, and == between registers is equality of those sets *)
Theorem C06_reachable_shown_core : forall ops, Forall wf_op ops -> Forall sweep_free ops ->
  exists s', aruns aregs0 ops s' /\
    let rs := fold_left ostep ops regs0 in
    (forall r, SetInv (get rs r) /\ canon_nets (sorted (get rs r)) /\
               forall ver x, den (sorted (get rs r)) ver x <-> aget s' r ver x) /\
    (forall r1 r2, dict_eqb (get rs r1) (get rs r2) = true <-> forall ver x, aget s' r1 ver x <-> aget s' r2 ver x).
Proof. exact C06_reachable_shown_core_inst. Qed.
Print Assumptions C06_reachable_shown_core.

(* (b) all thirteen operations: the specifications of & - ^ (C07 sweeps) are the only remaining hypotheses *)
Theorem C06_step : inter_spec -> diff_spec -> xor_spec ->
  forall rs s o, Rel rs s -> wf_op o -> exists s', astep s o s' /\ Rel (ostep rs o) s'.
Proof. exact C06_step_inst. Qed.
Print Assumptions C06_step.

Theorem C06_reachable : inter_spec -> diff_spec -> xor_spec ->
  forall ops rs s, Rel rs s -> Forall wf_op ops ->
  exists s', aruns s ops s' /\ Rel (fold_left ostep ops rs) s'.
Proof. exact C06_reachable_inst. Qed.
Print Assumptions C06_reachable.

Theorem C06_reachable_shown : inter_spec -> diff_spec -> xor_spec ->
  forall ops, Forall wf_op ops ->
  exists s', aruns aregs0 ops s' /\
    let rs := fold_left ostep ops regs0 in
    (forall r, SetInv (get rs r) /\ canon_nets (sorted (get rs r)) /\
               forall ver x, den (sorted (get rs r)) ver x <-> aget s' r ver x) /\
    (forall r1 r2, dict_eqb (get rs r1) (get rs r2) = true <-> forall ver x, aget s' r1 ver x <-> aget s' r2 ver x).
Proof. exact C06_reachable_shown_inst. Qed.
Print Assumptions C06_reachable_shown.

(* ---------------------------------------------------------------- non-vacuity *)
(* 10.0.0.0/24, 10.0.2.0/23, ::1/128 in this insertion order is a valid stored state; its shown form is the same list *)
Example C06_inv_example :
  let d := [ {| nver := 4; nval := 167772160; nplen := 24 |};
             {| nver := 6; nval := 1; nplen := 128 |};
             {| nver := 4; nval := 167772672; nplen := 23 |} ] in
  SetInv d /\
  sorted d = [ {| nver := 4; nval := 167772160; nplen := 24 |};
               {| nver := 4; nval := 167772672; nplen := 23 |};
               {| nver := 6; nval := 1; nplen := 128 |} ].
Proof. split; [apply setinvb_sound; vm_compute; reflexivity|vm_compute; reflexivity]. Qed.
Print Assumptions C06_inv_example.

(* a concrete 14-step mixed-family history over all four registers (iterable with host bits / range / int / address,
   add, remove, range constructor, update with a set, | & - ^, pop, pickle, compact, copy, add int): every op is
   well-formed and every register of the final state satisfies the invariant — by evaluating the model *)
Definition example_ops : list op :=
  let N v a p := {| nver := v; nval := a; nplen := p |} in
  [ OInit 0 (TIter [ENet (N 4 167772161 24); ERange 4 167772416 167772671; EInt (2 ^ 32 + 5); EAddr 6 1]);
    OAdd 0 (ENet (N 4 167772672 23));
    ORemove 0 (EAddr 4 167772237);
    OInit 1 (TRange 6 0 1000);
    OUpdate 1 (TSet 0);
    OUnion 2 0 1;
    OInter 3 0 1;
    ODiff 2 1 0;
    OXor 3 1 0;
    OPop 1;
    OPickle 1;
    OCompact 0;
    OCopy 3 0;
    OAdd 3 (EInt 7) ].
Example C06_history_example :
  Forall wf_op example_ops /\ Forall SetInv (fold_left ostep example_ops regs0) /\
  map (@List.length net) (fold_left ostep example_ops regs0) = [12; 17; 15; 13]%nat.
Proof.
  split; [|split].
  - unfold example_ops. repeat constructor; try (vm_compute; congruence).
  - assert (E: forallb setinvb (fold_left ostep example_ops regs0) = true) by (vm_compute; reflexivity).
    rewrite forallb_forall in E. apply Forall_forall. intros d Hd. apply setinvb_sound, E, Hd.
  - vm_compute. reflexivity.
Qed.
Print Assumptions C06_history_example.
