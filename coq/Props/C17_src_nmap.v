(* Props/C17_src_nmap.v -- source tie for C17, nmap part: the Gallina definitions that harness/gen/pysrc.py (class FnB) regenerates
   on every run from the CURRENT text of netaddr/ip/nmap.py (coq/Gen/pysrc_nmap_gen.v) are equal to the hand-written model of
   Model/Nmap.v that the nmap theorems of Props/C17.v are about:
     src__nmap_octet_target_values (the element loop with `left, right = element.split('-', 1)`, the open ends, the inner
       `for octet in _iter_range(low, high + 1): values.add(octet)` and `sorted(values)`) = nmap_octet_target_values -- the generated
       code keeps the Python set as its duplicate-free elements in insertion order and sorts at the end, the model keeps it sorted;
     src__generate_nmap_octet_ranges = generate_nmap_octet_ranges;
     src__parse_nmap_target_spec (a GENERATOR: the list of the outcomes of its yields, the four nested loops, `for ip in net: yield ip`)
       read as items + final exception (Nmap.gen_of_outcomes) = parse_nmap_target_spec;
     src_valid_nmap_range (`try: _iter_next(..); return True / except (TypeError, ValueError, AddrFormatError): pass`) = valid_nmap_range;
     src_iter_nmap_range ( *specs as a list; `for addr in _parse_nmap_target_spec(s): yield addr`) = iter_nmap_range.
   NOT translated, used as named symbols that ARE the hand model (Model/SrcPreludeNmap.v): IPNetwork(text) = py_ipnetwork_of_str
   (Nmap.ipnetwork_of_str), IPAddress("%d.%d.%d.%d" % .., 4) = py_ipaddress4_of_str (Glob.ip_of_canon), `for ip in net` = py_iter_net
   (first .. last); IPAddress(text) and inet_pton(AF_INET6) are the same two platform parameters as in Model/Nmap.v (the statements
   hold for all of them).  No hypotheses.  A source edit that changes one of the five functions changes the generated term and this
   theorem stops compiling.  Nothing but the statement closed by `exact`, followed by Print Assumptions. *)
From Coq Require Import String.
From NV Require Import Base.Tac Base.PyVal Base.PyStr Model.Ip Model.Glob Model.Nmap Model.SrcPrelude Model.SrcPreludeGlob
  Model.SrcPreludeNmap Gen.pysrc_nmap_gen Proofs.GenOk_Src_C17_nmap.
Import ListNotations.
Open Scope Z_scope.

Theorem C17_source_tie_nmap :
  (forall spec, src__nmap_octet_target_values spec = nmap_octet_target_values spec) /\
  (forall spec xs values, NoDup values ->
     omap py_sorted_asc (src__nmap_octet_target_values_loop1 spec xs values) = nmap_values_loop xs (py_sorted_asc values)) /\
  (forall spec, src__generate_nmap_octet_ranges spec = generate_nmap_octet_ranges spec) /\
  (forall pton6 ip_address s,
     gen_of_outcomes (src__parse_nmap_target_spec pton6 ip_address s) = parse_nmap_target_spec pton6 ip_address s) /\
  (forall pton6 ip_address s, src_valid_nmap_range pton6 ip_address s = valid_nmap_range pton6 ip_address s) /\
  (forall pton6 ip_address specs,
     gen_of_outcomes (src_iter_nmap_range pton6 ip_address specs) = iter_nmap_range pton6 ip_address specs).
Proof. exact C17_nmap_tie_ok. Qed.
Print Assumptions C17_source_tie_nmap.

(* the generated definitions compute: '1,3-5,4' denotes 1 3 4 5; '192.0.2.1-2' yields two addresses; '1.2.3' is no target *)
Example C17_src_nmap_nonvacuous :
  src__nmap_octet_target_values "1,3-5,4" = Ok [1; 3; 4; 5] /\ src__nmap_octet_target_values "5-3" = Raise ValueError /\
  gen_of_outcomes (src__parse_nmap_target_spec (fun _ => None) (fun _ => Raise AddrFormatError) "192.0.2.1-2") =
    ([(4, 3221225985); (4, 3221225986)], None) /\
  src_valid_nmap_range (fun _ => None) (fun _ => Raise AddrFormatError) "192.0.2.0/30" = Ok true /\
  src_valid_nmap_range (fun _ => None) (fun _ => Raise AddrFormatError) "1.2.3" = Ok false /\
  gen_of_outcomes (src_iter_nmap_range (fun _ => None) (fun _ => Raise AddrFormatError) ["10.0.0.1"; "10.0.0.300"]%string) =
    ([(4, 167772161)], Some ValueError).
Proof. repeat split; vm_compute; reflexivity. Qed.
