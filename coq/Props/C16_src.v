(* Props/C16_src.v — source tie for C16: the Gallina definitions that harness/gen/pysrc.py regenerates on every run from
   the CURRENT text of BaseIP.is_ipv4_mapped / is_ipv4_compat, IPAddress.ipv4 / ipv6 and IPNetwork.ipv6
   (coq/Gen/pysrc_gen.v) are equal to the hand-written model functions that the theorems of Props/C16.v are about.
   A source edit that changes one of these methods changes the generated term and this theorem stops compiling.
   Nothing but the statement closed by `exact`, followed by Print Assumptions. *)
From NV Require Import Base.Tac Base.PyVal Model.Ip Model.Conv Model.SrcPrelude Gen.pysrc_gen Proofs.GenOk_Src_C16.
Open Scope Z_scope.

Theorem C16_source_tie :
  (forall ver w v,
     src_BaseIP_is_ipv4_mapped ver w v = is_ipv4_mapped ver v /\
     src_BaseIP_is_ipv4_compat ver w v = is_ipv4_compat ver v /\
     src_IPAddress_ipv4 ver w v = (if valid_ver ver then omap Some (addr_ipv4 ver v) else Ok None)) /\
  (forall ver w v c,
     src_IPAddress_ipv6 ver w v c = if valid_ver ver then omap Some (addr_ipv6 ver v c) else Ok None) /\
  (forall ver w v p c,
     src_IPNetwork_ipv6 ver w v p c = if valid_ver ver then omap Some (net_ipv6 ver v p c) else Ok None) /\
  (src_ipv4_version = 4 /\ src_ipv6_version = 6 /\
   src_ipv4_width = width src_ipv4_version /\ src_ipv6_width = width src_ipv6_version /\
   src_ipv4_max_int = max_int_w src_ipv4_width /\ src_ipv6_max_int = max_int_w src_ipv6_width /\
   src_ipv4_max_int = max_int 4 /\ src_ipv6_max_int = max_int 6).
Proof. exact C16_tie_ok. Qed.
Print Assumptions C16_source_tie.
