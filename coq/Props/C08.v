(* Props/C08.v — placeholder while the correspondence is being established. *)
From Coq Require Import ZArith List String.
Import ListNotations.
From NV Require Import Base.PyVal Base.PyStr Model.Eui Gen.eui_gen Proofs.GenOk_C08.
Theorem C08_re_patterns_pinned :
  gen_mac_patterns = map (fun p => (pat_regex p, re_flags_expected)) mac_pats /\
  gen_eui64_patterns = map (fun p => (pat_regex p, re_flags_expected)) eui64_pats /\
  gen_re_flag_values = [2; 32; 8]%Z.
Proof. exact re_patterns_pinned. Qed.
Print Assumptions C08_re_patterns_pinned.
