(* Props/C08.v — property C08: EUI text round-trips in every dialect; derived identifiers follow the standards.
   Nothing but statements closed by `exact`, each followed by Print Assumptions.
   Vocabulary (Proofs/C08_*.v): word_at ws nw v i = (v / 2^(ws*(nw-1-i))) mod 2^ws; octet n v i = word_at 8 n v i;
   octets_of ver v = the 6 / 8 octets of v, most significant first; hexs t = t consists of hex digits (any case);
   hexval t = its base-16 value; tok_ok lo hi t = hexs t with lo..hi digits; spell sep toks = tokens joined by sep;
   wf_eui e = version 48/64 and 0 <= value < 2^width; wf_dialect ver d = positive word size / count covering the width. *)
From Coq Require Import String Ascii.
From NV Require Import Base.Tac Base.PyVal Base.PyStr Base.PyStrFacts Model.Ip Model.Eui Gen.eui_gen
  Proofs.GenOk_C08 Proofs.C08_words Proofs.C08_arith Proofs.C08_text Proofs.C08_spell Proofs.C08_round.
Open Scope Z_scope.

(* ---- the data the model hard-codes is the data in the source ---- *)
Theorem C08_re_patterns_pinned :
  gen_mac_patterns = map (fun p => (pat_regex p, re_flags_expected)) mac_pats /\
  gen_eui64_patterns = map (fun p => (pat_regex p, re_flags_expected)) eui64_pats /\
  gen_re_flag_values = [2; 32; 8].
Proof. exact re_patterns_pinned. Qed.
Print Assumptions C08_re_patterns_pinned.

Theorem C08_dialects_pinned :
  gen_dialects = map dialect_row builtin_dialects /\
  gen_modules = [(48, ewidth 48, emax_int 48); (64, ewidth 64, emax_int 64)] /\
  (gen_defaults = ["mac_eui48"; "eui64_base"; "mac_eui48"; "eui64_base"]%string /\
   default_dialect 48 = mac_eui48 /\ default_dialect 64 = eui64_base) /\
  gen_iab_values = iab_values.
Proof. exact (conj dialects_ok (conj modules_ok (conj defaults_ok iab_values_ok))). Qed.
Print Assumptions C08_dialects_pinned.

(* ---- printed text parses back, implicit or explicit version, for every value and built-in dialect ---- *)
Theorem C08_roundtrip : forall name ver d v, In (name, (ver, d)) builtin_dialects -> 0 <= v < 2 ^ ewidth ver ->
  exists s, int_to_str v d = Ok s /\
    str_to_int ver (BStr s) = Ok v /\ valid_str ver s = true /\
    eui_init (AStr s) None DNone = Ok {| ever := ver; evalue := v; edialect := default_dialect ver |} /\
    eui_init (AStr s) (Some ver) DNone = Ok {| ever := ver; evalue := v; edialect := default_dialect ver |}.
Proof. exact roundtrip_builtin. Qed.
Print Assumptions C08_roundtrip.

(* ---- every accepted spelling yields its value ---- *)
(* grouped: n tokens of lo..hi hex digits joined by sep -- 6 (8) octets of 1-2 digits with ':' '-', 3 (4) hextets of
   1-4 digits with ':' '-' '.', two 5-6 digit halves with '-' ':' (EUI-48); the value has the token values as its
   4k-bit words *)
Theorem C08_spellings_grouped : forall ver n lo hi sep k toks,
  (ver = 48 /\ In (n, lo, hi, sep, k) groups48) \/ (ver = 64 /\ In (n, lo, hi, sep, k) groups64) ->
  length toks = n -> Forall (tok_ok lo hi) toks ->
  let s := spell sep toks in let v := from_digits (16 ^ Z.of_nat k) (map hexval toks) in
  str_to_int ver (BStr s) = Ok v /\ valid_str ver s = true /\
  eui_init (AStr s) None DNone = Ok {| ever := ver; evalue := v; edialect := default_dialect ver |} /\
  eui_init (AStr s) (Some ver) DNone = Ok {| ever := ver; evalue := v; edialect := default_dialect ver |}.
Proof. exact spellings_grouped. Qed.
Print Assumptions C08_spellings_grouped.

(* bare: 12 or 11 hex digits are an EUI-48, 16 hex digits an EUI-64 (also when all digits are decimal: F-11) *)
Theorem C08_spellings_bare : forall t, hexs t ->
  ((length t = 12 \/ length t = 11)%nat ->
     let s := str_of t in
     str_to_int 48 (BStr s) = Ok (hexval t) /\ valid_str 48 s = true /\
     eui_init (AStr s) None DNone = Ok {| ever := 48; evalue := hexval t; edialect := default_dialect 48 |} /\
     eui_init (AStr s) (Some 48) DNone = Ok {| ever := 48; evalue := hexval t; edialect := default_dialect 48 |}) /\
  (length t = 16%nat ->
     let s := str_of t in
     str_to_int 64 (BStr s) = Ok (hexval t) /\ valid_str 64 s = true /\
     eui_init (AStr s) None DNone = Ok {| ever := 64; evalue := hexval t; edialect := default_dialect 64 |} /\
     eui_init (AStr s) (Some 64) DNone = Ok {| ever := 64; evalue := hexval t; edialect := default_dialect 64 |}).
Proof. exact spellings_bare. Qed.
Print Assumptions C08_spellings_bare.

(* the value built from the groups has exactly those groups as its words *)
Theorem C08_words_of_digits : forall B, 1 < B -> forall l, Forall (fun d => 0 <= d < B) l ->
  wl B (length l) (from_digits B l) = l.
Proof. exact wl_from_digits. Qed.
Print Assumptions C08_words_of_digits.

(* ---- constructor on integers ---- *)
Theorem C08_init_int : forall v d,
  eui_init (AInt v) None (DRec d) =
    if (0 <=? v) && (v <? 2 ^ 48) then Ok {| ever := 48; evalue := v; edialect := d |}
    else if (2 ^ 48 <=? v) && (v <? 2 ^ 64) then Ok {| ever := 64; evalue := v; edialect := d |}
    else Raise TypeError.
Proof. exact init_int_implicit. Qed.
Print Assumptions C08_init_int.

(* ---- comparison and hashing are functions of (version, value) only ---- *)
Theorem C08_eq_hash : forall a b,
  (eui_eq a b = true <-> (ever a, evalue a) = (ever b, evalue b)) /\
  eui_ne a b = negb (eui_eq a b) /\
  (eui_lt a b = true <-> ever a < ever b \/ (ever a = ever b /\ evalue a < evalue b)) /\
  eui_le a b = eui_lt a b || eui_eq a b /\
  eui_gt a b = eui_lt b a /\
  eui_ge a b = eui_lt b a || eui_eq a b /\
  (eui_eq a b = true <-> eui_hash_key a = eui_hash_key b).
Proof. exact cmp_spec. Qed.
Print Assumptions C08_eq_hash.

Theorem C08_eq_hash_dialect : forall a b da db,
  let a' := {| ever := ever a; evalue := evalue a; edialect := da |} in
  let b' := {| ever := ever b; evalue := evalue b; edialect := db |} in
  eui_eq a' b' = eui_eq a b /\ eui_ne a' b' = eui_ne a b /\ eui_lt a' b' = eui_lt a b /\ eui_le a' b' = eui_le a b /\
  eui_gt a' b' = eui_gt a b /\ eui_ge a' b' = eui_ge a b /\ eui_hash_key a' = eui_hash_key a.
Proof. exact cmp_dialect_irrelevant. Qed.
Print Assumptions C08_eq_hash_dialect.

Theorem C08_order_total : forall a b,
  (eui_lt a b = true /\ eui_eq a b = false /\ eui_lt b a = false) \/
  (eui_lt a b = false /\ eui_eq a b = true /\ eui_lt b a = false) \/
  (eui_lt a b = false /\ eui_eq a b = false /\ eui_lt b a = true).
Proof. exact lt_trichotomy. Qed.
Print Assumptions C08_order_total.

(* ---- eui64(): o0 o1 o2 FF FE o3 o4 o5; an EUI-64 is returned unchanged; default dialect ---- *)
Theorem C08_eui64 : forall e, wf_eui e ->
  eui_eui64 e = Ok {| ever := 64; evalue := eui64_value (ever e) (evalue e); edialect := eui64_base |} /\
  0 <= eui64_value (ever e) (evalue e) < 2 ^ 64.
Proof. exact eui64_spec. Qed.
Print Assumptions C08_eui64.

Theorem C08_eui64_octets : forall v, 0 <= v < 2 ^ 48 ->
  let x := eui64_value 48 v in
  octet 8 x 0 = octet 6 v 0 /\ octet 8 x 1 = octet 6 v 1 /\ octet 8 x 2 = octet 6 v 2 /\
  octet 8 x 3 = 255 /\ octet 8 x 4 = 254 /\
  octet 8 x 5 = octet 6 v 3 /\ octet 8 x 6 = octet 6 v 4 /\ octet 8 x 7 = octet 6 v 5.
Proof. exact eui64_octets. Qed.
Print Assumptions C08_eui64_octets.

Theorem C08_eui64_of_eui64 : forall v, eui64_value 64 v = v.
Proof. reflexivity. Qed.
Print Assumptions C08_eui64_of_eui64.

(* ---- modified_eui64(): exactly bit 57 (the universal/local bit) of the EUI-64 is inverted ---- *)
Theorem C08_modified : forall e, wf_eui e ->
  eui_modified e = Ok {| ever := 64; evalue := iid_value (ever e) (evalue e); edialect := eui64_base |} /\
  0 <= iid_value (ever e) (evalue e) < 2 ^ 64.
Proof. exact modified_spec. Qed.
Print Assumptions C08_modified.

Theorem C08_modified_bits : forall ver v n, 0 <= n ->
  Z.testbit (iid_value ver v) n = if n =? 57 then negb (Z.testbit (eui64_value ver v) n) else Z.testbit (eui64_value ver v) n.
Proof. exact iid_bits. Qed.
Print Assumptions C08_modified_bits.

(* ---- ipv6(prefix) = prefix + interface identifier; link-local = fe80::/64 | identifier ---- *)
Theorem C08_ipv6 : forall e prefix, wf_eui e ->
  eui_ipv6 e prefix =
    let t := prefix + iid_value (ever e) (evalue e) in
    if (0 <=? t) && (t <? 2 ^ 128) then Ok (6, t) else Raise AddrFormatError.
Proof. exact ipv6_spec. Qed.
Print Assumptions C08_ipv6.

Theorem C08_ipv6_prefix64 : forall e prefix, wf_eui e -> 0 <= prefix < 2 ^ 128 -> prefix mod 2 ^ 64 = 0 ->
  eui_ipv6 e prefix = Ok (6, Z.lor prefix (iid_value (ever e) (evalue e))) /\
  Z.lor prefix (iid_value (ever e) (evalue e)) = prefix + iid_value (ever e) (evalue e).
Proof. exact ipv6_prefix64. Qed.
Print Assumptions C08_ipv6_prefix64.

Theorem C08_ipv6_link_local : forall e, wf_eui e ->
  eui_ipv6_link_local e = Ok (6, Z.lor (65152 * 2 ^ 112) (iid_value (ever e) (evalue e))).
Proof. exact ipv6_link_local_spec. Qed.
Print Assumptions C08_ipv6_link_local.

(* ---- oui / ei / is_iab / iab split the value at the standard bit positions ---- *)
Theorem C08_split_oui : forall e, wf_eui e -> eui_oui e = Some (evalue e / 2 ^ (ewidth (ever e) - 24)).
Proof. exact oui_spec. Qed.
Print Assumptions C08_split_oui.

Theorem C08_split_ei : forall e, wf_eui e ->
  eui_ei e = Ok (Some (join "-" (map (fmt_X_pad 2) (skipn 3 (octets_of (ever e) (evalue e)))))).
Proof. exact ei_spec. Qed.
Print Assumptions C08_split_ei.

Theorem C08_split_iab : forall e, 0 <= evalue e < 2 ^ 48 ->
  eui_is_iab e = zmem (evalue e / 2 ^ 24) iab_values /\
  eui_iab e = Ok (if zmem (evalue e / 2 ^ 24) iab_values then Some (evalue e / 2 ^ 12) else None).
Proof. exact (fun e H => conj (is_iab_spec e) (iab_spec e H)). Qed.
Print Assumptions C08_split_iab.

(* ---- value-level accessors: never fail, and do not look at the dialect (e is any object, any dialect) ---- *)
Theorem C08_accessors_words : forall e, wf_eui e ->
  eui_words e = Ok (octets_of (ever e) (evalue e)) /\
  eui_packed e = Ok (str_of (map chr (octets_of (ever e) (evalue e)))) /\
  (forall sep, eui_bits e sep = Ok (join (match sep with Some s => s | None => "-"%string end)
                                         (map (fmt_b_pad 8) (octets_of (ever e) (evalue e))))).
Proof. exact (fun e H => conj (words_spec e H) (conj (packed_spec e H) (fun sep => bits_spec e sep H))). Qed.
Print Assumptions C08_accessors_words.

Theorem C08_octets : forall ver v i, 0 <= i < Z.of_nat (noctets ver) ->
  nth_error (octets_of ver v) (Z.to_nat i) = Some (octet (Z.of_nat (noctets ver)) v i).
Proof. exact octets_nth. Qed.
Print Assumptions C08_octets.

(* e[i] under the object's own dialect is the i-th word_size-bit word (negative indices from the end) *)
Theorem C08_accessors_getitem : forall e i, wf_eui e -> wf_dialect (ever e) (edialect e) ->
  let d := edialect e in let nw := num_words d in
  eui_getitem e i =
    if (0 <=? i) && (i <? nw) then Ok (word_at (word_size d) nw (evalue e) i)
    else if (- nw <=? i) && (i <? 0) then Ok (word_at (word_size d) nw (evalue e) (i + nw))
    else Raise IndexError.
Proof. exact getitem_spec. Qed.
Print Assumptions C08_accessors_getitem.

(* e[i] = x succeeds exactly for 0 <= i < num_words and 0 <= x < 2^word_size; then only word i changed *)
Theorem C08_accessors_setitem : forall e i x, wf_eui e -> wf_dialect (ever e) (edialect e) ->
  let d := edialect e in let nw := num_words d in let ws := word_size d in
  if (0 <=? i) && (i <? nw) && (0 <=? x) && (x <? 2 ^ ws) then
    exists v', eui_setitem e i x = Ok {| ever := ever e; evalue := v'; edialect := d |} /\
               0 <= v' < 2 ^ ewidth (ever e) /\
               (forall j, 0 <= j < nw -> word_at ws nw v' j = if j =? i then x else word_at ws nw (evalue e) j)
  else eui_setitem e i x = Raise IndexError.
Proof. exact setitem_spec. Qed.
Print Assumptions C08_accessors_setitem.

(* non-vacuity: a concrete object meets the hypotheses and the round trip *)
Example C08_nonvacuous :
  wf_eui {| ever := 48; evalue := 73588229205; edialect := mac_cisco |} /\
  wf_dialect 48 mac_cisco /\
  int_to_str 73588229205 mac_cisco = Ok "0011.2233.4455"%string /\
  eui_init (AStr "0011.2233.4455") None DNone = Ok {| ever := 48; evalue := 73588229205; edialect := mac_eui48 |} /\
  eui_init (AStr "0000000041000000") None DNone = Ok {| ever := 64; evalue := 1090519040; edialect := eui64_base |} /\
  In ("mac_cisco"%string, (48, mac_cisco)) builtin_dialects.
Proof.
  split; [split; [left; reflexivity|cbn; lia]|]. split; [unfold wf_dialect; cbn; lia|].
  split; [vm_compute; reflexivity|]. split; [vm_compute; reflexivity|]. split; [vm_compute; reflexivity|].
  cbn. tauto.
Qed.
