(* Props/Coherence.v — COHERENCE of the model copies.  Several Python functions are modelled more than once (one
   executable model file per property, each tied to the code separately by differential execution).  Every theorem here
   says that two copies are the same function — as an equation, for all inputs, under the weakest well-formedness
   hypothesis that is really needed (stated in the theorem; the comment says "no hypothesis" when there is none) — so a
   theorem about one copy is a theorem about the others.  Nothing but statements closed by `exact`, each followed by
   Print Assumptions.  Proofs for this file: Proofs/Coherence_Net.v.
   The statements are split over Props/Coherence.v, Coherence_Order.v, Coherence_Cidrs.v, Coherence_Text.v and
   Coherence_Words.v so that the harness re-checks them in parallel; all five are obligations of `./check C04`
   (EXTRA_THEOREM_FILES of harness/props/c04.py); the list is in tools/claims/COH.json.
   Model files are `Require`d without `Import`: every model name is qualified by its file.  Translations between the
   object types of the models (Proofs/Coherence_Net.v): cl_of / ord_of (Contains.ipobj to Classify.ipobj / Order.obj),
   co_net / cl_net / ord_net (a `net` record as an object of each model), co_of_ranged, co_of_irow, co_of_row;
   row_of_irow, list4, state3 (Proofs/Coherence_Order.v); to_cidrs_real (Proofs/Coherence_Cidrs.v); gen_observe
   (Proofs/Coherence_Iter.v). *)
From Coq Require Import Sorting.Sorted Sorting.Permutation String Ascii.
From NV Require Import Base.Tac Base.PyVal Base.Bits Base.Canon Base.PyStr Base.PyStrFacts Model.Ip.
From NV Require Model.SrcPrelude Model.Span Model.Partition Model.Merge Model.Sets Model.Contains Model.Classify
  Model.ListLike Model.Iana Model.Order Model.AddrOps Model.Conv Model.Subnet Model.Splitter Model.NetText
  Model.AddrText Model.Glob Model.Nmap Model.IpText Model.FbSocket Model.Codec Model.Eui Model.Ieee Model.PySlice.
From NV Require Proofs.C02 Proofs.C03 Proofs.C04 Proofs.C04_match Proofs.C09 Proofs.C11 Proofs.C17 Proofs.C20.
From NV Require Import Proofs.Coherence_Net.
Open Scope Z_scope.

(* ======================================================================== Proofs/Coherence_Net.v
   family 1 — Python: IPNetwork.first / .last / .size / .cidr / .key() / __eq__, IPRange.first / .last, IPListMixin.size
   family 4 — Python: IPAddress.__init__(int[, version]) (282-319); IPNetwork((value, prefixlen), version) = tuple branch of
              parse_ip_network (774-785); BaseIP._set_value; IPNetwork._set_prefixlen; IPNetwork.cidr
   family 6 — Python: IPNetwork.__iadd__ / __isub__ (1088-1128), next / previous (1230-1252), supernet (1254-1275) *)

(* Span and Sets spell IPNetwork.first/.last through Ip.net_first/net_last: no hypothesis *)
Theorem Coherence_span_first : forall wd n,
  Span.nfirst wd n = net_first (wd (nver n)) (nval n) (nplen n).
Proof. exact coh_span_first. Qed.
Print Assumptions Coherence_span_first.

Theorem Coherence_span_last : forall wd n,
  Span.nlast wd n = net_last (wd (nver n)) (nval n) (nplen n).
Proof. exact coh_span_last. Qed.
Print Assumptions Coherence_span_last.

Theorem Coherence_sets_first : forall n,
  Sets.nf n = net_first (width (nver n)) (nval n) (nplen n).
Proof. exact coh_sets_first. Qed.
Print Assumptions Coherence_sets_first.

Theorem Coherence_sets_last : forall n,
  Sets.nl n = net_last (width (nver n)) (nval n) (nplen n).
Proof. exact coh_sets_last. Qed.
Print Assumptions Coherence_sets_last.

Theorem Coherence_sets_size : forall n,
  Sets.nsize n = net_size (width (nver n)) (nval n) (nplen n).
Proof. exact coh_sets_size. Qed.
Print Assumptions Coherence_sets_size.

Theorem Coherence_sets_cidr : forall n,
  (nval (Sets.ncidr n), nplen (Sets.ncidr n)) = net_cidr (width (nver n)) (nval n) (nplen n) /\
  nver (Sets.ncidr n) = nver n.
Proof. exact coh_sets_cidr. Qed.
Print Assumptions Coherence_sets_cidr.

(* the four object-level spellings of .first/.last agree on every object (no hypothesis) *)
Theorem Coherence_obj_first : forall o,
  Classify.obj_first (cl_of o) = Contains.obj_first width o /\
  Classify.obj_last (cl_of o) = Contains.obj_last width o.
Proof. exact coh_obj_first. Qed.
Print Assumptions Coherence_obj_first.

Theorem Coherence_ranged_first : forall x,
  ListLike.r_first x = Contains.obj_first width (co_of_ranged x) /\
  ListLike.r_last x = Contains.obj_last width (co_of_ranged x) /\
  ListLike.r_ver x = Contains.over (co_of_ranged x).
Proof. exact coh_ranged_first. Qed.
Print Assumptions Coherence_ranged_first.

Theorem Coherence_ranged_size : forall x,
  ListLike.r_size x = Contains.obj_last width (co_of_ranged x) - Contains.obj_first width (co_of_ranged x) + 1.
Proof. exact coh_ranged_size. Qed.
Print Assumptions Coherence_ranged_size.

Theorem Coherence_iana_row_first : forall r,
  Iana.row_first r = Contains.obj_first width (co_of_irow r) /\
  Iana.row_last r = Contains.obj_last width (co_of_irow r).
Proof. exact coh_iana_row_first. Qed.
Print Assumptions Coherence_iana_row_first.

Theorem Coherence_classify_row_first : forall r,
  Classify.row_first r = Contains.obj_first width (co_of_row r) /\
  Classify.row_last r = Contains.obj_last width (co_of_row r).
Proof. exact coh_classify_row_first. Qed.
Print Assumptions Coherence_classify_row_first.

Theorem Coherence_net_obj_first : forall n,
  Contains.obj_first width (co_net n) = Sets.nf n /\ Contains.obj_last width (co_net n) = Sets.nl n.
Proof. exact coh_net_obj_first. Qed.
Print Assumptions Coherence_net_obj_first.

Theorem Coherence_merge_first : forall n,
  Merge.mi_first (Merge.MNet n) = Sets.nf n /\ Merge.mi_last (Merge.MNet n) = Sets.nl n.
Proof. exact coh_merge_first. Qed.
Print Assumptions Coherence_merge_first.

(* Order.key() of a network / a range lists version, first, last of the other models *)
Theorem Coherence_order_key : forall o,
  Order.key (ord_of o) =
  match o with
  | Contains.Addr ver v => [ver; v]
  | _ => [Contains.over o; Contains.obj_first width o; Contains.obj_last width o]
  end.
Proof. exact coh_order_key. Qed.
Print Assumptions Coherence_order_key.

Theorem Coherence_order_range_size : forall s e,
  Order.range_size s e = ListLike.r_size (ListLike.RRange 4 s e).
Proof. exact coh_order_range_size. Qed.
Print Assumptions Coherence_order_range_size.

(* Python: sys.maxsize (`_sys_maxint`), the bound of IPSet.__len__ (Sets) and of IPListMixin.__len__ / slicing
   (ListLike through PySlice) *)
Theorem Coherence_sys_maxint : Sets.sys_maxint = PySlice.ssize_max.
Proof. exact coh_sys_maxint. Qed.
Print Assumptions Coherence_sys_maxint.

(* the arithmetic spellings (Proofs/C09 first_of/last_of/cidr_of over model blocks; Proofs/C04 lo/hi) need the value
   and the prefix in range: the bit identities do not hold outside *)
Theorem Coherence_c09_first : forall w c,
  C09.wf_cblk w c ->
  C09.first_of w c = net_first w (fst c) (snd c) /\
  C09.last_of w c = net_last w (fst c) (snd c) /\
  C09.cidr_of w c = net_cidr w (fst c) (snd c).
Proof. exact coh_c09_first. Qed.
Print Assumptions Coherence_c09_first.

Theorem Coherence_c04_lo_hi : forall W o,
  C04.wf_obj W o ->
  C04.lo W o = Contains.obj_first W o /\ C04.hi W o = Contains.obj_last W o.
Proof. exact coh_c04_lo_hi. Qed.
Print Assumptions Coherence_c04_lo_hi.

Theorem Coherence_key_eqb : forall a b,
  Sets.key_eqb a b = Order.py_eq (ord_net a) (ord_net b).
Proof. exact coh_key_eqb. Qed.
Print Assumptions Coherence_key_eqb.

Theorem Coherence_blk_eqb : forall a b,
  nver a = nver b ->
  Splitter.blk_eqb (width (nver a)) (Merge.cblk_of_net a) (Merge.cblk_of_net b) = Sets.key_eqb a b.
Proof. exact coh_blk_eqb. Qed.
Print Assumptions Coherence_blk_eqb.

(* Python: IPAddress.__init__(int, version) (lines 282-319) *)
Theorem Coherence_ctor_int : forall i,
  AddrOps.ctor_int i None = addr_of_int i /\
  forall ver, AddrOps.ctor_int i (Some ver) = addr_of_int_ver i ver /\
              AddrOps.obj_new i ver = addr_of_int_ver i ver /\
              SrcPrelude.mk_addr ver i = addr_of_int_ver i ver.
Proof. exact coh_ctor_int. Qed.
Print Assumptions Coherence_ctor_int.

(* the explicit-version constructor is the width-level range check ctor_w (used by the bitwise operators of Ip) *)
Theorem Coherence_addr_of_int_ver : forall i ver,
  addr_of_int_ver i ver =
  if valid_ver ver then (do v <- ctor_w (width ver) i; Ok (ver, v)) else Raise ValueError.
Proof. exact coh_addr_of_int_ver. Qed.
Print Assumptions Coherence_addr_of_int_ver.

(* the implicit-version constructor picks the family by magnitude and then IS the explicit one *)
Theorem Coherence_addr_of_int : forall i,
  addr_of_int i = if i <=? max_int 4 then addr_of_int_ver i 4 else addr_of_int_ver i 6.
Proof. exact coh_addr_of_int. Qed.
Print Assumptions Coherence_addr_of_int.

(* Python: IPNetwork((value, prefixlen), version) = IPNetwork.__init__ + tuple branch of parse_ip_network (774-785) *)
Theorem Coherence_tuple_span_partition : forall wd ver v p,
  Span.net_of_tuple wd ver v p = omap (Merge.net_of_cblk ver) (Partition.net_of_tuple (wd ver) v p).
Proof. exact coh_tuple_span_partition. Qed.
Print Assumptions Coherence_tuple_span_partition.

Theorem Coherence_tuple_conv : forall ver v p,
  Conv.net_of_tuple ver v p = Span.net_of_tuple width ver v p.
Proof. exact coh_tuple_conv. Qed.
Print Assumptions Coherence_tuple_conv.

Theorem Coherence_tuple_mk_net : forall ver v p,
  SrcPrelude.mk_net ver v p = if valid_ver ver then Span.net_of_tuple width ver v p else Raise ValueError.
Proof. exact coh_tuple_mk_net. Qed.
Print Assumptions Coherence_tuple_mk_net.

Theorem Coherence_tuple_order : forall v p ver,
  Order.net_of_tuple v p ver = omap ord_net (SrcPrelude.mk_net ver v p).
Proof. exact coh_tuple_order. Qed.
Print Assumptions Coherence_tuple_order.

(* the full constructor of NetText with a 2-tuple, an explicit version and no NOHOST flag *)
Theorem Coherence_tuple_nettext : forall be v p ip ver flags,
  AddrText.has_flag flags NetText.NOHOST = false ->
  NetText.net_init be (NetText.ATuple [v; p]) ip (Some ver) flags = SrcPrelude.mk_net ver v p.
Proof. exact coh_tuple_nettext. Qed.
Print Assumptions Coherence_tuple_nettext.

(* IPNetwork(IPAddress(ver, v)) (copy constructor of NetText) is Merge.addr_net *)
Theorem Coherence_addr_net_nettext : forall be ver v ip version flags,
  AddrText.has_flag flags NetText.NOHOST = false ->
  NetText.net_init be (NetText.AAddr ver v) ip version flags = Ok (Merge.addr_net ver v).
Proof. exact coh_addr_net_nettext. Qed.
Print Assumptions Coherence_addr_net_nettext.

(* IPSet's IPNetwork(IPAddress(int)) *)
Theorem Coherence_net_of_int : forall i,
  Sets.net_of_int i = do a <- AddrOps.ctor_int i None; Ok (Merge.addr_net (fst a) (snd a)).
Proof. exact coh_net_of_int. Qed.
Print Assumptions Coherence_net_of_int.

(* BaseIP._set_value / IPNetwork._set_prefixlen with an int: Ip (C02) vs Subnet (C11) *)
Theorem Coherence_set_value : forall n z,
  set_value n (SInt z) =
  omap (Merge.net_of_cblk (nver n)) (Subnet.set_value_w (width (nver n)) (Merge.cblk_of_net n) z).
Proof. exact coh_set_value. Qed.
Print Assumptions Coherence_set_value.

Theorem Coherence_set_prefixlen : forall n z,
  set_prefixlen n (SInt z) =
  omap (Merge.net_of_cblk (nver n)) (Subnet.set_prefixlen_w (width (nver n)) (Merge.cblk_of_net n) z).
Proof. exact coh_set_prefixlen. Qed.
Print Assumptions Coherence_set_prefixlen.

(* IPNetwork.cidr: Subnet.cidr_checked (with the constructor's checks) vs Ip.net_cidr; the checks pass for
   well-formed networks (value and prefix in range) *)
Theorem Coherence_cidr_checked : forall w v p,
  0 <= p <= w -> 0 <= v < 2 ^ w ->
  Subnet.cidr_checked w (v, p) = Ok (net_cidr w v p).
Proof. exact coh_cidr_checked. Qed.
Print Assumptions Coherence_cidr_checked.

(* Python: IPNetwork.__iadd__/__isub__ (1088-1128) — Sets.net_next/net_previous (step 1, used by IPSet's
   sibling merge) are literally Subnet.net_iadd/net_isub with num = 1: no hypothesis *)
Theorem Coherence_sets_next_iadd : forall n,
  Sets.net_next n = omap (Merge.net_of_cblk (nver n)) (Subnet.net_iadd (width (nver n)) (Merge.cblk_of_net n) 1).
Proof. exact coh_sets_next_iadd. Qed.
Print Assumptions Coherence_sets_next_iadd.

Theorem Coherence_sets_previous_isub : forall n,
  Sets.net_previous n = omap (Merge.net_of_cblk (nver n)) (Subnet.net_isub (width (nver n)) (Merge.cblk_of_net n) 1).
Proof. exact coh_sets_previous_isub. Qed.
Print Assumptions Coherence_sets_previous_isub.

(* Python: IPNetwork.next()/previous() (1230-1252) copy self.network first; for a well-formed network the copy
   changes nothing that __iadd__ reads *)
Theorem Coherence_next_iadd : forall w v p k,
  0 <= p <= w -> 0 <= v < 2 ^ w ->
  Subnet.net_next w (v, p) k = Subnet.net_iadd w (v, p) k /\
  Subnet.net_previous w (v, p) k = Subnet.net_isub w (v, p) k.
Proof. exact coh_next_iadd. Qed.
Print Assumptions Coherence_next_iadd.

Theorem Coherence_sets_next : forall n,
  C02.wf_net n ->
  Sets.net_next n = omap (Merge.net_of_cblk (nver n)) (Subnet.net_next (width (nver n)) (Merge.cblk_of_net n) 1) /\
  Sets.net_previous n = omap (Merge.net_of_cblk (nver n)) (Subnet.net_previous (width (nver n)) (Merge.cblk_of_net n) 1).
Proof. exact coh_sets_next. Qed.
Print Assumptions Coherence_sets_next.

Theorem Coherence_supernets : forall n,
  C02.wf_net n ->
  Subnet.supernet (width (nver n)) (Merge.cblk_of_net n) 0 = Ok (map Merge.cblk_of_net (Sets.supernets n)).
Proof. exact coh_supernets. Qed.
Print Assumptions Coherence_supernets.
