(* Props/C13_code.v — property C13, CODE-LEVEL: the theorems of Props/C13.v stated directly about the definition that
   harness/gen/pysrc.py regenerates on every run from the CURRENT text of netaddr/ip/__init__.py:
     src_spanning_cidr                           (Gen/pysrc_span_gen.v: spanning_cidr with its `for` and `while` loops)
     src_IPNetwork_first, src_IPNetwork_last     (Gen/pysrc_gen.v: IPNetwork.first / .last, through code_first / code_last)
   A source edit that changes one of them changes the generated term and these theorems stop compiling (with C13_source_tie).
   Inputs are already constructed IPNetwork objects (`net` records).  Vocabulary (Proofs/Code_C13.v, Code_C09.v):
     code_inputs ver l      = every object of l is well formed (wf_net: version 4 or 6, value and prefix in range, host bits
                              allowed) and has version ver
     code_first n / code_last n = the generated first / last evaluated on n
     code_lowest_first l m  = m is the `first` of some input and <= the `first` of every input;  code_highest_last dually.
   The model theorems hold for any family-width table wd; here wd is the real one (Ip.width, whose values 32 / 128 are tied to
   the strategy modules by src_consts_ok).  Hypotheses: the property's own (>= 2 well-formed inputs of one family).  The tie's
   hypothesis (the first element's version is 4 or 6) is implied by them, EXCEPT in the second clause of
   C13_errors_of_source: the model theorem has no well-formedness hypothesis at all there, the code-level one asks that the
   versions of the objects exist (valid_ver) — natural for IPNetwork objects, but extra.
   Clauses still about the model: none.
   Nothing but statements closed by `exact`, each followed by Print Assumptions. *)
From NV Require Import Base.Tac Base.PyVal Base.Bits Model.Ip Model.SrcPrelude Gen.pysrc_gen Gen.pysrc_span_gen
  Proofs.C02 Proofs.Code_C09 Proofs.Code_C13.
From Coq Require Import Permutation.
Import ListNotations.
Open Scope Z_scope.

(* the result is the smallest aligned block containing every input *)
Theorem C13_span_of_source : forall ver l lo hi,
  code_inputs ver l -> (2 <= length l)%nat -> code_lowest_first l lo -> code_highest_last l hi ->
  let w := width ver in
  exists r q, src_spanning_cidr l = Ok {| nver := ver; nval := r; nplen := q |} /\
    0 <= q <= w /\ 0 <= r /\ r + 2 ^ (w - q) - 1 < 2 ^ w /\
    r mod 2 ^ (w - q) = 0 /\
    r <= lo /\ hi <= r + 2 ^ (w - q) - 1 /\
    (forall n, In n l -> r <= code_first n /\ code_last n <= r + 2 ^ (w - q) - 1) /\
    (forall r' q', 0 <= q' <= w -> r' mod 2 ^ (w - q') = 0 ->
       (forall n, In n l -> r' <= code_first n /\ code_last n <= r' + 2 ^ (w - q') - 1) ->
       q' <= q /\ r' <= r /\ r + 2 ^ (w - q) - 1 <= r' + 2 ^ (w - q') - 1).
Proof. exact code_span_correct. Qed.
Print Assumptions C13_span_of_source.

(* closed form *)
Theorem C13_span_closed_form_of_source : forall ver l lo hi,
  code_inputs ver l -> (2 <= length l)%nat -> code_lowest_first l lo -> code_highest_last l hi ->
  0 <= lo <= hi /\ hi < 2 ^ width ver /\
  exists r q, src_spanning_cidr l = Ok {| nver := ver; nval := r; nplen := q |} /\
    0 <= q <= width ver /\ r = floor2 hi (width ver - q) /\ r <= lo /\
    forall q', q < q' <= width ver -> lo < floor2 hi (width ver - q').
Proof. exact code_span_result. Qed.
Print Assumptions C13_span_closed_form_of_source.

(* the result is a function of (lowest first, highest last) alone *)
Theorem C13_order_free_of_source : forall ver l l' lo hi,
  code_inputs ver l -> code_inputs ver l' -> (2 <= length l)%nat -> (2 <= length l')%nat ->
  code_lowest_first l lo -> code_highest_last l hi -> code_lowest_first l' lo -> code_highest_last l' hi ->
  src_spanning_cidr l = src_spanning_cidr l'.
Proof. exact code_span_order_free. Qed.
Print Assumptions C13_order_free_of_source.

Theorem C13_permutation_of_source : forall ver l l',
  code_inputs ver l -> (2 <= length l)%nat -> Permutation l l' -> src_spanning_cidr l = src_spanning_cidr l'.
Proof. exact code_span_permutation. Qed.
Print Assumptions C13_permutation_of_source.

Theorem C13_repetition_of_source : forall ver l l',
  code_inputs ver l -> (2 <= length l)%nat -> (2 <= length l')%nat ->
  (forall n, In n l <-> In n l') -> src_spanning_cidr l = src_spanning_cidr l'.
Proof. exact code_span_same_elements. Qed.
Print Assumptions C13_repetition_of_source.

(* lowest first / highest last (on the generated first / last) exist, so the hypotheses above are never vacuous *)
Theorem C13_bounds_exist_of_source : forall l, l <> [] -> exists lo hi, code_lowest_first l lo /\ code_highest_last l hi.
Proof. exact code_bounds_exist. Qed.
Print Assumptions C13_bounds_exist_of_source.

(* errors: fewer than two inputs => ValueError (no hypothesis); both families present => TypeError *)
Theorem C13_errors_of_source : forall l,
  ((length l < 2)%nat -> src_spanning_cidr l = Raise ValueError) /\
  ((2 <= length l)%nat -> (forall n, In n l -> valid_ver (nver n) = true) ->
     (exists n1 n2, In n1 l /\ In n2 l /\ nver n1 <> nver n2) -> src_spanning_cidr l = Raise TypeError).
Proof. exact code_span_errors. Qed.
Print Assumptions C13_errors_of_source.

(* the generated widening loop always ends within its fuel *)
Theorem C13_terminates_of_source : forall ver l, code_inputs ver l -> src_spanning_cidr l <> Raise OutOfFuel.
Proof. exact code_span_no_fuel. Qed.
Print Assumptions C13_terminates_of_source.

(* non-vacuity: the F-13 witness meets the hypotheses and the generated definition returns the /8 *)
Example C13_code_nonvacuous :
  let l := [ {| nver := 4; nval := 167772160; nplen := 8 |}; {| nver := 4; nval := 167837696; nplen := 16 |} ] in
  code_inputs 4 l /\ (2 <= length l)%nat /\
  code_lowest_first l 167772160 /\ code_highest_last l 184549375 /\
  src_spanning_cidr l = Ok {| nver := 4; nval := 167772160; nplen := 8 |}.
Proof.
  cbn zeta. split; [|split; [|split; [|split]]].
  - split; repeat constructor; cbn [nver nval nplen]; change (width 4) with 32; lia.
  - cbn. lia.
  - split.
    + eexists. split; [left; reflexivity|vm_compute; reflexivity].
    + intros n [<-|[<-|[]]]; vm_compute; discriminate.
  - split.
    + eexists. split; [left; reflexivity|vm_compute; reflexivity].
    + intros n [<-|[<-|[]]]; vm_compute; discriminate.
  - vm_compute. reflexivity.
Qed.
