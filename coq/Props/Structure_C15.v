(* Props/Structure_C15.v -- WRITTEN BY tools/mkstructure.py.  Structure tie for C15: the parameter lists (names, order, default values),
   decorators, class bases and non-def class-body statements (aliases, __slots__, property lines, class attributes) of the classes and
   functions this property relies on (harness/gen/structure.py, table RELEVANT) -- and, for files it relies on entirely, the list of
   their top-level names -- regenerated from the working tree on every run, are the ones the models, adapters and translator tables
   were written against.  The source translator reads function BODIES; this covers what is around them.  103 groups, 131 rows.
   Statement closed by `exact`, followed by Print Assumptions. *)
From Coq Require Import List String Bool.
From NV Require Import Gen.structure_gen Proofs.GenOk_Structure_C15.
Import ListNotations.
Open Scope string_scope.

Theorem C15_structure_tie :
  gen_names_compat = ["_bytes_join"; "_zip"; "_range"; "_iter_next"] /\
  filter (keep drop_compat___bytes_join) gen_struct_compat___bytes_join = pinned_struct_compat___bytes_join /\
  filter (keep drop_compat___zip) gen_struct_compat___zip = pinned_struct_compat___zip /\
  filter (keep drop_compat___range) gen_struct_compat___range = pinned_struct_compat___range /\
  filter (keep drop_compat___iter_next) gen_struct_compat___iter_next = pinned_struct_compat___iter_next /\
  filter (keep drop_eui_init__BaseIdentifier) gen_struct_eui_init__BaseIdentifier = pinned_struct_eui_init__BaseIdentifier /\
  filter (keep drop_eui_init__EUI) gen_struct_eui_init__EUI = pinned_struct_eui_init__EUI /\
  filter (keep drop_ip_init__BaseIP) gen_struct_ip_init__BaseIP = pinned_struct_ip_init__BaseIP /\
  filter (keep drop_ip_init__IPAddress) gen_struct_ip_init__IPAddress = pinned_struct_ip_init__IPAddress /\
  filter (keep drop_ip_init___arg_repr) gen_struct_ip_init___arg_repr = pinned_struct_ip_init___arg_repr /\
  gen_names_ip_rfc1924 = ["chr_range"; "ipv6_to_base85"; "base85_to_ipv6"] /\
  filter (keep drop_ip_rfc1924__chr_range) gen_struct_ip_rfc1924__chr_range = pinned_struct_ip_rfc1924__chr_range /\
  filter (keep drop_ip_rfc1924__ipv6_to_base85) gen_struct_ip_rfc1924__ipv6_to_base85 = pinned_struct_ip_rfc1924__ipv6_to_base85 /\
  filter (keep drop_ip_rfc1924__base85_to_ipv6) gen_struct_ip_rfc1924__base85_to_ipv6 = pinned_struct_ip_rfc1924__base85_to_ipv6 /\
  gen_names_strategy_init = ["bytes_to_bits"; "valid_words"; "int_to_words"; "words_to_int"; "valid_bits"; "bits_to_int"; "int_to_bits"; "valid_bin"; "int_to_bin"; "bin_to_int"] /\
  filter (keep drop_strategy_init__bytes_to_bits) gen_struct_strategy_init__bytes_to_bits = pinned_struct_strategy_init__bytes_to_bits /\
  filter (keep drop_strategy_init__valid_words) gen_struct_strategy_init__valid_words = pinned_struct_strategy_init__valid_words /\
  filter (keep drop_strategy_init__int_to_words) gen_struct_strategy_init__int_to_words = pinned_struct_strategy_init__int_to_words /\
  filter (keep drop_strategy_init__words_to_int) gen_struct_strategy_init__words_to_int = pinned_struct_strategy_init__words_to_int /\
  filter (keep drop_strategy_init__valid_bits) gen_struct_strategy_init__valid_bits = pinned_struct_strategy_init__valid_bits /\
  filter (keep drop_strategy_init__bits_to_int) gen_struct_strategy_init__bits_to_int = pinned_struct_strategy_init__bits_to_int /\
  filter (keep drop_strategy_init__int_to_bits) gen_struct_strategy_init__int_to_bits = pinned_struct_strategy_init__int_to_bits /\
  filter (keep drop_strategy_init__valid_bin) gen_struct_strategy_init__valid_bin = pinned_struct_strategy_init__valid_bin /\
  filter (keep drop_strategy_init__int_to_bin) gen_struct_strategy_init__int_to_bin = pinned_struct_strategy_init__int_to_bin /\
  filter (keep drop_strategy_init__bin_to_int) gen_struct_strategy_init__bin_to_int = pinned_struct_strategy_init__bin_to_int /\
  gen_names_strategy_eui48 = ["mac_eui48"; "mac_unix"; "mac_unix_expanded"; "mac_cisco"; "mac_bare"; "mac_pgsql"; "valid_str"; "str_to_int"; "int_to_str"; "int_to_packed"; "packed_to_int"; "valid_words"; "int_to_words"; "words_to_int"; "valid_bits"; "bits_to_int"; "int_to_bits"; "valid_bin"; "int_to_bin"; "bin_to_int"] /\
  filter (keep drop_strategy_eui48__mac_eui48) gen_struct_strategy_eui48__mac_eui48 = pinned_struct_strategy_eui48__mac_eui48 /\
  filter (keep drop_strategy_eui48__mac_unix) gen_struct_strategy_eui48__mac_unix = pinned_struct_strategy_eui48__mac_unix /\
  filter (keep drop_strategy_eui48__mac_unix_expanded) gen_struct_strategy_eui48__mac_unix_expanded = pinned_struct_strategy_eui48__mac_unix_expanded /\
  filter (keep drop_strategy_eui48__mac_cisco) gen_struct_strategy_eui48__mac_cisco = pinned_struct_strategy_eui48__mac_cisco /\
  filter (keep drop_strategy_eui48__mac_bare) gen_struct_strategy_eui48__mac_bare = pinned_struct_strategy_eui48__mac_bare /\
  filter (keep drop_strategy_eui48__mac_pgsql) gen_struct_strategy_eui48__mac_pgsql = pinned_struct_strategy_eui48__mac_pgsql /\
  filter (keep drop_strategy_eui48__valid_str) gen_struct_strategy_eui48__valid_str = pinned_struct_strategy_eui48__valid_str /\
  filter (keep drop_strategy_eui48__str_to_int) gen_struct_strategy_eui48__str_to_int = pinned_struct_strategy_eui48__str_to_int /\
  filter (keep drop_strategy_eui48__int_to_str) gen_struct_strategy_eui48__int_to_str = pinned_struct_strategy_eui48__int_to_str /\
  filter (keep drop_strategy_eui48__int_to_packed) gen_struct_strategy_eui48__int_to_packed = pinned_struct_strategy_eui48__int_to_packed /\
  filter (keep drop_strategy_eui48__packed_to_int) gen_struct_strategy_eui48__packed_to_int = pinned_struct_strategy_eui48__packed_to_int /\
  filter (keep drop_strategy_eui48__valid_words) gen_struct_strategy_eui48__valid_words = pinned_struct_strategy_eui48__valid_words /\
  filter (keep drop_strategy_eui48__int_to_words) gen_struct_strategy_eui48__int_to_words = pinned_struct_strategy_eui48__int_to_words /\
  filter (keep drop_strategy_eui48__words_to_int) gen_struct_strategy_eui48__words_to_int = pinned_struct_strategy_eui48__words_to_int /\
  filter (keep drop_strategy_eui48__valid_bits) gen_struct_strategy_eui48__valid_bits = pinned_struct_strategy_eui48__valid_bits /\
  filter (keep drop_strategy_eui48__bits_to_int) gen_struct_strategy_eui48__bits_to_int = pinned_struct_strategy_eui48__bits_to_int /\
  filter (keep drop_strategy_eui48__int_to_bits) gen_struct_strategy_eui48__int_to_bits = pinned_struct_strategy_eui48__int_to_bits /\
  filter (keep drop_strategy_eui48__valid_bin) gen_struct_strategy_eui48__valid_bin = pinned_struct_strategy_eui48__valid_bin /\
  filter (keep drop_strategy_eui48__int_to_bin) gen_struct_strategy_eui48__int_to_bin = pinned_struct_strategy_eui48__int_to_bin /\
  filter (keep drop_strategy_eui48__bin_to_int) gen_struct_strategy_eui48__bin_to_int = pinned_struct_strategy_eui48__bin_to_int /\
  gen_names_strategy_eui64 = ["eui64_base"; "eui64_unix"; "eui64_unix_expanded"; "eui64_cisco"; "eui64_bare"; "_get_match_result"; "valid_str"; "str_to_int"; "int_to_str"; "int_to_packed"; "packed_to_int"; "valid_words"; "int_to_words"; "words_to_int"; "valid_bits"; "bits_to_int"; "int_to_bits"; "valid_bin"; "int_to_bin"; "bin_to_int"] /\
  filter (keep drop_strategy_eui64__eui64_base) gen_struct_strategy_eui64__eui64_base = pinned_struct_strategy_eui64__eui64_base /\
  filter (keep drop_strategy_eui64__eui64_unix) gen_struct_strategy_eui64__eui64_unix = pinned_struct_strategy_eui64__eui64_unix /\
  filter (keep drop_strategy_eui64__eui64_unix_expanded) gen_struct_strategy_eui64__eui64_unix_expanded = pinned_struct_strategy_eui64__eui64_unix_expanded /\
  filter (keep drop_strategy_eui64__eui64_cisco) gen_struct_strategy_eui64__eui64_cisco = pinned_struct_strategy_eui64__eui64_cisco /\
  filter (keep drop_strategy_eui64__eui64_bare) gen_struct_strategy_eui64__eui64_bare = pinned_struct_strategy_eui64__eui64_bare /\
  filter (keep drop_strategy_eui64___get_match_result) gen_struct_strategy_eui64___get_match_result = pinned_struct_strategy_eui64___get_match_result /\
  filter (keep drop_strategy_eui64__valid_str) gen_struct_strategy_eui64__valid_str = pinned_struct_strategy_eui64__valid_str /\
  filter (keep drop_strategy_eui64__str_to_int) gen_struct_strategy_eui64__str_to_int = pinned_struct_strategy_eui64__str_to_int /\
  filter (keep drop_strategy_eui64__int_to_str) gen_struct_strategy_eui64__int_to_str = pinned_struct_strategy_eui64__int_to_str /\
  filter (keep drop_strategy_eui64__int_to_packed) gen_struct_strategy_eui64__int_to_packed = pinned_struct_strategy_eui64__int_to_packed /\
  filter (keep drop_strategy_eui64__packed_to_int) gen_struct_strategy_eui64__packed_to_int = pinned_struct_strategy_eui64__packed_to_int /\
  filter (keep drop_strategy_eui64__valid_words) gen_struct_strategy_eui64__valid_words = pinned_struct_strategy_eui64__valid_words /\
  filter (keep drop_strategy_eui64__int_to_words) gen_struct_strategy_eui64__int_to_words = pinned_struct_strategy_eui64__int_to_words /\
  filter (keep drop_strategy_eui64__words_to_int) gen_struct_strategy_eui64__words_to_int = pinned_struct_strategy_eui64__words_to_int /\
  filter (keep drop_strategy_eui64__valid_bits) gen_struct_strategy_eui64__valid_bits = pinned_struct_strategy_eui64__valid_bits /\
  filter (keep drop_strategy_eui64__bits_to_int) gen_struct_strategy_eui64__bits_to_int = pinned_struct_strategy_eui64__bits_to_int /\
  filter (keep drop_strategy_eui64__int_to_bits) gen_struct_strategy_eui64__int_to_bits = pinned_struct_strategy_eui64__int_to_bits /\
  filter (keep drop_strategy_eui64__valid_bin) gen_struct_strategy_eui64__valid_bin = pinned_struct_strategy_eui64__valid_bin /\
  filter (keep drop_strategy_eui64__int_to_bin) gen_struct_strategy_eui64__int_to_bin = pinned_struct_strategy_eui64__int_to_bin /\
  filter (keep drop_strategy_eui64__bin_to_int) gen_struct_strategy_eui64__bin_to_int = pinned_struct_strategy_eui64__bin_to_int /\
  gen_names_strategy_ipv4 = ["valid_str"; "str_to_int"; "int_to_str"; "int_to_arpa"; "int_to_packed"; "packed_to_int"; "valid_words"; "int_to_words"; "words_to_int"; "valid_bits"; "bits_to_int"; "int_to_bits"; "valid_bin"; "int_to_bin"; "bin_to_int"; "expand_partial_address"] /\
  filter (keep drop_strategy_ipv4__valid_str) gen_struct_strategy_ipv4__valid_str = pinned_struct_strategy_ipv4__valid_str /\
  filter (keep drop_strategy_ipv4__str_to_int) gen_struct_strategy_ipv4__str_to_int = pinned_struct_strategy_ipv4__str_to_int /\
  filter (keep drop_strategy_ipv4__int_to_str) gen_struct_strategy_ipv4__int_to_str = pinned_struct_strategy_ipv4__int_to_str /\
  filter (keep drop_strategy_ipv4__int_to_arpa) gen_struct_strategy_ipv4__int_to_arpa = pinned_struct_strategy_ipv4__int_to_arpa /\
  filter (keep drop_strategy_ipv4__int_to_packed) gen_struct_strategy_ipv4__int_to_packed = pinned_struct_strategy_ipv4__int_to_packed /\
  filter (keep drop_strategy_ipv4__packed_to_int) gen_struct_strategy_ipv4__packed_to_int = pinned_struct_strategy_ipv4__packed_to_int /\
  filter (keep drop_strategy_ipv4__valid_words) gen_struct_strategy_ipv4__valid_words = pinned_struct_strategy_ipv4__valid_words /\
  filter (keep drop_strategy_ipv4__int_to_words) gen_struct_strategy_ipv4__int_to_words = pinned_struct_strategy_ipv4__int_to_words /\
  filter (keep drop_strategy_ipv4__words_to_int) gen_struct_strategy_ipv4__words_to_int = pinned_struct_strategy_ipv4__words_to_int /\
  filter (keep drop_strategy_ipv4__valid_bits) gen_struct_strategy_ipv4__valid_bits = pinned_struct_strategy_ipv4__valid_bits /\
  filter (keep drop_strategy_ipv4__bits_to_int) gen_struct_strategy_ipv4__bits_to_int = pinned_struct_strategy_ipv4__bits_to_int /\
  filter (keep drop_strategy_ipv4__int_to_bits) gen_struct_strategy_ipv4__int_to_bits = pinned_struct_strategy_ipv4__int_to_bits /\
  filter (keep drop_strategy_ipv4__valid_bin) gen_struct_strategy_ipv4__valid_bin = pinned_struct_strategy_ipv4__valid_bin /\
  filter (keep drop_strategy_ipv4__int_to_bin) gen_struct_strategy_ipv4__int_to_bin = pinned_struct_strategy_ipv4__int_to_bin /\
  filter (keep drop_strategy_ipv4__bin_to_int) gen_struct_strategy_ipv4__bin_to_int = pinned_struct_strategy_ipv4__bin_to_int /\
  filter (keep drop_strategy_ipv4__expand_partial_address) gen_struct_strategy_ipv4__expand_partial_address = pinned_struct_strategy_ipv4__expand_partial_address /\
  gen_names_strategy_ipv6 = ["ipv6_compact"; "ipv6_full"; "ipv6_verbose"; "valid_str"; "str_to_int"; "int_to_str"; "int_to_arpa"; "int_to_packed"; "packed_to_int"; "valid_words"; "int_to_words"; "words_to_int"; "valid_bits"; "bits_to_int"; "int_to_bits"; "valid_bin"; "int_to_bin"; "bin_to_int"] /\
  filter (keep drop_strategy_ipv6__ipv6_compact) gen_struct_strategy_ipv6__ipv6_compact = pinned_struct_strategy_ipv6__ipv6_compact /\
  filter (keep drop_strategy_ipv6__ipv6_full) gen_struct_strategy_ipv6__ipv6_full = pinned_struct_strategy_ipv6__ipv6_full /\
  filter (keep drop_strategy_ipv6__ipv6_verbose) gen_struct_strategy_ipv6__ipv6_verbose = pinned_struct_strategy_ipv6__ipv6_verbose /\
  filter (keep drop_strategy_ipv6__valid_str) gen_struct_strategy_ipv6__valid_str = pinned_struct_strategy_ipv6__valid_str /\
  filter (keep drop_strategy_ipv6__str_to_int) gen_struct_strategy_ipv6__str_to_int = pinned_struct_strategy_ipv6__str_to_int /\
  filter (keep drop_strategy_ipv6__int_to_str) gen_struct_strategy_ipv6__int_to_str = pinned_struct_strategy_ipv6__int_to_str /\
  filter (keep drop_strategy_ipv6__int_to_arpa) gen_struct_strategy_ipv6__int_to_arpa = pinned_struct_strategy_ipv6__int_to_arpa /\
  filter (keep drop_strategy_ipv6__int_to_packed) gen_struct_strategy_ipv6__int_to_packed = pinned_struct_strategy_ipv6__int_to_packed /\
  filter (keep drop_strategy_ipv6__packed_to_int) gen_struct_strategy_ipv6__packed_to_int = pinned_struct_strategy_ipv6__packed_to_int /\
  filter (keep drop_strategy_ipv6__valid_words) gen_struct_strategy_ipv6__valid_words = pinned_struct_strategy_ipv6__valid_words /\
  filter (keep drop_strategy_ipv6__int_to_words) gen_struct_strategy_ipv6__int_to_words = pinned_struct_strategy_ipv6__int_to_words /\
  filter (keep drop_strategy_ipv6__words_to_int) gen_struct_strategy_ipv6__words_to_int = pinned_struct_strategy_ipv6__words_to_int /\
  filter (keep drop_strategy_ipv6__valid_bits) gen_struct_strategy_ipv6__valid_bits = pinned_struct_strategy_ipv6__valid_bits /\
  filter (keep drop_strategy_ipv6__bits_to_int) gen_struct_strategy_ipv6__bits_to_int = pinned_struct_strategy_ipv6__bits_to_int /\
  filter (keep drop_strategy_ipv6__int_to_bits) gen_struct_strategy_ipv6__int_to_bits = pinned_struct_strategy_ipv6__int_to_bits /\
  filter (keep drop_strategy_ipv6__valid_bin) gen_struct_strategy_ipv6__valid_bin = pinned_struct_strategy_ipv6__valid_bin /\
  filter (keep drop_strategy_ipv6__int_to_bin) gen_struct_strategy_ipv6__int_to_bin = pinned_struct_strategy_ipv6__int_to_bin /\
  filter (keep drop_strategy_ipv6__bin_to_int) gen_struct_strategy_ipv6__bin_to_int = pinned_struct_strategy_ipv6__bin_to_int.
Proof. exact (conj names_compat_ok (conj struct_compat___bytes_join_ok (conj struct_compat___zip_ok (conj struct_compat___range_ok (conj struct_compat___iter_next_ok (conj struct_eui_init__BaseIdentifier_ok (conj struct_eui_init__EUI_ok (conj struct_ip_init__BaseIP_ok (conj struct_ip_init__IPAddress_ok (conj struct_ip_init___arg_repr_ok (conj names_ip_rfc1924_ok (conj struct_ip_rfc1924__chr_range_ok (conj struct_ip_rfc1924__ipv6_to_base85_ok (conj struct_ip_rfc1924__base85_to_ipv6_ok (conj names_strategy_init_ok (conj struct_strategy_init__bytes_to_bits_ok (conj struct_strategy_init__valid_words_ok (conj struct_strategy_init__int_to_words_ok (conj struct_strategy_init__words_to_int_ok (conj struct_strategy_init__valid_bits_ok (conj struct_strategy_init__bits_to_int_ok (conj struct_strategy_init__int_to_bits_ok (conj struct_strategy_init__valid_bin_ok (conj struct_strategy_init__int_to_bin_ok (conj struct_strategy_init__bin_to_int_ok (conj names_strategy_eui48_ok (conj struct_strategy_eui48__mac_eui48_ok (conj struct_strategy_eui48__mac_unix_ok (conj struct_strategy_eui48__mac_unix_expanded_ok (conj struct_strategy_eui48__mac_cisco_ok (conj struct_strategy_eui48__mac_bare_ok (conj struct_strategy_eui48__mac_pgsql_ok (conj struct_strategy_eui48__valid_str_ok (conj struct_strategy_eui48__str_to_int_ok (conj struct_strategy_eui48__int_to_str_ok (conj struct_strategy_eui48__int_to_packed_ok (conj struct_strategy_eui48__packed_to_int_ok (conj struct_strategy_eui48__valid_words_ok (conj struct_strategy_eui48__int_to_words_ok (conj struct_strategy_eui48__words_to_int_ok (conj struct_strategy_eui48__valid_bits_ok (conj struct_strategy_eui48__bits_to_int_ok (conj struct_strategy_eui48__int_to_bits_ok (conj struct_strategy_eui48__valid_bin_ok (conj struct_strategy_eui48__int_to_bin_ok (conj struct_strategy_eui48__bin_to_int_ok (conj names_strategy_eui64_ok (conj struct_strategy_eui64__eui64_base_ok (conj struct_strategy_eui64__eui64_unix_ok (conj struct_strategy_eui64__eui64_unix_expanded_ok (conj struct_strategy_eui64__eui64_cisco_ok (conj struct_strategy_eui64__eui64_bare_ok (conj struct_strategy_eui64___get_match_result_ok (conj struct_strategy_eui64__valid_str_ok (conj struct_strategy_eui64__str_to_int_ok (conj struct_strategy_eui64__int_to_str_ok (conj struct_strategy_eui64__int_to_packed_ok (conj struct_strategy_eui64__packed_to_int_ok (conj struct_strategy_eui64__valid_words_ok (conj struct_strategy_eui64__int_to_words_ok (conj struct_strategy_eui64__words_to_int_ok (conj struct_strategy_eui64__valid_bits_ok (conj struct_strategy_eui64__bits_to_int_ok (conj struct_strategy_eui64__int_to_bits_ok (conj struct_strategy_eui64__valid_bin_ok (conj struct_strategy_eui64__int_to_bin_ok (conj struct_strategy_eui64__bin_to_int_ok (conj names_strategy_ipv4_ok (conj struct_strategy_ipv4__valid_str_ok (conj struct_strategy_ipv4__str_to_int_ok (conj struct_strategy_ipv4__int_to_str_ok (conj struct_strategy_ipv4__int_to_arpa_ok (conj struct_strategy_ipv4__int_to_packed_ok (conj struct_strategy_ipv4__packed_to_int_ok (conj struct_strategy_ipv4__valid_words_ok (conj struct_strategy_ipv4__int_to_words_ok (conj struct_strategy_ipv4__words_to_int_ok (conj struct_strategy_ipv4__valid_bits_ok (conj struct_strategy_ipv4__bits_to_int_ok (conj struct_strategy_ipv4__int_to_bits_ok (conj struct_strategy_ipv4__valid_bin_ok (conj struct_strategy_ipv4__int_to_bin_ok (conj struct_strategy_ipv4__bin_to_int_ok (conj struct_strategy_ipv4__expand_partial_address_ok (conj names_strategy_ipv6_ok (conj struct_strategy_ipv6__ipv6_compact_ok (conj struct_strategy_ipv6__ipv6_full_ok (conj struct_strategy_ipv6__ipv6_verbose_ok (conj struct_strategy_ipv6__valid_str_ok (conj struct_strategy_ipv6__str_to_int_ok (conj struct_strategy_ipv6__int_to_str_ok (conj struct_strategy_ipv6__int_to_arpa_ok (conj struct_strategy_ipv6__int_to_packed_ok (conj struct_strategy_ipv6__packed_to_int_ok (conj struct_strategy_ipv6__valid_words_ok (conj struct_strategy_ipv6__int_to_words_ok (conj struct_strategy_ipv6__words_to_int_ok (conj struct_strategy_ipv6__valid_bits_ok (conj struct_strategy_ipv6__bits_to_int_ok (conj struct_strategy_ipv6__int_to_bits_ok (conj struct_strategy_ipv6__valid_bin_ok (conj struct_strategy_ipv6__int_to_bin_ok struct_strategy_ipv6__bin_to_int_ok)))))))))))))))))))))))))))))))))))))))))))))))))))))))))))))))))))))))))))))))))))))))))))))))))))))). Qed.
Print Assumptions C15_structure_tie.
