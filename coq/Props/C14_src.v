(* Props/C14_src.v — source tie for C14: the Gallina definitions that harness/gen/pysrc.py regenerates on every run from
   the CURRENT text of IPAddress's arithmetic (__iadd__ __isub__ __add__ __sub__ __rsub__), bitwise (__or__ __and__ __xor__ __lshift__ __rshift__) and view (__int__ __index__ __nonzero__) methods
   (coq/Gen/pysrc_gen.v) are equal to the hand-written model functions that the theorems of Props/C14.v are about.
   A source edit that changes one of these methods changes the generated term and this theorem stops compiling.
   Nothing but the statement closed by `exact`, followed by Print Assumptions. *)
From NV Require Import Base.Tac Base.PyVal Model.Ip Model.AddrOps Model.SrcPrelude Gen.pysrc_gen Proofs.GenOk_Src_C14.
Open Scope Z_scope.

Theorem C14_source_tie :
  (forall ver w v n,
     src_IPAddress_iadd ver w v n = addr_iadd w v n /\
     src_IPAddress_isub ver w v n = addr_isub w v n /\
     src_IPAddress_lshift ver w v n = obj_lshift ver v n /\
     src_IPAddress_rshift ver w v n = obj_rshift ver v n /\
     src_IPAddress_int ver w v = view_int v /\
     src_IPAddress_index ver w v = view_index v /\
     src_IPAddress_nonzero ver w v = view_bool v) /\
  (forall ver w v o,
     src_IPAddress_or ver w v (operand_int o) = obj_or ver v o /\
     src_IPAddress_and ver w v (operand_int o) = obj_and ver v o /\
     src_IPAddress_xor ver w v (operand_int o) = obj_xor ver v o) /\
  (forall ver v n,
     inplace ver v (src_IPAddress_iadd ver (width ver) v n) = obj_iadd ver v n /\
     inplace ver v (src_IPAddress_isub ver (width ver) v n) = obj_isub ver v n /\
     src_IPAddress_add ver (width ver) v n = obj_add ver v n /\
     src_IPAddress_sub ver (width ver) v n = obj_sub ver v n /\
     src_IPAddress_rsub ver (width ver) v n = obj_rsub ver v n) /\
  (forall ver v n, valid_ver ver = true ->
     let w := width ver in
     omap snd (src_IPAddress_add ver w v n) = addr_add w v n /\
     omap snd (src_IPAddress_sub ver w v n) = addr_sub w v n /\
     omap snd (src_IPAddress_rsub ver w v n) = addr_rsub w v n /\
     omap snd (src_IPAddress_or ver w v n) = addr_or w v n /\
     omap snd (src_IPAddress_and ver w v n) = addr_and w v n /\
     omap snd (src_IPAddress_xor ver w v n) = addr_xor w v n /\
     omap snd (src_IPAddress_lshift ver w v n) = addr_lshift w v n /\
     omap snd (src_IPAddress_rshift ver w v n) = addr_rshift w v n) /\
  (src_ipv4_version = 4 /\ src_ipv6_version = 6 /\
   src_ipv4_width = width src_ipv4_version /\ src_ipv6_width = width src_ipv6_version /\
   src_ipv4_max_int = max_int_w src_ipv4_width /\ src_ipv6_max_int = max_int_w src_ipv6_width /\
   src_ipv4_max_int = max_int 4 /\ src_ipv6_max_int = max_int 6).
Proof. exact C14_tie_ok. Qed.
Print Assumptions C14_source_tie.
