(* Props/C16_code.v — property C16, CODE-LEVEL: the theorems of Props/C16.v stated directly about the definitions that
   harness/gen/pysrc.py regenerates on every run from the CURRENT text of netaddr/ip/__init__.py (Gen/pysrc_gen.v):
     src_BaseIP_is_ipv4_mapped, src_BaseIP_is_ipv4_compat      (ver w v)
     src_IPAddress_ipv4 (ver w v), src_IPAddress_ipv6 (ver w v c)      : outcome (option (version, value))
     src_IPNetwork_ipv6 (ver w v p c)                                  : outcome (option net)
     src_IPNetwork_first / _last (the two /96 blocks of C16_recognise)
   A source edit that changes one of them changes the generated term and these theorems stop compiling (with C16_source_tie).
   The conversion methods `return ip` where ip stays None unless one of the two version branches ran, hence the `option`;
   the theorems say the answer is `Some ..` for versions 4 and 6.  The width parameter w is not read by these methods; the
   theorems hold for every w.  code_addr_v6_then_v4 / code_addr_v4_then_v6 (Proofs/Code_C16.v) compose the generated
   ipv6 / ipv4 of IPAddress (x.ipv6(c).ipv4(), y.ipv4().ipv6(c)).
   Hypotheses: those of Props/C16.v; the tie adds nothing (versions are the literals 4 and 6).
   Clauses still about the model: IPNetwork.ipv4 is NOT translated (its model abstracts the text round trip
   `klass('%s/%d' % (self.ip, prefixlen))`).  Therefore
     * C16_refuse_net, C16_ipv4_sound_net and the first clause of C16_identity_net (all about net_ipv4 alone) are not
       repeated here;
     * the network round trips (C16_roundtrip_net_mixed, C16_roundtrip_back_net_mixed) compose the GENERATED
       src_IPNetwork_ipv6 with the MODEL's Conv.net_ipv4 (mixed_net_v6_then_v4 / mixed_net_v4_then_v6) and are named
       `_mixed` instead of `_of_source`.
   Nothing but statements closed by `exact`, each followed by Print Assumptions. *)
From NV Require Import Base.Tac Base.PyVal Base.Bits Model.Ip Model.Conv Gen.pysrc_gen Proofs.Code_C16.
Open Scope Z_scope.

(* embed: every IPv4 address a maps to ::ffff:a (default) or ::a (ipv4_compatible=True) *)
Theorem C16_embed_addr_of_source : forall w a, 0 <= a < 2 ^ 32 ->
  src_IPAddress_ipv6 4 w a false = Ok (Some (6, 0xffff00000000 + a)) /\
  src_IPAddress_ipv6 4 w a true = Ok (Some (6, a)) /\
  (0xffff00000000 + a) mod 2 ^ 32 = a /\ a mod 2 ^ 32 = a /\
  Z.land (0xffff00000000 + a) 0xffffffff = a /\ Z.land a 0xffffffff = a /\
  src_BaseIP_is_ipv4_mapped 6 128 (0xffff00000000 + a) = true /\ src_BaseIP_is_ipv4_compat 6 128 a = true.
Proof. exact code_embed_addr. Qed.
Print Assumptions C16_embed_addr_of_source.

Theorem C16_embed_net_of_source : forall w a p, 0 <= a < 2 ^ 32 -> 0 <= p <= 32 ->
  src_IPNetwork_ipv6 4 w a p false = Ok (Some {| nver := 6; nval := 0xffff00000000 + a; nplen := p + 96 |}) /\
  src_IPNetwork_ipv6 4 w a p true = Ok (Some {| nver := 6; nval := a; nplen := p + 96 |}).
Proof. exact code_embed_net. Qed.
Print Assumptions C16_embed_net_of_source.

(* recognise: the predicates hold exactly on ::ffff:0:0/96 and ::/96, for every integer v; never on an IPv4 object *)
Theorem C16_recognise_of_source : forall w,
  (forall v, src_BaseIP_is_ipv4_mapped 6 w v = true <-> 0xffff00000000 <= v <= 0xffffffffffff) /\
  (forall v, src_BaseIP_is_ipv4_compat 6 w v = true <-> 0 <= v <= 0xffffffff) /\
  (forall v, src_BaseIP_is_ipv4_mapped 6 w v = true <->
             src_IPNetwork_first 6 128 0xffff00000000 96 <= v <= src_IPNetwork_last 6 128 0xffff00000000 96) /\
  (forall v, src_BaseIP_is_ipv4_compat 6 w v = true <->
             src_IPNetwork_first 6 128 0 96 <= v <= src_IPNetwork_last 6 128 0 96) /\
  (forall v, src_BaseIP_is_ipv4_mapped 4 w v = false /\ src_BaseIP_is_ipv4_compat 4 w v = false) /\
  (forall v, src_BaseIP_is_ipv4_mapped 6 w v = true -> src_BaseIP_is_ipv4_compat 6 w v = true -> False).
Proof. exact code_recognise. Qed.
Print Assumptions C16_recognise_of_source.

(* roundtrip: x.ipv6(c).ipv4() = x for both embeddings c *)
Theorem C16_roundtrip_addr_of_source : forall a c, 0 <= a < 2 ^ 32 -> code_addr_v6_then_v4 4 a c = Ok (Some (4, a)).
Proof. exact code_roundtrip_addr. Qed.
Print Assumptions C16_roundtrip_addr_of_source.

(* networks: generated ipv6, then the model's ipv4 *)
Theorem C16_roundtrip_net_mixed : forall a p c, 0 <= a < 2 ^ 32 -> 0 <= p <= 32 ->
  mixed_net_v6_then_v4 4 a p c = Ok (Some {| nver := 4; nval := a; nplen := p |}).
Proof. exact code_roundtrip_net. Qed.
Print Assumptions C16_roundtrip_net_mixed.

(* lossless in the other direction too: y.ipv4().ipv6(kind of y's block) = y *)
Theorem C16_roundtrip_back_addr_of_source : forall w v,
  (src_BaseIP_is_ipv4_mapped 6 w v = true -> code_addr_v4_then_v6 6 v false = Ok (Some (6, v))) /\
  (src_BaseIP_is_ipv4_compat 6 w v = true -> code_addr_v4_then_v6 6 v true = Ok (Some (6, v))).
Proof. exact code_roundtrip_back_addr. Qed.
Print Assumptions C16_roundtrip_back_addr_of_source.

(* networks: the model's ipv4, then the generated ipv6 *)
Theorem C16_roundtrip_back_net_mixed : forall w v p, 96 <= p <= 128 ->
  (src_BaseIP_is_ipv4_mapped 6 w v = true ->
     mixed_net_v4_then_v6 6 v p false = Ok (Some {| nver := 6; nval := v; nplen := p |})) /\
  (src_BaseIP_is_ipv4_compat 6 w v = true ->
     mixed_net_v4_then_v6 6 v p true = Ok (Some {| nver := 6; nval := v; nplen := p |})).
Proof. exact code_roundtrip_back_net. Qed.
Print Assumptions C16_roundtrip_back_net_mixed.

(* identity: v4.ipv4() and v6.ipv6() return the object; v6.ipv6(ipv4_compatible=True) rewrites exactly the IPv4-mapped
   block to the IPv4-compatible one and nothing else *)
Theorem C16_identity_addr_of_source : forall w,
  (forall a, 0 <= a < 2 ^ 32 -> src_IPAddress_ipv4 4 w a = Ok (Some (4, a))) /\
  (forall v, 0 <= v < 2 ^ 128 -> src_IPAddress_ipv6 6 w v false = Ok (Some (6, v))) /\
  (forall v, 0 <= v < 2 ^ 128 ->
     src_IPAddress_ipv6 6 w v true = Ok (Some (6, if src_BaseIP_is_ipv4_mapped 6 w v then v - 0xffff00000000 else v))).
Proof. exact code_identity_addr. Qed.
Print Assumptions C16_identity_addr_of_source.

Theorem C16_identity_net_of_source : forall w,
  (forall v p, 0 <= v < 2 ^ 128 -> 0 <= p <= 128 ->
     src_IPNetwork_ipv6 6 w v p false = Ok (Some {| nver := 6; nval := v; nplen := p |})) /\
  (forall v p, 0 <= v < 2 ^ 128 -> 0 <= p <= 128 ->
     src_IPNetwork_ipv6 6 w v p true =
       Ok (Some {| nver := 6; nval := if src_BaseIP_is_ipv4_mapped 6 w v then v - 0xffff00000000 else v; nplen := p |})).
Proof. exact code_identity_net. Qed.
Print Assumptions C16_identity_net_of_source.

(* refuse: an IPv6 value outside both /96 blocks raises exactly AddrConversionError (any integer v) *)
Theorem C16_refuse_addr_of_source : forall w v,
  ~ (0 <= v <= 0xffffffff) -> ~ (0xffff00000000 <= v <= 0xffffffffffff) ->
  src_IPAddress_ipv4 6 w v = Raise AddrConversionError.
Proof. exact code_refuse_addr. Qed.
Print Assumptions C16_refuse_addr_of_source.

(* never a wrong address: whenever ipv4() on an IPv6 address answers at all, the answer is the version-4 object with the
   low 32 bits, and the input was in one of the blocks *)
Theorem C16_ipv4_sound_addr_of_source : forall w v y, src_IPAddress_ipv4 6 w v = Ok y ->
  y = Some (4, v mod 2 ^ 32) /\ (src_BaseIP_is_ipv4_mapped 6 w v = true \/ src_BaseIP_is_ipv4_compat 6 w v = true).
Proof. exact code_ipv4_sound_addr. Qed.
Print Assumptions C16_ipv4_sound_addr_of_source.

(* non-vacuity: 192.0.2.1/23 -> ::ffff:192.0.2.1/119, 192.0.2.1 -> ::ffff:192.0.2.1 -> 192.0.2.1, and the F-15 address
   witness is refused properly, all on the generated definitions *)
Example C16_code_nonvacuous :
  src_IPNetwork_ipv6 4 32 0xc0000201 23 false = Ok (Some {| nver := 6; nval := 0xffffc0000201; nplen := 119 |}) /\
  code_addr_v6_then_v4 4 0xc0000201 false = Ok (Some (4, 0xc0000201)) /\
  src_IPAddress_ipv4 6 128 0x100000000 = Raise AddrConversionError.
Proof. repeat split; vm_compute; reflexivity. Qed.
