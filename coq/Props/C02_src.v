(* Props/C02_src.v — source tie for C02: the Gallina definitions that harness/gen/pysrc.py regenerates on every run from
   the CURRENT text of IPNetwork's attribute properties, IPAddress.is_hostmask / is_netmask / netmask_bits (with its `while`
   loop, a generated Fixpoint on fuel) and the setters _set_value / _set_prefixlen
   (coq/Gen/pysrc_gen.v) are equal to the hand-written model functions that the theorems of Props/C02.v are about.
   A source edit that changes one of these methods changes the generated term and this theorem stops compiling.
   Nothing but the statement closed by `exact`, followed by Print Assumptions. *)
From NV Require Import Base.Tac Base.PyVal Model.Ip Model.SrcPrelude Gen.pysrc_gen Proofs.GenOk_Src_C02.
Open Scope Z_scope.

Theorem C02_source_tie :
  (forall ver w v, src_IPAddress_netmask_bits ver w v = netmask_bits w v) /\
  (forall fuel numbits i_val,
     src_IPAddress_netmask_bits_loop1 fuel numbits i_val =
       match nb_loop fuel i_val numbits with None => Raise OutOfFuel | Some n => Ok n end) /\
  (forall ver w v p,
     src_IPNetwork_hostmask_int ver w v p = hostmask_int w p /\
     src_IPNetwork_netmask_int ver w v p = netmask_int w p /\
     src_IPNetwork_first ver w v p = net_first w v p /\
     src_IPNetwork_last ver w v p = net_last w v p /\
     src_IPNetwork_size ver w v p = net_size w v p /\
     src_IPNetwork_network ver w v p = mk_addr ver (net_network w v p) /\
     src_IPNetwork_netmask ver w v p = mk_addr ver (net_netmask w p) /\
     src_IPNetwork_hostmask ver w v p = mk_addr ver (net_hostmask w p) /\
     src_IPNetwork_ip ver w v p = mk_addr ver (net_ip v) /\
     src_IPNetwork_cidr ver w v p = mk_net ver (fst (net_cidr w v p)) (snd (net_cidr w v p))) /\
  (forall ver v p,
     src_IPNetwork_broadcast ver (width ver) v p =
       match net_broadcast ver v p with None => Ok None | Some b => omap Some (mk_addr ver b) end) /\
  (forall ver w v, src_IPAddress_is_hostmask ver w v = is_hostmask v /\ src_IPAddress_is_netmask ver w v = is_netmask w v) /\
  (forall n a,
     omap (fun z => {| nver := nver n; nval := z; nplen := nplen n |})
          (src_BaseIP_set_value (nver n) (width (nver n)) (nval n) a) = set_value n a /\
     omap (fun z => {| nver := nver n; nval := nval n; nplen := z |})
          (src_IPNetwork_set_prefixlen (nver n) (width (nver n)) (nval n) (nplen n) a) = set_prefixlen n a) /\
  (forall ver v p, valid_ver ver = true -> 0 <= p <= width ver -> 0 <= v < 2 ^ width ver ->
     let w := width ver in
     src_IPNetwork_network ver w v p = Ok (ver, net_network w v p) /\
     src_IPNetwork_netmask ver w v p = Ok (ver, net_netmask w p) /\
     src_IPNetwork_hostmask ver w v p = Ok (ver, net_hostmask w p) /\
     src_IPNetwork_ip ver w v p = Ok (ver, net_ip v) /\
     src_IPNetwork_broadcast ver w v p = Ok (option_map (fun b => (ver, b)) (net_broadcast ver v p)) /\
     src_IPNetwork_cidr ver w v p = Ok {| nver := ver; nval := fst (net_cidr w v p); nplen := snd (net_cidr w v p) |}) /\
  (src_ipv4_version = 4 /\ src_ipv6_version = 6 /\
   src_ipv4_width = width src_ipv4_version /\ src_ipv6_width = width src_ipv6_version /\
   src_ipv4_max_int = max_int_w src_ipv4_width /\ src_ipv6_max_int = max_int_w src_ipv6_width /\
   src_ipv4_max_int = max_int 4 /\ src_ipv6_max_int = max_int 6).
Proof. exact C02_tie_ok. Qed.
Print Assumptions C02_source_tie.
