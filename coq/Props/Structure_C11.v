(* Props/Structure_C11.v -- WRITTEN BY tools/mkstructure.py.  Structure tie for C11: the parameter lists (names, order, default values),
   decorators, class bases and non-def class-body statements (aliases, __slots__, property lines, class attributes) of the classes and
   functions this property relies on (harness/gen/structure.py, table RELEVANT) -- and, for files it relies on entirely, the list of
   their top-level names -- regenerated from the working tree on every run, are the ones the models, adapters and translator tables
   were written against.  The source translator reads function BODIES; this covers what is around them.  13 groups, 50 rows.
   Statement closed by `exact`, followed by Print Assumptions. *)
From Coq Require Import List String Bool.
From NV Require Import Gen.structure_gen Proofs.GenOk_Structure_C11.
Import ListNotations.
Open Scope string_scope.

Theorem C11_structure_tie :
  gen_names_compat = ["_bytes_join"; "_zip"; "_range"; "_iter_next"] /\
  filter (keep drop_compat___bytes_join) gen_struct_compat___bytes_join = pinned_struct_compat___bytes_join /\
  filter (keep drop_compat___zip) gen_struct_compat___zip = pinned_struct_compat___zip /\
  filter (keep drop_compat___range) gen_struct_compat___range = pinned_struct_compat___range /\
  filter (keep drop_compat___iter_next) gen_struct_compat___iter_next = pinned_struct_compat___iter_next /\
  filter (keep drop_ip_init__BaseIP) gen_struct_ip_init__BaseIP = pinned_struct_ip_init__BaseIP /\
  filter (keep drop_ip_init__IPAddress) gen_struct_ip_init__IPAddress = pinned_struct_ip_init__IPAddress /\
  filter (keep drop_ip_init__IPNetwork) gen_struct_ip_init__IPNetwork = pinned_struct_ip_init__IPNetwork /\
  filter (keep drop_ip_init__IPListMixin) gen_struct_ip_init__IPListMixin = pinned_struct_ip_init__IPListMixin /\
  filter (keep drop_ip_init__parse_ip_network) gen_struct_ip_init__parse_ip_network = pinned_struct_ip_init__parse_ip_network /\
  filter (keep drop_ip_init___arg_repr) gen_struct_ip_init___arg_repr = pinned_struct_ip_init___arg_repr /\
  filter (keep drop_ip_init__iter_iprange) gen_struct_ip_init__iter_iprange = pinned_struct_ip_init__iter_iprange /\
  filter (keep drop_ip_init__cidr_abbrev_to_verbose) gen_struct_ip_init__cidr_abbrev_to_verbose = pinned_struct_ip_init__cidr_abbrev_to_verbose.
Proof. exact (conj names_compat_ok (conj struct_compat___bytes_join_ok (conj struct_compat___zip_ok (conj struct_compat___range_ok (conj struct_compat___iter_next_ok (conj struct_ip_init__BaseIP_ok (conj struct_ip_init__IPAddress_ok (conj struct_ip_init__IPNetwork_ok (conj struct_ip_init__IPListMixin_ok (conj struct_ip_init__parse_ip_network_ok (conj struct_ip_init___arg_repr_ok (conj struct_ip_init__iter_iprange_ok struct_ip_init__cidr_abbrev_to_verbose_ok)))))))))))). Qed.
Print Assumptions C11_structure_tie.
