(* Props/C10_src_iter.v -- source tie for C10, second part: the Gallina definitions that harness/gen/pysrc.py regenerates on
   every run from the CURRENT text of the generator iter_iprange and of IPListMixin.__iter__ / __nonzero__ (receiver classes
   IPNetwork and IPRange; coq/Gen/pysrc_iter_gen.v) are equal to the hand-written model of Model/ListLike.v that the theorems
   of Props/C10.v are about.
   A generator function is the function from its arguments to what a consumer can observe of it: iter_iprange is translated
   into its prologue (src_iter_iprange_start: TypeError for two families, ValueError for step 0, else the locals (step,
   negative_step, index, stop, version) its `while True` loop starts with) and one resumption (src_iter_iprange_next: None at
   a `break`, else the yielded IPAddress object and the next state); iter_iprange_src_take pulls at most `fuel` elements out
   of these two pieces (gen_observe) the way the model's it_take pulls them out of an iterator, and is EQUAL to the model's
   iter_iprange_take (first conjunct; second: the loop alone, for any state; third: the same for the iterator values ItEmpty /
   ItIprange that __iter__, __getitem__ and iter_hosts return).  __iter__ returns the not yet started generator
   iter_iprange(IPAddress(first), IPAddress(last)) = the model's r_iter; __nonzero__ is True.  No hypothesis anywhere.
   A source edit that changes iter_iprange / __iter__ (or first / last / IPAddress.__int__ / version, which they read) changes
   the generated term and this theorem stops compiling.
   Nothing but the statement closed by `exact`, followed by Print Assumptions. *)
From NV Require Import Base.Tac Base.PyVal Model.Ip Model.PySlice Model.ListLike Model.SrcPrelude Model.SrcPreludeSRCE
  Gen.pysrc_gen Gen.pysrc_iter_gen Proofs.GenOk_Src_C10_iter.
Import ListNotations.
Open Scope Z_scope.

Theorem C10_source_tie_iter :
  (forall fuel sver sv ever ev step, iter_iprange_src_take fuel sver sv ever ev step = iter_iprange_take fuel sver sv ever ev step) /\
  (forall version step stop neg fuel index,
     iprange_loop fuel version index step stop neg =
       (let '(l, g) := gen_observe iprange_next_src fuel (step, neg, index, stop, version) in (map snd l, g))) /\
  (forall fuel it, it_take_src fuel it = it_take fuel it) /\
  (forall ver v p, src_IPNetwork_iter ver (width ver) v p = r_iter (RNet ver v p)) /\
  (forall ver w s e, src_IPRange_iter ver w s e = r_iter (RRange ver s e)) /\
  (forall w s e, src_IPRange_iter 4 w s e = r_iter (RGlob s e)) /\
  (forall ver w v p s e, src_IPNetwork_nonzero ver w v p = true /\ src_IPRange_nonzero ver w s e = true).
Proof. exact C10_iter_tie_ok. Qed.
Print Assumptions C10_source_tie_iter.

(* the generated generator computes: list(iter_iprange(10.0.0.250, 10.0.0.255, 2)) = .250 .252 .254, exhausted; with the
   steps reversed and step -3: .255 .252; two elements wanted of iter(IPNetwork('10.0.0.77/24')): .0 .1, more to come *)
Example C10_src_iter_nonvacuous :
  iter_iprange_src_take 9 4 167772410 4 167772415 2 = ([167772410; 167772412; 167772414], Done) /\
  iter_iprange_src_take 9 4 167772415 4 167772410 (-3) = ([167772415; 167772412], Done) /\
  iter_iprange_src_take 9 4 1 6 2 1 = ([], Raised TypeError) /\
  (match src_IPNetwork_iter 4 32 167772237 24 with Ok it => it_take_src 2 it | Raise e => ([], Raised e) end)
    = ([167772160; 167772161], More).
Proof. repeat split; vm_compute; reflexivity. Qed.
