(* Props/C10_code.v — property C10, CODE-LEVEL: the theorems of Props/C10.v stated directly about the definitions that
   harness/gen/pysrc.py regenerates on every run from the CURRENT text of netaddr/ip/__init__.py:
     src_IPNetwork_len / _getitem_int / _getitem_slice, src_IPRange_len / _getitem_int / _getitem_slice
                                                   (Gen/pysrc_listlike_gen.v: IPListMixin.__len__ / __getitem__ per receiver)
     src_IPNetwork_iter, src_IPRange_iter, src_IPNetwork_nonzero, src_IPRange_nonzero,
     src_iter_iprange_start / src_iter_iprange_next (Gen/pysrc_iter_gen.v: IPListMixin.__iter__, __nonzero__, the generator
                                                    iter_iprange as prologue + one resumption)
     src_IPNetwork_first / _last / _size, src_IPRange_first / _last / _size        (Gen/pysrc_gen.v)
   A source edit that changes one of them changes the generated term and these theorems stop compiling (with the ties
   C10_source_tie, C10_source_tie_iter).
   The property quantifies over ranged objects x (ListLike.ranged: RNet ver v p | RRange ver s e | RGlob s e = an IPv4
   IPRange built from a glob).  code_r_first / _last / _size / _len / _getitem_int / _getitem_slice / _iter (Proofs/Code_C10.v)
   dispatch on the class of x to the generated method of that receiver class.  An iterator handed out by the code
   (ListLike.iterator: empty, or iter_iprange(start, end, step) not yet started) is observed by it_take_src n: the generated
   prologue of iter_iprange, then its generated resumption pulled at most n times (values of the yielded addresses,
   Done | More | Raised e); iter_iprange_src_take is the same for explicit arguments.
   Hypotheses: exactly those of Props/C10.v (rwf x).  The ties have no hypothesis.
   Clauses still about the model: none of netaddr's functions.  What stays as specification vocabulary: r_addresses x
   (list(x) as the property means it), aseq_take / list_take (observations of a closed form / of a list), and CPython's
   slice.indices, len(range(..)), list indexing and list slicing (PySlice.py_slice_indices, range_len, py_list_index,
   py_list_slice: symbols in the generated code, not netaddr code); the theorems of Props/C10.v about that vocabulary alone
   (C10_wf_geometry, C10_addresses, C10_aseq_take_meaning, C10_range_len, C10_slice_indices, C10_slice_indices_explicit,
   C10_list_slice_total, C10_iprange_count) are not repeated.
   Nothing but statements closed by `exact`, each followed by Print Assumptions. *)
From NV Require Import Base.Tac Base.PyVal Model.Ip Model.PySlice Model.ListLike
  Gen.pysrc_gen Gen.pysrc_listlike_gen Gen.pysrc_iter_gen Proofs.C10 Proofs.GenOk_Src_C10_iter Proofs.Code_C10.
Open Scope Z_scope.

(* the dispatchers read the generated first / last / size, which are the property's first / last / size *)
Theorem C10_geometry_of_source : forall x,
  code_r_first x = r_first x /\ code_r_last x = r_last x /\ code_r_size x = r_size x.
Proof. exact (fun x => conj (code_r_first_eq x) (conj (code_r_last_eq x) (code_r_size_eq x))). Qed.
Print Assumptions C10_geometry_of_source.

(* ---- iteration: yields first + k for 0 <= k < size, ascending, each once, then stops ---- *)
Theorem C10_iter_of_source : forall x, rwf x ->
  exists it, code_r_iter x = Ok it /\
    forall n, it_take_src n it = aseq_take n {| a_start := code_r_first x; a_count := code_r_size x; a_step := 1 |} /\
              it_take_src n it = list_take n (r_addresses x).
Proof. exact code_iter_spec. Qed.
Print Assumptions C10_iter_of_source.

(* ---- size and len ---- *)
Theorem C10_len_of_source : forall x,
  code_r_size x = code_r_last x - code_r_first x + 1 /\
  code_r_len x = if code_r_size x <=? 2 ^ 63 - 1 then Ok (code_r_size x) else Raise IndexError.
Proof. exact code_len_spec. Qed.
Print Assumptions C10_len_of_source.

Theorem C10_net_size_of_source : forall ver v p, rwf (RNet ver v p) ->
  src_IPNetwork_size ver (width ver) v p = 2 ^ (width ver - p).
Proof. exact code_net_size_pow2. Qed.
Print Assumptions C10_net_size_of_source.

(* ---- integer indexing: exactly list indexing ---- *)
Theorem C10_index_of_source : forall x i, rwf x ->
  code_r_getitem_int x i =
    if (- code_r_size x <=? i) && (i <? code_r_size x) then Ok (r_ver x, code_r_first x + i mod code_r_size x)
    else Raise IndexError.
Proof. exact code_index_spec. Qed.
Print Assumptions C10_index_of_source.

Theorem C10_index_list_of_source : forall x i, rwf x ->
  code_r_getitem_int x i = omap (fun a => (r_ver x, a)) (py_list_index (r_addresses x) i).
Proof. exact code_index_list. Qed.
Print Assumptions C10_index_list_of_source.

(* ---- IPv4 slicing ---- *)
Theorem C10_slice_of_source : forall x a b c, rwf x -> r_ver x = 4 ->
  match py_slice_indices a b c (code_r_size x) with
  | Raise err => err = ValueError /\ c = Some 0 /\ code_r_getitem_slice x a b c = Raise ValueError
  | Ok (s, e, st) =>
      st <> 0 /\ st = match c with None => 1 | Some z => z end /\
      (exists it, code_r_getitem_slice x a b c = Ok it /\
         forall n, it_take_src n it =
                   aseq_take n {| a_start := code_r_first x + s; a_count := range_len s e st; a_step := st |}) /\
      (forall k, 0 <= k < range_len s e st ->
         0 <= s + k * st < code_r_size x /\ code_r_first x <= code_r_first x + s + k * st <= code_r_last x)
  end.
Proof. exact code_slice_match. Qed.
Print Assumptions C10_slice_of_source.

(* the same, literally: x[a:b:c] yields list(x)[a:b:c] (and raises when the list would) *)
Theorem C10_slice_list_of_source : forall x a b c, rwf x -> r_ver x = 4 ->
  match py_list_slice (r_addresses x) a b c with
  | Raise e => code_r_getitem_slice x a b c = Raise e
  | Ok l => exists it, code_r_getitem_slice x a b c = Ok it /\ forall n, it_take_src n it = list_take n l
  end.
Proof. exact code_slice_list. Qed.
Print Assumptions C10_slice_list_of_source.

Theorem C10_slice_v6_of_source : forall x a b c, r_ver x = 6 -> code_r_getitem_slice x a b c = Raise TypeError.
Proof. exact code_slice_v6. Qed.
Print Assumptions C10_slice_v6_of_source.

(* ---- iter_iprange(start, end, step): start, start+step, ... while inside the closed interval ---- *)
Theorem C10_iprange_iter_of_source : forall sver sv ever ev step,
  valid_ver sver = true -> valid_ver ever = true -> 0 <= sv <= max_int sver -> 0 <= ev <= max_int ever ->
  forall n,
  iter_iprange_src_take n sver sv ever ev step =
    if negb (sver =? ever) then ([], Raised TypeError)
    else if step =? 0 then ([], Raised ValueError)
    else aseq_take n {| a_start := sv; a_count := Z.max 0 ((ev - sv) / step + 1); a_step := step |}.
Proof. exact code_iprange_spec. Qed.
Print Assumptions C10_iprange_iter_of_source.

(* non-vacuity: the F-12 witness object is well formed and its [::3] slice, computed and consumed by the generated
   definitions, has the three expected addresses *)
Example C10_code_nonvacuous :
  rwf (RNet 4 167772160 29) /\ r_ver (RNet 4 167772160 29) = 4 /\
  exists it, code_r_getitem_slice (RNet 4 167772160 29) None None (Some 3) = Ok it /\
             it_take_src 10 it = ([167772160; 167772163; 167772166], Done).
Proof.
  split; [cbn [rwf]; split; [reflexivity|]; unfold width; cbn [Z.eqb Pos.eqb];
          change (2 ^ 32) with 4294967296; lia|].
  split; [reflexivity|]. exists (ItIprange 4 167772160 4 167772166 3). split; vm_compute; reflexivity.
Qed.
