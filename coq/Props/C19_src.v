(* Props/C19_src.v — source tie for C19 (tag SRCF): the Gallina definitions that harness/gen/pysrc.py regenerates on every run from
   the CURRENT text of OUIIndexParser.parse and IABIndexParser.parse of netaddr/eui/ieee.py (coq/Gen/pysrc_ieee_gen.v, with their
   `while True` loops as Fixpoints on fuel) are equal to the hand-written model Model/Ieee.v oui_parse / iab_parse (oui_loop /
   iab_loop) that C19_index_exact, C19_index_empty_raises and C19_index_keys_hex are about.
   Reading: the registry file self.fh, opened in binary mode, is the list of its lines (terminator included) with tell() = the
   running byte count, as in the model (py_readline); text values are bytes objects with the model's own bytes methods
   (`in` = contains, split()[0] = first_token, int(b, 16) = int16; b.replace(b'-', b'') is Base/PyStr.v replace, proved equal to
   remove_hyphens; b.split(b'-')[0] = before_byte, proved equal to before_hyphen); `record` is None or a list (of ints for the
   OUI parser; of bytes-or-int values for the IAB parser, whose first element changes from the bytes token to the int key);
   self.notify(record) appends the row to the result.  The generated function answers the rows notified, in order, when the
   parse ends normally and the exception otherwise (proj / proji: the model additionally keeps the rows delivered before the
   exception, which the generated function does not represent).  The loop fuel is the number of lines + 1 (table FUEL) and
   is never exhausted.
   No hypothesis (the file is read from position 0).  Nothing but the statement closed by `exact`, followed by Print Assumptions. *)
From Coq Require Import String Ascii.
From NV Require Import Base.Tac Base.PyVal Base.PyStr Model.Ip Model.Ieee Model.SrcPrelude Model.SrcPreludeStr
  Model.SrcPreludeIeee Gen.pysrc_ieee_gen Proofs.GenOk_Src_C19.
Import ListNotations.
Open Scope Z_scope.

Theorem C19_source_tie :
  (forall lines, src_OUIIndexParser_parse lines 0 = proj l3 [] (oui_parse lines)) /\
  (forall lines, src_IABIndexParser_parse lines 0 = proji [] (iab_parse lines)) /\
  (forall lines fuel tell skip rec size acc, (length lines < fuel)%nat ->
     (do st <- src_OUIIndexParser_parse_loop1 fuel "(hex)" "-" "" lines tell skip (orec rec) acc size; oui_end st) =
     proj l3 acc (oui_loop lines tell skip rec size)) /\
  (forall lines fuel tell skip rec size acc, (length lines < fuel)%nat ->
     (do st <- src_IABIndexParser_parse_loop1 fuel "(hex)" "(base 16)" "-" "" lines tell skip (irec rec) acc size; iab_end st) =
     proji acc (iab_loop lines tell skip rec size)).
Proof. exact C19_tie_ok. Qed.
Print Assumptions C19_source_tie.

Definition NL : string := String (ascii_of_nat 10) EmptyString.

(* the generated parsers compute: a two-record OUI registry with a header line; an IAB record; an empty registry *)
Example C19_src_nonvacuous :
  src_OUIIndexParser_parse [("header" ++ NL)%string; ("00-CA-FE   (hex)  ACME" ++ NL)%string; ("00CAFE (base 16) ACME" ++ NL)%string;
                            ("00-00-01   (hex)  XEROX" ++ NL)%string] 0 = Ok [[51966; 7; 45]; [1; 52; 24]] /\
  src_IABIndexParser_parse [("00-50-C2   (hex)  ACME" ++ NL)%string; ("ABC000-ABCFFF     (base 16)  ACME" ++ NL)%string] 0
    = Ok [[BiI 84683452; BiI 0; BiI 57]] /\
  src_OUIIndexParser_parse [("header" ++ NL)%string] 0 = Raise AttributeError.
Proof. repeat split; vm_compute; reflexivity. Qed.
