(* Props/C12_code.v — property C12, CODE-LEVEL: the theorems of Props/C12.v stated directly about the definitions that
   harness/gen/pysrc.py regenerates on every run from the CURRENT text of netaddr/ip/__init__.py:
     src_IPAddress_eq .. _ge, src_IPNetwork_eq .. _ge, src_IPRange_eq .. _ge   (Gen/pysrc_cmp_gen.v: BaseIP.__eq__ __ne__ __lt__
                                                                               __le__ __gt__ __ge__ per receiver class)
     src_IPAddress_hash, src_IPNetwork_hash, src_IPRange_hash, src_IPRange_sort_key                 (Gen/pysrc_cmp_gen.v)
     src_IPAddress_key / _sort_key, src_IPNetwork_key / _sort_key, src_IPRange_key                   (Gen/pysrc_gen.v)
     src_IPAddress_getstate / _setstate, src_IPNetwork_getstate / _setstate, src_IPRange_getstate / _setstate
                                                                                                    (Gen/pysrc_ctor_gen.v)
   A source edit that changes one of them changes the generated term and these theorems stop compiling (with the ties
   C12_source_tie, C12_source_tie_cmp, C12_source_tie_state).
   Objects are Order.obj (Addr ver v | Net ver v p | Range ver s e).  Vocabulary (Proofs/Code_C12.v):
     code_cmp op a b      = the generated comparison method `op` of a's class applied to b : outcome bool
     code_cmpb op a b     = its boolean answer (C12_cmp_total_of_source: it never raises)
     code_key / code_sort_key / code_hash H / code_getstate x = the generated method of x's class
     code_setstate c st   = the generated __setstate__ of class c on the pickled tuple st
     code_sorted l        = sorted(l): stable insertion that compares with the generated `<` only.
   wf_obj, is_block, over, ofirst, olast (plain arithmetic) are the vocabulary of Proofs/C12.v.
   Hypotheses: exactly those of Props/C12.v.  The ties have no hypothesis.
   Clauses still about the model:
     * a pickled tuple of the wrong length given to __setstate__ (Python's unpacking ValueError; code_setstate answers with
       the model there);
     * core.num_bits inside IPRange.sort_key is the prelude symbol = Order.num_bits (C12_num_bits is about it);
     * an operand that is no BaseIP object (the generated arm is Raise Unsupported; Python answers NotImplemented);
     * C12_ipset_state_roundtrip (IPSet state: source-tied to Model/Sets.v in Props/C06_src_state.v, a different model copy)
       and C12_eui_state_roundtrip (EUI.__getstate__ / __setstate__ are not translated) are not repeated.
   Nothing but statements closed by `exact`, each followed by Print Assumptions. *)
From Coq Require Import Sorting.Sorted Sorting.Permutation.
From NV Require Import Base.Tac Base.PyVal Model.Ip Model.Order Gen.pysrc_gen Gen.pysrc_cmp_gen Gen.pysrc_ctor_gen
  Proofs.C12 Proofs.GenOk_Src_C12_cmp Proofs.Code_C12.
Import ListNotations.
Open Scope Z_scope.

(* the six generated comparisons never raise on BaseIP operands *)
Theorem C12_cmp_total_of_source : forall op a b, code_cmp op a b = Ok (code_cmpb op a b).
Proof. exact code_cmp_total. Qed.
Print Assumptions C12_cmp_total_of_source.

Theorem C12_eq_addr_of_source : forall ver1 v1 ver2 v2,
  code_cmpb OpEq (Addr ver1 v1) (Addr ver2 v2) = true <-> ver1 = ver2 /\ v1 = v2.
Proof. exact code_eq_addr. Qed.
Print Assumptions C12_eq_addr_of_source.

Theorem C12_eq_block_of_source : forall x y, is_block x = true -> is_block y = true -> wf_obj x -> wf_obj y ->
  (code_cmpb OpEq x y = true <-> over x = over y /\ ofirst x = ofirst y /\ olast x = olast y).
Proof. exact code_eq_block. Qed.
Print Assumptions C12_eq_block_of_source.

Theorem C12_addr_ne_block_of_source : forall ver v y, is_block y = true ->
  code_cmpb OpEq (Addr ver v) y = false /\ code_cmpb OpEq y (Addr ver v) = false.
Proof. exact code_addr_ne_block. Qed.
Print Assumptions C12_addr_ne_block_of_source.

Theorem C12_ne_of_source : forall x y, code_cmpb OpNe x y = negb (code_cmpb OpEq x y).
Proof. exact code_ne. Qed.
Print Assumptions C12_ne_of_source.

Theorem C12_eq_equivalence_of_source :
  (forall x, code_cmpb OpEq x x = true) /\ (forall x y, code_cmpb OpEq x y = code_cmpb OpEq y x) /\
  (forall x y z, code_cmpb OpEq x y = true -> code_cmpb OpEq y z = true -> code_cmpb OpEq x z = true).
Proof. exact code_eq_equivalence. Qed.
Print Assumptions C12_eq_equivalence_of_source.

(* equal objects have equal hashes, for every hash function H on key tuples *)
Theorem C12_eq_hash_of_source : forall (H : list Z -> Z) x y,
  code_cmpb OpEq x y = true -> code_hash H x = code_hash H y.
Proof. exact code_eq_hash. Qed.
Print Assumptions C12_eq_hash_of_source.

(* the sort_key order *)
Theorem C12_order_of_source :
  (forall x, code_cmpb OpLe x x = true) /\
  (forall x y z, code_cmpb OpLe x y = true -> code_cmpb OpLe y z = true -> code_cmpb OpLe x z = true) /\
  (forall x y, code_cmpb OpLe x y = true \/ code_cmpb OpLe y x = true) /\
  (forall x y, code_cmpb OpLt x y = negb (code_cmpb OpLe y x) /\ code_cmpb OpGt x y = code_cmpb OpLt y x /\
               code_cmpb OpGe x y = code_cmpb OpLe y x /\
               code_cmpb OpLt x y = code_cmpb OpLe x y && negb (tuple_cmp OpEq (code_sort_key x) (code_sort_key y))) /\
  (forall x y z, code_cmpb OpLt x y = true -> code_cmpb OpLt y z = true -> code_cmpb OpLt x z = true) /\
  (forall x y, over x < over y -> code_cmpb OpLt x y = true) /\
  (forall x y, wf_obj x -> wf_obj y -> over x = over y -> ofirst x < ofirst y -> code_cmpb OpLt x y = true) /\
  (forall ver v1 p1 v2 p2, let a := Net ver v1 p1 in let b := Net ver v2 p2 in
     wf_obj a -> wf_obj b -> ofirst a <= ofirst b -> olast b <= olast a ->
     (ofirst a <> ofirst b \/ olast a <> olast b) -> code_cmpb OpLt a b = true) /\
  (forall ver v p a, wf_obj (Net ver v p) -> ofirst (Net ver v p) <= a <= olast (Net ver v p) ->
     code_cmpb OpLt (Net ver v p) (Addr ver a) = true) /\
  (forall ver1 s1 e1 ver2 s2 e2, (ver1 < ver2 \/ (ver1 = ver2 /\ s1 < s2)) ->
     code_cmpb OpLt (Range ver1 s1 e1) (Range ver2 s2 e2) = true) /\
  (forall ver s e1 e2, num_bits (range_size s e2) < num_bits (range_size s e1) ->
     code_cmpb OpLt (Range ver s e1) (Range ver s e2) = true).
Proof. exact code_order. Qed.
Print Assumptions C12_order_of_source.

(* sorted() with the generated `<`: a permutation, non-decreasing, stable *)
Theorem C12_sorted_spec_of_source : forall l,
  Permutation (code_sorted l) l /\ StronglySorted (fun a b => code_cmpb OpLe a b = true) (code_sorted l) /\
  (forall k, filter (fun y => tuple_cmp OpEq (code_sort_key y) k) (code_sorted l) =
             filter (fun y => tuple_cmp OpEq (code_sort_key y) k) l).
Proof. exact code_sorted_spec. Qed.
Print Assumptions C12_sorted_spec_of_source.

Theorem C12_sorted_perm_of_source : forall l l', Permutation l l' ->
  map code_sort_key (code_sorted l) = map code_sort_key (code_sorted l').
Proof. exact code_sorted_perm. Qed.
Print Assumptions C12_sorted_perm_of_source.

(* __setstate__(__getstate__(x)) on a fresh object of the same class restores x itself *)
Theorem C12_state_roundtrip_of_source : forall x, wf_obj x ->
  code_setstate (cls_of x) (code_getstate x) = Ok x /\
  (forall y, code_setstate (cls_of x) (code_getstate x) = Ok y ->
     code_cmpb OpEq x y = true /\ code_sort_key x = code_sort_key y /\ forall H, code_hash H x = code_hash H y).
Proof. exact code_state_roundtrip. Qed.
Print Assumptions C12_state_roundtrip_of_source.

(* what each __setstate__ accepts, and that the restored object holds exactly the state's fields *)
Theorem C12_setstate_spec_of_source :
  (forall st, match code_setstate CAddr st with
     | Ok x => code_getstate x = st /\ cls_of x = CAddr /\ valid_ver (over x) = true
     | Raise e => e = ValueError /\ forall v ver, st = [v; ver] -> valid_ver ver = false end) /\
  (forall st, match code_setstate CNet st with
     | Ok x => code_getstate x = st /\ cls_of x = CNet /\ valid_ver (over x) = true /\
               exists v p, x = Net (over x) v p /\ 0 <= p <= width (over x)
     | Raise e => e = ValueError /\
               forall v p ver, st = [v; p; ver] -> valid_ver ver = false \/ ~ (0 <= p <= width ver) end) /\
  (forall st, match code_setstate CRange st with
     | Ok x => code_getstate x = st /\ cls_of x = CRange /\ valid_ver (over x) = true /\
               exists s e, x = Range (over x) s e /\ 0 <= s < 2 ^ width (over x) /\ 0 <= e < 2 ^ width (over x)
     | Raise e => e = ValueError \/ e = AddrFormatError end).
Proof. exact code_setstate_spec. Qed.
Print Assumptions C12_setstate_spec_of_source.

(* non-vacuity: 192.168.0.1/24, the range 192.168.0.0-192.168.0.255 and the address 192.168.0.0, on the generated
   definitions *)
Example C12_code_nonvacuous :
  wf_obj (Net 4 3232235777 24) /\ wf_obj (Range 4 3232235776 3232236031) /\ wf_obj (Addr 4 3232235776) /\
  code_cmp OpEq (Net 4 3232235777 24) (Range 4 3232235776 3232236031) = Ok true /\
  code_cmp OpLt (Net 4 3232235777 24) (Addr 4 3232235776) = Ok true /\
  code_cmp OpLt (Net 4 3232235777 16) (Net 4 3232235776 24) = Ok true /\
  code_sorted [Addr 4 3232235776; Net 4 3232235777 24; Net 6 0 0; Net 4 3232235777 16] =
              [Net 4 3232235777 16; Net 4 3232235777 24; Addr 4 3232235776; Net 6 0 0] /\
  code_setstate CNet (code_getstate (Net 4 3232235777 24)) = Ok (Net 4 3232235777 24).
Proof.
  unfold wf_obj. change (width 4) with 32.
  split; [split; [reflexivity|lia]|]. split; [split; [reflexivity|lia]|]. split; [split; [reflexivity|lia]|].
  vm_compute. repeat split; reflexivity.
Qed.
