(* Props/C08_code.v — property C08 stated DIRECTLY ABOUT THE CODE: the theorems of Props/C08.v with each model function replaced by
   the Gallina definition `src_…` that harness/gen/pysrc.py regenerates on every run from the CURRENT text of
   netaddr/strategy/eui48.py, eui64.py and netaddr/eui/__init__.py (coq/Gen/pysrc_eui48_gen.v, pysrc_eui64_gen.v, pysrc_eui_gen.v,
   pysrc_eui48b_gen.v, pysrc_eui64b_gen.v, pysrc_euib_gen.v).
   Shapes: an EUI method takes the object state as leading parameters — (version, value), plus the dialect record where the method
   reads it (`src_EUI_str ver v d`, `src_EUI_getitem_int ver v d i`); a mutator answers the new value; an operand of a comparison is
   an `eui` record (`obj ver v d` = the receiver seen as one, Proofs/Code_C08.v); the constructor is specialised by the type of its
   argument (src_EUI_init_str / _int) and answers the finished record; OUI(e) / IAB(e) are represented by the integer e; bytes by the
   list of byte values (str_of_bytes = the latin-1 string Props/C08.v speaks of).  `src_int_to_str ver`, `src_str_to_int ver`,
   `src_valid_str ver` (Proofs/Code_C08.v) select the regenerated function of the strategy module the version stands for
   (eui64 for 64, eui48 otherwise), as self._module does.
   Hypotheses: those of the model theorems, with wf_eui e spelled on the state: wf_ver ver /\ 0 <= v < 2^width.  The sign
   conditions of the ties (0 <= word_size, 0 <= num_words of an explicit dialect; wf_ver where a method goes through self._module)
   follow from them (every built-in dialect is well formed: Code_C08.builtin_wf; wf_dialect gives 0 < word_size).  No tie
   hypothesis goes beyond the property's own.
   Clauses still about the model / about data:
   * C08_re_patterns_pinned, C08_dialects_pinned: the compiled recognisers RE_MAC_FORMATS / RE_EUI64_FORMATS are the hand-compiled
     matchers mac_pats / eui64_pats pinned to the regenerated pattern strings (`regexp.findall` = Eui.match_pat is a symbol in the
     generated parsers); the dialect classes are regenerated records;
   * C08_words_of_digits, C08_eui64_octets, C08_eui64_of_eui64, C08_modified_bits, C08_octets speak of the specification functions
     (wl, eui64_value, iid_value, octets_of) only and need no restatement;
   * IPAddress(int, 6) inside ipv6() is the constructor symbol mk_addr; int(w, 16), '%' formatting, join are the CPython models of
     Base/PyStr.v.
   Nothing but statements closed by `exact`, each followed by Print Assumptions. *)
From Coq Require Import String Ascii.
From NV Require Import Base.Tac Base.PyVal Base.PyStr Base.PyStrFacts Model.Ip Model.Eui Gen.eui_gen
  Proofs.GenOk_C08 Proofs.C08_words Proofs.C08_arith Proofs.C08_text Proofs.C08_spell Proofs.C08_round
  Model.SrcPrelude Model.SrcPreludeEui Model.SrcPreludeEui2
  Gen.pysrc_eui48_gen Gen.pysrc_eui64_gen Gen.pysrc_eui_gen Gen.pysrc_eui48b_gen Gen.pysrc_eui64b_gen Gen.pysrc_euib_gen
  Proofs.Code_C08.
From NV Require Model.Codec.
Import ListNotations.
Open Scope Z_scope.

(* ---- printed text parses back, implicit or explicit version, for every value and built-in dialect; str() / format(dialect) of
        the object print that text ---- *)
Theorem C08_roundtrip_of_source : forall name ver d v, In (name, (ver, d)) builtin_dialects -> 0 <= v < 2 ^ ewidth ver ->
  exists s, src_int_to_str ver v d = Ok s /\ src_EUI_str ver v d = Ok s /\ src_EUI_format ver v (DRec d) = Ok s /\
    src_str_to_int ver s = Ok v /\ src_valid_str ver s = Ok true /\
    src_EUI_init_str s None DNone = Ok {| ever := ver; evalue := v; edialect := default_dialect ver |} /\
    src_EUI_init_str s (Some ver) DNone = Ok {| ever := ver; evalue := v; edialect := default_dialect ver |}.
Proof. exact roundtrip_code. Qed.
Print Assumptions C08_roundtrip_of_source.

(* ---- every accepted spelling yields its value ---- *)
Theorem C08_spellings_grouped_of_source : forall ver n lo hi sep k toks,
  (ver = 48 /\ In (n, lo, hi, sep, k) groups48) \/ (ver = 64 /\ In (n, lo, hi, sep, k) groups64) ->
  length toks = n -> Forall (tok_ok lo hi) toks ->
  let s := spell sep toks in let v := from_digits (16 ^ Z.of_nat k) (map hexval toks) in
  src_str_to_int ver s = Ok v /\ src_valid_str ver s = Ok true /\
  src_EUI_init_str s None DNone = Ok {| ever := ver; evalue := v; edialect := default_dialect ver |} /\
  src_EUI_init_str s (Some ver) DNone = Ok {| ever := ver; evalue := v; edialect := default_dialect ver |}.
Proof. exact spellings_grouped_code. Qed.
Print Assumptions C08_spellings_grouped_of_source.

Theorem C08_spellings_bare_of_source : forall t, hexs t ->
  ((length t = 12 \/ length t = 11)%nat ->
     let s := str_of t in
     src_eui48_str_to_int s = Ok (hexval t) /\ src_eui48_valid_str s = true /\
     src_EUI_init_str s None DNone = Ok {| ever := 48; evalue := hexval t; edialect := default_dialect 48 |} /\
     src_EUI_init_str s (Some 48) DNone = Ok {| ever := 48; evalue := hexval t; edialect := default_dialect 48 |}) /\
  (length t = 16%nat ->
     let s := str_of t in
     src_eui64_str_to_int s = Ok (hexval t) /\ src_eui64_valid_str s = Ok true /\
     src_EUI_init_str s None DNone = Ok {| ever := 64; evalue := hexval t; edialect := default_dialect 64 |} /\
     src_EUI_init_str s (Some 64) DNone = Ok {| ever := 64; evalue := hexval t; edialect := default_dialect 64 |}).
Proof. exact spellings_bare_code. Qed.
Print Assumptions C08_spellings_bare_of_source.

(* ---- constructor on integers ---- *)
Theorem C08_init_int_of_source : forall v d,
  src_EUI_init_int v None (DRec d) =
    if (0 <=? v) && (v <? 2 ^ 48) then Ok {| ever := 48; evalue := v; edialect := d |}
    else if (2 ^ 48 <=? v) && (v <? 2 ^ 64) then Ok {| ever := 64; evalue := v; edialect := d |}
    else Raise TypeError.
Proof. exact init_int_code. Qed.
Print Assumptions C08_init_int_of_source.

(* ---- comparison and hashing are functions of (version, value) only; d is the (irrelevant) dialect of the receiver ---- *)
Theorem C08_eq_hash_of_source : forall ver v d b,
  (src_EUI_eq ver v b = true <-> (ver, v) = (ever b, evalue b)) /\
  src_EUI_ne ver v b = negb (src_EUI_eq ver v b) /\
  (src_EUI_lt ver v b = true <-> ver < ever b \/ (ver = ever b /\ v < evalue b)) /\
  src_EUI_le ver v b = src_EUI_lt ver v b || src_EUI_eq ver v b /\
  src_EUI_gt ver v b = src_EUI_lt (ever b) (evalue b) (obj ver v d) /\
  src_EUI_ge ver v b = src_EUI_lt (ever b) (evalue b) (obj ver v d) || src_EUI_eq ver v b /\
  (src_EUI_eq ver v b = true <-> src_EUI_hash ver v = src_EUI_hash (ever b) (evalue b)).
Proof. exact eq_hash_code. Qed.
Print Assumptions C08_eq_hash_of_source.

Theorem C08_eq_hash_dialect_of_source : forall ver v b db,
  let b' := {| ever := ever b; evalue := evalue b; edialect := db |} in
  src_EUI_eq ver v b' = src_EUI_eq ver v b /\ src_EUI_ne ver v b' = src_EUI_ne ver v b /\
  src_EUI_lt ver v b' = src_EUI_lt ver v b /\ src_EUI_le ver v b' = src_EUI_le ver v b /\
  src_EUI_gt ver v b' = src_EUI_gt ver v b /\ src_EUI_ge ver v b' = src_EUI_ge ver v b.
Proof. exact eq_hash_dialect_code. Qed.
Print Assumptions C08_eq_hash_dialect_of_source.

Theorem C08_order_total_of_source : forall ver v d b,
  (src_EUI_lt ver v b = true /\ src_EUI_eq ver v b = false /\ src_EUI_lt (ever b) (evalue b) (obj ver v d) = false) \/
  (src_EUI_lt ver v b = false /\ src_EUI_eq ver v b = true /\ src_EUI_lt (ever b) (evalue b) (obj ver v d) = false) \/
  (src_EUI_lt ver v b = false /\ src_EUI_eq ver v b = false /\ src_EUI_lt (ever b) (evalue b) (obj ver v d) = true).
Proof. exact order_total_code. Qed.
Print Assumptions C08_order_total_of_source.

(* ---- eui64() / modified_eui64() / ipv6(prefix) / ipv6_link_local() ---- *)
Theorem C08_eui64_of_source : forall ver v, wf_ver ver /\ 0 <= v < 2 ^ ewidth ver ->
  src_EUI_eui64 ver v = Ok {| ever := 64; evalue := eui64_value ver v; edialect := eui64_base |} /\
  0 <= eui64_value ver v < 2 ^ 64.
Proof. exact eui64_code. Qed.
Print Assumptions C08_eui64_of_source.

Theorem C08_modified_of_source : forall ver v, wf_ver ver /\ 0 <= v < 2 ^ ewidth ver ->
  src_EUI_modified_eui64 ver v = Ok {| ever := 64; evalue := iid_value ver v; edialect := eui64_base |} /\
  0 <= iid_value ver v < 2 ^ 64.
Proof. exact modified_code. Qed.
Print Assumptions C08_modified_of_source.

Theorem C08_ipv6_of_source : forall ver v prefix, wf_ver ver /\ 0 <= v < 2 ^ ewidth ver ->
  src_EUI_ipv6 ver v prefix =
    let t := prefix + iid_value ver v in
    if (0 <=? t) && (t <? 2 ^ 128) then Ok (6, t) else Raise AddrFormatError.
Proof. exact ipv6_code. Qed.
Print Assumptions C08_ipv6_of_source.

Theorem C08_ipv6_prefix64_of_source : forall ver v prefix, wf_ver ver /\ 0 <= v < 2 ^ ewidth ver ->
  0 <= prefix < 2 ^ 128 -> prefix mod 2 ^ 64 = 0 ->
  src_EUI_ipv6 ver v prefix = Ok (6, Z.lor prefix (iid_value ver v)) /\
  Z.lor prefix (iid_value ver v) = prefix + iid_value ver v.
Proof. exact ipv6_prefix64_code. Qed.
Print Assumptions C08_ipv6_prefix64_of_source.

Theorem C08_ipv6_link_local_of_source : forall ver v, wf_ver ver /\ 0 <= v < 2 ^ ewidth ver ->
  src_EUI_ipv6_link_local ver v = Ok (6, Z.lor (65152 * 2 ^ 112) (iid_value ver v)).
Proof. exact ipv6_link_local_code. Qed.
Print Assumptions C08_ipv6_link_local_of_source.

(* ---- oui / ei / is_iab / iab split the value at the standard bit positions ---- *)
Theorem C08_split_oui_of_source : forall ver v, wf_ver ver /\ 0 <= v < 2 ^ ewidth ver ->
  src_EUI_oui ver v = Some (v / 2 ^ (ewidth ver - 24)).
Proof. exact split_oui_code. Qed.
Print Assumptions C08_split_oui_of_source.

Theorem C08_split_ei_of_source : forall ver v, wf_ver ver /\ 0 <= v < 2 ^ ewidth ver ->
  src_EUI_ei ver v = Ok (Some (join "-" (map (fmt_X_pad 2) (skipn 3 (octets_of ver v))))).
Proof. exact split_ei_code. Qed.
Print Assumptions C08_split_ei_of_source.

Theorem C08_split_iab_of_source : forall ver v, 0 <= v < 2 ^ 48 ->
  src_EUI_is_iab ver v = zmem (v / 2 ^ 24) iab_values /\
  src_EUI_iab ver v = (if zmem (v / 2 ^ 24) iab_values then Some (v / 2 ^ 12) else None).
Proof. exact split_iab_code. Qed.
Print Assumptions C08_split_iab_of_source.

(* ---- value-level accessors: never fail, and do not look at the dialect ---- *)
Theorem C08_accessors_words_of_source : forall ver v, wf_ver ver /\ 0 <= v < 2 ^ ewidth ver ->
  src_EUI_words ver v = Ok (octets_of ver v) /\
  omap Codec.str_of_bytes (src_EUI_packed ver v) = Ok (str_of (map chr (octets_of ver v))) /\
  (forall sep, src_EUI_bits ver v sep = Ok (join (match sep with Some s => s | None => "-"%string end)
                                                 (map (fmt_b_pad 8) (octets_of ver v)))).
Proof. exact accessors_words_code. Qed.
Print Assumptions C08_accessors_words_of_source.

Theorem C08_accessors_getitem_of_source : forall ver v d i, wf_ver ver /\ 0 <= v < 2 ^ ewidth ver -> wf_dialect ver d ->
  let nw := num_words d in
  src_EUI_getitem_int ver v d i =
    if (0 <=? i) && (i <? nw) then Ok (word_at (word_size d) nw v i)
    else if (- nw <=? i) && (i <? 0) then Ok (word_at (word_size d) nw v (i + nw))
    else Raise IndexError.
Proof. exact getitem_code. Qed.
Print Assumptions C08_accessors_getitem_of_source.

Theorem C08_accessors_setitem_of_source : forall ver v d i x, wf_ver ver /\ 0 <= v < 2 ^ ewidth ver -> wf_dialect ver d ->
  let nw := num_words d in let ws := word_size d in
  if (0 <=? i) && (i <? nw) && (0 <=? x) && (x <? 2 ^ ws) then
    exists v', src_EUI_setitem ver v d i x = Ok v' /\
               0 <= v' < 2 ^ ewidth ver /\
               (forall j, 0 <= j < nw -> word_at ws nw v' j = if j =? i then x else word_at ws nw v j)
  else src_EUI_setitem ver v d i x = Raise IndexError.
Proof. exact setitem_code. Qed.
Print Assumptions C08_accessors_setitem_of_source.

(* non-vacuity: the generated definitions compute on a concrete object that meets the hypotheses *)
Example C08_code_nonvacuous :
  (wf_ver 48 /\ 0 <= 73588229205 < 2 ^ ewidth 48) /\ wf_dialect 48 mac_cisco /\
  In ("mac_cisco"%string, (48, mac_cisco)) builtin_dialects /\
  src_int_to_str 48 73588229205 mac_cisco = Ok "0011.2233.4455"%string /\
  src_EUI_str 48 73588229205 mac_cisco = Ok "0011.2233.4455"%string /\
  src_EUI_init_str "0011.2233.4455" None DNone = Ok {| ever := 48; evalue := 73588229205; edialect := mac_eui48 |} /\
  src_EUI_init_str "0000000041000000" None DNone = Ok {| ever := 64; evalue := 1090519040; edialect := eui64_base |} /\
  src_EUI_getitem_int 48 73588229205 mac_cisco (-1) = Ok 17493 /\
  src_EUI_setitem 48 73588229205 mac_cisco 0 65535 = Ok 281471255528533.
Proof.
  split; [split; [left; reflexivity|cbn; lia]|]. split; [unfold wf_dialect; cbn; lia|]. split; [cbn; tauto|].
  repeat split; vm_compute; reflexivity.
Qed.
