(* Props/PyStr.v — facts about the Python-builtin prelude (placeholder until Base/PyStrFacts.v is complete). *)
From Coq Require Import ZArith String.
From NV Require Import Base.PyStr.
Theorem pystr_int_example : py_int 10 " -1_0 "%string = Some (-10)%Z.
Proof. exact eq_refl. Qed.
Print Assumptions pystr_int_example.
