(* Props/C08_src_f.v — source tie for C08, sixth part (tag SRCF): the Gallina definitions that harness/gen/pysrc.py regenerates
   on every run from the CURRENT text of EUI.__setstate__ and IAB.split_iab_mac of netaddr/eui/__init__.py
   (coq/Gen/pysrc_euib_gen.v).  split_iab_mac is equal to Model/Eui.v split_iab_mac (the function C08_split_iab is about; the
   returned pair as a two-element list; the classmethod's `cls` is the class IAB itself).  __setstate__ has no model function:
   its result is stated directly (setstate_spec: (value, 48 | 64, dialect) gives that module and value with the dialect through
   validate_dialect, any other version ValueError).  No hypothesis.
   Nothing but the statement closed by `exact`, followed by Print Assumptions. *)
From Coq Require Import String Ascii.
From NV Require Import Base.Tac Base.PyVal Base.PyStr Model.Ip Model.Eui Model.SrcPrelude Model.SrcPreludeStr
  Model.SrcPreludeEui Model.SrcPreludeEui2 Gen.pysrc_eui_gen Gen.pysrc_eui48b_gen Gen.pysrc_eui64b_gen Gen.pysrc_euib_gen
  Proofs.GenOk_Src_C08_f.
Import ListNotations.
Open Scope Z_scope.

Theorem C08_source_tie_f :
  (forall value version a, src_EUI_setstate (value, version, a) =
     if version =? 48 then do dd <- validate_dialect 48 a; Ok {| ever := 48; evalue := value; edialect := dd |}
     else if version =? 64 then do dd <- validate_dialect 64 a; Ok {| ever := 64; evalue := value; edialect := dd |}
     else Raise ValueError) /\
  (forall i strict, src_IAB_split_iab_mac i strict = omap (fun r => [fst r; snd r]) (split_iab_mac i strict)) /\
  (* BaseIdentifier.__index__, __long__, __int__ on an EUI: the value (Model/Eui.v py_to_int (AEui e) = evalue e) *)
  (forall ver v, src_EUI_index ver v = v /\ src_EUI_long ver v = v /\ src_EUI_int ver v = v).
Proof. exact C08_tie_f_ok. Qed.
Print Assumptions C08_source_tie_f.

Example C08_src_f_nonvacuous :
  src_IAB_split_iab_mac 0x0050c2fff001 false = Ok [0x0050c2fff; 1] /\ src_IAB_split_iab_mac 0x0050c2fff001 true = Raise ValueError /\
  omap evalue (src_EUI_setstate (5, 64, DNone)) = Ok 5 /\ src_EUI_setstate (5, 32, DNone) = Raise ValueError.
Proof. repeat split; vm_compute; reflexivity. Qed.
