(* Props/C14.v — property C14: address arithmetic and bitwise operators are exact and range-checked.
   Nothing but statements closed by `exact`, each followed by Print Assumptions.
   Vocabulary (Proofs/C14.v):
     checked w r e o      :=  (0 <= r < 2^w -> o = Ok r)        /\ (~ 0 <= r < 2^w -> o = Raise e)
     ochecked ver r e o   :=  (0 <= r < 2^width ver -> o = Ok (ver, r)) /\ (~ 0 <= r < 2^width ver -> o = Raise e)
     ichecked ver v r e o :=  (0 <= r < 2^width ver -> o = (Ok (ver, r), (ver, r))) /\
                              (~ 0 <= r < 2^width ver -> o = (Raise e, (ver, v)))      (receiver unchanged) *)
From Coq Require Import String Ascii.
From NV Require Import Base.Tac Base.PyVal Base.Bits Model.Ip Model.AddrOps Proofs.C02 Proofs.C14.
Import ListNotations.
Open Scope Z_scope.

(* ---- width level (any w, Model/Ip.v): the result is the exact integer result iff it is a w-bit value ---- *)
Theorem C14_arith_w : forall w v n,
  checked w (v + n) IndexError (addr_add w v n) /\
  checked w (v + n) IndexError (addr_radd w v n) /\
  checked w (v + n) IndexError (addr_iadd w v n) /\
  checked w (v - n) IndexError (addr_sub w v n) /\
  checked w (v - n) IndexError (addr_isub w v n) /\
  checked w (n - v) IndexError (addr_rsub w v n).
Proof. exact arith_w. Qed.
Print Assumptions C14_arith_w.

Theorem C14_bitwise_w : forall w v n,
  checked w (Z.lor v n) AddrFormatError (addr_or w v n) /\
  checked w (Z.land v n) AddrFormatError (addr_and w v n) /\
  checked w (Z.lxor v n) AddrFormatError (addr_xor w v n) /\
  (0 <= n -> checked w (v * 2 ^ n) AddrFormatError (addr_lshift w v n)) /\
  (0 <= n -> checked w (v / 2 ^ n) AddrFormatError (addr_rshift w v n)) /\
  (n < 0 -> addr_lshift w v n = Raise ValueError /\ addr_rshift w v n = Raise ValueError).
Proof. exact bitwise_w. Qed.
Print Assumptions C14_bitwise_w.

(* what | & ^ mean, bit by bit, for operands of either sign (two's complement, as in Python) *)
Theorem C14_bitwise_bits : forall v n i,
  Z.testbit (Z.lor v n) i = Z.testbit v i || Z.testbit n i /\
  Z.testbit (Z.land v n) i = Z.testbit v i && Z.testbit n i /\
  Z.testbit (Z.lxor v n) i = xorb (Z.testbit v i) (Z.testbit n i).
Proof. exact bitwise_bits. Qed.
Print Assumptions C14_bitwise_bits.

Theorem C14_bitwise_total_w : forall w v n, 0 <= w -> 0 <= v < 2 ^ w ->
  (0 <= n < 2 ^ w -> addr_or w v n = Ok (Z.lor v n) /\ addr_xor w v n = Ok (Z.lxor v n)) /\
  addr_and w v n = Ok (Z.land v n) /\
  (0 <= n -> addr_rshift w v n = Ok (v / 2 ^ n)).
Proof. exact bitwise_total. Qed.
Print Assumptions C14_bitwise_total_w.

(* ---- the constructor from an integer, with and without a version; the copy constructor ---- *)
Theorem C14_ctor : forall i,
  (0 <= i < 2 ^ 32 -> ctor_int i None = Ok (4, i)) /\
  (2 ^ 32 <= i < 2 ^ 128 -> ctor_int i None = Ok (6, i)) /\
  (i < 0 \/ 2 ^ 128 <= i -> ctor_int i None = Raise AddrFormatError) /\
  (forall ver, valid_ver ver = true -> ochecked ver i AddrFormatError (ctor_int i (Some ver))) /\
  (forall ver, valid_ver ver = false -> ctor_int i (Some ver) = Raise ValueError).
Proof. exact ctor_int_spec. Qed.
Print Assumptions C14_ctor.

Theorem C14_copy : forall ver v version,
  ((version = None \/ version = Some ver) -> ctor_copy ver v version = Ok (ver, v)) /\
  (forall ver', version = Some ver' -> ver' <> ver -> ctor_copy ver v version = Raise ValueError).
Proof. exact ctor_copy_spec. Qed.
Print Assumptions C14_copy.

(* ---- object level (version 4 or 6): same version, exact value, or the documented exception;
        the in-place forms leave the receiver as it was when they raise ---- *)
Theorem C14_arith : forall ver v n, valid_ver ver = true ->
  ochecked ver (v + n) IndexError (obj_add ver v n) /\
  ochecked ver (v + n) IndexError (obj_radd ver v n) /\
  ochecked ver (v - n) IndexError (obj_sub ver v n) /\
  ochecked ver (n - v) IndexError (obj_rsub ver v n) /\
  ichecked ver v (v + n) IndexError (obj_iadd ver v n) /\
  ichecked ver v (v - n) IndexError (obj_isub ver v n).
Proof. exact obj_arith. Qed.
Print Assumptions C14_arith.

Theorem C14_bitwise : forall ver v o n, valid_ver ver = true ->
  ochecked ver (Z.lor v (operand_int o)) AddrFormatError (obj_or ver v o) /\
  ochecked ver (Z.land v (operand_int o)) AddrFormatError (obj_and ver v o) /\
  ochecked ver (Z.lxor v (operand_int o)) AddrFormatError (obj_xor ver v o) /\
  (0 <= n -> ochecked ver (v * 2 ^ n) AddrFormatError (obj_lshift ver v n)) /\
  (0 <= n -> ochecked ver (v / 2 ^ n) AddrFormatError (obj_rshift ver v n)) /\
  (n < 0 -> obj_lshift ver v n = Raise ValueError /\ obj_rshift ver v n = Raise ValueError).
Proof. exact obj_bitwise. Qed.
Print Assumptions C14_bitwise.

(* int(other): an int operand is itself, an address operand is its value *)
Theorem C14_operand : forall o, operand_int o = match o with OInt n => n | OAddr _ v => v end.
Proof. exact operand_int_spec. Qed.
Print Assumptions C14_operand.

Theorem C14_bitwise_total : forall ver v o n, valid_ver ver = true -> 0 <= v < 2 ^ width ver ->
  (0 <= operand_int o < 2 ^ width ver ->
     obj_or ver v o = Ok (ver, Z.lor v (operand_int o)) /\ obj_xor ver v o = Ok (ver, Z.lxor v (operand_int o))) /\
  obj_and ver v o = Ok (ver, Z.land v (operand_int o)) /\
  (0 <= n -> obj_rshift ver v n = Ok (ver, v / 2 ^ n)).
Proof. exact obj_bitwise_total. Qed.
Print Assumptions C14_bitwise_total.

(* ---- no operation yields an out-of-range value or another version (no hypothesis on the inputs) ---- *)
Theorem C14_no_wrap : forall ver v n o a b,
  obj_add ver v n = Ok (a, b) \/ obj_radd ver v n = Ok (a, b) \/ obj_sub ver v n = Ok (a, b) \/
  obj_rsub ver v n = Ok (a, b) \/ obj_or ver v o = Ok (a, b) \/ obj_and ver v o = Ok (a, b) \/
  obj_xor ver v o = Ok (a, b) \/ obj_lshift ver v n = Ok (a, b) \/ obj_rshift ver v n = Ok (a, b) \/
  fst (obj_iadd ver v n) = Ok (a, b) \/ fst (obj_isub ver v n) = Ok (a, b) ->
  a = ver /\ 0 <= b < 2 ^ width ver.
Proof. exact no_wrap. Qed.
Print Assumptions C14_no_wrap.

Theorem C14_ctor_no_wrap : forall i version a b, ctor_int i version = Ok (a, b) ->
  b = i /\ (a = 4 \/ a = 6) /\ 0 <= b < 2 ^ width a /\ (forall ver, version = Some ver -> a = ver) /\
  (version = None -> (a = 4 <-> i < 2 ^ 32)).
Proof. exact ctor_no_wrap. Qed.
Print Assumptions C14_ctor_no_wrap.

(* ---- views: int()/index() are the value, bool() is value != 0, hex() is "0x" + the canonical lower-case
        hexadecimal digits of the value (reading them back, most significant first, gives the value) ---- *)
Theorem C14_views : forall v, 0 <= v ->
  view_int v = v /\ view_index v = v /\ (view_bool v = true <-> v <> 0) /\
  exists ds, view_hex v = Ok (String "0" (String "x" (string_of_list_ascii (map hex_digit ds)))) /\
             Forall is_digit ds /\ eval16 ds = v /\
             eval16 (map hex_val (list_ascii_of_string (string_of_list_ascii (map hex_digit ds)))) = v /\
             ((v = 0 /\ ds = [0]) \/ (v <> 0 /\ exists d t, ds = d :: t /\ d <> 0)).
Proof. exact views_spec. Qed.
Print Assumptions C14_views.

(* non-vacuity: concrete instances on both sides of the boundary, both families *)
Example C14_nonvacuous :
  valid_ver 4 = true /\ valid_ver 6 = true /\
  obj_add 4 4294967294 1 = Ok (4, 4294967295) /\ obj_add 4 4294967295 1 = Raise IndexError /\
  obj_rsub 6 5 4 = Raise IndexError /\ obj_or 4 1 (OInt 4294967296) = Raise AddrFormatError /\
  obj_xor 6 5 (OAddr 4 5) = Ok (6, 0) /\ obj_lshift 4 1 32 = Raise AddrFormatError /\
  obj_iadd 4 0 (-1) = (Raise IndexError, (4, 0)) /\
  ctor_int 4294967296 None = Ok (6, 4294967296) /\ ctor_int 4294967296 (Some 4) = Raise AddrFormatError /\
  view_hex 255 = Ok "0xff"%string.
Proof. vm_compute. repeat split; reflexivity. Qed.
