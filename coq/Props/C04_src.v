(* Props/C04_src.v — source tie for C04: the Gallina definitions that harness/gen/pysrc.py regenerates on every run from the
   CURRENT text of IPNetwork.__contains__ and IPRange.__contains__ (coq/Gen/pysrc_gen.v: src_IPNetwork_contains,
   src_IPRange_contains; the isinstance dispatch is a match on SrcPrelude.operand) are equal to the hand-written model
   functions Contains.net_contains / range_contains that the theorems of Props/C04.v are about, on each of the three
   BaseIP operand kinds (IPAddress / IPNetwork / IPRange incl. IPGlob).  For any other operand the Python methods fall back
   to a string parser; that branch is not translated (the generated arm is Raise Unsupported, third conjunct) and stays
   tied by the correspondence runs only.  Hypothesis for IPNetwork.__contains__: prefixlen <= width (the shift count
   `width - prefixlen` is built from the receiver's state, which the translator takes as non-negative; the model carries
   CPython's negative-shift ValueError).
   A source edit that changes one of these methods changes the generated term and this theorem stops compiling.
   Nothing but the statement closed by `exact`, followed by Print Assumptions. *)
From NV Require Import Base.Tac Base.PyVal Model.Ip Model.Contains Model.SrcPrelude Gen.pysrc_gen Proofs.GenOk_Src_C04.
Open Scope Z_scope.

Theorem C04_source_tie :
  (forall (W : Z -> Z) sver sv sp, sp <= W sver ->
     (forall ver v, src_IPNetwork_contains sver (W sver) sv sp (OAddr ver v) = net_contains W sver sv sp (Addr ver v)) /\
     (forall ver v p, src_IPNetwork_contains sver (W sver) sv sp (ONet ver v p) = net_contains W sver sv sp (Net ver v p)) /\
     (forall ver s e, src_IPNetwork_contains sver (W sver) sv sp (ORng ver s e) = net_contains W sver sv sp (Rng ver s e))) /\
  (forall sver w ss se,
     (forall ver v, src_IPRange_contains sver w ss se (OAddr ver v) = range_contains width sver ss se (Addr ver v)) /\
     (forall ver v p, src_IPRange_contains sver w ss se (ONet ver v p) = range_contains width sver ss se (Net ver v p)) /\
     (forall ver s e, src_IPRange_contains sver w ss se (ORng ver s e) = range_contains width sver ss se (Rng ver s e))) /\
  (forall sver w sv sp ss se,
     src_IPNetwork_contains sver w sv sp OOther = Raise Unsupported /\
     src_IPRange_contains sver w ss se OOther = Raise Unsupported).
Proof. exact C04_tie_ok. Qed.
Print Assumptions C04_source_tie.

(* the generated definition computes: IPNetwork('10.0.0.0/24') in IPNetwork('10.0.0.77/16') *)
Example C04_src_nonvacuous :
  src_IPNetwork_contains 4 32 167772237 16 (ONet 4 167772160 24) = Ok true /\
  src_IPRange_contains 4 32 167772160 167772170 (ONet 4 167772160 28) = Ok false.
Proof. split; vm_compute; reflexivity. Qed.
