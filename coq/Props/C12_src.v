(* Props/C12_src.v — source tie for C12: the Gallina definitions that harness/gen/pysrc.py regenerates on every run from
   the CURRENT text of key() / sort_key() of IPAddress and IPNetwork, key() / first / last / size of IPRange
   (coq/Gen/pysrc_gen.v) are equal to the hand-written model functions that the theorems of Props/C12.v are about.
   A source edit that changes one of these methods changes the generated term and this theorem stops compiling.
   Nothing but the statement closed by `exact`, followed by Print Assumptions. *)
From NV Require Import Base.Tac Base.PyVal Model.Ip Model.Order Model.SrcPrelude Gen.pysrc_gen Proofs.GenOk_Src_C12.
Open Scope Z_scope.

Theorem C12_source_tie :
  (forall ver w v, src_IPAddress_key ver w v = key (Addr ver v)) /\
  (forall ver v, src_IPAddress_sort_key ver (width ver) v = sort_key (Addr ver v)) /\
  (forall ver v p,
     src_IPNetwork_key ver (width ver) v p = key (Net ver v p) /\
     src_IPNetwork_sort_key ver (width ver) v p = sort_key (Net ver v p)) /\
  (forall ver w s e,
     src_IPRange_key ver w s e = key (Range ver s e) /\
     src_IPRange_first ver w s e = range_first s e /\
     src_IPRange_last ver w s e = range_last s e /\
     src_IPRange_size ver w s e = range_size s e) /\
  (src_ipv4_version = 4 /\ src_ipv6_version = 6 /\
   src_ipv4_width = width src_ipv4_version /\ src_ipv6_width = width src_ipv6_version /\
   src_ipv4_max_int = max_int_w src_ipv4_width /\ src_ipv6_max_int = max_int_w src_ipv6_width /\
   src_ipv4_max_int = max_int 4 /\ src_ipv6_max_int = max_int 6).
Proof. exact C12_tie_ok. Qed.
Print Assumptions C12_source_tie.
