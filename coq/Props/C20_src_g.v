(* Props/C20_src_g.v -- source tie for C20, tag SRCG: the definition regenerated on every run from the CURRENT text of
   SubnetSplitter.__init__ (netaddr/contrib/subnet_splitter.py; coq/Gen/pysrc_splitterg_gen.v), for an IPNetwork argument
   (IPNetwork(base_cidr) of an IPNetwork object is a copy; text arguments go through the constructor's parser, C03): the new
   object's state is the one-element set of that network = the model's initial state [k] under the representation `nets ver` of
   Props/C20_src.v.  The state parameter a constructor is handed is not read.  No hypothesis. *)
From NV Require Import Base.Tac Base.PyVal Model.Ip Model.Partition Model.Merge Model.Splitter Model.SrcPrelude Gen.pysrc_splitterg_gen Proofs.GenOk_Src_C09 Proofs.GenOk_Src_C20
  Proofs.GenOk_Src_C20_g.
Import ListNotations.
Open Scope Z_scope.

Theorem C20_source_tie_g : forall ver st0 k, src_SubnetSplitter_init st0 (net_of_cblk ver k) = nets ver [k].
Proof. exact C20_tie_g_ok. Qed.
Print Assumptions C20_source_tie_g.

Example C20_src_g_nonvacuous :
  src_SubnetSplitter_init [] {| nver := 4; nval := 167772160; nplen := 24 |} = [ {| nver := 4; nval := 167772160; nplen := 24 |} ].
Proof. vm_compute. reflexivity. Qed.
