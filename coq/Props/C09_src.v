(* Props/C09_src.v — source tie for C09: the Gallina definitions that harness/gen/pysrc.py regenerates on every run from the
   CURRENT text of cidr_partition and cidr_exclude (coq/Gen/pysrc_partition_gen.v: src_cidr_partition, its `while` loop
   src_cidr_partition_loop1 with fuel `Z.to_nat target_module_width + 1` from the translator's FUEL table, src_cidr_exclude)
   are equal to the hand-written model Partition.cidr_partition / part_loop / cidr_exclude that the theorems of Props/C09.v
   are about (pairs (value, prefixlen) of one family, read as IPNetwork objects through Merge.net_of_cblk / cblk_of_net).
   Hypotheses: the exclude's version is 4 or 6 and equals the target's; for the whole function also a well-formed target
   (the early returns go through `target.cidr`, i.e. through the range-checking constructor).
   A source edit that changes one of these functions changes the generated term and this theorem stops compiling.
   Nothing but the statement closed by `exact`, followed by Print Assumptions. *)
From NV Require Import Base.Tac Base.PyVal Model.Ip Model.Partition Model.Merge Model.SrcPrelude Gen.pysrc_gen
  Gen.pysrc_partition_gen Proofs.GenOk_Src_C09.
Import ListNotations.
Open Scope Z_scope.

Theorem C09_source_tie :
  (forall t e, valid_ver (nver e) = true -> nver t = nver e ->
     0 <= nplen t <= width (nver t) -> 0 <= nval t < 2 ^ width (nver t) ->
     src_cidr_partition t e =
       omap (nets3 (nver e)) (cidr_partition (width (nver e)) (cblk_of_net t) (cblk_of_net e)) /\
     src_cidr_exclude t e = omap (nets (nver e)) (cidr_exclude (width (nver e)) (cblk_of_net t) (cblk_of_net e))) /\
  (forall e, valid_ver (nver e) = true -> forall fuel l r np il iu,
     src_cidr_partition_loop1 fuel e (nver e) (width (nver e)) (nets (nver e) l) (nets (nver e) r) np il iu =
       omap (fun lr => (nets (nver e) (fst lr), nets (nver e) (snd lr)))
            (part_loop fuel (width (nver e)) (nval e) (nplen e) np il iu l r)).
Proof. exact C09_tie_ok. Qed.
Print Assumptions C09_source_tie.

(* the generated definition computes: cidr_exclude(10.0.0.0/30, 10.0.0.1/32) = [10.0.0.0/32, 10.0.0.2/31] *)
Example C09_src_nonvacuous :
  src_cidr_exclude {| nver := 4; nval := 167772160; nplen := 30 |} {| nver := 4; nval := 167772161; nplen := 32 |} =
    Ok [ {| nver := 4; nval := 167772160; nplen := 32 |}; {| nver := 4; nval := 167772162; nplen := 31 |} ].
Proof. vm_compute. reflexivity. Qed.
