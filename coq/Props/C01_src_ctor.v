(* Props/C01_src_ctor.v — source tie for C01, constructor part: the Gallina definition that harness/gen/pysrc.py regenerates on
   every run from the CURRENT text of IPAddress.__init__ (with BaseIP.__init__), specialised to a `str` argument
   (coq/Gen/pysrc_ctor_gen.v: explicit version, the '/' refusal, try-IPv4-then-IPv6 with the bare `except`, the AddrFormatError
   re-raise of the explicit-version branch), is equal to the hand-written model AddrText.init_str that the theorems of Props/C01.v
   are about, for both back-ends and all arguments; no hypothesis.  Also IPAddress.__str__ = addr_str.  module.str_to_int (netaddr/strategy/ipv4.py, ipv6.py) is not
   translated here: it is the symbol py_str_to_int = AddrText.str_to_int of Model/SrcPreludeCtor.v, tied by correspondence.
   Nothing but the statement closed by `exact`, followed by Print Assumptions. *)
From Coq Require Import String Ascii.
From NV Require Import Base.Tac Base.PyVal Base.PyStr Model.Ip Model.AddrText Model.SrcPrelude Model.SrcPreludeCtor
  Gen.pysrc_gen Gen.pysrc_ctor_gen Proofs.GenOk_Src_C01_ctor.
Open Scope Z_scope.

Theorem C01_source_tie_ctor :
  (forall be addr version flags, src_IPAddress_init_str be addr version flags = init_str be addr version flags) /\
  (forall be ver w v, src_IPAddress_str be ver w v = addr_str be ver v).
Proof. exact C01_ctor_tie_ok. Qed.
Print Assumptions C01_source_tie_ctor.

(* the generated definition computes: IPAddress('10.0.0.1') is (4, 167772161); '::1' is (6, 1); '1.2.3.4/8' raises ValueError;
   IPAddress('::1', 4) raises AddrFormatError *)
Example C01_src_ctor_nonvacuous :
  src_IPAddress_init_str Fallback "10.0.0.1" None 0 = Ok (4, 167772161) /\
  src_IPAddress_init_str Fallback "::1" None 0 = Ok (6, 1) /\
  src_IPAddress_init_str Fallback "1.2.3.4/8" None 0 = Raise ValueError /\
  src_IPAddress_init_str Fallback "::1" (Some 4) 0 = Raise AddrFormatError.
Proof. repeat split; vm_compute; reflexivity. Qed.
