(* Props/Structure_C03.v -- WRITTEN BY tools/mkstructure.py.  Structure tie for C03: the parameter lists (names, order, default values),
   decorators, class bases and non-def class-body statements (aliases, __slots__, property lines, class attributes) of the classes and
   functions this property relies on (harness/gen/structure.py, table RELEVANT) -- and, for files it relies on entirely, the list of
   their top-level names -- regenerated from the working tree on every run, are the ones the models, adapters and translator tables
   were written against.  The source translator reads function BODIES; this covers what is around them.  48 groups, 61 rows.
   Statement closed by `exact`, followed by Print Assumptions. *)
From Coq Require Import List String Bool.
From NV Require Import Gen.structure_gen Proofs.GenOk_Structure_C03.
Import ListNotations.
Open Scope string_scope.

Theorem C03_structure_tie :
  gen_names_compat = ["_bytes_join"; "_zip"; "_range"; "_iter_next"] /\
  filter (keep drop_compat___bytes_join) gen_struct_compat___bytes_join = pinned_struct_compat___bytes_join /\
  filter (keep drop_compat___zip) gen_struct_compat___zip = pinned_struct_compat___zip /\
  filter (keep drop_compat___range) gen_struct_compat___range = pinned_struct_compat___range /\
  filter (keep drop_compat___iter_next) gen_struct_compat___iter_next = pinned_struct_compat___iter_next /\
  filter (keep drop_ip_init__BaseIP) gen_struct_ip_init__BaseIP = pinned_struct_ip_init__BaseIP /\
  filter (keep drop_ip_init__IPAddress) gen_struct_ip_init__IPAddress = pinned_struct_ip_init__IPAddress /\
  filter (keep drop_ip_init__IPNetwork) gen_struct_ip_init__IPNetwork = pinned_struct_ip_init__IPNetwork /\
  filter (keep drop_ip_init__IPListMixin) gen_struct_ip_init__IPListMixin = pinned_struct_ip_init__IPListMixin /\
  filter (keep drop_ip_init__parse_ip_network) gen_struct_ip_init__parse_ip_network = pinned_struct_ip_init__parse_ip_network /\
  filter (keep drop_ip_init___arg_repr) gen_struct_ip_init___arg_repr = pinned_struct_ip_init___arg_repr /\
  filter (keep drop_ip_init__cidr_abbrev_to_verbose) gen_struct_ip_init__cidr_abbrev_to_verbose = pinned_struct_ip_init__cidr_abbrev_to_verbose /\
  gen_names_strategy_ipv4 = ["valid_str"; "str_to_int"; "int_to_str"; "int_to_arpa"; "int_to_packed"; "packed_to_int"; "valid_words"; "int_to_words"; "words_to_int"; "valid_bits"; "bits_to_int"; "int_to_bits"; "valid_bin"; "int_to_bin"; "bin_to_int"; "expand_partial_address"] /\
  filter (keep drop_strategy_ipv4__valid_str) gen_struct_strategy_ipv4__valid_str = pinned_struct_strategy_ipv4__valid_str /\
  filter (keep drop_strategy_ipv4__str_to_int) gen_struct_strategy_ipv4__str_to_int = pinned_struct_strategy_ipv4__str_to_int /\
  filter (keep drop_strategy_ipv4__int_to_str) gen_struct_strategy_ipv4__int_to_str = pinned_struct_strategy_ipv4__int_to_str /\
  filter (keep drop_strategy_ipv4__int_to_arpa) gen_struct_strategy_ipv4__int_to_arpa = pinned_struct_strategy_ipv4__int_to_arpa /\
  filter (keep drop_strategy_ipv4__int_to_packed) gen_struct_strategy_ipv4__int_to_packed = pinned_struct_strategy_ipv4__int_to_packed /\
  filter (keep drop_strategy_ipv4__packed_to_int) gen_struct_strategy_ipv4__packed_to_int = pinned_struct_strategy_ipv4__packed_to_int /\
  filter (keep drop_strategy_ipv4__valid_words) gen_struct_strategy_ipv4__valid_words = pinned_struct_strategy_ipv4__valid_words /\
  filter (keep drop_strategy_ipv4__int_to_words) gen_struct_strategy_ipv4__int_to_words = pinned_struct_strategy_ipv4__int_to_words /\
  filter (keep drop_strategy_ipv4__words_to_int) gen_struct_strategy_ipv4__words_to_int = pinned_struct_strategy_ipv4__words_to_int /\
  filter (keep drop_strategy_ipv4__valid_bits) gen_struct_strategy_ipv4__valid_bits = pinned_struct_strategy_ipv4__valid_bits /\
  filter (keep drop_strategy_ipv4__bits_to_int) gen_struct_strategy_ipv4__bits_to_int = pinned_struct_strategy_ipv4__bits_to_int /\
  filter (keep drop_strategy_ipv4__int_to_bits) gen_struct_strategy_ipv4__int_to_bits = pinned_struct_strategy_ipv4__int_to_bits /\
  filter (keep drop_strategy_ipv4__valid_bin) gen_struct_strategy_ipv4__valid_bin = pinned_struct_strategy_ipv4__valid_bin /\
  filter (keep drop_strategy_ipv4__int_to_bin) gen_struct_strategy_ipv4__int_to_bin = pinned_struct_strategy_ipv4__int_to_bin /\
  filter (keep drop_strategy_ipv4__bin_to_int) gen_struct_strategy_ipv4__bin_to_int = pinned_struct_strategy_ipv4__bin_to_int /\
  filter (keep drop_strategy_ipv4__expand_partial_address) gen_struct_strategy_ipv4__expand_partial_address = pinned_struct_strategy_ipv4__expand_partial_address /\
  gen_names_strategy_ipv6 = ["ipv6_compact"; "ipv6_full"; "ipv6_verbose"; "valid_str"; "str_to_int"; "int_to_str"; "int_to_arpa"; "int_to_packed"; "packed_to_int"; "valid_words"; "int_to_words"; "words_to_int"; "valid_bits"; "bits_to_int"; "int_to_bits"; "valid_bin"; "int_to_bin"; "bin_to_int"] /\
  filter (keep drop_strategy_ipv6__ipv6_compact) gen_struct_strategy_ipv6__ipv6_compact = pinned_struct_strategy_ipv6__ipv6_compact /\
  filter (keep drop_strategy_ipv6__ipv6_full) gen_struct_strategy_ipv6__ipv6_full = pinned_struct_strategy_ipv6__ipv6_full /\
  filter (keep drop_strategy_ipv6__ipv6_verbose) gen_struct_strategy_ipv6__ipv6_verbose = pinned_struct_strategy_ipv6__ipv6_verbose /\
  filter (keep drop_strategy_ipv6__valid_str) gen_struct_strategy_ipv6__valid_str = pinned_struct_strategy_ipv6__valid_str /\
  filter (keep drop_strategy_ipv6__str_to_int) gen_struct_strategy_ipv6__str_to_int = pinned_struct_strategy_ipv6__str_to_int /\
  filter (keep drop_strategy_ipv6__int_to_str) gen_struct_strategy_ipv6__int_to_str = pinned_struct_strategy_ipv6__int_to_str /\
  filter (keep drop_strategy_ipv6__int_to_arpa) gen_struct_strategy_ipv6__int_to_arpa = pinned_struct_strategy_ipv6__int_to_arpa /\
  filter (keep drop_strategy_ipv6__int_to_packed) gen_struct_strategy_ipv6__int_to_packed = pinned_struct_strategy_ipv6__int_to_packed /\
  filter (keep drop_strategy_ipv6__packed_to_int) gen_struct_strategy_ipv6__packed_to_int = pinned_struct_strategy_ipv6__packed_to_int /\
  filter (keep drop_strategy_ipv6__valid_words) gen_struct_strategy_ipv6__valid_words = pinned_struct_strategy_ipv6__valid_words /\
  filter (keep drop_strategy_ipv6__int_to_words) gen_struct_strategy_ipv6__int_to_words = pinned_struct_strategy_ipv6__int_to_words /\
  filter (keep drop_strategy_ipv6__words_to_int) gen_struct_strategy_ipv6__words_to_int = pinned_struct_strategy_ipv6__words_to_int /\
  filter (keep drop_strategy_ipv6__valid_bits) gen_struct_strategy_ipv6__valid_bits = pinned_struct_strategy_ipv6__valid_bits /\
  filter (keep drop_strategy_ipv6__bits_to_int) gen_struct_strategy_ipv6__bits_to_int = pinned_struct_strategy_ipv6__bits_to_int /\
  filter (keep drop_strategy_ipv6__int_to_bits) gen_struct_strategy_ipv6__int_to_bits = pinned_struct_strategy_ipv6__int_to_bits /\
  filter (keep drop_strategy_ipv6__valid_bin) gen_struct_strategy_ipv6__valid_bin = pinned_struct_strategy_ipv6__valid_bin /\
  filter (keep drop_strategy_ipv6__int_to_bin) gen_struct_strategy_ipv6__int_to_bin = pinned_struct_strategy_ipv6__int_to_bin /\
  filter (keep drop_strategy_ipv6__bin_to_int) gen_struct_strategy_ipv6__bin_to_int = pinned_struct_strategy_ipv6__bin_to_int.
Proof. exact (conj names_compat_ok (conj struct_compat___bytes_join_ok (conj struct_compat___zip_ok (conj struct_compat___range_ok (conj struct_compat___iter_next_ok (conj struct_ip_init__BaseIP_ok (conj struct_ip_init__IPAddress_ok (conj struct_ip_init__IPNetwork_ok (conj struct_ip_init__IPListMixin_ok (conj struct_ip_init__parse_ip_network_ok (conj struct_ip_init___arg_repr_ok (conj struct_ip_init__cidr_abbrev_to_verbose_ok (conj names_strategy_ipv4_ok (conj struct_strategy_ipv4__valid_str_ok (conj struct_strategy_ipv4__str_to_int_ok (conj struct_strategy_ipv4__int_to_str_ok (conj struct_strategy_ipv4__int_to_arpa_ok (conj struct_strategy_ipv4__int_to_packed_ok (conj struct_strategy_ipv4__packed_to_int_ok (conj struct_strategy_ipv4__valid_words_ok (conj struct_strategy_ipv4__int_to_words_ok (conj struct_strategy_ipv4__words_to_int_ok (conj struct_strategy_ipv4__valid_bits_ok (conj struct_strategy_ipv4__bits_to_int_ok (conj struct_strategy_ipv4__int_to_bits_ok (conj struct_strategy_ipv4__valid_bin_ok (conj struct_strategy_ipv4__int_to_bin_ok (conj struct_strategy_ipv4__bin_to_int_ok (conj struct_strategy_ipv4__expand_partial_address_ok (conj names_strategy_ipv6_ok (conj struct_strategy_ipv6__ipv6_compact_ok (conj struct_strategy_ipv6__ipv6_full_ok (conj struct_strategy_ipv6__ipv6_verbose_ok (conj struct_strategy_ipv6__valid_str_ok (conj struct_strategy_ipv6__str_to_int_ok (conj struct_strategy_ipv6__int_to_str_ok (conj struct_strategy_ipv6__int_to_arpa_ok (conj struct_strategy_ipv6__int_to_packed_ok (conj struct_strategy_ipv6__packed_to_int_ok (conj struct_strategy_ipv6__valid_words_ok (conj struct_strategy_ipv6__int_to_words_ok (conj struct_strategy_ipv6__words_to_int_ok (conj struct_strategy_ipv6__valid_bits_ok (conj struct_strategy_ipv6__bits_to_int_ok (conj struct_strategy_ipv6__int_to_bits_ok (conj struct_strategy_ipv6__valid_bin_ok (conj struct_strategy_ipv6__int_to_bin_ok struct_strategy_ipv6__bin_to_int_ok))))))))))))))))))))))))))))))))))))))))))))))). Qed.
Print Assumptions C03_structure_tie.
