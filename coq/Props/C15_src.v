(* Props/C15_src.v — source tie for C15: the Gallina definitions that harness/gen/pysrc.py regenerates on every run from the
   CURRENT text of netaddr/strategy/__init__.py (coq/Gen/pysrc_strategy_gen.v: src_strategy_valid_words with its `for` loop
   _loop1 and the `return False` inside it, src_strategy_int_to_words with its `for _ in range(num_words)` loop,
   src_strategy_words_to_int with its `for i, num in enumerate(reversed(words))` loop) are equal to the hand-written model
   Codec.valid_words / int_to_words (words_loop) / words_to_int (lor_words) that the theorems of Props/C15.v are about.
   Also tied, with text as Coq strings and the CPython builtins int(s, 2) / str.replace / str.startswith / bin() as the models
   of Base/PyStr.v (symbols of Model/SrcPreludeStr.v): src_strategy_valid_bits, bits_to_int, valid_bin, bin_to_int, int_to_bin =
   Codec.valid_bits, bits_to_int, valid_bin, bin_to_int, int_to_bin (the `try: .. except ValueError: pass` around int(s, 2) is
   py_except_pass; BIN_DIGITS is read from its frozenset literal); hypothesis 0 <= width for valid_bin / bin_to_int only (2 ** width
   is guarded; valid_bits has compared len(bits) with width before).  int_to_bits is not translated (nested while inside for,
   list-of-strings joins; it stays tied by differential execution).
   A word sequence is a list of ints.  Hypotheses: 0 <= word_size, and 0 <= num_words for int_to_words -- where they fail the
   generated code stops with Unsupported (2 ** negative is a float in Python) or CPython's ValueError for a negative shift
   count, which the model does not have; every dialect row has word_size > 0 and num_words > 0.
   A source edit that changes one of the three functions changes the generated term and this theorem stops compiling.
   Nothing but the statement closed by `exact`, followed by Print Assumptions. *)
From Coq Require Import String.
From NV Require Import Base.Tac Base.PyVal Model.Ip Model.Codec Model.SrcPrelude Gen.pysrc_strategy_gen Proofs.GenOk_Src_C15.
Import ListNotations.
Open Scope Z_scope.

Theorem C15_source_tie :
  (forall words ws nw, 0 <= ws -> src_strategy_valid_words words ws nw = Ok (valid_words words ws nw)) /\
  (forall iv ws nw, 0 <= ws -> 0 <= nw -> src_strategy_int_to_words iv ws nw = int_to_words iv ws nw) /\
  (forall words ws nw, 0 <= ws -> src_strategy_words_to_int words ws nw = words_to_int words ws nw) /\
  (forall mw xs, src_strategy_valid_words_loop1 mw xs = if forallb (fun i => (0 <=? i) && (i <=? mw)) xs then inr tt else inl false) /\
  (forall mw ws, 0 <= ws -> forall fuel words iv,
     src_strategy_int_to_words_loop1 mw ws fuel words iv = Ok (words ++ words_loop fuel iv mw ws)%list) /\
  (forall ws, 0 <= ws -> forall xs i iv, 0 <= i -> src_strategy_words_to_int_loop1 ws xs i iv = Ok (lor_words xs i ws iv)) /\
  (forall bits w sep, src_strategy_valid_bits bits w sep = Ok (valid_bits bits w sep)) /\
  (forall bits w sep, src_strategy_bits_to_int bits w sep = bits_to_int bits w sep) /\
  (forall s w, 0 <= w -> src_strategy_valid_bin s w = Ok (valid_bin s w)) /\
  (forall s w, 0 <= w -> src_strategy_bin_to_int s w = bin_to_int s w) /\
  (forall v w, src_strategy_int_to_bin v w = int_to_bin v w).
Proof. exact C15_tie_ok. Qed.
Print Assumptions C15_source_tie.

(* the generated definitions compute: int_to_words(0xC0A80001, 8, 4) = (192, 168, 0, 1) and back; 256 is no 8-bit word *)
Example C15_src_nonvacuous :
  src_strategy_int_to_words 3232235521 8 4 = Ok [192; 168; 0; 1] /\
  src_strategy_words_to_int [192; 168; 0; 1] 8 4 = Ok 3232235521 /\
  src_strategy_valid_words [192; 168; 0; 256] 8 4 = Ok false /\
  src_strategy_words_to_int [192; 168; 0] 8 4 = Raise ValueError /\
  src_strategy_bits_to_int "1100-0011" 8 "-" = Ok 195 /\ src_strategy_valid_bits "1100_011" 8 "" = Ok false /\
  src_strategy_bin_to_int "0b101" 8 = Ok 5 /\ src_strategy_bin_to_int "0b0b101" 8 = Raise ValueError /\
  src_strategy_int_to_bin 5 2 = Raise IndexError.
Proof. repeat split; vm_compute; reflexivity. Qed.
