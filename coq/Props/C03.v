(* Props/C03.v — C03: all network notations denote the same network and str() round-trips.
   Model: Model/NetText.v (parse_ip_network, IPNetwork.__init__, IPNetwork.__str__, cidr_abbrev_to_verbose with
   classful_prefix, expand_partial_address — after the fix commits F-C03-1, F-C03-2, F-C03-3) on top of the address-text layer of
   C01 (Model/AddrText.v, Model/IpText.v).  `be` ranges over the two back-ends {Platform, Fallback}; strings are
   arbitrary ASCII `string`s.  Flags: `has_flag flags NOHOST` is the test `flags & NOHOST` (NOHOST = 4), so the
   statements hold for every flags value; `has_flag 0 NOHOST = false`, `has_flag NOHOST NOHOST = true`.
   Notation of the comments: w = width ver (32 / 128), a = int_to_str be ver v None = str(IPAddress(v, ver)).

   Definitions used in the statements (Proofs/C03_Str.v, Proofs/C03.v, Proofs/C03_Total.v):
     dotted os      = join "." (map fmt_d os)                   the canonical decimal octets os joined by '.'
     pad4 os        = os ++ repeat 0 (4 - length os)            octet padding
     quad_value [a; b; c; d] = ((a * 256 + b) * 256 + c) * 256 + d
     partial_ok os  = 1 <= length os <= 4 /\ every octet in 0..255
     classful o     = 8 if o <= 127, 16 if o <= 191, 24 if o <= 223, 4 if o <= 239, else 32
     wf_arg a       = a copy-construction source (ANet / AAddr) is a well-formed object; True for every other argument
     wf_net n       = version in {4, 6}, 0 <= value < 2^w, 0 <= prefixlen <= w                      (Proofs/C02.v) *)
From Coq Require Import ZArith List Bool String Ascii.
From NV Require Import Base.PyVal Base.PyStr Model.IpText Model.FbSocket Model.AddrText Model.Ip Model.NetText
  Proofs.C01_V6 Proofs.C02 Proofs.C03_Str Proofs.C03 Proofs.C03_Total Proofs.C03_Abbrev.
Import ListNotations.
Open Scope Z_scope.

(* ============================================================ (1) every notation of (ver, v, p) builds the same network *)
Theorem C03_notations :
  (* [notations_prefix] *)
  (* "a/p" *)
  (forall be ver v p ip version flags,
     valid_ver ver = true /\ 0 <= v < 2 ^ width ver -> 0 <= p <= width ver -> version = Some ver \/ version = None ->
     (do a <- int_to_str be ver v None; net_init be (AStr (a ++ "/" ++ fmt_d p)) ip version flags) =
     Ok {| nver := ver; nval := if has_flag flags NOHOST then v - v mod 2 ^ (width ver - p) else v; nplen := p |}) /\
  (* [notations_netmask] *)
  (* "a/<netmask of p>", every p including 0 (all-zeros mask) and w (all-ones mask) *)
  (forall be ver v p ip version flags,
     valid_ver ver = true /\ 0 <= v < 2 ^ width ver -> 0 <= p <= width ver -> version = Some ver \/ version = None ->
     (do a <- int_to_str be ver v None; do m <- int_to_str be ver (2 ^ width ver - 2 ^ (width ver - p)) None;
      net_init be (AStr (a ++ "/" ++ m)) ip version flags) =
     Ok {| nver := ver; nval := if has_flag flags NOHOST then v - v mod 2 ^ (width ver - p) else v; nplen := p |}) /\
  (* [notations_hostmask] *)
  (* "a/<hostmask of p>" for the proper hostmasks *)
  (forall be ver v p ip version flags,
     valid_ver ver = true /\ 0 <= v < 2 ^ width ver -> 0 < p < width ver -> version = Some ver \/ version = None ->
     (do a <- int_to_str be ver v None; do m <- int_to_str be ver (2 ^ (width ver - p) - 1) None;
      net_init be (AStr (a ++ "/" ++ m)) ip version flags) =
     Ok {| nver := ver; nval := if has_flag flags NOHOST then v - v mod 2 ^ (width ver - p) else v; nplen := p |}) /\
  (* [notations_hostmask_ambiguous] *)
  (* the two masks that are both a netmask and a hostmask: is_netmask is tested first, so the hostmask of /0 (all-ones)
     gives /w and the hostmask of /w (all-zeros) gives /0 *)
  (forall be ver v ip version flags,
     valid_ver ver = true /\ 0 <= v < 2 ^ width ver -> version = Some ver \/ version = None ->
     (do a <- int_to_str be ver v None; do m <- int_to_str be ver (2 ^ (width ver - 0) - 1) None;
      net_init be (AStr (a ++ "/" ++ m)) ip version flags) =
     Ok {| nver := ver; nval := if has_flag flags NOHOST then v - v mod 2 ^ (width ver - width ver) else v; nplen := width ver |} /\
     (do a <- int_to_str be ver v None; do m <- int_to_str be ver (2 ^ (width ver - width ver) - 1) None;
      net_init be (AStr (a ++ "/" ++ m)) ip version flags) =
     Ok {| nver := ver; nval := if has_flag flags NOHOST then v - v mod 2 ^ (width ver - 0) else v; nplen := 0 |}) /\
  (* [notations_tuple] *)
  (* the tuple (v, p) with an explicit version *)
  (forall be ver v p ip flags,
     valid_ver ver = true /\ 0 <= v < 2 ^ width ver -> 0 <= p <= width ver ->
     net_init be (ATuple [v; p]) ip (Some ver) flags =
     Ok {| nver := ver; nval := if has_flag flags NOHOST then v - v mod 2 ^ (width ver - p) else v; nplen := p |}) /\
  (* [notations_tuple_implicit] *)
  (* ... and without one: the tuple does not say its family, IPv4 is tried first *)
  (forall be v p ip flags, 0 <= v < 2 ^ 128 -> 0 <= p <= 128 ->
     net_init be (ATuple [v; p]) ip None flags =
     Ok (let ver := if (v <? 2 ^ 32) && (p <=? 32) then 4 else 6 in
         {| nver := ver; nval := if has_flag flags NOHOST then v - v mod 2 ^ (width ver - p) else v; nplen := p |})) /\
  (* [notations_copy_net] *)
  (* copy construction from an IPNetwork (the `version` and `implicit_prefix` arguments are not looked at) *)
  (forall be ver v p ip version flags,
     valid_ver ver = true /\ 0 <= v < 2 ^ width ver -> 0 <= p <= width ver ->
     net_init be (ANet {| nver := ver; nval := v; nplen := p |}) ip version flags =
     Ok {| nver := ver; nval := if has_flag flags NOHOST then v - v mod 2 ^ (width ver - p) else v; nplen := p |}) /\
  (* [notations_copy_addr] *)
  (* copy construction from an IPAddress: full-width prefix *)
  (forall be ver v ip version flags,
     valid_ver ver = true /\ 0 <= v < 2 ^ width ver ->
     net_init be (AAddr ver v) ip version flags = Ok {| nver := ver; nval := v; nplen := width ver |}).
Proof. exact (conj notations_prefix (conj notations_netmask (conj notations_hostmask (conj notations_hostmask_ambiguous (conj notations_tuple (conj notations_tuple_implicit (conj notations_copy_net notations_copy_addr))))))). Qed.
Print Assumptions C03_notations.

(* ============================================================ (2) str() parses back to an identical network *)
Theorem C03_str_roundtrip :
  (* [str_roundtrip] *)
  (forall be ver v p ip version flags,
     valid_ver ver = true /\ 0 <= v < 2 ^ width ver -> 0 <= p <= width ver -> version = Some ver \/ version = None ->
     (do s <- net_str be {| nver := ver; nval := v; nplen := p |}; net_init be (AStr s) ip version flags) =
     Ok {| nver := ver; nval := if has_flag flags NOHOST then v - v mod 2 ^ (width ver - p) else v; nplen := p |}).
Proof. exact str_roundtrip. Qed.
Print Assumptions C03_str_roundtrip.

(* ============================================================ (3) a bare address gets the full-width prefix *)
Theorem C03_bare :
  (* [bare] *)
  (forall be ver v version flags,
     valid_ver ver = true /\ 0 <= v < 2 ^ width ver -> version = Some ver \/ version = None ->
     (do a <- int_to_str be ver v None; net_init be (AStr a) false version flags) =
     Ok {| nver := ver; nval := v; nplen := width ver |}) /\
  (* [bare_v6_implicit] *)
  (* also under implicit_prefix for IPv6 (for IPv4 the classful rule applies: C03_partial_classful with four octets) *)
  (forall be v version flags, 0 <= v < 2 ^ 128 -> version = Some 6 \/ version = None ->
     (do a <- int_to_str be 6 v None; net_init be (AStr a) true version flags) = Ok {| nver := 6; nval := v; nplen := 128 |}).
Proof. exact (conj bare bare_v6_implicit). Qed.
Print Assumptions C03_bare.

(* ============================================================ (4) NOHOST clears exactly the host bits - for EVERY argument *)
Theorem C03_nohost :
  (* [nohost] *)
  (* whatever the argument (any string, tuple, copy source), if the flag-less call builds n then the call with any flags
     builds the same family and prefix, with value n.value - n.value mod 2^(w - n.prefixlen) when the NOHOST bit is set *)
  (forall be a ip version flags n, wf_arg a -> net_init be a ip version 0 = Ok n ->
     net_init be a ip version flags =
     Ok {| nver := nver n;
           nval := if has_flag flags NOHOST then nval n - nval n mod 2 ^ (width (nver n) - nplen n) else nval n;
           nplen := nplen n |}) /\
  (* [failure_flag_free] *)
  (forall be a ip version flags e, wf_arg a ->
     (net_init be a ip version flags = Raise e <-> net_init be a ip version 0 = Raise e)).
Proof. exact (conj nohost_general failure_flag_free). Qed.
Print Assumptions C03_nohost.

(* ============================================================ (5) partial / classful IPv4 abbreviations *)
Theorem C03_partial :
  (* [classful_table] *)
  (forall o,
     (0 <= o <= 255 -> classful_prefix_int o =
        Ok (if o <=? 127 then 8 else if o <=? 191 then 16 else if o <=? 223 then 24 else if o <=? 239 then 4 else 32)) /\
     (~ 0 <= o <= 255 -> classful_prefix_int o = Raise IndexError)) /\
  (* [partial_expand] *)
  (* expand_partial_address pads 1-4 octets with ".0" *)
  (forall os, (1 <= List.length os <= 4)%nat /\ Forall (fun a => 0 <= a < 256) os ->
     expand_partial_address (dotted os) = Ok (Std4.ntoa (pad4 os))) /\
  (* [partial_abbrev_classful] *)
  (* cidr_abbrev_to_verbose: octet padding and the class of the first octet / the explicit prefix *)
  (forall os, (1 <= List.length os <= 4)%nat /\ Forall (fun a => 0 <= a < 256) os ->
     exists o1, hd_error os = Some o1 /\
     cidr_abbrev_to_verbose (dotted os) = Ok (Std4.ntoa (pad4 os) ++ "/" ++ fmt_d (classful o1))%string) /\
  (* [partial_abbrev_prefixed] *)
  (forall os p, (1 <= List.length os <= 4)%nat /\ Forall (fun a => 0 <= a < 256) os -> 0 <= p <= 32 ->
     cidr_abbrev_to_verbose (dotted os ++ "/" ++ fmt_d p) = Ok (Std4.ntoa (pad4 os) ++ "/" ++ fmt_d p)%string) /\
  (* [implicit_prefix_is_abbrev] *)
  (* IPNetwork(s, implicit_prefix=True) is IPNetwork(cidr_abbrev_to_verbose(s)), for every string *)
  (forall be s s' version flags, cidr_abbrev_to_verbose s = Ok s' ->
     net_init be (AStr s) true version flags = net_init be (AStr s') false version flags) /\
  (* [partial_bare] *)
  (* IPNetwork on a partial form without prefix, implicit_prefix off: padded address, /32 *)
  (forall be os version flags,
     (1 <= List.length os <= 4)%nat /\ Forall (fun a => 0 <= a < 256) os -> version = Some 4 \/ version = None ->
     net_init be (AStr (dotted os)) false version flags = Ok {| nver := 4; nval := quad_value (pad4 os); nplen := 32 |}) /\
  (* [partial_prefixed] *)
  (* ... with an explicit prefix 0..32 (implicit_prefix on or off): that prefix *)
  (forall be os p ip version flags,
     (1 <= List.length os <= 4)%nat /\ Forall (fun a => 0 <= a < 256) os -> 0 <= p <= 32 -> version = Some 4 \/ version = None ->
     net_init be (AStr (dotted os ++ "/" ++ fmt_d p)) ip version flags =
     Ok {| nver := 4; nval := if has_flag flags NOHOST then quad_value (pad4 os) - quad_value (pad4 os) mod 2 ^ (width 4 - p)
                              else quad_value (pad4 os); nplen := p |}) /\
  (* [partial_classful] *)
  (* ... without prefix, implicit_prefix on: the classful prefix of the first octet (also for a full dotted quad) *)
  (forall be os o1 version flags,
     (1 <= List.length os <= 4)%nat /\ Forall (fun a => 0 <= a < 256) os -> hd_error os = Some o1 -> version = Some 4 \/ version = None ->
     net_init be (AStr (dotted os)) true version flags =
     Ok {| nver := 4;
           nval := if has_flag flags NOHOST then quad_value (pad4 os) - quad_value (pad4 os) mod 2 ^ (width 4 - classful o1)
                   else quad_value (pad4 os);
           nplen := classful o1 |}).
Proof. exact (conj ((fun o => conj (classful_prefix_int_ok o) (classful_prefix_int_bad o))) (conj expand_partial (conj abbrev_classful (conj abbrev_prefixed (conj net_init_abbrev (conj partial_bare (conj partial_prefixed partial_classful))))))). Qed.
Print Assumptions C03_partial.

(* ============================================================ (6) malformed notations raise AddrFormatError *)
Theorem C03_rejects :
  (* [rejects_prefix] *)
  (* a prefix text that int() reads as an integer outside 0..w (any spelling int() accepts: signs, blanks, underscores) *)
  (forall be ver v t n ip version flags,
     valid_ver ver = true /\ 0 <= v < 2 ^ width ver -> version = Some ver \/ version = None ->
     py_int 10 t = Some n -> ~ 0 <= n <= width ver ->
     (do a <- int_to_str be ver v None; net_init be (AStr (a ++ "/" ++ t)) ip version flags) = Raise AddrFormatError) /\
  (* [rejects_mask] *)
  (* a mask text that the strict parser reads as a value that is neither a netmask nor a hostmask ... *)
  (forall be ver v t x m ip version flags,
     valid_ver ver = true /\ 0 <= v < 2 ^ width ver -> version = Some ver \/ version = None ->
     py_int 10 t = None -> init_str be t (Some ver) INET_PTON = Ok (x, m) ->
     is_netmask (width ver) m = false -> is_hostmask m = false ->
     (do a <- int_to_str be ver v None; net_init be (AStr (a ++ "/" ++ t)) ip version flags) = Raise AddrFormatError) /\
  (* [not_contiguous] *)
  (* ... which says exactly: m is not contiguous *)
  (forall w m, 0 <= w -> 0 <= m < 2 ^ w ->
     (is_netmask w m = false /\ is_hostmask m = false <->
      forall q, 0 <= q <= w -> m <> 2 ^ w - 2 ^ (w - q) /\ m <> 2 ^ (w - q) - 1)) /\
  (* [rejects_mask_text] *)
  (* a prefix part that is neither an integer nor an address of the family (including one holding a further '/') *)
  (forall be ver v t e ip version flags,
     valid_ver ver = true /\ 0 <= v < 2 ^ width ver -> version = Some ver \/ version = None ->
     py_int 10 t = None -> init_str be t (Some ver) INET_PTON = Raise e ->
     (do a <- int_to_str be ver v None; net_init be (AStr (a ++ "/" ++ t)) ip version flags) = Raise AddrFormatError) /\
  (* [rejects_address] *)
  (* an address part that the strict parser of the family (families) tried rejects and, for IPv4, that the partial
     expansion does not turn into an acceptable dotted quad; with or without a prefix part, implicit_prefix on or off *)
  (forall be val1 rest ip version flags, contains_char "/" val1 = false ->
     (rest = ""%string \/ exists t, rest = ("/" ++ t)%string) ->
     (version = Some 4 \/ version = None ->
        init_str be val1 (Some 4) INET_PTON = Raise AddrFormatError /\
        (expand_partial_address val1 = Raise AddrFormatError \/
         exists e, expand_partial_address val1 = Ok e /\ init_str be e (Some 4) INET_PTON = Raise AddrFormatError)) ->
     (version = Some 6 \/ version = None -> init_str be val1 (Some 6) INET_PTON = Raise AddrFormatError) ->
     version = Some 4 \/ version = Some 6 \/ version = None ->
     net_init be (AStr (val1 ++ rest)) ip version flags = Raise AddrFormatError) /\
  (* [implicit_prefix_conservative] *)
  (* for EVERY string: what IPNetwork(s) rejects, IPNetwork(s, implicit_prefix=True) rejects too (the abbreviation step
     cannot make an unreadable text readable) *)
  (forall be s version flags, version = Some 4 \/ version = Some 6 \/ version = None ->
     net_init be (AStr s) false version flags = Raise AddrFormatError ->
     net_init be (AStr s) true version flags = Raise AddrFormatError) /\
  (* [rejects_tuple] *)
  (forall be v p ip version flags ver, version = Some ver -> valid_ver ver = true ->
     ~ (0 <= v < 2 ^ width ver /\ 0 <= p <= width ver) ->
     net_init be (ATuple [v; p]) ip version flags = Raise AddrFormatError) /\
  (* [rejects_tuple_implicit] *)
  (forall be v p ip flags, ~ (0 <= v < 2 ^ 128 /\ 0 <= p <= 128) ->
     net_init be (ATuple [v; p]) ip None flags = Raise AddrFormatError) /\
  (* [rejects_tuple_len] *)
  (forall be t ip version flags, (List.length t <> 2)%nat ->
     version = Some 4 \/ version = Some 6 \/ version = None ->
     net_init be (ATuple t) ip version flags = Raise AddrFormatError).
Proof. exact (conj rejects_prefix (conj rejects_mask (conj not_contiguous (conj rejects_mask_text (conj rejects_address_any (conj implicit_prefix_conservative (conj rejects_tuple (conj rejects_tuple_implicit rejects_tuple_len)))))))). Qed.
Print Assumptions C03_rejects.

(* ============================================================ (7) for EVERY argument: what can escape, what can be built *)
Theorem C03_total :
  (* [exn_kind] *)
  (* the only exceptions: AddrFormatError; ValueError for an invalid `version`; TypeError for a non-str, non-tuple argument *)
  (forall be a ip version flags e, wf_arg a -> net_init be a ip version flags = Raise e ->
     e = AddrFormatError \/
     (e = ValueError /\ exists v, version = Some v /\ v <> 4 /\ v <> 6) \/
     (e = TypeError /\ (forall t, a <> ATuple t) /\ (forall s, a <> AStr s))) /\
  (* [result_wf] *)
  (* every network that is produced is well formed: no out-of-range prefix or value is ever stored *)
  (forall be a ip version flags n, wf_arg a -> net_init be a ip version flags = Ok n ->
     valid_ver (nver n) = true /\ 0 <= nval n < 2 ^ width (nver n) /\ 0 <= nplen n <= width (nver n)) /\
  (* [other_type] *)
  (forall be ip version flags, version = Some 4 \/ version = Some 6 \/ version = None ->
     net_init be AOther ip version flags = Raise TypeError) /\
  (* [bad_version] *)
  (forall be a ip v flags, v <> 4 -> v <> 6 -> (forall n, a <> ANet n) -> (forall x y, a <> AAddr x y) ->
     net_init be a ip (Some v) flags = Raise ValueError).
Proof. exact (conj exn_kind (conj result_wf (conj other_type bad_version))). Qed.
Print Assumptions C03_total.

(* ============================================================ (8) both back-ends: identical on every input *)
Theorem C03_backend_invariant :
  (* [backend_invariant] *)
  (forall be a ip version flags, net_init be a ip version flags = net_init Platform a ip version flags) /\
  (* [backend_invariant_str] *)
  (forall be n, net_str be n = net_str Platform n).
Proof. exact (conj net_init_be net_str_be). Qed.
Print Assumptions C03_backend_invariant.

(* non-vacuity: concrete instances of the hypotheses and conclusions *)
Example C03_nonvacuous :
  net_init Fallback (AStr "1.2.3.4/255.255.255.0") false None NOHOST = Ok {| nver := 4; nval := 16909056; nplen := 24 |} /\
  net_init Platform (AStr "fe80::1/::ffff:ffff:ffff:ffff") true None 0 =
    Ok {| nver := 6; nval := 338288524927261089654018896841347694593; nplen := 64 |} /\
  net_init Platform (ANet {| nver := 4; nval := 16909060; nplen := 24 |}) false None NOHOST =
    Ok {| nver := 4; nval := 16909056; nplen := 24 |} /\
  net_str Fallback {| nver := 6; nval := 281470698652420; nplen := 100 |} = Ok "::ffff:1.2.3.4/100"%string /\
  net_init Platform (AStr "172.24.200") true (Some 4) NOHOST = Ok {| nver := 4; nval := 2887254016; nplen := 16 |} /\
  net_init Platform (AStr "1.2.3.4/255.0.255.0") false None 0 = Raise AddrFormatError /\
  net_init Platform (AStr "1.2.3.4/ +3_2 ") false None 0 = Ok {| nver := 4; nval := 16909060; nplen := 32 |} /\
  net_init Platform (AStr "1.2.3.4/33") false None 0 = Raise AddrFormatError /\
  net_init Platform (AStr "1.2.3.4/1/2") false None 0 = Raise AddrFormatError /\
  net_init Platform (AStr "999.1.1.1") true None 0 = Raise AddrFormatError /\
  has_flag 0 NOHOST = false /\ has_flag NOHOST NOHOST = true /\
  dotted [172; 24; 200] = "172.24.200"%string /\ quad_value (pad4 [172; 24; 200]) = 2887305216 /\ classful 172 = 16.
Proof. repeat split; vm_compute; reflexivity. Qed.
