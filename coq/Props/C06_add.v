(* Props/C06_add.v — property C06, part B: the incremental mutators of IPSet (add, remove, pop and the
   _compact_single_network step they share) keep the stored dict canonical and change the denoted address set
   exactly as set theory says.  Nothing but statements closed by `exact`, each followed by Print Assumptions.
   Vocabulary (Proofs/NetDen.v): SetInv d = every key well formed and host-bit-free, keys pairwise disjoint, no two
   keys siblings (order-free form of "sorted d is the canonical CIDR list"); den d ver x = address (ver, x) lies in
   some key; wfh a = a well formed and host-bit-free; in_elem e = the addresses an argument of add/remove denotes.
   iprange_to_cidrs_spec / cidr_merge_spec are the C05 specifications (hypotheses here, proved in Proofs/C05*.v). *)
From NV Require Import Base.Tac Base.PyVal Model.Ip Model.Merge Model.Sets Proofs.C02 Proofs.NetDen Proofs.C06_add.
Open Scope Z_scope.

(* _compact_single_network(a) right after `self._cidrs[a] = True`, for ANY host-bit-free a (already stored, inside a
   stored key, covering stored keys, or disjoint from all): returns normally — no KeyError from the `del`s, no
   IndexError from next()/previous(), the while loop ends within prefixlen+1 rounds — and the dict is canonical again,
   denoting the old set plus a. *)
Theorem C06_compact_single : forall d0 a, SetInv d0 -> wfh a ->
  exists d', compact_single (dset d0 a) a = Ok d' /\ SetInv d' /\
    forall ver x, den d' ver x <-> den d0 ver x \/ in_net a ver x.
Proof. exact compact_single_spec. Qed.
Print Assumptions C06_compact_single.

(* add(e) for every argument form (int, IPAddress, IPNetwork with host bits, IPRange/IPGlob) *)
Theorem C06_add : iprange_to_cidrs_spec -> cidr_merge_spec ->
  forall d e, SetInv d -> wf_elem e ->
    exists d', set_add d e = Ok d' /\ SetInv d' /\ forall ver x, den d' ver x <-> den d ver x \/ in_elem e ver x.
Proof. exact add_spec_proof. Qed.
Print Assumptions C06_add.

(* remove(e) for every argument form: add-then-cidr_exclude on the one covering key; ranges CIDR by CIDR *)
Theorem C06_remove : iprange_to_cidrs_spec -> cidr_merge_spec ->
  forall d e, SetInv d -> wf_elem e ->
    exists d', set_remove d e = Ok d' /\ SetInv d' /\ forall ver x, den d' ver x <-> den d ver x /\ ~ in_elem e ver x.
Proof. exact remove_spec_proof. Qed.
Print Assumptions C06_remove.

(* one network removed (the step of the range form as well): no hypothesis needed *)
Theorem C06_remove_one : forall d addr, SetInv d -> wf_net addr ->
  exists d', remove_one d addr = Ok d' /\ SetInv d' /\
    forall ver x, den d' ver x <-> den d ver x /\ ~ in_net addr ver x.
Proof. exact remove_one_spec. Qed.
Print Assumptions C06_remove_one.

(* pop(): KeyError on the empty set, otherwise the last inserted key leaves and the rest stays canonical *)
Theorem C06_pop : forall d, SetInv d ->
  (d = [] -> set_pop d = Raise KeyError) /\
  (d <> [] -> exists d' k, set_pop d = Ok (d', k) /\ d = d' ++ [k] /\ In k d /\ SetInv d' /\
     forall ver x, den d' ver x <-> den d ver x /\ ~ in_net k ver x).
Proof. exact pop_spec. Qed.
Print Assumptions C06_pop.

(* non-vacuity: {10.0.0.0/24}.add(10.0.1.77/24) = {10.0.0.0/23} and {10.0.0.0/24}.remove(10.0.0.128/25) =
   {10.0.0.0/25}; the start state satisfies SetInv and the arguments are well formed *)
Example C06_add_nonvacuous :
  let d := [{| nver := 4; nval := 167772160; nplen := 24 |}] in
  SetInv d /\
  wf_elem (ENet {| nver := 4; nval := 167772493; nplen := 24 |}) /\
  set_add d (ENet {| nver := 4; nval := 167772493; nplen := 24 |}) = Ok [{| nver := 4; nval := 167772160; nplen := 23 |}] /\
  wf_elem (ENet {| nver := 4; nval := 167772288; nplen := 25 |}) /\
  set_remove d (ENet {| nver := 4; nval := 167772288; nplen := 25 |}) = Ok [{| nver := 4; nval := 167772160; nplen := 25 |}].
Proof.
  cbv zeta. split; [|split; [|split; [|split]]].
  - split; [|split].
    + constructor; [|constructor]. split.
      * unfold wf_net; cbn [nver nval nplen]. split; [reflexivity|]. change (width 4) with 32. lia.
      * vm_compute. reflexivity.
    + constructor; [constructor|constructor].
    + intros a b [<-|[]] [<-|[]] (_ & _ & E & _). vm_compute in E. discriminate.
  - unfold wf_elem, wf_net; cbn [nver nval nplen]. split; [reflexivity|]. change (width 4) with 32. lia.
  - vm_compute. reflexivity.
  - unfold wf_elem, wf_net; cbn [nver nval nplen]. split; [reflexivity|]. change (width 4) with 32. lia.
  - vm_compute. reflexivity.
Qed.
