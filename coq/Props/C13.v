(* Props/C13.v — property C13: spanning_cidr returns the smallest single block covering all inputs.
   Nothing but statements closed by `exact`, each followed by Print Assumptions.
   `wd` is the family-width table (`_module.width`), so every theorem holds for any width w = wd ver >= 0;
   `spanning_cidr = spanning_cidr_gen width` is the instance at 32/128.  Vocabulary (Proofs/C13.v):
     wf_inputs wd ver l   : 0 <= wd ver and every n in l has nver n = ver, 0 <= nval n < 2^w, 0 <= nplen n <= w
     lowest_first wd l m  : m is the first address of some input and <= the first address of every input
     highest_last wd l m  : m is the last address of some input and >= the last address of every input *)
From NV Require Import Base.Tac Base.PyVal Base.Bits Model.Ip Model.Span Proofs.C02 Proofs.C13.
From Coq Require Import Permutation.
Open Scope Z_scope.

(* For >= 2 well-formed inputs of one family the call succeeds with a network (r, q) of that family which is
   in range and host-bit-free, contains [lowest first, highest last] (hence every input), and is contained in
   every aligned block (r', q') that contains all inputs — in particular no longer-prefix block does. *)
Theorem C13_span : forall wd ver l lo hi,
  wf_inputs wd ver l -> (2 <= length l)%nat -> lowest_first wd l lo -> highest_last wd l hi ->
  let w := wd ver in
  exists r q, spanning_cidr_gen wd l = Ok {| nver := ver; nval := r; nplen := q |} /\
    0 <= q <= w /\ 0 <= r /\ r + 2 ^ (w - q) - 1 < 2 ^ w /\
    r mod 2 ^ (w - q) = 0 /\
    r <= lo /\ hi <= r + 2 ^ (w - q) - 1 /\
    (forall n, In n l -> r <= nfirst wd n /\ nlast wd n <= r + 2 ^ (w - q) - 1) /\
    (forall r' q', 0 <= q' <= w -> r' mod 2 ^ (w - q') = 0 ->
       (forall n, In n l -> r' <= nfirst wd n /\ nlast wd n <= r' + 2 ^ (w - q') - 1) ->
       q' <= q /\ r' <= r /\ r + 2 ^ (w - q) - 1 <= r' + 2 ^ (w - q') - 1).
Proof. exact span_correct. Qed.
Print Assumptions C13_span.

(* closed form: r is the highest last address floored to the result's block size, and every longer prefix
   leaves the block of the highest address strictly above the lowest first address *)
Theorem C13_span_closed_form : forall wd ver l lo hi,
  wf_inputs wd ver l -> (2 <= length l)%nat -> lowest_first wd l lo -> highest_last wd l hi ->
  0 <= lo <= hi /\ hi < 2 ^ wd ver /\
  exists r q, spanning_cidr_gen wd l = Ok {| nver := ver; nval := r; nplen := q |} /\
    0 <= q <= wd ver /\ r = floor2 hi (wd ver - q) /\ r <= lo /\
    forall q', q < q' <= wd ver -> lo < floor2 hi (wd ver - q').
Proof. exact span_result. Qed.
Print Assumptions C13_span_closed_form.

(* the result is a function of (lowest first, highest last) alone *)
Theorem C13_order_free : forall wd ver l l' lo hi,
  wf_inputs wd ver l -> wf_inputs wd ver l' -> (2 <= length l)%nat -> (2 <= length l')%nat ->
  lowest_first wd l lo -> highest_last wd l hi -> lowest_first wd l' lo -> highest_last wd l' hi ->
  spanning_cidr_gen wd l = spanning_cidr_gen wd l'.
Proof. exact span_order_free. Qed.
Print Assumptions C13_order_free.

(* hence independent of order ... *)
Theorem C13_permutation : forall wd ver l l',
  wf_inputs wd ver l -> (2 <= length l)%nat -> Permutation l l' ->
  spanning_cidr_gen wd l = spanning_cidr_gen wd l'.
Proof. exact span_permutation. Qed.
Print Assumptions C13_permutation.

(* ... and of repetition: two sequences with the same set of elements give the same result *)
Theorem C13_repetition : forall wd ver l l',
  wf_inputs wd ver l -> (2 <= length l)%nat -> (2 <= length l')%nat ->
  (forall n, In n l <-> In n l') -> spanning_cidr_gen wd l = spanning_cidr_gen wd l'.
Proof. exact span_same_elements. Qed.
Print Assumptions C13_repetition.

(* lowest first / highest last exist and are unique, so the hypotheses above are never vacuous *)
Theorem C13_bounds_exist : forall wd l, l <> [] -> exists lo hi, lowest_first wd l lo /\ highest_last wd l hi.
Proof. exact lowest_highest_exist. Qed.
Print Assumptions C13_bounds_exist.

(* errors: fewer than two inputs => ValueError; both families present => TypeError (whatever the values) *)
Theorem C13_errors : forall wd l,
  ((length l < 2)%nat -> spanning_cidr_gen wd l = Raise ValueError) /\
  ((2 <= length l)%nat -> (exists n1 n2, In n1 l /\ In n2 l /\ nver n1 <> nver n2) ->
     spanning_cidr_gen wd l = Raise TypeError).
Proof. exact span_errors. Qed.
Print Assumptions C13_errors.

(* the widening loop always ends within its fuel *)
Theorem C13_terminates : forall wd ver l, wf_inputs wd ver l -> spanning_cidr_gen wd l <> Raise OutOfFuel.
Proof. exact span_no_fuel. Qed.
Print Assumptions C13_terminates.

(* the two real families satisfy the width hypothesis *)
Theorem C13_real_families : forall ver l,
  (forall n, In n l -> nver n = ver /\ 0 <= nval n < 2 ^ width ver /\ 0 <= nplen n <= width ver) ->
  wf_inputs width ver l.
Proof. exact wf_inputs_width. Qed.
Print Assumptions C13_real_families.

(* non-vacuity: the F-13 witness meets the hypotheses and the repaired function returns the /8 *)
Example C13_nonvacuous :
  let l := [ {| nver := 4; nval := 167772160; nplen := 8 |}; {| nver := 4; nval := 167837696; nplen := 16 |} ] in
  wf_inputs width 4 l /\ (2 <= length l)%nat /\
  lowest_first width l 167772160 /\ highest_last width l 184549375 /\
  spanning_cidr l = Ok {| nver := 4; nval := 167772160; nplen := 8 |}.
Proof.
  cbn zeta. split; [|split; [|split; [|split]]].
  - apply wf_inputs_width. intros n [<-|[<-|[]]]; cbn [nver nval nplen]; change (width 4) with 32; lia.
  - cbn. lia.
  - split.
    + eexists. split; [left; reflexivity|vm_compute; reflexivity].
    + intros n [<-|[<-|[]]]; vm_compute; discriminate.
  - split.
    + eexists. split; [left; reflexivity|vm_compute; reflexivity].
    + intros n [<-|[<-|[]]]; vm_compute; discriminate.
  - vm_compute. reflexivity.
Qed.
