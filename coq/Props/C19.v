(* Props/C19.v — property C19: IANA and IEEE registry lookups are exact with respect to the shipped data.
   Nothing but statements closed by `exact`, each followed by Print Assumptions.
   `iana_impl` / `iana_spec` are the literals regenerated on every run (coq/Gen/iana_gen.v). *)
From Coq Require Import String Sorting.Permutation.
From NV Require Import Base.Tac Base.PyVal Model.Ip Model.Iana Model.Ieee
  Proofs.C19_lift Proofs.C19_iana Proofs.C19_ieee Proofs.GenOk_C19 Gen.iana_gen.
Open Scope Z_scope.

(* PART A.  For every address of either family (every integer v), under each of the four result keys, `query`
   over the working tree's IANA_INFO returns, up to order, exactly the records of the independent reading of the
   shipped XML files whose published block contains the address (the specification has no multicast gate). *)
Theorem C19_iana_lookup_exact : forall ver v reg, ver = 4 \/ ver = 6 -> In reg [REG_IPV4; REG_MCAST; REG_IPV6; REG_IPV6U] ->
  Permutation (query_ids iana_impl ver v reg) (spec_ids iana_spec ver v reg).
(* spec_ids spec ver v reg = map s_id (filter (fun s => ((s_reg s =? reg) && (s_ver s =? ver)) &&
                                                       ((s_first s <=? v) && (v <=? s_last s))) spec)   (Proofs/C19_iana.v) *)
Proof. exact iana_lookup_exact. Qed.
Print Assumptions C19_iana_lookup_exact.

Theorem C19_iana_lookup_exact_set : forall ver v reg id, ver = 4 \/ ver = 6 -> In reg [REG_IPV4; REG_MCAST; REG_IPV6; REG_IPV6U] ->
  (In id (query_ids iana_impl ver v reg) <-> In id (spec_ids iana_spec ver v reg)).
Proof. exact iana_lookup_exact_set. Qed.
Print Assumptions C19_iana_lookup_exact_set.

(* equal record ids in the two readings mean equal registry, version, first and last (as the key object reports
   them); ids are not reused inside a reading *)
Theorem C19_iana_ids_coherent :
  (forall r s, In r iana_impl -> In s iana_spec -> r_id r = s_id s ->
     r_reg r = s_reg s /\ r_ver r = s_ver s /\ row_first r = s_first s /\ row_last r = s_last s) /\
  NoDup (map r_id iana_impl) /\ NoDup (map s_id iana_spec).
Proof. exact iana_ids_coherent. Qed.
Print Assumptions C19_iana_ids_coherent.

(* `_within_bounds` is membership in the closed interval [first, last] of a key of the same family (any table) *)
Theorem C19_within_bounds : forall ver v r, row_wfb r = true ->
  within_bounds ver v r = (r_ver r =? ver) && ((row_first r <=? v) && (v <=? row_last r)).
Proof. exact within_bounds_first_last. Qed.
Print Assumptions C19_within_bounds.

(* PART B.  Index rows of OUIIndexParser / IABIndexParser for every well-formed registry: header lines without
   `(hex)`, then >= 1 records, each a `(hex)` line followed by lines without `(hex)` (IAB: exactly one of them with
   `(base 16)`); any terminators, duplicates allowed.  Row i = (key_i, bytes before record i, bytes of record i). *)
Theorem C19_index_exact :
  (forall hdr recs, Forall plain hdr -> recs <> [] -> Forall wf_orec recs ->
     oui_parse (hdr ++ flat_map olines recs) = (oui_expected (total hdr) recs, None) /\
     abut (total hdr) (oui_expected (total hdr) recs) (total (hdr ++ flat_map olines recs)) /\
     map (fun x => fst (fst x)) (oui_expected (total hdr) recs) = map o_key recs) /\
  (forall hdr recs, Forall plain hdr -> recs <> [] -> Forall wf_irec recs ->
     iab_parse (hdr ++ flat_map ilines recs) = (iab_expected (total hdr) recs, None) /\
     abut (total hdr) (iab_expected (total hdr) recs) (total (hdr ++ flat_map ilines recs))).
Proof. exact index_exact. Qed.
Print Assumptions C19_index_exact.

Theorem C19_index_empty_raises : forall hdr, Forall plain hdr ->
  oui_parse hdr = ([], Some AttributeError) /\ iab_parse hdr = ([], Some AttributeError).
Proof. exact index_empty_raises. Qed.
Print Assumptions C19_index_empty_raises.

Theorem C19_index_keys_hex :
  (forall line t, first_token line = Some t -> remove_hyphens t <> ""%string -> all_hex (remove_hyphens t) = true ->
     oui_key_of line = Ok (hexnum (remove_hyphens t) 0)) /\
  (forall hexline b16line p s, first_token hexline = Some p -> first_token b16line = Some s ->
     (remove_hyphens p ++ before_hyphen s)%string <> ""%string -> all_hex (remove_hyphens p ++ before_hyphen s) = true ->
     iab_key_of hexline b16line = Ok (Z.shiftr (hexnum (remove_hyphens p ++ before_hyphen s) 0) 12)).
Proof. exact index_keys_hex. Qed.
Print Assumptions C19_index_keys_hex.

(* PART C (model level).  OUI(k) / IAB(k) raise NotRegisteredError exactly when the index has no row for the identifier
   (rows = the OUI_INDEX / IAB_INDEX entry with the bytes each row delimits); everything else about the shipped
   index and text is established by correspondence only. *)
Theorem C19_registered :
  (forall k rows, 0 <= k <= 16777215 -> (oui_lookup k rows = Raise NotRegisteredError <-> rows = [])) /\
  (forall k v rows, iab_value k = Ok v -> (iab_lookup k rows = Raise NotRegisteredError <-> rows = [])).
Proof. exact registered_iff_rows. Qed.
Print Assumptions C19_registered.

(* non-vacuity: 224.0.0.1 is found in the IPv4 space and in the multicast registry; a two-record CRLF/LF registry *)
Example C19_nonvacuous :
  (length (query_ids iana_impl 4 3758096385 REG_IPV4) = 1%nat /\ length (query_ids iana_impl 4 3758096385 REG_MCAST) = 1%nat /\
   length (query_ids iana_impl 6 (2 ^ 125 + 1) REG_IPV6U) = 0%nat /\ length (query_ids iana_impl 6 (2 ^ 125 + 1) REG_IPV6) = 1%nat) /\
  iab_parse C19_ieee.sample_iab = ([(KI 84683452, 8, 64); (KI 17406710177, 72, 44)], None).
Proof. split; [split; [|split; [|split]]|]; vm_compute; reflexivity. Qed.
