(* Props/C06_src_bulk.v -- SRCA: source tie for C06 (the remaining argument forms that need no parsing): the Gallina definitions
   that harness/gen/pysrc.py regenerates on every run from the CURRENT text of netaddr/ip/sets.py
   (coq/Gen/pysrc_sets_bulk_gen.v: IPSet.add / remove specialised to an IPRange object; IPSet.update specialised to an
   IPNetwork, an IPRange and a list of IPNetwork objects; IPSet.__init__ specialised to None, an IPNetwork, an IPRange, an
   IPSet and a list of IPNetwork objects) are equal to the hand-written model functions set_add / set_remove / set_update /
   set_init of Model/Sets.v that the theorems of Props/C06*.v are about.  An IPRange object is (version, start, end);
   __init__ takes the (ignored) old state first.  Hypotheses: wf_range (valid version, 0 <= start <= end < 2^width) where
   `addr[0]`, `addr[-1]` go through IPListMixin.__getitem__ (tie C10) and the range-checking IPAddress constructor; wf_net
   where `.cidr` is taken; SetInv of the set for remove (the hypothesis of the property theorems); none for the list, None
   and IPSet forms.  The int / str / IPAddress argument forms and lists with such elements stay tied by correspondence only.
   Nothing but the statement closed by `exact`, followed by Print Assumptions. *)
From NV Require Import Base.Tac Base.PyVal Model.Ip Model.Sets Model.SrcPrelude Model.SrcPreludeSets
  Gen.pysrc_gen Gen.pysrc_sets_gen Gen.pysrc_sets_bulk_gen Proofs.C02 Proofs.NetDen Proofs.GenOk_Src_C06_bulk.
Import ListNotations.
Open Scope Z_scope.

Theorem C06_source_tie_bulk :
  (forall d ver s e flags, wf_range ver s e -> src_IPSet_add_iprange d (ver, s, e) flags = set_add d (ERange ver s e)) /\
  (forall d ver s e flags, SetInv d -> wf_range ver s e -> src_IPSet_remove_iprange d (ver, s, e) flags = set_remove d (ERange ver s e)) /\
  (forall d n flags, wf_net n -> src_IPSet_update_net d n flags = set_update d (ANet n)) /\
  (forall d ver s e flags, wf_range ver s e -> src_IPSet_update_iprange d (ver, s, e) flags = set_update d (ARange ver s e)) /\
  (forall d l flags, src_IPSet_update_list d l flags = set_update d (AIter (map ENet l))) /\
  (forall d0 flags, Ok (src_IPSet_init_none d0 tt flags) = set_init ANone) /\
  (forall d0 n flags, wf_net n -> src_IPSet_init_net d0 n flags = set_init (ANet n)) /\
  (forall d0 ver s e flags, wf_range ver s e -> src_IPSet_init_iprange d0 (ver, s, e) flags = set_init (ARange ver s e)) /\
  (forall d0 o flags, Ok (src_IPSet_init_ipset d0 o flags) = set_init (ASet o)) /\
  (forall d0 l flags, src_IPSet_init_list d0 l flags = set_init (AIter (map ENet l))).
Proof. exact C06_bulk_tie_ok. Qed.
Print Assumptions C06_source_tie_bulk.

(* the generated definitions compute: IPSet(IPRange(10.0.0.1, 10.0.0.2)) = {10.0.0.1/32, 10.0.0.2/32};
   IPSet([10.0.0.128/25, 10.0.0.0/25]) = {10.0.0.0/24} *)
Example C06_src_bulk_nonvacuous :
  src_IPSet_init_iprange [] (4, 167772161, 167772162) 0
    = Ok [ {| nver := 4; nval := 167772161; nplen := 32 |}; {| nver := 4; nval := 167772162; nplen := 32 |} ] /\
  src_IPSet_init_list [] [ {| nver := 4; nval := 167772288; nplen := 25 |}; {| nver := 4; nval := 167772160; nplen := 25 |} ] 0
    = Ok [ {| nver := 4; nval := 167772160; nplen := 24 |} ].
Proof. split; vm_compute; reflexivity. Qed.
