(* Props/C03_code.v — property C03 stated DIRECTLY ABOUT THE CODE: every theorem of Props/C03.v, conjunct by conjunct and under the
   same hypotheses, with each model function replaced by the Gallina definition `src_…` that harness/gen/pysrc.py regenerates on
   every run from the CURRENT text of netaddr/ip/__init__.py (parse_ip_network, IPNetwork.__init__, cidr_abbrev_to_verbose with its
   inner classful_prefix, IPNetwork.__str__, IPAddress.__init__ / __str__: coq/Gen/pysrc_parse_gen.v, pysrc_ctor_gen.v) and of
   expand_partial_address of netaddr/strategy/ipv4.py (coq/Gen/pysrc_ipv4_gen.v):
     net_init be a ..            ->  src_net_init be a ..  (Proofs/Code_C03.v: the dispatcher over the kinds of `addr` -- the translator
                                     emits one constructor per kind: src_IPNetwork_init_tuple / _str / _net / _addr / _int)
     int_to_str be ver x None    ->  src_IPAddress_str be ver (width ver) x      (str() of the IPAddress object (ver, x))
     net_str be (ver, v, p)      ->  src_IPNetwork_str be ver (width ver) v p    (str() of the IPNetwork object)
     init_str be t version f     ->  src_IPAddress_init_str be t version f       (IPAddress(t, version, f))
     expand_partial_address, cidr_abbrev_to_verbose, classful_prefix_int -> src_ipv4_expand_partial_address,
                                     src_cidr_abbrev_to_verbose, src_cidr_abbrev_to_verbose_classful_prefix_int.
   Hypotheses: exactly those of Props/C03.v (the ties of C03 / C01 have none), so no tie hypothesis goes beyond the property's own.
   THE BACK-END `be`.  The generated constructors reach socket.inet_aton / inet_pton / inet_ntop through the prelude symbols of
   Model/SrcPreludeText.v with the back-end as a parameter.  Every statement holds for both: for be = Fallback it is about
   regenerated code and the hand model of netaddr/fbsocket.py (itself source-tied, Props/C01_src.v); for be = Platform it is
   RELATIVE TO the named oracles Std4 / Std6 of Model/IpText.v that stand for the platform functions.
   Clauses still about the model:
   * inside the generated constructors, module.str_to_int / int_to_str and the dictionaries prefix_to_netmask / netmask_to_prefix /
     hostmask_to_prefix of netaddr/strategy/ipv4.py, ipv6.py are prelude symbols = the model's own functions (the unit of
     netaddr/ip/__init__.py does not inline the strategy units; str_to_int / int_to_str of both modules are source-tied separately,
     Props/C01_src.v, and restated about the code in Props/C01_code.v);
   * is_netmask / is_hostmask in the HYPOTHESES of [rejects_mask] describe the mask value (characterised arithmetically by
     [not_contiguous], which mentions no code); Std4.ntoa (pad4 os), dotted, quad_value, classful are specification vocabulary;
   * int(), split, '%' formatting are the CPython models of Base/PyStr.v.
   Nothing but statements closed by `exact`, each followed by Print Assumptions. *)
From Coq Require Import ZArith List Bool String Ascii.
From NV Require Import Base.PyVal Base.PyStr Model.IpText Model.FbSocket Model.AddrText Model.Ip Model.NetText
  Proofs.C01_V6 Proofs.C02 Proofs.C03_Str Proofs.C03 Proofs.C03_Total Proofs.C03_Abbrev
  Model.SrcPrelude Model.SrcPreludeText Gen.pysrc_gen Gen.pysrc_ctor_gen Gen.pysrc_parse_gen Gen.pysrc_ipv4_gen Proofs.Code_C03.
Import ListNotations.
Open Scope Z_scope.

(* ============================================================ (1) every notation of (ver, v, p) builds the same network *)
Theorem C03_notations_of_source :
  (* [notations_prefix] *)
  (* "a/p" *)
  (forall be ver v p ip version flags,
     valid_ver ver = true /\ 0 <= v < 2 ^ width ver -> 0 <= p <= width ver -> version = Some ver \/ version = None ->
     (do a <- src_IPAddress_str be ver (width ver) v; src_net_init be (AStr (a ++ "/" ++ fmt_d p)) ip version flags) =
     Ok {| nver := ver; nval := if has_flag flags NOHOST then v - v mod 2 ^ (width ver - p) else v; nplen := p |}) /\
  (* [notations_netmask] *)
  (* "a/<netmask of p>", every p including 0 (all-zeros mask) and w (all-ones mask) *)
  (forall be ver v p ip version flags,
     valid_ver ver = true /\ 0 <= v < 2 ^ width ver -> 0 <= p <= width ver -> version = Some ver \/ version = None ->
     (do a <- src_IPAddress_str be ver (width ver) v; do m <- src_IPAddress_str be ver (width ver) (2 ^ width ver - 2 ^ (width ver - p));
      src_net_init be (AStr (a ++ "/" ++ m)) ip version flags) =
     Ok {| nver := ver; nval := if has_flag flags NOHOST then v - v mod 2 ^ (width ver - p) else v; nplen := p |}) /\
  (* [notations_hostmask] *)
  (* "a/<hostmask of p>" for the proper hostmasks *)
  (forall be ver v p ip version flags,
     valid_ver ver = true /\ 0 <= v < 2 ^ width ver -> 0 < p < width ver -> version = Some ver \/ version = None ->
     (do a <- src_IPAddress_str be ver (width ver) v; do m <- src_IPAddress_str be ver (width ver) (2 ^ (width ver - p) - 1);
      src_net_init be (AStr (a ++ "/" ++ m)) ip version flags) =
     Ok {| nver := ver; nval := if has_flag flags NOHOST then v - v mod 2 ^ (width ver - p) else v; nplen := p |}) /\
  (* [notations_hostmask_ambiguous] *)
  (* the two masks that are both a netmask and a hostmask: is_netmask is tested first, so the hostmask of /0 (all-ones)
     gives /w and the hostmask of /w (all-zeros) gives /0 *)
  (forall be ver v ip version flags,
     valid_ver ver = true /\ 0 <= v < 2 ^ width ver -> version = Some ver \/ version = None ->
     (do a <- src_IPAddress_str be ver (width ver) v; do m <- src_IPAddress_str be ver (width ver) (2 ^ (width ver - 0) - 1);
      src_net_init be (AStr (a ++ "/" ++ m)) ip version flags) =
     Ok {| nver := ver; nval := if has_flag flags NOHOST then v - v mod 2 ^ (width ver - width ver) else v; nplen := width ver |} /\
     (do a <- src_IPAddress_str be ver (width ver) v; do m <- src_IPAddress_str be ver (width ver) (2 ^ (width ver - width ver) - 1);
      src_net_init be (AStr (a ++ "/" ++ m)) ip version flags) =
     Ok {| nver := ver; nval := if has_flag flags NOHOST then v - v mod 2 ^ (width ver - 0) else v; nplen := 0 |}) /\
  (* [notations_tuple] *)
  (* the tuple (v, p) with an explicit version *)
  (forall be ver v p ip flags,
     valid_ver ver = true /\ 0 <= v < 2 ^ width ver -> 0 <= p <= width ver ->
     src_net_init be (ATuple [v; p]) ip (Some ver) flags =
     Ok {| nver := ver; nval := if has_flag flags NOHOST then v - v mod 2 ^ (width ver - p) else v; nplen := p |}) /\
  (* [notations_tuple_implicit] *)
  (* ... and without one: the tuple does not say its family, IPv4 is tried first *)
  (forall be v p ip flags, 0 <= v < 2 ^ 128 -> 0 <= p <= 128 ->
     src_net_init be (ATuple [v; p]) ip None flags =
     Ok (let ver := if (v <? 2 ^ 32) && (p <=? 32) then 4 else 6 in
         {| nver := ver; nval := if has_flag flags NOHOST then v - v mod 2 ^ (width ver - p) else v; nplen := p |})) /\
  (* [notations_copy_net] *)
  (* copy construction from an IPNetwork (the `version` and `implicit_prefix` arguments are not looked at) *)
  (forall be ver v p ip version flags,
     valid_ver ver = true /\ 0 <= v < 2 ^ width ver -> 0 <= p <= width ver ->
     src_net_init be (ANet {| nver := ver; nval := v; nplen := p |}) ip version flags =
     Ok {| nver := ver; nval := if has_flag flags NOHOST then v - v mod 2 ^ (width ver - p) else v; nplen := p |}) /\
  (* [notations_copy_addr] *)
  (* copy construction from an IPAddress: full-width prefix *)
  (forall be ver v ip version flags,
     valid_ver ver = true /\ 0 <= v < 2 ^ width ver ->
     src_net_init be (AAddr ver v) ip version flags = Ok {| nver := ver; nval := v; nplen := width ver |}).
Proof. exact (conj notations_prefix_code (conj notations_netmask_code (conj notations_hostmask_code (conj notations_hostmask_ambiguous_code (conj notations_tuple_code (conj notations_tuple_implicit_code (conj notations_copy_net_code notations_copy_addr_code))))))). Qed.
Print Assumptions C03_notations_of_source.

(* ============================================================ (2) str() parses back to an identical network *)
Theorem C03_str_roundtrip_of_source :
  (* [str_roundtrip] *)
  (forall be ver v p ip version flags,
     valid_ver ver = true /\ 0 <= v < 2 ^ width ver -> 0 <= p <= width ver -> version = Some ver \/ version = None ->
     (do s <- src_IPNetwork_str be ver (width ver) v p; src_net_init be (AStr s) ip version flags) =
     Ok {| nver := ver; nval := if has_flag flags NOHOST then v - v mod 2 ^ (width ver - p) else v; nplen := p |}).
Proof. exact str_roundtrip_code. Qed.
Print Assumptions C03_str_roundtrip_of_source.

(* ============================================================ (3) a bare address gets the full-width prefix *)
Theorem C03_bare_of_source :
  (* [bare] *)
  (forall be ver v version flags,
     valid_ver ver = true /\ 0 <= v < 2 ^ width ver -> version = Some ver \/ version = None ->
     (do a <- src_IPAddress_str be ver (width ver) v; src_net_init be (AStr a) false version flags) =
     Ok {| nver := ver; nval := v; nplen := width ver |}) /\
  (* [bare_v6_implicit] *)
  (* also under implicit_prefix for IPv6 (for IPv4 the classful rule applies: C03_partial_classful with four octets) *)
  (forall be v version flags, 0 <= v < 2 ^ 128 -> version = Some 6 \/ version = None ->
     (do a <- src_IPAddress_str be 6 (width 6) v; src_net_init be (AStr a) true version flags) = Ok {| nver := 6; nval := v; nplen := 128 |}).
Proof. exact (conj bare_code bare_v6_implicit_code). Qed.
Print Assumptions C03_bare_of_source.

(* ============================================================ (4) NOHOST clears exactly the host bits - for EVERY argument *)
Theorem C03_nohost_of_source :
  (* [nohost] *)
  (* whatever the argument (any string, tuple, copy source), if the flag-less call builds n then the call with any flags
     builds the same family and prefix, with value n.value - n.value mod 2^(w - n.prefixlen) when the NOHOST bit is set *)
  (forall be a ip version flags n, wf_arg a -> src_net_init be a ip version 0 = Ok n ->
     src_net_init be a ip version flags =
     Ok {| nver := nver n;
           nval := if has_flag flags NOHOST then nval n - nval n mod 2 ^ (width (nver n) - nplen n) else nval n;
           nplen := nplen n |}) /\
  (* [failure_flag_free] *)
  (forall be a ip version flags e, wf_arg a ->
     (src_net_init be a ip version flags = Raise e <-> src_net_init be a ip version 0 = Raise e)).
Proof. exact (conj nohost_code failure_flag_free_code). Qed.
Print Assumptions C03_nohost_of_source.

(* ============================================================ (5) partial / classful IPv4 abbreviations *)
Theorem C03_partial_of_source :
  (* [classful_table] *)
  (forall o,
     (0 <= o <= 255 -> src_cidr_abbrev_to_verbose_classful_prefix_int o =
        Ok (if o <=? 127 then 8 else if o <=? 191 then 16 else if o <=? 223 then 24 else if o <=? 239 then 4 else 32)) /\
     (~ 0 <= o <= 255 -> src_cidr_abbrev_to_verbose_classful_prefix_int o = Raise IndexError)) /\
  (* [partial_expand] *)
  (* src_ipv4_expand_partial_address pads 1-4 octets with ".0" *)
  (forall os, (1 <= List.length os <= 4)%nat /\ Forall (fun a => 0 <= a < 256) os ->
     src_ipv4_expand_partial_address (dotted os) = Ok (Std4.ntoa (pad4 os))) /\
  (* [partial_abbrev_classful] *)
  (* src_cidr_abbrev_to_verbose: octet padding and the class of the first octet / the explicit prefix *)
  (forall os, (1 <= List.length os <= 4)%nat /\ Forall (fun a => 0 <= a < 256) os ->
     exists o1, hd_error os = Some o1 /\
     src_cidr_abbrev_to_verbose (dotted os) = Ok (Std4.ntoa (pad4 os) ++ "/" ++ fmt_d (classful o1))%string) /\
  (* [partial_abbrev_prefixed] *)
  (forall os p, (1 <= List.length os <= 4)%nat /\ Forall (fun a => 0 <= a < 256) os -> 0 <= p <= 32 ->
     src_cidr_abbrev_to_verbose (dotted os ++ "/" ++ fmt_d p) = Ok (Std4.ntoa (pad4 os) ++ "/" ++ fmt_d p)%string) /\
  (* [implicit_prefix_is_abbrev] *)
  (* IPNetwork(s, implicit_prefix=True) is IPNetwork(src_cidr_abbrev_to_verbose(s)), for every string *)
  (forall be s s' version flags, src_cidr_abbrev_to_verbose s = Ok s' ->
     src_net_init be (AStr s) true version flags = src_net_init be (AStr s') false version flags) /\
  (* [partial_bare] *)
  (* IPNetwork on a partial form without prefix, implicit_prefix off: padded address, /32 *)
  (forall be os version flags,
     (1 <= List.length os <= 4)%nat /\ Forall (fun a => 0 <= a < 256) os -> version = Some 4 \/ version = None ->
     src_net_init be (AStr (dotted os)) false version flags = Ok {| nver := 4; nval := quad_value (pad4 os); nplen := 32 |}) /\
  (* [partial_prefixed] *)
  (* ... with an explicit prefix 0..32 (implicit_prefix on or off): that prefix *)
  (forall be os p ip version flags,
     (1 <= List.length os <= 4)%nat /\ Forall (fun a => 0 <= a < 256) os -> 0 <= p <= 32 -> version = Some 4 \/ version = None ->
     src_net_init be (AStr (dotted os ++ "/" ++ fmt_d p)) ip version flags =
     Ok {| nver := 4; nval := if has_flag flags NOHOST then quad_value (pad4 os) - quad_value (pad4 os) mod 2 ^ (width 4 - p)
                              else quad_value (pad4 os); nplen := p |}) /\
  (* [partial_classful] *)
  (* ... without prefix, implicit_prefix on: the classful prefix of the first octet (also for a full dotted quad) *)
  (forall be os o1 version flags,
     (1 <= List.length os <= 4)%nat /\ Forall (fun a => 0 <= a < 256) os -> hd_error os = Some o1 -> version = Some 4 \/ version = None ->
     src_net_init be (AStr (dotted os)) true version flags =
     Ok {| nver := 4;
           nval := if has_flag flags NOHOST then quad_value (pad4 os) - quad_value (pad4 os) mod 2 ^ (width 4 - classful o1)
                   else quad_value (pad4 os);
           nplen := classful o1 |}).
Proof. exact (conj classful_table_code (conj partial_expand_code (conj partial_abbrev_classful_code (conj partial_abbrev_prefixed_code (conj implicit_prefix_is_abbrev_code (conj partial_bare_code (conj partial_prefixed_code partial_classful_code))))))). Qed.
Print Assumptions C03_partial_of_source.

(* ============================================================ (6) malformed notations raise AddrFormatError *)
Theorem C03_rejects_of_source :
  (* [rejects_prefix] *)
  (* a prefix text that int() reads as an integer outside 0..w (any spelling int() accepts: signs, blanks, underscores) *)
  (forall be ver v t n ip version flags,
     valid_ver ver = true /\ 0 <= v < 2 ^ width ver -> version = Some ver \/ version = None ->
     py_int 10 t = Some n -> ~ 0 <= n <= width ver ->
     (do a <- src_IPAddress_str be ver (width ver) v; src_net_init be (AStr (a ++ "/" ++ t)) ip version flags) = Raise AddrFormatError) /\
  (* [rejects_mask] *)
  (* a mask text that the strict parser reads as a value that is neither a netmask nor a hostmask ... *)
  (forall be ver v t x m ip version flags,
     valid_ver ver = true /\ 0 <= v < 2 ^ width ver -> version = Some ver \/ version = None ->
     py_int 10 t = None -> src_IPAddress_init_str be t (Some ver) INET_PTON = Ok (x, m) ->
     is_netmask (width ver) m = false -> is_hostmask m = false ->
     (do a <- src_IPAddress_str be ver (width ver) v; src_net_init be (AStr (a ++ "/" ++ t)) ip version flags) = Raise AddrFormatError) /\
  (* [not_contiguous] *)
  (* ... which says exactly: m is not contiguous *)
  (forall w m, 0 <= w -> 0 <= m < 2 ^ w ->
     (is_netmask w m = false /\ is_hostmask m = false <->
      forall q, 0 <= q <= w -> m <> 2 ^ w - 2 ^ (w - q) /\ m <> 2 ^ (w - q) - 1)) /\
  (* [rejects_mask_text] *)
  (* a prefix part that is neither an integer nor an address of the family (including one holding a further '/') *)
  (forall be ver v t e ip version flags,
     valid_ver ver = true /\ 0 <= v < 2 ^ width ver -> version = Some ver \/ version = None ->
     py_int 10 t = None -> src_IPAddress_init_str be t (Some ver) INET_PTON = Raise e ->
     (do a <- src_IPAddress_str be ver (width ver) v; src_net_init be (AStr (a ++ "/" ++ t)) ip version flags) = Raise AddrFormatError) /\
  (* [rejects_address] *)
  (* an address part that the strict parser of the family (families) tried rejects and, for IPv4, that the partial
     expansion does not turn into an acceptable dotted quad; with or without a prefix part, implicit_prefix on or off *)
  (forall be val1 rest ip version flags, contains_char "/" val1 = false ->
     (rest = ""%string \/ exists t, rest = ("/" ++ t)%string) ->
     (version = Some 4 \/ version = None ->
        src_IPAddress_init_str be val1 (Some 4) INET_PTON = Raise AddrFormatError /\
        (src_ipv4_expand_partial_address val1 = Raise AddrFormatError \/
         exists e, src_ipv4_expand_partial_address val1 = Ok e /\ src_IPAddress_init_str be e (Some 4) INET_PTON = Raise AddrFormatError)) ->
     (version = Some 6 \/ version = None -> src_IPAddress_init_str be val1 (Some 6) INET_PTON = Raise AddrFormatError) ->
     version = Some 4 \/ version = Some 6 \/ version = None ->
     src_net_init be (AStr (val1 ++ rest)) ip version flags = Raise AddrFormatError) /\
  (* [implicit_prefix_conservative] *)
  (* for EVERY string: what IPNetwork(s) rejects, IPNetwork(s, implicit_prefix=True) rejects too (the abbreviation step
     cannot make an unreadable text readable) *)
  (forall be s version flags, version = Some 4 \/ version = Some 6 \/ version = None ->
     src_net_init be (AStr s) false version flags = Raise AddrFormatError ->
     src_net_init be (AStr s) true version flags = Raise AddrFormatError) /\
  (* [rejects_tuple] *)
  (forall be v p ip version flags ver, version = Some ver -> valid_ver ver = true ->
     ~ (0 <= v < 2 ^ width ver /\ 0 <= p <= width ver) ->
     src_net_init be (ATuple [v; p]) ip version flags = Raise AddrFormatError) /\
  (* [rejects_tuple_implicit] *)
  (forall be v p ip flags, ~ (0 <= v < 2 ^ 128 /\ 0 <= p <= 128) ->
     src_net_init be (ATuple [v; p]) ip None flags = Raise AddrFormatError) /\
  (* [rejects_tuple_len] *)
  (forall be t ip version flags, (List.length t <> 2)%nat ->
     version = Some 4 \/ version = Some 6 \/ version = None ->
     src_net_init be (ATuple t) ip version flags = Raise AddrFormatError).
Proof. exact (conj rejects_prefix_code (conj rejects_mask_code (conj not_contiguous_code (conj rejects_mask_text_code (conj rejects_address_code (conj implicit_prefix_conservative_code (conj rejects_tuple_code (conj rejects_tuple_implicit_code rejects_tuple_len_code)))))))). Qed.
Print Assumptions C03_rejects_of_source.

(* ============================================================ (7) for EVERY argument: what can escape, what can be built *)
Theorem C03_total_of_source :
  (* [exn_kind] *)
  (* the only exceptions: AddrFormatError; ValueError for an invalid `version`; TypeError for a non-str, non-tuple argument *)
  (forall be a ip version flags e, wf_arg a -> src_net_init be a ip version flags = Raise e ->
     e = AddrFormatError \/
     (e = ValueError /\ exists v, version = Some v /\ v <> 4 /\ v <> 6) \/
     (e = TypeError /\ (forall t, a <> ATuple t) /\ (forall s, a <> AStr s))) /\
  (* [result_wf] *)
  (* every network that is produced is well formed: no out-of-range prefix or value is ever stored *)
  (forall be a ip version flags n, wf_arg a -> src_net_init be a ip version flags = Ok n ->
     valid_ver (nver n) = true /\ 0 <= nval n < 2 ^ width (nver n) /\ 0 <= nplen n <= width (nver n)) /\
  (* [other_type] *)
  (forall be ip version flags, version = Some 4 \/ version = Some 6 \/ version = None ->
     src_net_init be AOther ip version flags = Raise TypeError) /\
  (* [bad_version] *)
  (forall be a ip v flags, v <> 4 -> v <> 6 -> (forall n, a <> ANet n) -> (forall x y, a <> AAddr x y) ->
     src_net_init be a ip (Some v) flags = Raise ValueError).
Proof. exact (conj exn_kind_code (conj result_wf_code (conj other_type_code bad_version_code))). Qed.
Print Assumptions C03_total_of_source.

(* ============================================================ (8) both back-ends: identical on every input *)
Theorem C03_backend_invariant_of_source :
  (* [backend_invariant] *)
  (forall be a ip version flags, src_net_init be a ip version flags = src_net_init Platform a ip version flags) /\
  (* [backend_invariant_str] *)
  (forall be ver v p, src_IPNetwork_str be ver (width ver) v p = src_IPNetwork_str Platform ver (width ver) v p).
Proof. exact (conj backend_invariant_code backend_invariant_str_code). Qed.
Print Assumptions C03_backend_invariant_of_source.

(* ============================================================ (9) any object of another type (an int stands for it) *)
Theorem C03_other_type_of_source : forall i ip version flags, version = Some 4 \/ version = Some 6 \/ version = None ->
  src_IPNetwork_init_int i ip version flags = Raise TypeError.
Proof. exact other_type_any_code. Qed.
Print Assumptions C03_other_type_of_source.

(* non-vacuity: the generated constructors compute, on both back-ends *)
Example C03_code_nonvacuous :
  src_net_init Fallback (AStr "1.2.3.4/255.255.255.0") false None NOHOST = Ok {| nver := 4; nval := 16909056; nplen := 24 |} /\
  src_net_init Platform (AStr "fe80::1/::ffff:ffff:ffff:ffff") true None 0 =
    Ok {| nver := 6; nval := 338288524927261089654018896841347694593; nplen := 64 |} /\
  src_net_init Platform (ANet {| nver := 4; nval := 16909060; nplen := 24 |}) false None NOHOST =
    Ok {| nver := 4; nval := 16909056; nplen := 24 |} /\
  src_net_init Fallback (ATuple [16909060; 24]) false None 0 = Ok {| nver := 4; nval := 16909060; nplen := 24 |} /\
  src_IPNetwork_str Fallback 6 (width 6) 281470698652420 100 = Ok "::ffff:1.2.3.4/100"%string /\
  src_net_init Platform (AStr "172.24.200") true (Some 4) NOHOST = Ok {| nver := 4; nval := 2887254016; nplen := 16 |} /\
  src_net_init Platform (AStr "1.2.3.4/255.0.255.0") false None 0 = Raise AddrFormatError /\
  src_net_init Fallback (AStr "1.2.3.4/33") false None 0 = Raise AddrFormatError /\
  src_cidr_abbrev_to_verbose "172.24.200" = Ok "172.24.200.0/16"%string /\
  src_ipv4_expand_partial_address "10.1" = Ok "10.1.0.0"%string.
Proof. repeat split; vm_compute; reflexivity. Qed.
