(* Props/C08_src_e.v — source tie for C08, fifth part (tag SRCF): construction.  The Gallina definitions that harness/gen/pysrc.py
   regenerates on every run from the CURRENT text of EUI.__init__ and EUI._set_value of netaddr/eui/__init__.py
   (coq/Gen/pysrc_euib_gen.v) are equal to Model/Eui.v eui_init, detect_version, set_value_ver -- the functions C08_roundtrip,
   C08_spellings_grouped / _bare and C08_init_int are about.
   __init__ is specialised by the type of `addr` (int / text / EUI = copy construction); _set_value by what is known about
   self._module when it runs (None: the implicit-version loops with the per-module integer fallback; _eui48; _eui64) and by the
   type of `value`; str_to_int of both strategy modules is also specialised to an int argument (TypeError resp. AddrFormatError).
   Reading: the attributes _module / _value / _dialect are tracked at translation time, so `self._module is None` is decided on
   every path; `for module in (_eui48, _eui64)` is unrolled; `try: .. except E: pass` continues after the try when a call in
   its body raises E; `self.value = x` is the call of the _set_value specialisation for the module known there, `self.dialect = d`
   the call of _set_dialect; super().__init__() is the base class's `self._value = None`; the method answers the final state
   ((version, value) for _set_value, the record for __init__).
   No hypothesis.  Nothing but the statement closed by `exact`, followed by Print Assumptions. *)
From Coq Require Import String Ascii.
From NV Require Import Base.Tac Base.PyVal Base.PyStr Model.Ip Model.Eui Model.SrcPrelude Model.SrcPreludeStr
  Model.SrcPreludeEui Model.SrcPreludeEui2 Gen.pysrc_eui_gen Gen.pysrc_eui48b_gen Gen.pysrc_eui64b_gen Gen.pysrc_euib_gen
  Proofs.GenOk_Src_C08_e.
Import ListNotations.
Open Scope Z_scope.

Theorem C08_source_tie_e :
  (forall i, src_eui48_str_to_int_int i = str_to_int_48 (BInt i) /\ src_eui64_str_to_int_int i = str_to_int_64 (BInt i)) /\
  (forall s i, src_EUI_set_value_eui48_str s = (do v <- set_value_ver 48 (AStr s); Ok (48, v)) /\
               src_EUI_set_value_eui64_str s = (do v <- set_value_ver 64 (AStr s); Ok (64, v)) /\
               src_EUI_set_value_eui48_int i = (do v <- set_value_ver 48 (AInt i); Ok (48, v)) /\
               src_EUI_set_value_eui64_int i = (do v <- set_value_ver 64 (AInt i); Ok (64, v)) /\
               src_EUI_set_value_implicit_str s = detect_version (AStr s) /\
               src_EUI_set_value_implicit_int i = detect_version (AInt i)) /\
  (forall s i e version a, src_EUI_init_str s version a = eui_init (AStr s) version a /\
                           src_EUI_init_int i version a = eui_init (AInt i) version a /\
                           src_EUI_init_eui e version a = eui_init (AEui e) version a).
Proof. exact C08_tie_e_ok. Qed.
Print Assumptions C08_source_tie_e.

(* the generated constructor computes: EUI('00-1B-77-49-54-FD'), EUI('281474976710656') (decimal text beyond 2^48), EUI(-1) *)
Example C08_src_e_nonvacuous :
  omap (fun e => (ever e, evalue e)) (src_EUI_init_str "00-1B-77-49-54-FD" None DNone) = Ok (48, 117965411581) /\
  omap (fun e => (ever e, evalue e)) (src_EUI_init_str "281474976710656" None DNone) = Ok (64, 281474976710656) /\
  omap edialect (src_EUI_init_int 281474976710656 None DNone) = Ok eui64_base /\
  src_EUI_init_int (-1) None DNone = Raise TypeError /\
  src_EUI_init_int 1 (Some 32) DNone = Raise ValueError /\
  src_EUI_init_str "00-1B-77-49-54-FD" (Some 64) DNone = Raise AddrFormatError.
Proof. repeat split; vm_compute; reflexivity. Qed.
