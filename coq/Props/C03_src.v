(* Props/C03_src.v — source tie for C03: the Gallina definitions that harness/gen/pysrc.py regenerates on every run from the
   CURRENT text of parse_ip_network, IPNetwork.__init__ (with BaseIP.__init__), cidr_abbrev_to_verbose with its inner
   classful_prefix, and IPNetwork.__str__ (coq/Gen/pysrc_parse_gen.v) are equal to the hand-written model functions
   parse_ip_network / net_init / cidr_abbrev_to_verbose / classful_prefix_int / classful_prefix_str / net_str of Model/NetText.v
   that the theorems of Props/C03.v are about: for both socket back-ends and ALL arguments, no hypothesis.  parse_ip_network and
   the constructor are translated once per kind of `addr` -- a tuple of ints, text, an IPNetwork object, an IPAddress object,
   an int standing for every other type -- which are the constructors ATuple / AStr / ANet / AAddr / AOther of the model's `narg`
   (`isinstance` / `hasattr` / `_is_str` on `addr` are decided by that kind).  The string constructor of IPAddress that they call
   is the generated src_IPAddress_init_str (tied in Props/C01_src_ctor.v).  NOT translated (they live in netaddr/strategy/ipv4.py,
   ipv6.py; symbols of Model/SrcPreludeCtor.v = the model's own functions, tied by correspondence): module.str_to_int /
   int_to_str, _ipv4.expand_partial_address, the dictionaries prefix_to_netmask / netmask_to_prefix / hostmask_to_prefix.
   Nothing but the statement closed by `exact`, followed by Print Assumptions. *)
From Coq Require Import String Ascii.
From NV Require Import Base.Tac Base.PyVal Base.PyStr Model.Ip Model.AddrText Model.NetText Model.SrcPrelude Model.SrcPreludeStr
  Model.SrcPreludeCtor Gen.pysrc_gen Gen.pysrc_ctor_gen Gen.pysrc_parse_gen Proofs.GenOk_Src_C03.
Import ListNotations.
Open Scope Z_scope.

Theorem C03_source_tie :
  (forall o, src_cidr_abbrev_to_verbose_classful_prefix_int o = classful_prefix_int o) /\
  (forall o, src_cidr_abbrev_to_verbose_classful_prefix_str o = classful_prefix_str o) /\
  (forall s, src_cidr_abbrev_to_verbose s = cidr_abbrev_to_verbose s) /\
  (forall be m t ip flags, src_parse_ip_network_tuple m t ip flags = parse_ip_network be m (ATuple t) ip flags) /\
  (forall be m a ip flags, src_parse_ip_network_str be m a ip flags = parse_ip_network be m (AStr a) ip flags) /\
  (forall be m i ip flags, src_parse_ip_network_int m i ip flags = parse_ip_network be m AOther ip flags) /\
  (forall be t ip version flags, src_IPNetwork_init_tuple t ip version flags = net_init be (ATuple t) ip version flags) /\
  (forall be s ip version flags, src_IPNetwork_init_str be s ip version flags = net_init be (AStr s) ip version flags) /\
  (forall be n ip version flags, src_IPNetwork_init_net n ip version flags = net_init be (ANet n) ip version flags) /\
  (forall be ver v ip version flags,
     src_IPNetwork_init_addr (ver, v) ip version flags = net_init be (AAddr ver v) ip version flags) /\
  (forall be i ip version flags, src_IPNetwork_init_int i ip version flags = net_init be AOther ip version flags) /\
  (forall be ver v p, src_IPNetwork_str be ver (width ver) v p = net_str be {| nver := ver; nval := v; nplen := p |}).
Proof. exact C03_tie_ok. Qed.
Print Assumptions C03_source_tie.

(* the generated definitions compute: IPNetwork('10.1.2.3/255.255.0.0', flags=NOHOST) is 10.1.0.0/16; IPNetwork('192.168/16') is
   192.168.0.0/16 (partial address); IPNetwork('10', implicit_prefix=True) is 10.0.0.0/8; '1.2.3.4/33' is refused;
   str(IPNetwork 10.0.0.1/24) = '10.0.0.1/24' *)
Example C03_src_nonvacuous :
  src_IPNetwork_init_str Fallback "10.1.2.3/255.255.0.0" false None 4 = Ok {| nver := 4; nval := 167837696; nplen := 16 |} /\
  src_IPNetwork_init_str Fallback "192.168/16" false None 0 = Ok {| nver := 4; nval := 3232235520; nplen := 16 |} /\
  src_IPNetwork_init_str Fallback "10" true None 0 = Ok {| nver := 4; nval := 167772160; nplen := 8 |} /\
  src_IPNetwork_init_str Fallback "1.2.3.4/33" false None 0 = Raise AddrFormatError /\
  src_IPNetwork_init_tuple [1; 129] false (Some 6) 0 = Raise AddrFormatError /\
  src_IPNetwork_str Fallback 4 32 167772161 24 = Ok "10.0.0.1/24"%string.
Proof. repeat split; vm_compute; reflexivity. Qed.
