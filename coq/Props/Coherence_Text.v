(* Props/Coherence_Text.v — COHERENCE of the model copies.  Several Python functions are modelled more than once (one
   executable model file per property, each tied to the code separately by differential execution).  Every theorem here
   says that two copies are the same function — as an equation, for all inputs, under the weakest well-formedness
   hypothesis that is really needed (stated in the theorem; the comment says "no hypothesis" when there is none) — so a
   theorem about one copy is a theorem about the others.  Nothing but statements closed by `exact`, each followed by
   Print Assumptions.  Proofs for this file: Proofs/Coherence_Iter.v, Proofs/Coherence_Text.v.
   The statements are split over Props/Coherence.v, Coherence_Order.v, Coherence_Cidrs.v, Coherence_Text.v and
   Coherence_Words.v so that the harness re-checks them in parallel; all five are obligations of `./check C04`
   (EXTRA_THEOREM_FILES of harness/props/c04.py); the list is in tools/claims/COH.json.
   Model files are `Require`d without `Import`: every model name is qualified by its file.  Translations between the
   object types of the models (Proofs/Coherence_Net.v): cl_of / ord_of (Contains.ipobj to Classify.ipobj / Order.obj),
   co_net / cl_net / ord_net (a `net` record as an object of each model), co_of_ranged, co_of_irow, co_of_row;
   row_of_irow, list4, state3 (Proofs/Coherence_Order.v); to_cidrs_real (Proofs/Coherence_Cidrs.v); gen_observe
   (Proofs/Coherence_Iter.v). *)
From Coq Require Import Sorting.Sorted Sorting.Permutation String Ascii.
From NV Require Import Base.Tac Base.PyVal Base.Bits Base.Canon Base.PyStr Base.PyStrFacts Model.Ip.
From NV Require Model.SrcPrelude Model.Span Model.Partition Model.Merge Model.Sets Model.Contains Model.Classify
  Model.ListLike Model.Iana Model.Order Model.AddrOps Model.Conv Model.Subnet Model.Splitter Model.NetText
  Model.AddrText Model.Glob Model.Nmap Model.IpText Model.FbSocket Model.Codec Model.Eui Model.Ieee Model.PySlice.
From NV Require Proofs.C02 Proofs.C03 Proofs.C04 Proofs.C04_match Proofs.C09 Proofs.C11 Proofs.C17 Proofs.C20.
From NV Require Import Proofs.Coherence_Net Proofs.Coherence_Iter Proofs.Coherence_Text.
Open Scope Z_scope.

(* ======================================================================== Proofs/Coherence_Iter.v
   family 5 — Python: iter_iprange(start, end, step) (1748-1791): Subnet generator vs ListLike observed iterator
   family 7 — Python: IPNetwork.subnet(prefixlen, count) (1277-1316): Splitter.subnet_list vs the Subnet generator *)

(* the loop of ListLike is the Subnet generator observed: every state, every fuel, no hypothesis *)
Theorem Coherence_iprange_loop : forall fuel,
  forall g,
  ListLike.iprange_loop fuel (Subnet.ig_ver g) (Subnet.ig_index g) (Subnet.ig_step g) (Subnet.ig_stop g)
    (Subnet.ig_step g <? 0) = gen_observe fuel g.
Proof. exact coh_iprange_loop. Qed.
Print Assumptions Coherence_iprange_loop.

(* iter_iprange(start, end, step) itself: same prologue (TypeError on mixed versions, ValueError on step 0), then the
   same generator.  No hypothesis. *)
Theorem Coherence_iter_iprange : forall fuel sver sv ever ev step,
  ListLike.iter_iprange_take fuel sver sv ever ev step =
  match Subnet.iter_iprange (sver, sv) (ever, ev) step with
  | Raise e => ([], ListLike.Raised e)
  | Ok g => gen_observe fuel g
  end.
Proof. exact coh_iter_iprange. Qed.
Print Assumptions Coherence_iter_iprange.

(* the observation is what `list(islice(gen, n))` (Subnet.gen_take) returns *)
Theorem Coherence_observe_take : forall n,
  forall g,
  match Subnet.gen_take Subnet.iprange_next n g with
  | Ok l => fst (gen_observe n g) = map snd l
  | Raise e => snd (gen_observe n g) = ListLike.Raised e
  end.
Proof. exact observe_take. Qed.
Print Assumptions Coherence_observe_take.

(* the two closed forms for the number of addresses: Subnet.iprange_remaining (what the C11 harness compares) and
   ListLike.iprange_closed (what the C10 theorems use).  Hypothesis: only step <> 0 (the generator exists). *)
Theorem Coherence_iprange_count : forall start stop step g,
  Subnet.iter_iprange start stop step = Ok g ->
  Subnet.iprange_remaining g = ListLike.a_count (ListLike.iprange_closed (snd start) (snd stop) step).
Proof. exact coh_iprange_count. Qed.
Print Assumptions Coherence_iprange_count.

(* Python: list(cidr.subnet(prefixlen, count)) — Splitter.subnet_list runs Subnet.subnet_start/subnet_next (the only
   model of IPNetwork.subnet) to exhaustion; for a block coarse enough it is the closed form used by C20 *)
Theorem Coherence_subnet_list : forall w v p q count,
  0 <= p <= q -> q <= w -> 0 <= v < 2 ^ w ->
  let cnt := C20.req_count count q p in
  (1 <= cnt <= 2 ^ (q - p) -> Splitter.subnet_list w (v, p) q count = Ok (C20.subnets_of w (v, p) q cnt)) /\
  (~ (1 <= cnt <= 2 ^ (q - p)) -> Splitter.subnet_list w (v, p) q count = Raise ValueError).
Proof. exact coh_subnet_list. Qed.
Print Assumptions Coherence_subnet_list.

Theorem Coherence_subnet_list_take : forall w c q count,
  Splitter.subnet_list w c q count =
  do og <- Subnet.subnet_start w c q count;
  match og with
  | None => Ok []
  | Some g => omap snd (Subnet.subnet_take w c q count (Z.to_nat (Subnet.sg_count g)))
  end.
Proof. exact coh_subnet_list_take. Qed.
Print Assumptions Coherence_subnet_list_take.

Theorem Coherence_nmap_net_addresses : forall x,
  Nmap.py_range (ListLike.r_first x) (ListLike.r_last x + 1) = ListLike.r_addresses x.
Proof. exact coh_nmap_net_addresses. Qed.
Print Assumptions Coherence_nmap_net_addresses.


(* ======================================================================== Proofs/Coherence_Text.v
   family 9  — Python: socket.inet_pton(AF_INET, s) / IPAddress(s, 4, flags=INET_PTON); strategy/ipv4.int_to_str;
               strategy/ipv4.expand_partial_address; parse_ip_network(_ipv4, "a/p"); IPNetwork('%s/%d' % (addr, prefixlen))
   also      — Python: '%x' % n (IPAddress.__hex__) *)

Theorem Coherence_octet : forall t,
  IpText.Std4.octet (chars t) =
  match Glob.canon_dec t with Some v => if v <=? 255 then Some v else None | None => None end.
Proof. exact coh_octet. Qed.
Print Assumptions Coherence_octet.

(* the whole address: Glob's parser returns the value, the platform oracle the four octets; same strings accepted,
   same number denoted — for EVERY string (no hypothesis) *)
Theorem Coherence_pton4 : forall s,
  Glob.pton4 s = option_map Glob.of_octets (IpText.Std4.pton4 s).
Proof. exact coh_pton4. Qed.
Print Assumptions Coherence_pton4.

(* IPAddress(s, 4, flags=INET_PTON): Nmap's spelling (through Glob.pton4) and the C01 constructor of AddrText, on either
   back-end, for every string without '/' (with a '/' the constructor refuses with ValueError before parsing; Nmap
   only calls it on the part before the first '/') *)
Theorem Coherence_ipaddress4_pton : forall be s,
  contains_char "/" s = false ->
  Nmap.ipaddress4_pton s = omap snd (AddrText.init_str be s (Some 4) AddrText.INET_PTON).
Proof. exact coh_ipaddress4_pton. Qed.
Print Assumptions Coherence_ipaddress4_pton.

Theorem Coherence_int_to_str4 : forall v,
  Glob.int_to_str4 v = AddrText.v4_int_to_str v /\
  AddrText.v4_int_to_str v = (do ws <- Codec.on_exception ValueError (Codec.ipv4_int_to_words v);
                              Ok (join "." (map fmt_d ws))) /\
  Conv.ipv4_int_to_str v = (do _ <- AddrText.v4_int_to_str v; Ok v).
Proof. exact coh_int_to_str4. Qed.
Print Assumptions Coherence_int_to_str4.

Theorem Coherence_expand_partial_address : forall addr,
  Nmap.expand_partial_address addr = NetText.expand_partial_address addr.
Proof. exact coh_expand_partial_address. Qed.
Print Assumptions Coherence_expand_partial_address.

Theorem Coherence_nmap_parse_ip_network4 : forall pton6 be addr,
  Nmap.parse_ip_network pton6 4 addr <> Raise Unsupported ->
  NetText.parse_str be 4 addr false = Nmap.parse_ip_network pton6 4 addr.
Proof. exact coh_nmap_parse_ip_network4. Qed.
Print Assumptions Coherence_nmap_parse_ip_network4.

(* Python: IPNetwork('%s/%d' % (addr, prefixlen), version) with addr a printed address of the family (IPNetwork.next /
   previous / subnet: Subnet.net_of_cidr_str; IPNetwork.ipv4(): Conv.net_of_text_v4).  Subnet and Conv represent the
   text by the value it prints and keep only the prefix check; NetText (C03) runs the real text through the real
   parser.  Equal for every in-range value and EVERY integer prefix (also the rejected ones), both back-ends. *)
Theorem Coherence_net_of_cidr_str : forall be ver v p ip,
  valid_ver ver = true -> 0 <= v < 2 ^ width ver ->
  (do a <- AddrText.int_to_str be ver v None;
   NetText.net_init be (NetText.AStr (a ++ "/" ++ fmt_d p)) ip (Some ver) 0) =
  omap (fun c => {| nver := ver; nval := fst c; nplen := snd c |}) (Subnet.net_of_cidr_str (width ver) v p).
Proof. exact coh_net_of_cidr_str. Qed.
Print Assumptions Coherence_net_of_cidr_str.

Theorem Coherence_net_of_text_v4 : forall be v p ip,
  0 <= v < 2 ^ 32 ->
  (do a <- AddrText.int_to_str be 4 v None;
   NetText.net_init be (NetText.AStr (a ++ "/" ++ fmt_d p)) ip None 0) = Conv.net_of_text_v4 v p.
Proof. exact coh_net_of_text_v4. Qed.
Print Assumptions Coherence_net_of_text_v4.

Theorem Coherence_fmt_x : forall v,
  AddrOps.fmt_x v = Ok (fmt_x v).
Proof. exact coh_fmt_x. Qed.
Print Assumptions Coherence_fmt_x.
