(* Props/C05.v — placeholder until Proofs/C05.v lands (see tools/claims). *)
From Coq Require Import ZArith.
