(* Props/C05.v — property C05: CIDR summarisation is exact and minimal (cidr_merge, iprange_to_cidrs).
   Nothing but statements closed by `exact`, each followed by Print Assumptions.
   Vocabulary (Proofs/NetDen.v): wf_net n = version 4/6, value and prefix in range (host bits allowed);
   nf / nl = first / last address; den l ver x = address (ver, x) lies in some network of l;
   wf_mitem = a well-formed network (host bits allowed) or a range 0 <= s <= e < 2^width of version 4/6;
   den_items = the union of the inputs; canon_nets l = every block well formed and host-bit-free, IPv4 blocks
   before IPv6 blocks, each family canonical in the sense of Base/Canon.v (aligned, strictly ascending, pairwise
   disjoint, no two blocks siblings); fam ver l = the blocks of l of one family. *)
From NV Require Import Base.Tac Base.PyVal Base.Canon Model.Ip Model.Span Model.Merge Model.Sets
  Proofs.C02 Proofs.NetDen Proofs.C05.
From Coq Require Import Sorting.Permutation.
Open Scope Z_scope.

(* iprange_to_cidrs(start, end) for two networks of one family with start.first <= end.last: returns normally the
   canonical list of exactly the interval [start.first, end.last] *)
Theorem C05_iprange_to_cidrs : forall s e, wf_net s -> wf_net e -> nver s = nver e -> nf s <= nl e ->
  exists l, iprange_to_cidrs s e = Ok l /\ canon_nets l /\
    forall ver x, den l ver x <-> (ver = nver s /\ nf s <= x <= nl e).
Proof. exact C05_range. Qed.
Print Assumptions C05_iprange_to_cidrs.

(* the form used by IPRange.cidrs(), glob_to_cidrs and cidr_merge: address endpoints 0 <= lo <= hi < 2^width *)
Theorem C05_iprange_addresses : forall ver lo hi, valid_ver ver = true -> 0 <= lo <= hi -> hi < 2 ^ width ver ->
  exists l, iprange_to_cidrs (addr_net ver lo) (addr_net ver hi) = Ok l /\ canon_nets l /\
    forall v x, den l v x <-> v = ver /\ lo <= x <= hi.
Proof. exact C05_range_addrs. Qed.
Print Assumptions C05_iprange_addresses.

(* cidr_merge of any finite list of well-formed inputs (networks with or without host bits, addresses as /32 or /128
   networks, ranges; both families, any order, duplicates): returns normally the canonical list of exactly the union *)
Theorem C05_cidr_merge : forall items, Forall wf_mitem items ->
  exists l, cidr_merge items = Ok l /\ canon_nets l /\ forall ver x, den l ver x <-> den_items items ver x.
Proof. exact C05_merge. Qed.
Print Assumptions C05_cidr_merge.

(* a set of addresses has at most one canonical list ... *)
Theorem C05_canon_unique : forall l1 l2, canon_nets l1 -> canon_nets l2 ->
  (forall ver x, den l1 ver x <-> den l2 ver x) -> l1 = l2.
Proof. exact canon_nets_unique. Qed.
Print Assumptions C05_canon_unique.

(* ... and no list of networks with the same addresses (host bits allowed, any order, overlaps allowed) is shorter,
   family by family *)
Theorem C05_canon_minimal : forall l l', canon_nets l -> Forall wf_net l' ->
  (forall ver x, den l ver x <-> den l' ver x) ->
  (length (fam 4 l) <= length (fam 4 l'))%nat /\ (length (fam 6 l) <= length (fam 6 l'))%nat /\
  (length l <= length l')%nat.
Proof. exact canon_nets_minimal. Qed.
Print Assumptions C05_canon_minimal.

(* so the result of cidr_merge is the unique canonical list of the union, and a shortest list of the union *)
Theorem C05_merge_unique : forall items l l', Forall wf_mitem items -> cidr_merge items = Ok l ->
  canon_nets l' -> (forall ver x, den l' ver x <-> den_items items ver x) -> l' = l.
Proof. exact C05_unique. Qed.
Print Assumptions C05_merge_unique.

Theorem C05_merge_minimal : forall items l l', Forall wf_mitem items -> cidr_merge items = Ok l ->
  Forall wf_net l' -> (forall ver x, den l' ver x <-> den_items items ver x) ->
  (length (fam 4 l) <= length (fam 4 l'))%nat /\ (length (fam 6 l) <= length (fam 6 l'))%nat /\
  (length l <= length l')%nat.
Proof. exact C05_minimal. Qed.
Print Assumptions C05_merge_minimal.

Theorem C05_iprange_unique : forall s e l l', wf_net s -> wf_net e -> nver s = nver e -> nf s <= nl e ->
  iprange_to_cidrs s e = Ok l ->
  canon_nets l' -> (forall ver x, den l' ver x <-> (ver = nver s /\ nf s <= x <= nl e)) -> l' = l.
Proof. exact C05_range_unique. Qed.
Print Assumptions C05_iprange_unique.

Theorem C05_iprange_minimal : forall s e l l', wf_net s -> wf_net e -> nver s = nver e -> nf s <= nl e ->
  iprange_to_cidrs s e = Ok l ->
  Forall wf_net l' -> (forall ver x, den l' ver x <-> (ver = nver s /\ nf s <= x <= nl e)) ->
  (length l <= length l')%nat.
Proof. exact C05_range_minimal. Qed.
Print Assumptions C05_iprange_minimal.

(* the result depends only on the set of addresses of the inputs: not on their order ... *)
Theorem C05_order_free : forall xs ys, Forall wf_mitem xs -> Permutation xs ys -> cidr_merge xs = cidr_merge ys.
Proof. exact C05_perm_invariant. Qed.
Print Assumptions C05_order_free.

(* ... nor on repetition ... *)
Theorem C05_repetition_free : forall xs ys, Forall wf_mitem xs -> (forall m, In m xs <-> In m ys) ->
  cidr_merge xs = cidr_merge ys.
Proof. exact C05_dup_invariant. Qed.
Print Assumptions C05_repetition_free.

(* ... nor on how the same addresses are presented *)
Theorem C05_denotation_only : forall xs ys, Forall wf_mitem xs -> Forall wf_mitem ys ->
  (forall ver x, den_items xs ver x <-> den_items ys ver x) -> cidr_merge xs = cidr_merge ys.
Proof. exact C05_extensional. Qed.
Print Assumptions C05_denotation_only.

(* merging the result again changes nothing (every canonical list is a fixed point) *)
Theorem C05_merge_idempotent : forall items l, Forall wf_mitem items -> cidr_merge items = Ok l ->
  cidr_merge (map MNet l) = Ok l.
Proof. exact C05_idempotent. Qed.
Print Assumptions C05_merge_idempotent.

Theorem C05_canonical_fixpoint : forall l, canon_nets l -> cidr_merge (map MNet l) = Ok l.
Proof. exact C05_canon_fixpoint. Qed.
Print Assumptions C05_canonical_fixpoint.

(* a single range through cidr_merge and through iprange_to_cidrs give the same list *)
Theorem C05_merge_range_agree : forall ver lo hi, valid_ver ver = true -> 0 <= lo <= hi -> hi < 2 ^ width ver ->
  cidr_merge [MRange ver lo hi] = iprange_to_cidrs (addr_net ver lo) (addr_net ver hi).
Proof. exact C05_merge_one_range. Qed.
Print Assumptions C05_merge_range_agree.

(* non-vacuity: 10.0.0.1/24 (host bits), the range 10.0.1.0-10.0.1.127, the address 10.0.1.128 and ::/127 meet the
   hypotheses; the result is 10.0.0.0/24, 10.0.1.0/25, 10.0.1.128/32, ::/127 *)
Example C05_nonvacuous :
  let items := [ MNet {| nver := 6; nval := 1; nplen := 127 |};
                 MNet {| nver := 4; nval := 167772417 + 127; nplen := 32 |};
                 MRange 4 167772416 (167772416 + 127);
                 MNet {| nver := 4; nval := 167772161; nplen := 24 |} ] in
  Forall wf_mitem items /\
  cidr_merge items = Ok [ {| nver := 4; nval := 167772160; nplen := 24 |}; {| nver := 4; nval := 167772416; nplen := 25 |};
                          {| nver := 4; nval := 167772544; nplen := 32 |}; {| nver := 6; nval := 0; nplen := 127 |} ] /\
  iprange_to_cidrs {| nver := 4; nval := 167772161; nplen := 32 |} {| nver := 4; nval := 167772164; nplen := 32 |}
    = Ok [ {| nver := 4; nval := 167772161; nplen := 32 |}; {| nver := 4; nval := 167772162; nplen := 31 |};
           {| nver := 4; nval := 167772164; nplen := 32 |} ].
Proof.
  cbn zeta. split; [|split].
  - repeat constructor; cbn; lia.
  - vm_compute. reflexivity.
  - vm_compute. reflexivity.
Qed.
