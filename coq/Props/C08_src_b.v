(* Props/C08_src_b.v — source tie for C08, second part (tag SRCF): the Gallina definitions that harness/gen/pysrc.py regenerates
   on every run from the CURRENT text of
   * netaddr/strategy/eui48.py, eui64.py (coq/Gen/pysrc_eui48b_gen.v, pysrc_eui64b_gen.v): int_to_packed, packed_to_int,
     valid_bits, bits_to_int, int_to_bits, valid_bin, int_to_bin, bin_to_int, with the default dialect records read from the
     dialect class bodies, and
   * netaddr/eui/__init__.py, class EUI (coq/Gen/pysrc_euib_gen.v): words, packed, bin, bits, ei, iab, __getitem__ (integer
     index), __setitem__ (integer index and value), __hash__, __eq__ __ne__ __lt__ __le__ __gt__ __ge__ (EUI operand)
   are equal to the hand-written models: Model/Codec.v eui48_int_to_packed / eui48_packed_to_int / eui64_int_to_packed /
   eui64_packed_to_int / valid_bits / bits_to_int / valid_bin / bin_to_int / int_to_bin for the module-level functions, and the
   functions of Model/Eui.v that the theorems of Props/C08.v are about: int_to_bits, eui_words, eui_packed, eui_bin, eui_bits,
   eui_ei, eui_iab, eui_getitem, eui_setitem, eui_hash_key, eui_eq .. eui_ge.
   Reading: a dialect class is the record of its four attributes (dflt ver d: the module default for None); a bytes object is
   the list of its byte values (str_of_bytes: the same bytes as the latin-1 string of eui_packed); `self._module.f(..)` is
   `if version = 48 then eui48.f(..) else if version = 64 then eui64.f(..) else Unsupported`; IAB(e) is represented by the
   integer e (eui_iab additionally runs IAB.split_iab_mac on it, which returns it unchanged here); a mutator returns the new
   _value; hash((version, value)) is represented by the pair.
   Hypotheses: the class invariant version = 48 \/ version = 64 (wf_ver) wherever the method goes through self._module;
   0 <= word_size of the object's dialect for __getitem__ / __setitem__ (as in C08_source_tie); 0 <= value for bin (the model
   answers Unsupported for a negative value, the code formats it); none for iab, __hash__ and the comparisons.  All of them
   follow from wf_eui / wf_dialect of the property theorems.
   A source edit that changes one of these functions changes the generated term and this theorem stops compiling.
   Nothing but the statement closed by `exact`, followed by Print Assumptions. *)
From Coq Require Import String Ascii.
From NV Require Import Base.Tac Base.PyVal Base.PyStr Model.Ip Model.Codec Model.Eui Model.SrcPrelude Model.SrcPreludeStr
  Model.SrcPreludeEui Model.SrcPreludeEui2
  Gen.pysrc_strategy_gen Gen.pysrc_eui48_gen Gen.pysrc_eui64_gen Gen.pysrc_eui_gen
  Gen.pysrc_eui48b_gen Gen.pysrc_eui64b_gen Gen.pysrc_euib_gen Proofs.GenOk_Src_C08_b.
Import ListNotations.
Open Scope Z_scope.

Theorem C08_source_tie_b :
  (src_eui48_DEFAULT_DIALECT_rec = default_dialect 48 /\ src_eui64_DEFAULT_EUI64_DIALECT_rec = default_dialect 64) /\
  (* netaddr/strategy/eui48.py, eui64.py *)
  (forall v p, src_eui48_int_to_packed v = Codec.eui48_int_to_packed v /\ src_eui48_packed_to_int p = Codec.eui48_packed_to_int p /\
               src_eui64_packed_to_int p = Codec.eui64_packed_to_int p /\
               forall dd, Codec.d_ws dd = 8 -> Codec.d_nw dd = 8 -> src_eui64_int_to_packed v = Codec.eui64_int_to_packed dd v) /\
  (forall bits d, src_eui48_valid_bits bits d = Ok (Codec.valid_bits bits 48 (word_sep (dflt 48 d))) /\
                  src_eui48_bits_to_int bits d = Codec.bits_to_int bits 48 (word_sep (dflt 48 d)) /\
                  src_eui64_valid_bits bits d = Ok (Codec.valid_bits bits 64 (word_sep (dflt 64 d))) /\
                  src_eui64_bits_to_int bits d = Codec.bits_to_int bits 64 (word_sep (dflt 64 d))) /\
  (forall s d v, src_eui48_valid_bin s d = Ok (Codec.valid_bin s 48) /\ src_eui48_bin_to_int s = Codec.bin_to_int s 48 /\
                 src_eui48_int_to_bin v = Codec.int_to_bin v 48 /\
                 src_eui64_valid_bin s d = Ok (Codec.valid_bin s 64) /\ src_eui64_bin_to_int s = Codec.bin_to_int s 64 /\
                 src_eui64_int_to_bin v = Codec.int_to_bin v 64) /\
  (forall v d sep,
     src_eui48_int_to_bits v d sep = Eui.int_to_bits v (word_size (dflt 48 d)) (num_words (dflt 48 d)) (sep_or sep (dflt 48 d)) /\
     src_eui64_int_to_bits v d sep = Eui.int_to_bits v (word_size (dflt 64 d)) (num_words (dflt 64 d)) (sep_or sep (dflt 64 d))) /\
  (forall v w, 0 <= v -> Eui.int_to_bin v w = Codec.int_to_bin v w) /\
  (* netaddr/eui/__init__.py, class EUI *)
  (forall ver v d, wf_ver ver -> let e := {| ever := ver; evalue := v; edialect := d |} in
     src_EUI_words ver v = eui_words e /\ omap str_of_bytes (src_EUI_packed ver v) = eui_packed e /\
     (0 <= v -> src_EUI_bin ver v = eui_bin e) /\ (forall sep, src_EUI_bits ver v sep = eui_bits e sep) /\
     src_EUI_ei ver v = eui_ei e /\
     (0 <= word_size d -> forall idx, src_EUI_getitem_int ver v d idx = eui_getitem e idx) /\
     (0 <= word_size d -> forall idx x,
        omap (fun v' => {| ever := ver; evalue := v'; edialect := d |}) (src_EUI_setitem ver v d idx x) = eui_setitem e idx x)) /\
  (forall ver v d b, let e := {| ever := ver; evalue := v; edialect := d |} in
     Ok (src_EUI_iab ver v) = eui_iab e /\ src_EUI_hash ver v = eui_hash_key e /\
     src_EUI_eq ver v b = eui_eq e b /\ src_EUI_ne ver v b = eui_ne e b /\ src_EUI_lt ver v b = eui_lt e b /\
     src_EUI_le ver v b = eui_le e b /\ src_EUI_gt ver v b = eui_gt e b /\ src_EUI_ge ver v b = eui_ge e b).
Proof. exact C08_tie_b_ok. Qed.
Print Assumptions C08_source_tie_b.

(* the generated definitions compute: EUI('00-1B-77-49-54-FD'): packed bytes, EI, word 3, e[5] = 0, bits of an EUI-64 *)
Example C08_src_b_nonvacuous :
  src_EUI_packed 48 117965411581 = Ok [0; 27; 119; 73; 84; 253] /\
  src_EUI_ei 48 117965411581 = Ok (Some "49-54-FD"%string) /\
  src_EUI_getitem_int 48 117965411581 mac_cisco (-1) = Ok 21757 /\
  src_EUI_setitem 48 117965411581 mac_eui48 5 0 = Ok 117965411328 /\
  src_EUI_setitem 48 117965411581 mac_eui48 6 0 = Raise IndexError /\
  src_eui48_packed_to_int [0; 27; 119; 73; 84; 253] = Ok 117965411581 /\
  src_eui64_bits_to_int "00000000-00000000-00000000-00000000-00000000-00000000-00000001-00000010" None = Ok 258 /\
  src_EUI_bin 64 5 = Ok "0b101"%string.
Proof. repeat split; vm_compute; reflexivity. Qed.
