(* Props/C16_src_g.v -- source tie for C16, tag SRCG: the Gallina definition that harness/gen/pysrc.py regenerates on every run from
   the CURRENT text of IPNetwork.ipv4 (netaddr/ip/__init__.py; coq/Gen/pysrc_ipg_gen.v) against the hand-written model
   Model/Conv.v net_ipv4 that the C16 theorems are about.
   The generated definition runs the real text round trip: '%s/%d' % (self.ip, self.prefixlen) through the translated
   IPAddress.__str__ (resp. the translated ipv4.int_to_str), then the translated IPNetwork constructor on that text (klass(..) with
   its default arguments); the model represents the text by the value it prints.  The proof goes through the source ties of
   C01 / C03 and Coherence_Text.coh_net_of_text_v4 (C03's round-trip lemmas), for both socket back-ends.
   Hypotheses (both part of C02.wf_net, which every C16 theorem assumes): the family is 4 or 6 -- for any other version the code
   answers None (`ip = None` is never replaced), the model Unsupported --; an IPv4 receiver holds a 32-bit value -- otherwise
   `self.ip` raises AddrFormatError where the model's int_to_str raises ValueError.
   Nothing but the statement closed by `exact`, followed by Print Assumptions. *)
From Coq Require Import String Ascii.
From NV Require Import Base.Tac Base.PyVal Model.Ip Model.Conv Model.AddrText Gen.pysrc_ipg_gen Proofs.GenOk_Src_C16_g.
Import ListNotations.
Open Scope Z_scope.

Theorem C16_source_tie_g : forall be ver w v p, ver = 4 \/ ver = 6 -> (ver = 4 -> 0 <= v < 2 ^ 32) ->
  src_IPNetwork_ipv4 be ver w v p = omap Some (net_ipv4 ver v p).
Proof. exact C16_tie_g_ok. Qed.
Print Assumptions C16_source_tie_g.

(* ::ffff:192.0.2.0/120 -> 192.0.2.0/24 ; 2001:db8::/32 cannot be converted *)
Example C16_src_g_nonvacuous :
  src_IPNetwork_ipv4 Fallback 6 128 281473902969344 120 = Ok (Some {| nver := 4; nval := 3221225984; nplen := 24 |}) /\
  src_IPNetwork_ipv4 Fallback 6 128 42540766411282592856903984951653826560 32 = Raise AddrConversionError /\
  src_IPNetwork_ipv4 Fallback 4 32 3221225984 24 = Ok (Some {| nver := 4; nval := 3221225984; nplen := 24 |}).
Proof. repeat split; vm_compute; reflexivity. Qed.
