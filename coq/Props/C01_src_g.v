(* Props/C01_src_g.v -- source tie for C01 (text renderings), tag SRCG: the Gallina definitions that harness/gen/pysrc.py regenerates
   on every run from the CURRENT text of IPAddress.__repr__, IPNetwork.__repr__, IPRange.__str__, IPRange.__repr__ and
   IPAddress.__oct__ (netaddr/ip/__init__.py; coq/Gen/pysrc_ipg_gen.v), as text around the models of the already tied __str__
   methods (AddrText.addr_str for both socket back-ends, NetText.net_str).  Reading: `'..%s..' % (..)` joins the pieces with
   str() of the arguments -- `self` / an IPAddress object through the translated __str__ --, `self.__class__.__name__` is the name
   of the receiver class (a subclass prints its own name: out of scope).  __oct__ (reached on Python 2 only) has no model and is
   stated directly.  No hypothesis.  Nothing but the statement closed by `exact`, followed by Print Assumptions. *)
From Coq Require Import String Ascii.
From NV Require Import Base.Tac Base.PyVal Base.PyStr Model.Ip Model.AddrText Model.NetText Model.SrcPreludeG Gen.pysrc_ipg_gen
  Proofs.GenOk_Src_C01_g.
Import ListNotations.
Open Scope Z_scope.

Theorem C01_source_tie_g :
  (forall be ver w v, src_IPAddress_repr be ver w v = omap (fun s => "IPAddress('" ++ s ++ "')")%string (addr_str be ver v)) /\
  (forall be ver v p, src_IPNetwork_repr be ver (width ver) v p =
     omap (fun s => "IPNetwork('" ++ s ++ "')")%string (net_str be {| nver := ver; nval := v; nplen := p |})) /\
  (forall be ver w s e, src_IPRange_str be ver w s e = (do a <- addr_str be ver s; do b <- addr_str be ver e; Ok (a ++ "-" ++ b)%string)) /\
  (forall be ver w s e, src_IPRange_repr be ver w s e =
     (do a <- addr_str be ver s; do b <- addr_str be ver e; Ok ("IPRange('" ++ a ++ "', '" ++ b ++ "')")%string)) /\
  (forall ver w v, src_IPAddress_oct ver w v = if v =? 0 then "0"%string else py_fmt_oct "0" v).
Proof. exact C01_tie_g_ok. Qed.
Print Assumptions C01_source_tie_g.

(* IPAddress.format(dialect): d6_of reads the model's dialect argument (None or a dialect record) as the generated code sees it --
   None, or the class as the pair (word_fmt, compact) of GenOk_Src_C01_text.dcls --; an object without word_fmt gives TypeError.
   Hypothesis: the family is 4 or 6 (the model has no third strategy module, the generated code says Unsupported there). *)
Theorem C01_source_tie_g_format :
  (forall be ver w v d, ver = 4 \/ ver = 6 -> src_IPAddress_format be ver w v (d6_of d) = int_to_str be ver v d) /\
  (forall be ver w v, src_IPAddress_format be ver w v D6Other = Raise TypeError).
Proof. exact C01_tie_g_format_ok. Qed.
Print Assumptions C01_source_tie_g_format.

Example C01_src_g_nonvacuous :
  src_IPAddress_repr Fallback 4 32 3221225985 = Ok "IPAddress('192.0.2.1')"%string /\
  src_IPNetwork_repr Fallback 4 32 3221225984 24 = Ok "IPNetwork('192.0.2.0/24')"%string /\
  src_IPRange_str Fallback 4 32 3221225985 3221225990 = Ok "192.0.2.1-192.0.2.6"%string /\
  src_IPRange_repr Fallback 4 32 3221225985 3221225990 = Ok "IPRange('192.0.2.1', '192.0.2.6')"%string /\
  src_IPAddress_oct 4 32 8 = "010"%string /\
  src_IPAddress_format Fallback 6 128 1 (D6Class ("%.4x"%string, false)) = Ok "0000:0000:0000:0000:0000:0000:0000:0001"%string /\
  src_IPAddress_format Fallback 6 128 1 D6None = Ok "::1"%string.
Proof. repeat split; vm_compute; reflexivity. Qed.
