(* Props/C07_src.v -- SRCA: source tie for C07 (queries): the Gallina definitions that harness/gen/pysrc.py regenerates on every
   run from the CURRENT text of netaddr/ip/sets.py (coq/Gen/pysrc_sets_gen.v: IPSet.iter_cidrs, __nonzero__, size, __len__,
   iscontiguous with its `for` loop and the `return` inside it, iprange, clear, copy, __contains__ with the supernet walk
   `while supernet._prefixlen`, issubset, issuperset, __lt__, __gt__, __eq__, __ne__) are equal to the hand-written model
   functions of Model/Sets.v that the theorems of Props/C07.v, C07_queries.v, C07_ops.v are about.
   An IPSet object is its dict `_cidrs` = the insertion-ordered list of its IPNetwork keys, on both sides; the dict
   operations, sorted() on IPNetwork objects, list indexing and the IPRange constructor of the generated code are the symbols
   of Model/SrcPreludeSets.v.  Hypotheses (all consequences of SetInv, the hypothesis of the property theorems): a
   non-negative prefix length of every network that the supernet walk starts from (the Python loop does not end otherwise);
   well-formed elements for iprange (its result goes through IPNetwork.__getitem__ and the range-checking IPAddress
   constructor).  A source edit that changes one of these methods changes the generated term and this theorem stops compiling.
   Nothing but the statement closed by `exact`, followed by Print Assumptions. *)
From NV Require Import Base.Tac Base.PyVal Model.Ip Model.Sets Model.SrcPrelude Model.SrcPreludeSets
  Gen.pysrc_gen Gen.pysrc_sets_gen Proofs.C02 Proofs.GenOk_Src_C07.
Import ListNotations.
Open Scope Z_scope.

Theorem C07_source_tie :
  (forall d, src_IPSet_iter_cidrs d = sorted d) /\
  (forall d, src_IPSet_nonzero d = match d with [] => false | _ => true end) /\
  (forall d, src_IPSet_size d = set_size d) /\
  (forall d, src_IPSet_len d = set_len d) /\
  (forall d, src_IPSet_iscontiguous d = Ok (set_iscontiguous d)) /\
  (forall d, Forall wf_net d -> src_IPSet_iprange d = set_iprange d) /\
  (forall d, src_IPSet_clear d = []) /\
  (forall d, src_IPSet_copy d = dupdate [] d) /\
  (forall d n, 0 <= nplen n -> src_IPSet_contains d n = Ok (set_contains d n)) /\
  (forall a b, plen_ok a -> src_IPSet_issubset a b = Ok (set_issubset a b)) /\
  (forall a b, plen_ok b -> src_IPSet_issuperset a b = Ok (set_issuperset a b)) /\
  (forall a b, plen_ok a -> src_IPSet_lt a b = Ok (set_lt a b)) /\
  (forall a b, plen_ok b -> src_IPSet_gt a b = Ok (set_gt a b)) /\
  (forall a b, src_IPSet_eq a b = dict_eqb a b) /\
  (forall a b, src_IPSet_ne a b = negb (dict_eqb a b)).
Proof. exact C07_tie_ok. Qed.
Print Assumptions C07_source_tie.

(* the generated definitions compute: 10.0.0.5/32 in IPSet(['10.0.0.0/24']) by the supernet walk; the set
   {10.0.0.0/25, 10.0.0.128/25} stored in the other order is contiguous and its iprange is 10.0.0.0-10.0.0.255 *)
Example C07_src_nonvacuous :
  src_IPSet_contains [ {| nver := 4; nval := 167772160; nplen := 24 |} ] {| nver := 4; nval := 167772165; nplen := 32 |} = Ok true /\
  src_IPSet_iprange [ {| nver := 4; nval := 167772288; nplen := 25 |}; {| nver := 4; nval := 167772160; nplen := 25 |} ]
    = Ok (Some (4, 167772160, 167772415)).
Proof. split; vm_compute; reflexivity. Qed.
