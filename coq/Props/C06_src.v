(* Props/C06_src.v -- SRCA: source tie for C06 (mutators of IPSet): the Gallina definitions that harness/gen/pysrc.py regenerates
   on every run from the CURRENT text of netaddr/ip/sets.py (coq/Gen/pysrc_sets_mut_gen.v) are equal to the hand-written model
   functions of Model/Sets.v that the theorems of Props/C06*.v are about.  A stateful method takes the state `_cidrs` (the
   insertion-ordered list of its IPNetwork keys) first and returns the new state, with the returned value if it has one.
   IPSet.update is translated for an IPSet argument (`update:ipset`; the other argument forms stay tied by correspondence).
   cidr_merge is not translated: it is the model's function on both sides (SrcPreludeSplitter.py_cidr_merge; tied by C05).
   IPSet.clear / copy are part of C07_source_tie (Props/C07_src.v).
   Nothing but the statement closed by `exact`, followed by Print Assumptions. *)
From NV Require Import Base.Tac Base.PyVal Model.Ip Model.Sets Model.SrcPrelude Model.SrcPreludeSets
  Gen.pysrc_gen Gen.pysrc_sets_gen Gen.pysrc_sets_mut_gen Proofs.C02 Proofs.GenOk_Src_C06.
Import ListNotations.
Open Scope Z_scope.

Theorem C06_source_tie :
  (forall d, src_IPSet_compact d = set_compact d) /\
  (forall d, src_IPSet_pop d = set_pop d) /\
  (forall d o flags, src_IPSet_update_ipset d o flags = set_update d (ASet o)) /\
  (forall a b, src_IPSet_union a b = set_union a b).
Proof. exact C06_tie_ok. Qed.
Print Assumptions C06_source_tie.

(* the generated definitions compute: pop() of {10.0.0.0/24, 10.0.1.0/25} returns the last inserted key; compact() merges
   the two halves of 10.0.0.0/24 *)
Example C06_src_nonvacuous :
  src_IPSet_pop [ {| nver := 4; nval := 167772160; nplen := 24 |}; {| nver := 4; nval := 167772416; nplen := 25 |} ]
    = Ok ([ {| nver := 4; nval := 167772160; nplen := 24 |} ], {| nver := 4; nval := 167772416; nplen := 25 |}) /\
  src_IPSet_compact [ {| nver := 4; nval := 167772288; nplen := 25 |}; {| nver := 4; nval := 167772160; nplen := 25 |} ]
    = Ok [ {| nver := 4; nval := 167772160; nplen := 24 |} ].
Proof. split; vm_compute; reflexivity. Qed.
