(* Props/C09_code.v — property C09, CODE-LEVEL: the theorems of Props/C09.v stated directly about the definitions that
   harness/gen/pysrc.py regenerates on every run from the CURRENT text of netaddr/ip/__init__.py:
     src_cidr_partition, src_cidr_exclude          (Gen/pysrc_partition_gen.v: cidr_partition, cidr_exclude)
     src_IPNetwork_first, src_IPNetwork_last       (Gen/pysrc_gen.v: the properties IPNetwork.first / .last)
   So what coqc re-checks on every run is "the property holds of what the code says now": a source edit that changes one of
   these functions changes the generated term and these theorems stop compiling (together with C09_source_tie).
   Objects are `net` records (version, _value, _prefixlen).  Vocabulary (Proofs/Code_C09.v):
     code_first n / code_last n = src_IPNetwork_first / src_IPNetwork_last (nver n) (width (nver n)) (nval n) (nplen n)
     code_splits t e            = first t <= last e, first e <= last t, prefixlen t < prefixlen e, on the generated first / last
     cblks l                    = the objects of l read as (value, prefixlen) pairs, for Base/Canon's canon / covered
     all_ver ver l              = every object of l has version ver (the pairs forget it; stated in addition to Props/C09.v).
   Hypotheses: wf_net t, wf_net e (version 4 or 6, value and prefix in range, host bits allowed) and nver t = nver e — the
   property's own "two networks of one family".  The tie's hypotheses (valid version of the exclude, same version, well-formed
   target) are all implied by them; nothing extra is assumed.
   Clauses still about the model: none (every function the property goes through is translated; the constructor calls
   IPNetwork((v, p), version) inside the loop are the prelude symbol mk_net, and `target.cidr` is the generated
   src_IPNetwork_cidr).
   Nothing but statements closed by `exact`, each followed by Print Assumptions. *)
From NV Require Import Base.Tac Base.PyVal Base.Bits Base.Canon Model.Ip Model.Partition Model.SrcPrelude
  Gen.pysrc_gen Gen.pysrc_partition_gen Proofs.C02 Proofs.C09 Proofs.Code_C09.
Import ListNotations.
Open Scope Z_scope.

(* the four situations: E below T, E above T, E covers T, E strictly inside T (then the halving loop runs) *)
Theorem C09_partition_of_source : forall t e, wf_net t -> wf_net e -> nver t = nver e ->
  let w := width (nver e) in
  let tf := code_first t in let tl := code_last t in
  let ef := code_first e in let el := code_last e in
  let tc := {| nver := nver t; nval := code_first t; nplen := nplen t |} in
  (el < tf -> src_cidr_partition t e = Ok ([], [], [tc])) /\
  (tl < ef -> src_cidr_partition t e = Ok ([tc], [], [])) /\
  (tf <= el -> ef <= tl -> nplen e <= nplen t -> src_cidr_partition t e = Ok ([], [t], [])) /\
  (tf <= el -> ef <= tl -> nplen t < nplen e ->
     exists b a, src_cidr_partition t e = Ok (b, [e], a) /\ tf <= ef /\ el <= tl /\
       all_ver (nver e) b /\ all_ver (nver e) a /\
       canon w (blks_of (cblks b)) /\ (forall x, covered w (blks_of (cblks b)) x <-> tf <= x <= tl /\ x < ef) /\
       canon w (blks_of (cblks a)) /\ (forall x, covered w (blks_of (cblks a)) x <-> tf <= x <= tl /\ el < x) /\
       distinct_finer (nplen t) (cblks b) /\ distinct_finer (nplen t) (cblks a)).
Proof. exact code_partition_spec. Qed.
Print Assumptions C09_partition_of_source.

(* the same, read off an actual result of the generated function *)
Theorem C09_partition_split_of_source : forall t e, wf_net t -> wf_net e -> nver t = nver e -> code_splits t e ->
  forall b m a, src_cidr_partition t e = Ok (b, m, a) ->
  let w := width (nver e) in
  m = [e] /\ all_ver (nver e) b /\ all_ver (nver e) a /\
  code_first t <= code_first e /\ code_last e <= code_last t /\
  canon w (blks_of (cblks b)) /\
  (forall x, covered w (blks_of (cblks b)) x <-> code_first t <= x <= code_last t /\ x < code_first e) /\
  canon w (blks_of (cblks a)) /\
  (forall x, covered w (blks_of (cblks a)) x <-> code_first t <= x <= code_last t /\ code_last e < x) /\
  distinct_finer (nplen t) (cblks b) /\ distinct_finer (nplen t) (cblks a).
Proof. exact code_partition_split. Qed.
Print Assumptions C09_partition_split_of_source.

(* before, E, after tile T *)
Theorem C09_tiles_of_source : forall t e, wf_net t -> wf_net e -> nver t = nver e -> code_splits t e ->
  forall b m a, src_cidr_partition t e = Ok (b, m, a) ->
  let w := width (nver e) in
  forall x,
    (code_first t <= x <= code_last t <->
       covered w (blks_of (cblks b)) x \/ code_first e <= x <= code_last e \/ covered w (blks_of (cblks a)) x) /\
    ~ (covered w (blks_of (cblks b)) x /\ code_first e <= x <= code_last e) /\
    ~ (covered w (blks_of (cblks a)) x /\ code_first e <= x <= code_last e) /\
    ~ (covered w (blks_of (cblks b)) x /\ covered w (blks_of (cblks a)) x).
Proof. exact code_partition_tiles. Qed.
Print Assumptions C09_tiles_of_source.

(* minimal: no list of aligned blocks covering the same addresses is shorter than before (resp. after) *)
Theorem C09_minimal_of_source : forall t e, wf_net t -> wf_net e -> nver t = nver e -> code_splits t e ->
  forall b m a, src_cidr_partition t e = Ok (b, m, a) ->
  let w := width (nver e) in
  (forall l', (forall c, In c l' -> aligned w c) -> (forall x, covered w (blks_of (cblks b)) x <-> covered w l' x) ->
     (length b <= length l')%nat) /\
  (forall l', (forall c, In c l' -> aligned w c) -> (forall x, covered w (blks_of (cblks a)) x <-> covered w l' x) ->
     (length a <= length l')%nat).
Proof. exact code_partition_minimal. Qed.
Print Assumptions C09_minimal_of_source.

(* every object handed out has the family of the inputs and lies inside T, below first E (before) or above last E (after) *)
Theorem C09_blocks_inside_of_source : forall t e, wf_net t -> wf_net e -> nver t = nver e -> code_splits t e ->
  forall b m a, src_cidr_partition t e = Ok (b, m, a) ->
  let w := width (nver e) in
  Forall (fun n => nver n = nver e /\ code_first t <= nval n /\ nval n + 2 ^ (w - nplen n) <= code_first e) b /\
  Forall (fun n => nver n = nver e /\ code_last e < nval n /\ nval n + 2 ^ (w - nplen n) - 1 <= code_last t) a.
Proof. exact code_partition_blocks_inside. Qed.
Print Assumptions C09_blocks_inside_of_source.

(* cidr_exclude = before ++ after: no hypothesis at all *)
Theorem C09_exclude_of_source : forall t e b m a,
  src_cidr_partition t e = Ok (b, m, a) -> src_cidr_exclude t e = Ok (b ++ a).
Proof. exact code_exclude_eq. Qed.
Print Assumptions C09_exclude_of_source.

(* ... which is the canonical list of T \ E in all four situations *)
Theorem C09_exclude_spec_of_source : forall t e, wf_net t -> wf_net e -> nver t = nver e ->
  exists l, src_cidr_exclude t e = Ok l /\ all_ver (nver e) l /\ canon (width (nver e)) (blks_of (cblks l)) /\
    forall x, covered (width (nver e)) (blks_of (cblks l)) x <->
              code_first t <= x <= code_last t /\ ~ (code_first e <= x <= code_last e).
Proof. exact code_exclude_spec. Qed.
Print Assumptions C09_exclude_spec_of_source.

(* the generated loop never runs out of its fuel and no constructor call raises *)
Theorem C09_fuel_enough_of_source : forall t e, wf_net t -> wf_net e -> nver t = nver e ->
  src_cidr_partition t e <> Raise OutOfFuel.
Proof. exact code_partition_fuel_enough. Qed.
Print Assumptions C09_fuel_enough_of_source.

Theorem C09_total_of_source : forall t e, wf_net t -> wf_net e -> nver t = nver e ->
  exists r, src_cidr_partition t e = Ok r.
Proof. exact code_partition_total. Qed.
Print Assumptions C09_total_of_source.

(* non-vacuity: 10.0.0.1/24 minus 10.0.0.69/26 (both with host bits) meets the hypotheses of the split case, and the
   generated definition computes the result *)
Example C09_code_nonvacuous :
  let t := {| nver := 4; nval := 167772161; nplen := 24 |} in
  let e := {| nver := 4; nval := 167772229; nplen := 26 |} in
  wf_net t /\ wf_net e /\ code_splits t e /\
  src_cidr_partition t e = Ok ([ {| nver := 4; nval := 167772160; nplen := 26 |} ], [e],
                               [ {| nver := 4; nval := 167772288; nplen := 25 |} ]).
Proof.
  cbv zeta. split; [|split; [|split]].
  - unfold wf_net; cbn [nver nval nplen]. change (width 4) with 32. split; [reflexivity|lia].
  - unfold wf_net; cbn [nver nval nplen]. change (width 4) with 32. split; [reflexivity|lia].
  - unfold code_splits. vm_compute. repeat split; discriminate.
  - vm_compute. reflexivity.
Qed.
