(* Props/C14_src_ctor.v — source tie for C14, constructor part: the Gallina definitions that harness/gen/pysrc.py regenerates on
   every run from the CURRENT text of IPAddress.__init__ (with BaseIP.__init__, which it calls through super()), specialised to
   an int `addr` (src_IPAddress_init_int) and to an IPAddress `addr` (copy construction, src_IPAddress_init_copy)
   (coq/Gen/pysrc_ctor_gen.v), are equal to the hand-written constructor models ctor_int / ctor_copy (Model/AddrOps.v) that the
   theorems C14_ctor, C14_copy, C14_ctor_no_wrap of Props/C14.v are about; no hypothesis.  For an explicit version the generated
   constructor is the symbol mk_addr that stands for `IPAddress(e, version)` / `self.__class__(e, version)` in every other
   translated method.  `flags` is a parameter the integer and copy branches never read.
   Nothing but the statement closed by `exact`, followed by Print Assumptions. *)
From NV Require Import Base.Tac Base.PyVal Model.Ip Model.AddrOps Model.SrcPrelude Gen.pysrc_gen Gen.pysrc_ctor_gen
  Proofs.GenOk_Src_C14_ctor.
Open Scope Z_scope.

Theorem C14_source_tie_ctor :
  (forall i version flags, src_IPAddress_init_int i version flags = ctor_int i version) /\
  (forall i ver flags, src_IPAddress_init_int i (Some ver) flags = mk_addr ver i) /\
  (forall ver v version flags, src_IPAddress_init_copy (ver, v) version flags = ctor_copy ver v version).
Proof. exact C14_ctor_tie_ok. Qed.
Print Assumptions C14_source_tie_ctor.

(* the generated definitions compute: IPAddress(2^32) is (6, 2^32); IPAddress(2^32, 4) raises AddrFormatError; IPAddress(1, 5)
   raises ValueError; copying 10.0.0.1 as version 6 raises ValueError *)
Example C14_src_ctor_nonvacuous :
  src_IPAddress_init_int 4294967296 None 0 = Ok (6, 4294967296) /\
  src_IPAddress_init_int 4294967296 (Some 4) 0 = Raise AddrFormatError /\
  src_IPAddress_init_int 1 (Some 5) 0 = Raise ValueError /\
  src_IPAddress_init_copy (4, 167772161) (Some 6) 0 = Raise ValueError /\
  src_IPAddress_init_copy (4, 167772161) None 0 = Ok (4, 167772161).
Proof. repeat split; vm_compute; reflexivity. Qed.
