(* Props/C07_src_ops.v -- SRCA: source tie for C07 (operators): the Gallina definitions that harness/gen/pysrc.py regenerates on
   every run from the CURRENT text of netaddr/ip/sets.py (coq/Gen/pysrc_sets_ops_gen.v: _subtract with its index-driven `while`
   loop and the out-parameter list `ranges`; the generator _iter_merged_ranges read as the list of what it yields;
   IPSet.intersection, isdisjoint, difference, symmetric_difference with their two-cursor `while` loops over
   `own_nets[own_idx]` / `other_nets[other_idx]` and the tail loops; the generator IPSet.iter_ipranges) are equal to the
   hand-written model functions of Model/Sets.v (subtract, iter_merged_ranges, set_intersection, set_isdisjoint,
   set_difference, set_symdiff, set_iter_ipranges) that the theorems of Props/C07_ops.v, C07_queries.v, C07.v are about.
   The model walks suffixes of the sorted key lists where the code walks indices: the loop equalities are stated through
   `skipn index list`, for ALL operands.  Hypotheses of the method-level equalities: none for intersection / isdisjoint /
   _subtract; valid ranges (rok: both ends pass the range-checking IPAddress constructor) for _iter_merged_ranges; SetInv of
   the operands -- the hypothesis of the property theorems -- for difference, symmetric_difference and iter_ipranges (the
   ranges they hand to _iter_merged_ranges are valid by the loop specifications of Proofs/C07_sweeps_*.v).
   iprange_to_cidrs is the translated definition (tie C05); cidr_merge is not called here.
   Nothing but the statement closed by `exact`, followed by Print Assumptions. *)
From NV Require Import Base.Tac Base.PyVal Model.Ip Model.Sets Model.SrcPrelude Model.SrcPreludeSets
  Gen.pysrc_gen Gen.pysrc_sets_gen Gen.pysrc_sets_ops_gen Proofs.C02 Proofs.NetDen Proofs.GenOk_Src_C07 Proofs.GenOk_Src_C07_ops.
Import ListNotations.
Open Scope Z_scope.

Theorem C07_source_tie_ops :
  (forall sup L k ranges,
     src_sets_subtract sup L (Z.of_nat k) ranges =
       omap (fun r => (snd r, Z.of_nat (length L - length (fst r)))) (subtract sup (skipn k L) ranges)) /\
  (forall l, Forall rok l -> src_sets_iter_merged_ranges l = Ok (map pair_of (iter_merged_ranges l))) /\
  (forall a b, src_IPSet_intersection a b = set_intersection a b) /\
  (forall a b, src_IPSet_isdisjoint a b = set_isdisjoint a b) /\
  (forall a b, SetInv a -> SetInv b -> src_IPSet_difference a b = set_difference a b) /\
  (forall a b, SetInv a -> SetInv b -> src_IPSet_symmetric_difference a b = set_symdiff a b) /\
  (forall d, SetInv d -> src_IPSet_iter_ipranges d = Ok (set_iter_ipranges d)) /\
  (forall A B fuel i j res,
     src_IPSet_intersection_loop1 fuel (Z.of_nat (length A)) (Z.of_nat (length B)) A B res (Z.of_nat i) (Z.of_nat j) =
       inter_loop fuel (skipn i A) (skipn j B) res) /\
  (forall A B FA, (length A < FA)%nat -> forall fuel i j ranges res,
     bind (src_IPSet_difference_loop1 fuel (Z.of_nat (length A)) (Z.of_nat (length B)) A B (Z.of_nat i) (Z.of_nat j) ranges res) (fin_diff A FA) =
       diff_loop fuel (skipn i A) (skipn j B) ranges res) /\
  (forall A B FA, (length A < FA)%nat -> forall FB, (length B < FB)%nat -> forall fuel i j ranges,
     bind (src_IPSet_symmetric_difference_loop1 fuel (Z.of_nat (length A)) (Z.of_nat (length B)) A B (Z.of_nat i) (Z.of_nat j) ranges) (fin_xor A B FA FB) =
       symdiff_loop fuel (skipn i A) (skipn j B) ranges).
Proof. exact C07_ops_tie_ok. Qed.
Print Assumptions C07_source_tie_ops.

(* the generated definitions compute: {10.0.0.0/24} - {10.0.0.64/26} = {10.0.0.0/26, 10.0.0.128/25};
   {10.0.0.0/32} ^ {10.0.0.1/32} = {10.0.0.0/31} (the two ranges are merged by _iter_merged_ranges) *)
Example C07_src_ops_nonvacuous :
  src_IPSet_difference [ {| nver := 4; nval := 167772160; nplen := 24 |} ] [ {| nver := 4; nval := 167772224; nplen := 26 |} ]
    = Ok [ {| nver := 4; nval := 167772160; nplen := 26 |}; {| nver := 4; nval := 167772288; nplen := 25 |} ] /\
  src_IPSet_symmetric_difference [ {| nver := 4; nval := 167772160; nplen := 32 |} ] [ {| nver := 4; nval := 167772161; nplen := 32 |} ]
    = Ok [ {| nver := 4; nval := 167772160; nplen := 31 |} ].
Proof. split; vm_compute; reflexivity. Qed.
