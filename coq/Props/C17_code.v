(* Props/C17_code.v — property C17 stated DIRECTLY ABOUT THE CODE: the theorems of Props/C17.v with each model function replaced by
   the Gallina definition `src_…` that harness/gen/pysrc.py regenerates on every run from the CURRENT text of netaddr/ip/glob.py and
   netaddr/ip/nmap.py (coq/Gen/pysrc_glob_gen.v, pysrc_nmap_gen.v).  The model's parameter `to_cidrs` is gone: the generated glob
   code calls the generated iprange_to_cidrs (coq/Gen/pysrc_iprange_gen.v, property C05), which returns the maximal aligned blocks
   of [lo, hi] (Proofs/GenOk_Src_C17_closed.v, from the C05 theorems), so C17_to_globs holds of the code outright.
   Shapes: an IPAddress object is (version, value), an IPRange object (version, start, end), an IPNetwork a `net` record
   (`blocks_of` reads (value, prefixlen) off a list of them); the IPGlob object is its state ((4, start), (4, end), Some text | None);
   a generator is the list of the outcomes of its yields, read as items + final exception by Nmap.gen_of_outcomes; validators answer
   `Ok bool`.  pton6 / ip_address are the two platform parsers of nmap.py (inet_pton(AF_INET6, .), IPAddress(text)): the nmap
   statements hold for ALL of them, as in Props/C17.v.
   Hypotheses: those of the model theorems.  Tie hypotheses beyond them: only C17_cidr_glob_v6_of_source asks that the IPv6 network
   object be well formed (0 <= prefixlen <= 128, 0 <= value < 2^128: the class invariant; the generated code reads network[0] /
   network[-1] through the range-checking constructor before it looks at the version, the model looks at the version first).
   Clauses still about the model:
   * IPAddress(text) / IPRange(text, text) / str(IPAddress) / IPNetwork(IPAddress) on the canonical dotted quads the glob code builds
     are prelude symbols = the hand model (Glob.ip_of_canon, int_to_str4; C17_pton4 is about that model and is not restated);
     likewise IPNetwork(text), IPAddress('%d.%d.%d.%d' % .., 4) and `for ip in net` in nmap.py (Nmap.ipnetwork_of_str appears in
     C17_nmap_iter_slash_of_source as the denotation of the text), and IPRange.__init__ / __getstate__ / __setstate__ under IPGlob;
   * C17_ipglob_set_rejects: the generated setter answers the exception; that a failing setter leaves the object unchanged is stated
     of the model only (Python semantics of an exception before any assignment);
   * C17_nmap_cidr_probe is about the harness's probe, C17_to_cidrs_exec / C17_to_globs_exec about the model's executable
     decomposition (superseded here by the generated iprange_to_cidrs); C17_chain_tiles is a fact about `chain` alone.
   Nothing but statements closed by `exact`, each followed by Print Assumptions. *)
From Coq Require Import String Ascii Sorted.
From NV Require Import Base.Tac Base.PyVal Base.PyStr Model.Ip Model.Glob Model.Nmap
  Proofs.C17_str Proofs.C17 Proofs.C17_nmap
  Model.SrcPrelude Model.SrcPreludeGlob Model.SrcPreludeNmap Gen.pysrc_iprange_gen Gen.pysrc_glob_gen Gen.pysrc_nmap_gen
  Proofs.GenOk_Src_C17 Proofs.Code_C17.
Import ListNotations.
Open Scope string_scope.
Open Scope Z_scope.

(* valid_glob as regenerated accepts exactly the glob grammar (and always answers a bool) *)
Theorem C17_valid_of_source : forall s,
  (src_valid_glob s = Ok true <-> glob_lang s) /\ (src_valid_glob s = Ok true \/ src_valid_glob s = Ok false).
Proof. exact valid_code. Qed.
Print Assumptions C17_valid_of_source.

(* every accepted glob converts, in the regenerated code, to exactly the addresses that match it field-wise; glob_to_cidrs gives
   aligned blocks tiling that interval in ascending order *)
Theorem C17_convert_of_source : forall fs, glob_fields fs ->
  let s := show_glob fs in
  src_glob_to_iptuple s = Ok ((4, glob_lo fs), (4, glob_hi fs)) /\
  src_glob_to_iprange s = Ok (4, glob_lo fs, glob_hi fs) /\
  (exists cs, omap blocks_of (src_glob_to_cidrs s) = Ok cs /\ cidrs_tile cs (glob_lo fs) (glob_hi fs)) /\
  0 <= glob_lo fs <= glob_hi fs /\ glob_hi fs < 2 ^ 32 /\
  forall v, 0 <= v < 2 ^ 32 -> (glob_match fs v <-> glob_lo fs <= v <= glob_hi fs).
Proof. exact convert_code. Qed.
Print Assumptions C17_convert_of_source.

Theorem C17_convert_rejects_of_source : forall s, src_valid_glob s = Ok false ->
  src_glob_to_iptuple s = Raise AddrFormatError /\ src_glob_to_iprange s = Raise AddrFormatError /\
  src_glob_to_cidrs s = Raise AddrFormatError.
Proof. exact convert_rejects_code. Qed.
Print Assumptions C17_convert_rejects_of_source.

(* iprange_to_globs as regenerated (with the regenerated iprange_to_cidrs in its fallback): valid globs whose address sets are
   consecutive intervals from lo to hi, exactly one glob iff [lo, hi] is the address set of some glob *)
Theorem C17_to_globs_of_source : forall lo hi, 0 <= lo <= hi /\ hi < 2 ^ 32 ->
  exists gl ivs, src_iprange_to_globs (4, lo) (4, hi) = Ok gl /\
                 Forall2 (fun g iv => glob_denotes g (fst iv) (snd iv)) gl ivs /\
                 chain ivs lo hi /\
                 (List.length gl = 1%nat <-> glob_shaped lo hi).
Proof. exact to_globs_code. Qed.
Print Assumptions C17_to_globs_of_source.

Theorem C17_to_globs_single_of_source : forall lo hi, glob_shaped lo hi ->
  exists g, src_iprange_to_globs (4, lo) (4, hi) = Ok [g] /\ glob_denotes g lo hi.
Proof. exact to_globs_single_code. Qed.
Print Assumptions C17_to_globs_single_of_source.

(* what `glob_denotes` means, in terms of the regenerated validator and converters *)
Theorem C17_glob_denotes_of_source : forall g a b, glob_denotes g a b ->
  src_valid_glob g = Ok true /\ src_glob_to_iptuple g = Ok ((4, a), (4, b)) /\ src_glob_to_iprange g = Ok (4, a, b) /\
  0 <= a <= b /\ b < 2 ^ 32 /\
  exists fs, g = show_glob fs /\ glob_fields fs /\ forall v, 0 <= v < 2 ^ 32 -> (glob_match fs v <-> a <= v <= b).
Proof. exact glob_denotes_code. Qed.
Print Assumptions C17_glob_denotes_of_source.

(* every IPv4 CIDR has exactly one glob, denoting exactly [first, last]; IPv6 is refused *)
Theorem C17_cidr_glob_of_source : forall v p, 0 <= p <= 32 -> 0 <= v < 2 ^ 32 ->
  let first := v - v mod 2 ^ (32 - p) in
  let last := first + 2 ^ (32 - p) - 1 in
  exists g, src_cidr_to_glob {| nver := 4; nval := v; nplen := p |} = Ok g /\ glob_denotes g first last.
Proof. exact cidr_glob_code. Qed.
Print Assumptions C17_cidr_glob_of_source.

Theorem C17_cidr_glob_v6_of_source : forall v p, 0 <= p <= 128 -> 0 <= v < 2 ^ 128 ->
  src_cidr_to_glob {| nver := 6; nval := v; nplen := p |} = Raise AddrConversionError.
Proof. exact cidr_glob_v6_code. Qed.
Print Assumptions C17_cidr_glob_v6_of_source.

(* IPGlob(s) for an accepted s: the state spans exactly the matching addresses and carries a valid glob with the same denotation,
   str() / .glob read that glob, pickling round-trips; IPGlob(s) for any other s raises AddrFormatError *)
Theorem C17_ipglob_of_source : forall fs, glob_fields fs ->
  let st g := ((4, glob_lo fs), (4, glob_hi fs), Some g) in
  exists g, src_IPGlob_init (show_glob fs) = Ok (st g) /\
            glob_denotes g (glob_lo fs) (glob_hi fs) /\
            src_IPGlob_str (4, glob_lo fs) (4, glob_hi fs) (Some g) = Ok g /\
            src_IPGlob_get_glob (4, glob_lo fs) (4, glob_hi fs) (Some g) = Ok g /\
            src_IPGlob_setstate (src_IPGlob_getstate (4, glob_lo fs) (4, glob_hi fs) (Some g)) = Ok (st g).
Proof. exact ipglob_code. Qed.
Print Assumptions C17_ipglob_of_source.

Theorem C17_ipglob_rejects_of_source : forall s, src_valid_glob s = Ok false -> src_IPGlob_init s = Raise AddrFormatError.
Proof. exact ipglob_rejects_code. Qed.
Print Assumptions C17_ipglob_rejects_of_source.

(* the glob setter on any object state (s, e, g0) *)
Theorem C17_ipglob_set_of_source : forall s e g0 fs, glob_fields fs ->
  exists g, src_IPGlob_set_glob s e g0 (show_glob fs) = Ok ((4, glob_lo fs), (4, glob_hi fs), Some g) /\
            glob_denotes g (glob_lo fs) (glob_hi fs).
Proof. exact ipglob_set_code. Qed.
Print Assumptions C17_ipglob_set_of_source.

Theorem C17_ipglob_set_rejects_of_source : forall s e g0 t, src_valid_glob t = Ok false ->
  src_IPGlob_set_glob s e g0 t = Raise AddrFormatError.
Proof. exact ipglob_set_rejects_code. Qed.
Print Assumptions C17_ipglob_set_rejects_of_source.

(* ---- nmap.py as regenerated; for any behaviour of the platform parsers ---- *)

Theorem C17_nmap_valid_of_source : forall pton6 ip_address s,
  src_valid_nmap_range pton6 ip_address s = Ok true <-> snd (gen_of_outcomes (src_iter_nmap_range pton6 ip_address [s])) = None.
Proof. exact nmap_valid_code. Qed.
Print Assumptions C17_nmap_valid_of_source.

Theorem C17_nmap_valid_cases_of_source : forall pton6 ip_address s,
  match gen_of_outcomes (src__parse_nmap_target_spec pton6 ip_address s) with
  | (_ :: _, None) => src_valid_nmap_range pton6 ip_address s = Ok true
  | ([], Some e) => src_valid_nmap_range pton6 ip_address s =
                      (match e with TypeError | ValueError | AddrFormatError => Ok false | _ => Raise e end)
  | _ => False
  end.
Proof. exact nmap_valid_cases_code. Qed.
Print Assumptions C17_nmap_valid_cases_of_source.

Theorem C17_nmap_octet_set_of_source : forall spec l, src__nmap_octet_target_values spec = Ok l ->
  StronglySorted Z.lt l /\ Forall octet l /\ l <> [] /\ forall x, In x l <-> octets_den spec x.
Proof. exact nmap_octet_set_code. Qed.
Print Assumptions C17_nmap_octet_set_of_source.

Theorem C17_nmap_iter_of_source : forall pton6 ip_address s,
  contains_char ch_slash s = false -> contains_char ch_colon s = false ->
  match src__generate_nmap_octet_ranges s with
  | Raise e => gen_of_outcomes (src__parse_nmap_target_spec pton6 ip_address s) = ([], Some e)
  | Ok (A, B, C, D) =>
      gen_of_outcomes (src__parse_nmap_target_spec pton6 ip_address s) = (map (fun v => (4, v)) (quads A B C D), None) /\
      StronglySorted Z.lt (quads A B C D) /\ quads A B C D <> [] /\
      exists t0 t1 t2 t3, split ch_dot s = [t0; t1; t2; t3] /\
        (forall v, In v (quads A B C D) <->
                   exists a b c d, octets_den t0 a /\ octets_den t1 b /\ octets_den t2 c /\ octets_den t3 d /\
                                   v = of_octets [a; b; c; d])
  end.
Proof. exact nmap_iter_code. Qed.
Print Assumptions C17_nmap_iter_of_source.

Theorem C17_nmap_iter_cidr_of_source : forall pton6 ip_address a b c d p,
  octet a -> octet b -> octet c -> octet d -> 0 < p < 33 ->
  let v := of_octets [a; b; c; d] in
  let first := v - v mod 2 ^ (32 - p) in
  gen_of_outcomes (src__parse_nmap_target_spec pton6 ip_address (join "." [fmt_d a; fmt_d b; fmt_d c; fmt_d d] ++ "/" ++ fmt_d p)) =
    (map (fun x => (4, x)) (py_range first (first + 2 ^ (32 - p))), None).
Proof. exact nmap_iter_cidr_code. Qed.
Print Assumptions C17_nmap_iter_cidr_of_source.

Theorem C17_nmap_iter_slash_of_source : forall pton6 ip_address s xs,
  contains_char ch_slash s = true -> gen_of_outcomes (src__parse_nmap_target_spec pton6 ip_address s) = (xs, None) ->
  exists v p, ipnetwork_of_str pton6 s = Ok (4, v, p) /\ 0 <= v < 2 ^ 32 /\ 0 < p <= 32 /\
              let first := v - v mod 2 ^ (32 - p) in
              xs = map (fun x => (4, x)) (py_range first (first + 2 ^ (32 - p))).
Proof. exact nmap_iter_slash_code. Qed.
Print Assumptions C17_nmap_iter_slash_of_source.

Theorem C17_nmap_iter_colon_of_source : forall pton6 ip_address s,
  contains_char ch_slash s = false -> contains_char ch_colon s = true ->
  gen_of_outcomes (src__parse_nmap_target_spec pton6 ip_address s) =
    match ip_address s with Ok a => ([a], None) | Raise e => ([], Some e) end.
Proof. exact nmap_iter_colon_code. Qed.
Print Assumptions C17_nmap_iter_colon_of_source.

Theorem C17_nmap_iter_single_of_source : forall pton6 ip_address s,
  gen_of_outcomes (src_iter_nmap_range pton6 ip_address [s]) = gen_of_outcomes (src__parse_nmap_target_spec pton6 ip_address s).
Proof. exact nmap_iter_single_code. Qed.
Print Assumptions C17_nmap_iter_single_of_source.

Theorem C17_nmap_iter_many_of_source : forall pton6 ip_address s rest,
  gen_of_outcomes (src_iter_nmap_range pton6 ip_address (s :: rest)) =
  match gen_of_outcomes (src__parse_nmap_target_spec pton6 ip_address s) with
  | (xs, Some e) => (xs, Some e)
  | (xs, None) => ((xs ++ fst (gen_of_outcomes (src_iter_nmap_range pton6 ip_address rest)))%list,
                   snd (gen_of_outcomes (src_iter_nmap_range pton6 ip_address rest)))
  end.
Proof. exact nmap_iter_many_code. Qed.
Print Assumptions C17_nmap_iter_many_of_source.

(* non-vacuity: the generated definitions compute *)
Example C17_code_nonvacuous :
  src_valid_glob "192.0.2-3.*" = Ok true /\ src_valid_glob "010.0.0.*" = Ok false /\
  src_glob_to_iprange "192.0.2-3.*" = Ok (4, 3221225984, 3221226495) /\
  src_iprange_to_globs (4, 3221225984) (4, 3221226496) = Ok ["192.0.2-3.*"; "192.0.4.0"] /\
  src_cidr_to_glob {| nver := 4; nval := 167772160; nplen := 12 |} = Ok "10.0-15.*.*" /\
  src_IPGlob_init "192.0.2.*" = Ok ((4, 3221225984), (4, 3221226239), Some "192.0.2.*") /\
  fst (gen_of_outcomes (src_iter_nmap_range (fun _ => None) (fun _ => Raise AddrFormatError) ["192.0.2.1,5-6"])) =
    [(4, 3221225985); (4, 3221225989); (4, 3221225990)].
Proof. repeat split; vm_compute; reflexivity. Qed.
