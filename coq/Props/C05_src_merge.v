(* Props/C05_src_merge.v -- source tie for C05, second part: the Gallina definitions that harness/gen/pysrc.py regenerates on
   every run from the CURRENT text of cidr_merge and IPRange.cidrs (coq/Gen/pysrc_merge_gen.v) are equal to the hand-written
   model Merge.cidr_merge / Merge.iprange_to_cidrs that the theorems of Props/C05.v are about.
   cidr_merge is translated as written: the items are IPNetwork or IPRange objects (Merge.mitem; `IPNetwork(ip)` of anything
   else is the constructors' business), the tuples (version, last, first[, original]) are Merge.rtuple (`len(t) == 4` = the
   original is still there), `ranges.sort()` is the symbol py_sort_ranges (= Merge.rt_sort, NOT translated), the backward scan
   `while i > 0` reads and writes the list by index (py_index / py_setitem / py_delitem of Model/SrcPreludeSRCE.v; fuel
   len(ranges) + 1 from the translator's FUEL table) where the model walks a zipper (merge_scan): third conjunct.  The emitting
   loop calls the regenerated IPRange.cidrs / IPNetwork.cidr / iprange_to_cidrs and the constructor IPAddress(int, version).
   Hypothesis: the items are well formed (NetDen.wf_mitem, the hypothesis of every theorem of Props/C05.v) -- or, weaker
   (second conjunct), the constructor calls made on the merged tuples succeed (emit_ok); the model writes their results down
   without a constructor.  A source edit that changes cidr_merge or IPRange.cidrs (or iprange_to_cidrs, spanning_cidr,
   cidr_partition, which they call) changes the generated term and this theorem stops compiling.
   Last conjunct: the symbol py_cidr_merge that stands for cidr_merge in the SubnetSplitter unit (Model/SrcPreludeSplitter.v,
   Props/C20_src.v) is this regenerated cidr_merge on lists of well-formed IPNetwork objects.
   Nothing but the statement closed by `exact`, followed by Print Assumptions. *)
From NV Require Import Base.Tac Base.PyVal Model.Ip Model.Merge Model.SrcPrelude Model.SrcPreludeSRCE Gen.pysrc_gen
  Gen.pysrc_merge_gen Proofs.C02 Proofs.NetDen Proofs.GenOk_Src_C05_merge.
From NV Require Model.SrcPreludeSplitter.
Import ListNotations.
Open Scope Z_scope.

Theorem C05_source_tie_merge :
  (forall items, Forall wf_mitem items -> src_cidr_merge items = cidr_merge items) /\
  (forall items, Forall emit_ok (merge_ranges (map rt_of items)) -> src_cidr_merge items = cidr_merge items) /\
  (forall before cur done fuel, (length before < fuel)%nat ->
     src_cidr_merge_loop2 fuel (Z.of_nat (length before)) (rev before ++ cur :: done) = Ok (merge_scan cur before done)) /\
  (forall xs acc, src_cidr_merge_loop1 xs acc = acc ++ map rt_of xs) /\
  (forall xs, Forall emit_ok xs -> forall merged, src_cidr_merge_loop3 xs merged = omap (fun r => merged ++ r) (emit_merged xs)) /\
  (forall ver w s e, valid_ver ver = true -> src_IPRange_cidrs ver w s e = iprange_to_cidrs (addr_net ver s) (addr_net ver e)) /\
  (forall l, Forall wf_net l -> SrcPreludeSplitter.py_cidr_merge l = src_cidr_merge (map MNet l)).
Proof. exact C05_merge_tie_ok. Qed.
Print Assumptions C05_source_tie_merge.

(* the generated definition computes: cidr_merge([10.0.0.1/25 (host bits), 10.0.0.128/25, IPRange(10.0.1.0, 10.0.1.2)]) =
   [10.0.0.0/24, 10.0.1.0/31, 10.0.1.2/32] *)
Example C05_src_merge_nonvacuous :
  src_cidr_merge [MNet {| nver := 4; nval := 167772161; nplen := 25 |}; MRange 4 167772416 167772418;
                  MNet {| nver := 4; nval := 167772288; nplen := 25 |}] =
    Ok [ {| nver := 4; nval := 167772160; nplen := 24 |}; {| nver := 4; nval := 167772416; nplen := 31 |};
         {| nver := 4; nval := 167772418; nplen := 32 |} ].
Proof. vm_compute. reflexivity. Qed.
