(* Props/C01.v — C01: address text round-trips; strict parsing equals the standard grammar; both back-ends agree.
   Models: Model/IpText.v (Std4/Std6: platform oracles = standard grammar), Model/FbSocket.v (netaddr.fbsocket after
   F-01/F-02), Model/AddrText.v (strategy/ipv4.py, strategy/ipv6.py, IPAddress.__init__ string branch, after F-03).
   `be` ranges over {Platform, Fallback}.  Strings are arbitrary ASCII `string`s (no bound on length). *)
From Coq Require Import ZArith List String Ascii.
From NV Require Import Base.PyVal Base.PyStr Model.IpText Model.FbSocket Model.AddrText
  Proofs.C01_Chars Proofs.C01_V6 Proofs.C01_Value Proofs.C01_V4 Proofs.C01_Fb Proofs.C01_Strict6 Proofs.C01_Aton Proofs.C01.
Import ListNotations.
Open Scope Z_scope.

(* (1) every value prints (default form and each IPv6 dialect) to text that parses back — with or without an explicit
   version, in default / strict / ZEROFILL mode — to the same value and version, under either back-end *)
Theorem C01_print_parse_v4 : forall be v d version flags, 0 <= v < 2 ^ 32 ->
  version = None \/ version = Some 4 -> flags = 0 \/ flags = 1 \/ flags = 2 \/ flags = 3 ->
  (do s <- int_to_str be 4 v d; init_str be s version flags) = Ok (4, v).
Proof. exact print_parse_v4. Qed.
Print Assumptions C01_print_parse_v4.

Theorem C01_print_parse_v6 : forall be v d version flags, 0 <= v < 2 ^ 128 ->
  d = None \/ d = Some ipv6_compact \/ d = Some ipv6_full \/ d = Some ipv6_verbose ->
  version = Some 6 \/ (version = None /\ (flags = 0 \/ flags = 1)) ->
  (do s <- int_to_str be 6 v d; init_str be s version flags) = Ok (6, v).
Proof. exact print_parse_v6. Qed.
Print Assumptions C01_print_parse_v6.

(* ... and the independent standard parser (the Std oracles, validated against glibc and `ipaddress`) reads the same
   value from the printed text *)
Theorem C01_printed_standard_v4 : forall be v d, 0 <= v < 2 ^ 32 ->
  exists s, int_to_str be 4 v d = Ok s /\ Std4.pton4 s = Some (octets_of v).
Proof. exact printed_standard_v4. Qed.
Print Assumptions C01_printed_standard_v4.

Theorem C01_printed_standard_v6 : forall be v d, 0 <= v < 2 ^ 128 ->
  d = None \/ d = Some ipv6_compact \/ d = Some ipv6_full \/ d = Some ipv6_verbose ->
  exists s, int_to_str be 6 v d = Ok s /\ Std6.pton6 s = Some (words_of v).
Proof. exact printed_standard_v6. Qed.
Print Assumptions C01_printed_standard_v6.

(* (2) a rejected address string raises AddrFormatError; ValueError only for the documented '/' refusal or an invalid
   `version` argument *)
Theorem C01_reject_kind : forall be s version flags e, init_str be s version flags = Raise e ->
  e = AddrFormatError \/
  (e = ValueError /\ (contains_char "/" s = true \/ exists v, version = Some v /\ v <> 4 /\ v <> 6)).
Proof. exact reject_kind. Qed.
Print Assumptions C01_reject_kind.

(* (3) the fallback printers print exactly what the platform prints *)
Theorem C01_fb_print : forall ws, Forall (fun w => 0 <= w < 65536) ws -> List.length ws = 8%nat ->
  Fb.inet_ntop6 ws = Ok (Std6.ntop6 ws).
Proof. exact fb_ntop6_eq. Qed.
Print Assumptions C01_fb_print.

Theorem C01_fb_print_v4 : forall a b c d, Fb.inet_ntoa [a; b; c; d] = Ok (Std4.ntoa [a; b; c; d]).
Proof. exact fb_ntoa_eq. Qed.
Print Assumptions C01_fb_print_v4.

(* (4) strict mode: for EVERY string the fallback parser returns what the standard grammar says (accepts exactly the
   standard strings, with their standard values) *)
Theorem C01_strict_exact_v4 : forall s, Fb.inet_pton4 s = of_option (Std4.pton4 s).
Proof. exact fb_pton4_eq. Qed.
Print Assumptions C01_strict_exact_v4.

Theorem C01_strict_exact : forall s, Fb.inet_pton6 s = of_option (Std6.pton6 s).
Proof. exact fb_pton6_eq. Qed.
Print Assumptions C01_strict_exact.

Theorem C01_strict_mode_v4 : forall be s, str_to_int be 4 s INET_PTON =
  match Std4.pton4 s with
  | Some o => match unpack_I o with Ok v => Ok v | Raise _ => Raise AddrFormatError end
  | None => Raise AddrFormatError
  end.
Proof. exact strict_exact_v4. Qed.
Print Assumptions C01_strict_mode_v4.

Theorem C01_strict_mode_v6 : forall be s flags, str_to_int be 6 s flags =
  match Std6.pton6 s with
  | Some ws => match packed_to_int ws with Ok v => Ok v | Raise _ => Raise AddrFormatError end
  | None => Raise AddrFormatError
  end.
Proof. exact strict_exact_v6. Qed.
Print Assumptions C01_strict_mode_v6.

(* "all of this is unchanged under the fallback": on EVERY string / value the two back-ends give the same outcome *)
Theorem C01_backend_invariant_parse : forall be s version flags, init_str be s version flags = init_str Platform s version flags.
Proof. exact init_str_be. Qed.
Print Assumptions C01_backend_invariant_parse.

Theorem C01_backend_invariant_print : forall be ver v d, int_to_str be ver v d = int_to_str Platform ver v d.
Proof. exact int_to_str_be. Qed.
Print Assumptions C01_backend_invariant_print.

Theorem C01_backend_invariant_valid : forall be ver s flags, valid_str be ver s flags = valid_str Platform ver s flags.
Proof. exact valid_str_be. Qed.
Print Assumptions C01_backend_invariant_valid.

(* (5) default mode reads every BSD inet_aton shorthand: 1-4 parts, each spelled in decimal, 0x/0X hex or leading-0
   octal (`spelling`), leading parts <= 255, the last part filling the remaining bytes *)
Theorem C01_aton_shorthand : forall be pre t x version,
  Forall (fun p => spelling (fst p) (snd p) /\ snd p <= 255) pre -> (List.length pre <= 3)%nat -> spelling t x ->
  x <= Std4.last_max (List.length pre) -> version = None \/ version = Some 4 ->
  init_str be (str_of (spelled_text pre t)) version 0 = Ok (4, Std4.parts_value (map snd pre) 24 + x).
Proof. exact init_shorthand. Qed.
Print Assumptions C01_aton_shorthand.

(* ZEROFILL reads zero-padded octets (any amount of padding per octet) with their conventional value *)
Theorem C01_zerofill : forall be k1 k2 k3 k4 a b c d version flags,
  0 <= a < 256 -> 0 <= b < 256 -> 0 <= c < 256 -> 0 <= d < 256 ->
  version = None \/ version = Some 4 -> flags = 2 \/ flags = 3 ->
  init_str be (join "." [fmt_d_pad k1 a; fmt_d_pad k2 b; fmt_d_pad k3 c; fmt_d_pad k4 d]) version flags =
  Ok (4, ((a * 256 + b) * 256 + c) * 256 + d).
Proof. exact zerofill_padded. Qed.
Print Assumptions C01_zerofill.

(* non-vacuity: concrete instances of the hypotheses and conclusions *)
Example C01_nonvacuous :
  (do s <- int_to_str Fallback 6 281470698652420 None; init_str Fallback s None 0) = Ok (6, 281470698652420) /\
  int_to_str Fallback 6 281470698652420 None = Ok "::ffff:1.2.3.4"%string /\
  init_str Fallback "0x7f.1"%string None 0 = Ok (4, 2130706433) /\
  init_str Platform "010.001.000.09"%string (Some 4) 2 = Ok (4, 167837705) /\
  init_str Fallback "::1 "%string (Some 6) 1 = Raise AddrFormatError /\
  spelling (chars "0x7f") 127 /\ spelling (chars "017") 15.
Proof. repeat split; try (vm_compute; reflexivity).
  - apply (sp_hex _ _ ch_x (chars "7f")); auto; try discriminate; reflexivity.
  - apply (sp_oct _ _ (chars "17")); reflexivity. Qed.
