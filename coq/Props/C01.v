(* Props/C01.v — placeholder while the models are being tied to the code. *)
From Coq Require Import ZArith String.
From NV Require Import Base.PyStr Model.IpText.
Theorem C01_placeholder : Std4.pton4 "1.2.3.4"%string = Some (1 :: 2 :: 3 :: 4 :: nil)%Z.
Proof. exact eq_refl. Qed.
Print Assumptions C01_placeholder.
