(* Props/C15_src_ip.v — source tie for C15, second part: the Gallina definitions that harness/gen/pysrc.py regenerates on every run
   from the CURRENT text of netaddr/strategy/ipv4.py, netaddr/strategy/ipv6.py (coq/Gen/pysrc_ipv4_gen.v, pysrc_ipv6_gen.v:
   valid_words int_to_words words_to_int valid_bits bits_to_int int_to_bits valid_bin int_to_bin bin_to_int int_to_packed
   packed_to_int, and ipv4.int_to_arpa) and of int_to_bits of netaddr/strategy/__init__.py (coq/Gen/pysrc_strategy_bits_gen.v) are
   equal to the hand-written model of Model/Codec.v that the commands of Extract/Cmd_C15.v run and the theorems of Props/C15.v
   are about: the m_* wrappers / ip_bits / ip_reverse_dns applied to the module's row of the regenerated dialect table
   (row4 / row6 = find_dialect "ipv4" "" / "ipv6" "", first clause), Codec.int_to_bits (word_bits, word_bytes_loop).
   The module constants width / word_size / num_words / word_sep are read from the module text (generated constants);
   struct.pack / struct.unpack are Codec.struct_pack / struct_unpack (validated against CPython by the c15_struct_* commands);
   BYTES_TO_BITS is the table regenerated into Gen/codec_gen.v (GenOk_C15.gen_bytes_to_bits_ok ties it to byte_bits).
   Hypotheses: 0 <= word_size, 0 <= num_words for the generic int_to_bits and for explicit sizes handed to ipv6.int_to_words
   (as in C15_source_tie); none for the module functions.  bytes_to_bits() (no parameters: a closed term) evaluates to the
   regenerated table and to the table of Codec.byte_bits.  ipv6.int_to_arpa goes through int_to_str and is stated in
   Props/C01_src.v (C01_source_tie_text).  Nothing but the statement closed by `exact`, followed by Print Assumptions. *)
From Coq Require Import String.
From NV Require Import Base.PyStr.
From NV Require Import Base.Tac Base.PyVal Model.Ip Model.Codec Model.SrcPrelude Model.SrcPreludeText Gen.pysrc_strategy_bits_gen
  Gen.pysrc_ipv4_gen Gen.pysrc_ipv6_gen Proofs.GenOk_Src_C15_ip.
Import ListNotations.
Close Scope string_scope.
Open Scope Z_scope.

Theorem C15_source_tie_ip :
  (forall v ws nw sep, 0 <= ws -> 0 <= nw -> src_strategy_int_to_bits v ws nw sep = int_to_bits v ws nw sep) /\
  (src_strategy_bytes_to_bits = Ok py_BYTES_TO_BITS /\
   src_strategy_bytes_to_bits = Ok (map (fun n => str_of (byte_bits (Z.of_nat n))) (seq 0 256))) /\
  (find_dialect "ipv4"%string ""%string = Some row4 /\ find_dialect "ipv6"%string ""%string = Some row6) /\
  (* ipv4.py *)
  ((forall words, src_ipv4_valid_words words = Ok (valid_words words (d_ws row4) (d_nw row4))) /\
   (forall v, src_ipv4_int_to_words v = m_int_to_words "ipv4"%string row4 v) /\
   (forall words, src_ipv4_words_to_int words = m_words_to_int "ipv4"%string row4 words) /\
   (forall s, src_ipv4_valid_bits s = Ok (m_valid_bits row4 s)) /\
   (forall s, src_ipv4_bits_to_int s = m_bits_to_int row4 s) /\
   (forall v sep, src_ipv4_int_to_bits v sep = ip_bits row4 v sep) /\
   (forall s, src_ipv4_valid_bin s = Ok (m_valid_bin row4 s)) /\
   (forall v, src_ipv4_int_to_bin v = m_int_to_bin row4 v) /\
   (forall s, src_ipv4_bin_to_int s = m_bin_to_int row4 s) /\
   (forall v, src_ipv4_int_to_packed v = m_int_to_packed "ipv4"%string row4 v) /\
   (forall p, src_ipv4_packed_to_int p = m_packed_to_int "ipv4"%string p) /\
   (forall v, src_ipv4_int_to_arpa v = ip_reverse_dns "ipv4"%string row4 v)) /\
  (* ipv6.py *)
  ((forall words, src_ipv6_valid_words words = Ok (valid_words words (d_ws row6) (d_nw row6))) /\
   (forall v, src_ipv6_int_to_words v None None = m_int_to_words "ipv6"%string row6 v) /\
   (forall v nw ws, 0 <= ws -> 0 <= nw -> src_ipv6_int_to_words v (Some nw) (Some ws) = int_to_words v ws nw) /\
   (forall words, src_ipv6_words_to_int words = m_words_to_int "ipv6"%string row6 words) /\
   (forall s, src_ipv6_valid_bits s = Ok (m_valid_bits row6 s)) /\
   (forall s, src_ipv6_bits_to_int s = m_bits_to_int row6 s) /\
   (forall v sep, src_ipv6_int_to_bits v sep = ip_bits row6 v sep) /\
   (forall s, src_ipv6_valid_bin s = Ok (m_valid_bin row6 s)) /\
   (forall v, src_ipv6_int_to_bin v = m_int_to_bin row6 v) /\
   (forall s, src_ipv6_bin_to_int s = m_bin_to_int row6 s) /\
   (forall v, src_ipv6_int_to_packed v = m_int_to_packed "ipv6"%string row6 v) /\
   (forall p, src_ipv6_packed_to_int p = m_packed_to_int "ipv6"%string p)).
Proof. exact C15_tie_ip_ok. Qed.
Print Assumptions C15_source_tie_ip.

(* the generated definitions compute *)
Example C15_src_ip_nonvacuous :
  src_ipv4_int_to_bits 3232235521 None = Ok "11000000.10101000.00000000.00000001"%string /\
  src_ipv4_int_to_bits 5 (Some "-"%string) = Ok "00000000-00000000-00000000-00000101"%string /\
  src_ipv4_int_to_packed 3232235521 = Ok [192; 168; 0; 1] /\ src_ipv4_packed_to_int [192; 168; 0; 1] = Ok 3232235521 /\
  src_ipv4_packed_to_int [192; 168; 0] = Raise StructError /\ src_ipv4_words_to_int [192; 168; 0; 256] = Raise ValueError /\
  src_ipv4_int_to_arpa 3232235521 = Ok "1.0.168.192.in-addr.arpa."%string /\ src_ipv4_int_to_words (-1) = Raise ValueError /\
  src_ipv6_int_to_packed 1 = Ok [0; 0; 0; 0; 0; 0; 0; 0; 0; 0; 0; 0; 0; 0; 0; 1] /\
  src_ipv6_packed_to_int [0; 0; 0; 0; 0; 0; 0; 0; 0; 0; 0; 0; 0; 0; 1; 0] = Ok 256 /\
  src_ipv6_int_to_words 65537 None None = Ok [0; 0; 0; 0; 0; 0; 1; 1] /\ src_ipv6_bits_to_int "1"%string = Raise ValueError.
Proof. repeat split; vm_compute; reflexivity. Qed.
