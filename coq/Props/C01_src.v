(* Props/C01_src.v — source tie for C01: the Gallina definitions that harness/gen/pysrc.py regenerates on every run from the CURRENT
   text of netaddr/fbsocket.py (coq/Gen/pysrc_fbsocket_gen.v) are equal to the hand-written model of Model/FbSocket.v that the
   theorems of Props/C01.v are about (Fb.inet_ntoa, Fb.is_hextet, Fb.inet_pton4, Fb.inet_pton6).  Text is a Coq string; a packed
   IPv4 address is the list of its 4 byte values in both; a packed IPv6 address is the list of its 16 byte values in the generated
   code and the list of its 8 big-endian 16-bit words in the model (GenOk_Src_C01.bytes_of_words: w -> [w / 256; w mod 256]);
   struct.pack / unpack are Codec.struct_pack / struct_unpack, int(token) / int(token, 16) is Base/PyStr.py_int,
   `char in '0123456789'` is the substring test (= contains_char for one character), s.split('::') / '::' in s are the hand
   models of Model/IpText.v (split_dc_chars, contains_dc_chars: validated against CPython by the c01_split_dc command).
   inet_pton is stated for every address-family argument (AF_INET = 2, AF_INET6 = 10 are read from the module text).
   No hypotheses.  A source edit that changes one of the functions changes the generated term and this theorem stops compiling.
   Nothing but the statement closed by `exact`, followed by Print Assumptions. *)
From Coq Require Import String.
From NV Require Import Base.Tac Base.PyVal Base.PyStr Model.IpText Model.FbSocket Model.AddrText Model.SrcPrelude Model.SrcPreludeText
  Gen.pysrc_fbsocket_gen Gen.pysrc_ipv4_gen Gen.pysrc_ipv6_gen Proofs.GenOk_Src_C01 Proofs.GenOk_Src_C01_text Proofs.GenOk_Src_C01_ntop.
From NV Require Model.NetText Model.Codec.
From NV Require Import Proofs.GenOk_Src_C15_ip.
Import ListNotations.
Close Scope string_scope.
Open Scope Z_scope.

Theorem C01_source_tie :
  (forall o, src_fbsocket_inet_ntoa o = Fb.inet_ntoa o) /\
  (forall t, src_fbsocket__is_hextet t = Fb.is_hextet t) /\
  (forall s, src_fbsocket__inet_pton_af_inet s = Fb.inet_pton4 s) /\
  (forall af s, src_fbsocket_inet_pton af s =
                if af =? 2 then Fb.inet_pton4 s else if af =? 10 then omap bytes_of_words (Fb.inet_pton6 s) else Raise ValueError).
Proof. exact C01_tie_fb1_ok. Qed.
Print Assumptions C01_source_tie.

(* The printing half of netaddr/fbsocket.py: _compact_ipv6_tokens (for every token list) and inet_ntop (for every address family and
   every byte string; a packed IPv6 address is 16 bytes in the generated code and 8 big-endian words in the model:
   SrcPreludeText.py_words_of_bytes).  No hypotheses: the generated code carries start_index as None-or-int and answers TypeError
   where a run without a start would be used; the proof shows that never happens (invariant num_tokens > 0 -> start_index set),
   so the model's silent drop of such a run (Fb.push_run) is unreachable too. *)
Theorem C01_source_tie_print :
  (forall tokens, src_fbsocket__compact_ipv6_tokens tokens = Ok (Fb.compact_ipv6_tokens tokens)) /\
  (forall af p, src_fbsocket_inet_ntop af p =
     if af =? 2 then Fb.inet_ntoa p
     else if af =? 10 then (if Nat.eqb (List.length p) 16 then Fb.inet_ntop6 (py_words_of_bytes p) else Raise ValueError)
     else Raise ValueError).
Proof. exact C01_tie_fb2_ok. Qed.
Print Assumptions C01_source_tie_print.

(* The text functions of netaddr/strategy/ipv4.py and ipv6.py (coq/Gen/pysrc_ipv4_gen.v, pysrc_ipv6_gen.v) against Model/AddrText.v
   (valid_str / str_to_int / int_to_str dispatched on the module version 4 | 6) and Model/NetText.v (expand_partial_address, used by
   C03).  The back-end `be` (platform socket functions = the oracles Std4 / Std6, or netaddr.fbsocket = Model/FbSocket.v) is a
   parameter of both sides: the module-level names _inet_aton / _inet_pton / _inet_ntop are read as the prelude symbols
   py_inet_aton / py_inet_pton4 / py_inet_pton6 / py_inet_ntop6 (Model/SrcPreludeText.v).  INET_PTON / ZEROFILL are read from
   netaddr/core.py.  An IPv6 dialect class is seen through the two class attributes the code reads, the pair (word_fmt, compact)
   (GenOk_Src_C01_text.dcls maps the model's dialect record to it; the generated constants for ipv6_compact / ipv6_verbose are read
   from the class bodies).  ipv6.int_to_arpa (property C15) is stated against Codec.ip_reverse_dns on the ipv6 row of the
   regenerated dialect table (GenOk_Src_C15_ip.row6).  No hypotheses. *)
Theorem C01_source_tie_text :
  (forall be addr flags, src_ipv4_valid_str be addr flags = valid_str be 4 addr flags) /\
  (forall be addr flags, src_ipv4_str_to_int be addr flags = str_to_int be 4 addr flags) /\
  (forall be v d, src_ipv4_int_to_str v tt = int_to_str be 4 v d) /\
  (forall s, src_ipv4_expand_partial_address s = NetText.expand_partial_address s) /\
  (forall be addr flags, src_ipv6_valid_str be addr flags = valid_str be 6 addr flags) /\
  (forall be addr flags, src_ipv6_str_to_int be addr flags = str_to_int be 6 addr flags) /\
  (src_ipv6_ipv6_compact = dcls ipv6_compact /\ src_ipv6_ipv6_verbose = dcls ipv6_verbose) /\
  (forall be v d, src_ipv6_int_to_str be v (option_map dcls d) = int_to_str be 6 v d) /\
  (forall be v, src_ipv6_int_to_arpa be v = Codec.ip_reverse_dns "ipv6"%string row6 v).
Proof. exact C01_tie_text1_ok. Qed.
Print Assumptions C01_source_tie_text.

(* the generated definitions compute *)
Example C01_src_nonvacuous :
  src_fbsocket_inet_ntoa [192; 168; 0; 1] = Ok "192.168.0.1"%string /\ src_fbsocket_inet_ntoa [1; 2; 3] = Raise ValueError /\
  src_fbsocket__inet_pton_af_inet "10.0.0.255"%string = Ok [10; 0; 0; 255] /\
  src_fbsocket__inet_pton_af_inet "10.0.0.256"%string = Raise ValueError /\
  src_fbsocket__inet_pton_af_inet "10.0.0.+1"%string = Raise ValueError /\
  src_fbsocket__is_hextet "fFfF"%string = true /\ src_fbsocket__is_hextet "0x1"%string = false /\
  src_fbsocket_inet_pton 10 "::ffff:1.2.3.4"%string = Ok [0; 0; 0; 0; 0; 0; 0; 0; 0; 0; 255; 255; 1; 2; 3; 4] /\
  src_fbsocket_inet_pton 10 "1:2:3:4:5:6:7:8"%string = Ok [0; 1; 0; 2; 0; 3; 0; 4; 0; 5; 0; 6; 0; 7; 0; 8] /\
  src_fbsocket_inet_pton 10 "1::2::3"%string = Raise ValueError /\ src_fbsocket_inet_pton 10 "::+1"%string = Raise ValueError /\
  src_fbsocket_inet_pton 3 "::"%string = Raise ValueError /\
  src_fbsocket__compact_ipv6_tokens ["1"; "0"; "0"; "2"; "0"; "0"; "0"; "3"]%string = Ok ["1"; "0"; "0"; "2"; ""; "3"]%string /\
  src_fbsocket_inet_ntop 10 [0; 0; 0; 0; 0; 0; 0; 0; 0; 0; 255; 255; 1; 2; 3; 4] = Ok "::ffff:1.2.3.4"%string /\
  src_fbsocket_inet_ntop 10 [0; 1; 0; 0; 0; 0; 0; 2; 0; 0; 0; 0; 0; 0; 0; 3] = Ok "1:0:0:2::3"%string /\
  src_fbsocket_inet_ntop 10 [0; 1] = Raise ValueError /\
  src_ipv4_str_to_int Fallback "010.1.2.3"%string 3 = Ok 167838211 /\ src_ipv4_str_to_int Platform "1.2"%string 0 = Ok 16777218 /\
  src_ipv4_str_to_int Platform "1.2"%string 1 = Raise AddrFormatError /\ src_ipv4_valid_str Fallback "1.2.3.256"%string 1 = Ok false /\
  src_ipv4_expand_partial_address "10.1"%string = Ok "10.1.0.0"%string /\ src_ipv4_expand_partial_address "::1"%string = Raise AddrFormatError /\
  src_ipv6_str_to_int Fallback "::ffff:1.2.3.4"%string 0 = Ok 281470698652420 /\ src_ipv6_valid_str Platform "1::2::3"%string 0 = Ok false /\
  src_ipv6_int_to_str Fallback 281470698652420 None = Ok "::ffff:1.2.3.4"%string /\
  src_ipv6_int_to_str Platform 65537 (Some src_ipv6_ipv6_verbose) = Ok "0000:0000:0000:0000:0000:0000:0001:0001"%string /\
  src_ipv6_int_to_str Platform (-1) None = Raise ValueError /\
  src_ipv6_int_to_arpa Platform 1 = Ok "1.0.0.0.0.0.0.0.0.0.0.0.0.0.0.0.0.0.0.0.0.0.0.0.0.0.0.0.0.0.0.0.ip6.arpa."%string.
Proof. repeat split; vm_compute; reflexivity. Qed.
