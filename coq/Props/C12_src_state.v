(* Props/C12_src_state.v — source tie for C12, pickled state: the Gallina definitions that harness/gen/pysrc.py regenerates on
   every run from the CURRENT text of __getstate__ / __setstate__ of IPAddress, IPNetwork and IPRange (coq/Gen/pysrc_ctor_gen.v)
   are equal to the hand-written model functions getstate / setstate (Model/Order.v) that the theorems of Props/C12.v
   (C12_pickle ...) are about; no hypothesis.  A state is the tuple of ints that __getstate__ made (the model's list of that
   length); __setstate__ is translated like a constructor (its result is the object it leaves: addr_obj / net_obj / range_obj
   rename the generated result types to Order.obj).  Also tied: IPRange.__init__ on two ints / two strings, against the
   composition of the IPAddress constructor models (no model function of its own exists).
   Nothing but the statement closed by `exact`, followed by Print Assumptions. *)
From Coq Require Import String.
From NV Require Import Base.Tac Base.PyVal Model.Ip Model.AddrOps Model.AddrText Model.Order Model.SrcPrelude Model.SrcPreludeCtor
  Gen.pysrc_gen Gen.pysrc_ctor_gen Proofs.GenOk_Src_C12_state.
Import ListNotations.
Open Scope Z_scope.

Theorem C12_source_tie_state :
  (forall ver w v, src_IPAddress_getstate ver w v = getstate (Addr ver v)) /\
  (forall ver w v p, src_IPNetwork_getstate ver w v p = getstate (Net ver v p)) /\
  (forall ver w s e, src_IPRange_getstate ver w s e = getstate (Range ver s e)) /\
  (forall value version, omap addr_obj (src_IPAddress_setstate (value, version)) = setstate CAddr [value; version]) /\
  (forall value prefixlen version,
     omap net_obj (src_IPNetwork_setstate (value, prefixlen, version)) = setstate CNet [value; prefixlen; version]) /\
  (forall start end_ version,
     omap range_obj (src_IPRange_setstate (start, end_, version)) = setstate CRange [start; end_; version]) /\
  (forall start end_ flags,
     src_IPRange_init_int start end_ flags =
       (do s <- ctor_int start None;
        do e <- ctor_int end_ (Some (fst s));
        if snd s >? snd e then Raise AddrFormatError else Ok (fst s, snd s, snd e))) /\
  (forall be start end_ flags,
     src_IPRange_init_str be start end_ flags =
       (do s <- init_str be start None flags;
        do e <- init_str be end_ (Some (fst s)) flags;
        if snd s >? snd e then Raise AddrFormatError else Ok (fst s, snd s, snd e))).
Proof. exact C12_state_tie_ok. Qed.
Print Assumptions C12_source_tie_state.

(* the generated definitions compute: the state (167772161, 24, 4) rebuilds 10.0.0.1/24; prefix 33 is refused; version 5 is
   refused; IPRange(5, 3) is refused, IPRange(3, 2^32) is refused (the end is parsed as IPv4) *)
Example C12_src_state_nonvacuous :
  src_IPNetwork_setstate (167772161, 24, 4) = Ok {| nver := 4; nval := 167772161; nplen := 24 |} /\
  src_IPNetwork_setstate (167772161, 33, 4) = Raise ValueError /\
  src_IPAddress_setstate (1, 5) = Raise ValueError /\
  src_IPRange_setstate (3, 5, 6) = Ok (6, 3, 5) /\
  src_IPRange_init_int 5 3 0 = Raise AddrFormatError /\
  src_IPRange_init_int 3 4294967296 0 = Raise AddrFormatError /\
  src_IPRange_init_int 3 5 0 = Ok (4, 3, 5).
Proof. repeat split; vm_compute; reflexivity. Qed.
