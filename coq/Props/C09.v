(* Props/C09.v — property C09: cidr_partition / cidr_exclude split a block exactly around the excluded part.
   Nothing but statements closed by `exact`, each followed by Print Assumptions.
   Vocabulary: a model block c = (value, prefixlen); first_of w c = value - value mod 2^(w-prefixlen),
   last_of w c = first_of w c + 2^(w-prefixlen) - 1, cidr_of w c = (first_of w c, prefixlen);
   blks_of reads result lists as Base/Canon blocks; covered = denotation; canon = aligned, strictly ascending,
   pairwise disjoint, sibling-free. *)
From NV Require Import Base.Tac Base.PyVal Base.Bits Base.Canon Model.Ip Model.Partition Proofs.C09.
Open Scope Z_scope.

(* The four situations, for every width w >= 0 (32 and 128 in netaddr) and all networks T, E (host bits allowed):
   E below T, E above T, E covers T, E strictly inside T.  In the last one the halving loop runs and
   before / after are the canonical lists of {x in T | x < first E} and {x in T | x > last E},
   with pairwise distinct prefix lengths, all longer than T's. *)
Theorem C09_partition : forall w, 0 <= w -> forall T E, wf_cblk w T -> wf_cblk w E ->
  let tf := first_of w T in let tl := last_of w T in
  let ef := first_of w E in let el := last_of w E in
  (el < tf -> cidr_partition w T E = Ok ([], [], [cidr_of w T])) /\
  (tl < ef -> cidr_partition w T E = Ok ([cidr_of w T], [], [])) /\
  (tf <= el -> ef <= tl -> snd E <= snd T -> cidr_partition w T E = Ok ([], [T], [])) /\
  (tf <= el -> ef <= tl -> snd T < snd E ->
     exists b a, cidr_partition w T E = Ok (b, [E], a) /\ tf <= ef /\ el <= tl /\
       canon w (blks_of b) /\ (forall x, covered w (blks_of b) x <-> tf <= x <= tl /\ x < ef) /\
       canon w (blks_of a) /\ (forall x, covered w (blks_of a) x <-> tf <= x <= tl /\ el < x) /\
       distinct_finer (snd T) b /\ distinct_finer (snd T) a).
Proof. exact partition_spec. Qed.
Print Assumptions C09_partition.

(* the same, read off an actual result (the form used by callers: iprange_to_cidrs, IPSet.remove, SubnetSplitter) *)
Theorem C09_partition_split : forall w T E b m a, 0 <= w -> wf_cblk w T -> wf_cblk w E -> splits w T E ->
  cidr_partition w T E = Ok (b, m, a) ->
  m = [E] /\ first_of w T <= first_of w E /\ last_of w E <= last_of w T /\
  canon w (blks_of b) /\ (forall x, covered w (blks_of b) x <-> first_of w T <= x <= last_of w T /\ x < first_of w E) /\
  canon w (blks_of a) /\ (forall x, covered w (blks_of a) x <-> first_of w T <= x <= last_of w T /\ last_of w E < x) /\
  distinct_finer (snd T) b /\ distinct_finer (snd T) a.
Proof. exact partition_split. Qed.
Print Assumptions C09_partition_split.

(* before, E, after tile T: each address of T lies in exactly one of them and nothing else is covered *)
Theorem C09_tiles : forall w T E b m a, 0 <= w -> wf_cblk w T -> wf_cblk w E -> splits w T E ->
  cidr_partition w T E = Ok (b, m, a) ->
  forall x,
    (first_of w T <= x <= last_of w T <->
       covered w (blks_of b) x \/ first_of w E <= x <= last_of w E \/ covered w (blks_of a) x) /\
    ~ (covered w (blks_of b) x /\ first_of w E <= x <= last_of w E) /\
    ~ (covered w (blks_of a) x /\ first_of w E <= x <= last_of w E) /\
    ~ (covered w (blks_of b) x /\ covered w (blks_of a) x).
Proof. exact partition_tiles. Qed.
Print Assumptions C09_tiles.

(* minimal: no list of aligned blocks covering the same addresses is shorter than before (resp. after) *)
Theorem C09_minimal : forall w T E b m a, 0 <= w -> wf_cblk w T -> wf_cblk w E -> splits w T E ->
  cidr_partition w T E = Ok (b, m, a) ->
  (forall l', (forall c, In c l' -> aligned w c) -> (forall x, covered w (blks_of b) x <-> covered w l' x) ->
     (length b <= length l')%nat) /\
  (forall l', (forall c, In c l' -> aligned w c) -> (forall x, covered w (blks_of a) x <-> covered w l' x) ->
     (length a <= length l')%nat).
Proof. exact partition_minimal. Qed.
Print Assumptions C09_minimal.

(* every block handed out lies inside T, entirely below first E (before) or above last E (after) *)
Theorem C09_blocks_inside : forall w T E b m a, 0 <= w -> wf_cblk w T -> wf_cblk w E -> splits w T E ->
  cidr_partition w T E = Ok (b, m, a) ->
  Forall (fun c => first_of w T <= fst c /\ fst c + 2 ^ (w - snd c) <= first_of w E) b /\
  Forall (fun c => last_of w E < fst c /\ fst c + 2 ^ (w - snd c) - 1 <= last_of w T) a.
Proof. exact partition_blocks_inside. Qed.
Print Assumptions C09_blocks_inside.

(* cidr_exclude = before ++ after *)
Theorem C09_exclude : forall w T E b m a, cidr_partition w T E = Ok (b, m, a) -> cidr_exclude w T E = Ok (b ++ a).
Proof. exact exclude_eq. Qed.
Print Assumptions C09_exclude.

(* ... which is the canonical list of T \ E in all four situations *)
Theorem C09_exclude_spec : forall w T E, 0 <= w -> wf_cblk w T -> wf_cblk w E ->
  exists l, cidr_exclude w T E = Ok l /\ canon w (blks_of l) /\
    forall x, covered w (blks_of l) x <->
              first_of w T <= x <= last_of w T /\ ~ (first_of w E <= x <= last_of w E).
Proof. exact exclude_spec. Qed.
Print Assumptions C09_exclude_spec.

(* the loop never runs out of fuel (w+1 iterations suffice) and no constructor call raises *)
Theorem C09_fuel_enough : forall w T E, 0 <= w -> wf_cblk w T -> wf_cblk w E ->
  cidr_partition w T E <> Raise OutOfFuel.
Proof. exact partition_fuel_enough. Qed.
Print Assumptions C09_fuel_enough.

Theorem C09_total : forall w T E, 0 <= w -> wf_cblk w T -> wf_cblk w E -> exists r, cidr_partition w T E = Ok r.
Proof. exact partition_total. Qed.
Print Assumptions C09_total.

(* non-vacuity: 10.0.0.1/24 minus 10.0.0.69/26 (both with host bits) meets the hypotheses of the split case *)
Example C09_nonvacuous :
  wf_cblk 32 (167772161, 24) /\ wf_cblk 32 (167772229, 26) /\ splits 32 (167772161, 24) (167772229, 26) /\
  cidr_partition 32 (167772161, 24) (167772229, 26) = Ok ([(167772160, 26)], [(167772229, 26)], [(167772288, 25)]).
Proof.
  split; [|split; [|split]].
  - unfold wf_cblk; cbn [fst snd]; lia.
  - unfold wf_cblk; cbn [fst snd]; lia.
  - unfold splits. vm_compute. repeat split; discriminate.
  - vm_compute. reflexivity.
Qed.
