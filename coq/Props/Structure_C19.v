(* Props/Structure_C19.v -- WRITTEN BY tools/mkstructure.py.  Structure tie for C19: the parameter lists (names, order, default values),
   decorators, class bases and non-def class-body statements (aliases, __slots__, property lines, class attributes) of the classes and
   functions this property relies on (harness/gen/structure.py, table RELEVANT) -- and, for files it relies on entirely, the list of
   their top-level names -- regenerated from the working tree on every run, are the ones the models, adapters and translator tables
   were written against.  The source translator reads function BODIES; this covers what is around them.  46 groups, 184 rows.
   Statement closed by `exact`, followed by Print Assumptions. *)
From Coq Require Import List String Bool.
From NV Require Import Gen.structure_gen Proofs.GenOk_Structure_C19.
Import ListNotations.
Open Scope string_scope.

Theorem C19_structure_tie :
  gen_names_compat = ["_bytes_join"; "_zip"; "_range"; "_iter_next"] /\
  filter (keep drop_compat___bytes_join) gen_struct_compat___bytes_join = pinned_struct_compat___bytes_join /\
  filter (keep drop_compat___zip) gen_struct_compat___zip = pinned_struct_compat___zip /\
  filter (keep drop_compat___range) gen_struct_compat___range = pinned_struct_compat___range /\
  filter (keep drop_compat___iter_next) gen_struct_compat___iter_next = pinned_struct_compat___iter_next /\
  gen_names_core = ["AddrFormatError"; "AddrConversionError"; "NotRegisteredError"; "num_bits"; "Subscriber"; "PrettyPrinter"; "Publisher"; "DictDotLookup"] /\
  filter (keep drop_core__AddrFormatError) gen_struct_core__AddrFormatError = pinned_struct_core__AddrFormatError /\
  filter (keep drop_core__AddrConversionError) gen_struct_core__AddrConversionError = pinned_struct_core__AddrConversionError /\
  filter (keep drop_core__NotRegisteredError) gen_struct_core__NotRegisteredError = pinned_struct_core__NotRegisteredError /\
  filter (keep drop_core__num_bits) gen_struct_core__num_bits = pinned_struct_core__num_bits /\
  filter (keep drop_core__Subscriber) gen_struct_core__Subscriber = pinned_struct_core__Subscriber /\
  filter (keep drop_core__PrettyPrinter) gen_struct_core__PrettyPrinter = pinned_struct_core__PrettyPrinter /\
  filter (keep drop_core__Publisher) gen_struct_core__Publisher = pinned_struct_core__Publisher /\
  filter (keep drop_core__DictDotLookup) gen_struct_core__DictDotLookup = pinned_struct_core__DictDotLookup /\
  gen_names_eui_init = ["BaseIdentifier"; "OUI"; "IAB"; "EUI"] /\
  filter (keep drop_eui_init__BaseIdentifier) gen_struct_eui_init__BaseIdentifier = pinned_struct_eui_init__BaseIdentifier /\
  filter (keep drop_eui_init__OUI) gen_struct_eui_init__OUI = pinned_struct_eui_init__OUI /\
  filter (keep drop_eui_init__IAB) gen_struct_eui_init__IAB = pinned_struct_eui_init__IAB /\
  filter (keep drop_eui_init__EUI) gen_struct_eui_init__EUI = pinned_struct_eui_init__EUI /\
  gen_names_eui_ieee = ["FileIndexer"; "OUIIndexParser"; "IABIndexParser"; "create_index_from_registry"; "create_indices"; "load_index"; "load_indices"] /\
  filter (keep drop_eui_ieee__FileIndexer) gen_struct_eui_ieee__FileIndexer = pinned_struct_eui_ieee__FileIndexer /\
  filter (keep drop_eui_ieee__OUIIndexParser) gen_struct_eui_ieee__OUIIndexParser = pinned_struct_eui_ieee__OUIIndexParser /\
  filter (keep drop_eui_ieee__IABIndexParser) gen_struct_eui_ieee__IABIndexParser = pinned_struct_eui_ieee__IABIndexParser /\
  filter (keep drop_eui_ieee__create_index_from_registry) gen_struct_eui_ieee__create_index_from_registry = pinned_struct_eui_ieee__create_index_from_registry /\
  filter (keep drop_eui_ieee__create_indices) gen_struct_eui_ieee__create_indices = pinned_struct_eui_ieee__create_indices /\
  filter (keep drop_eui_ieee__load_index) gen_struct_eui_ieee__load_index = pinned_struct_eui_ieee__load_index /\
  filter (keep drop_eui_ieee__load_indices) gen_struct_eui_ieee__load_indices = pinned_struct_eui_ieee__load_indices /\
  filter (keep drop_ip_init__BaseIP) gen_struct_ip_init__BaseIP = pinned_struct_ip_init__BaseIP /\
  filter (keep drop_ip_init__IPAddress) gen_struct_ip_init__IPAddress = pinned_struct_ip_init__IPAddress /\
  filter (keep drop_ip_init__IPNetwork) gen_struct_ip_init__IPNetwork = pinned_struct_ip_init__IPNetwork /\
  filter (keep drop_ip_init__IPListMixin) gen_struct_ip_init__IPListMixin = pinned_struct_ip_init__IPListMixin /\
  filter (keep drop_ip_init__parse_ip_network) gen_struct_ip_init__parse_ip_network = pinned_struct_ip_init__parse_ip_network /\
  filter (keep drop_ip_init___arg_repr) gen_struct_ip_init___arg_repr = pinned_struct_ip_init___arg_repr /\
  filter (keep drop_ip_init__IPRange) gen_struct_ip_init__IPRange = pinned_struct_ip_init__IPRange /\
  gen_names_ip_iana = ["SaxRecordParser"; "XMLRecordParser"; "IPv4Parser"; "IPv6Parser"; "IPv6UnicastParser"; "MulticastParser"; "DictUpdater"; "load_info"; "pprint_info"; "_within_bounds"; "query"] /\
  filter (keep drop_ip_iana__SaxRecordParser) gen_struct_ip_iana__SaxRecordParser = pinned_struct_ip_iana__SaxRecordParser /\
  filter (keep drop_ip_iana__XMLRecordParser) gen_struct_ip_iana__XMLRecordParser = pinned_struct_ip_iana__XMLRecordParser /\
  filter (keep drop_ip_iana__IPv4Parser) gen_struct_ip_iana__IPv4Parser = pinned_struct_ip_iana__IPv4Parser /\
  filter (keep drop_ip_iana__IPv6Parser) gen_struct_ip_iana__IPv6Parser = pinned_struct_ip_iana__IPv6Parser /\
  filter (keep drop_ip_iana__IPv6UnicastParser) gen_struct_ip_iana__IPv6UnicastParser = pinned_struct_ip_iana__IPv6UnicastParser /\
  filter (keep drop_ip_iana__MulticastParser) gen_struct_ip_iana__MulticastParser = pinned_struct_ip_iana__MulticastParser /\
  filter (keep drop_ip_iana__DictUpdater) gen_struct_ip_iana__DictUpdater = pinned_struct_ip_iana__DictUpdater /\
  filter (keep drop_ip_iana__load_info) gen_struct_ip_iana__load_info = pinned_struct_ip_iana__load_info /\
  filter (keep drop_ip_iana__pprint_info) gen_struct_ip_iana__pprint_info = pinned_struct_ip_iana__pprint_info /\
  filter (keep drop_ip_iana___within_bounds) gen_struct_ip_iana___within_bounds = pinned_struct_ip_iana___within_bounds /\
  filter (keep drop_ip_iana__query) gen_struct_ip_iana__query = pinned_struct_ip_iana__query.
Proof. exact (conj names_compat_ok (conj struct_compat___bytes_join_ok (conj struct_compat___zip_ok (conj struct_compat___range_ok (conj struct_compat___iter_next_ok (conj names_core_ok (conj struct_core__AddrFormatError_ok (conj struct_core__AddrConversionError_ok (conj struct_core__NotRegisteredError_ok (conj struct_core__num_bits_ok (conj struct_core__Subscriber_ok (conj struct_core__PrettyPrinter_ok (conj struct_core__Publisher_ok (conj struct_core__DictDotLookup_ok (conj names_eui_init_ok (conj struct_eui_init__BaseIdentifier_ok (conj struct_eui_init__OUI_ok (conj struct_eui_init__IAB_ok (conj struct_eui_init__EUI_ok (conj names_eui_ieee_ok (conj struct_eui_ieee__FileIndexer_ok (conj struct_eui_ieee__OUIIndexParser_ok (conj struct_eui_ieee__IABIndexParser_ok (conj struct_eui_ieee__create_index_from_registry_ok (conj struct_eui_ieee__create_indices_ok (conj struct_eui_ieee__load_index_ok (conj struct_eui_ieee__load_indices_ok (conj struct_ip_init__BaseIP_ok (conj struct_ip_init__IPAddress_ok (conj struct_ip_init__IPNetwork_ok (conj struct_ip_init__IPListMixin_ok (conj struct_ip_init__parse_ip_network_ok (conj struct_ip_init___arg_repr_ok (conj struct_ip_init__IPRange_ok (conj names_ip_iana_ok (conj struct_ip_iana__SaxRecordParser_ok (conj struct_ip_iana__XMLRecordParser_ok (conj struct_ip_iana__IPv4Parser_ok (conj struct_ip_iana__IPv6Parser_ok (conj struct_ip_iana__IPv6UnicastParser_ok (conj struct_ip_iana__MulticastParser_ok (conj struct_ip_iana__DictUpdater_ok (conj struct_ip_iana__load_info_ok (conj struct_ip_iana__pprint_info_ok (conj struct_ip_iana___within_bounds_ok struct_ip_iana__query_ok))))))))))))))))))))))))))))))))))))))))))))). Qed.
Print Assumptions C19_structure_tie.
