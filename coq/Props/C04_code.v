(* Props/C04_code.v — property C04, CODE-LEVEL: the theorems of Props/C04.v stated directly about the definitions that
   harness/gen/pysrc.py regenerates on every run from the CURRENT text of netaddr/ip/__init__.py:
     src_IPNetwork_contains, src_IPRange_contains                      (Gen/pysrc_gen.v: the two __contains__ methods)
     src_IPNetwork_contains_mixin, src_IPRange_contains_mixin          (Gen/pysrc_match_gen.v: IPListMixin.__contains__ per receiver)
     src_all_matching_cidrs, src_smallest_matching_cidr, src_largest_matching_cidr      (Gen/pysrc_match_gen.v)
     src_IPNetwork_first / _last, src_IPRange_first / _last, src_IPAddress_int          (Gen/pysrc_gen.v, via code_obj_first / _last)
   A source edit that changes one of them changes the generated term and these theorems stop compiling (with the ties
   C04_source_tie, C04_source_tie_match).
   Objects are Contains.ipobj (Addr ver v | Net ver v p | Rng ver s e); the generated __contains__ takes the receiver's state
   first and the operand as SrcPrelude.operand, operand_of maps an ipobj to it.  Vocabulary of Proofs/C04.v, at the real
   family widths (W := Ip.width; the model theorems hold for any width table): lo / hi (interval arithmetic), insideb,
   wf_obj, over.
   Hypotheses: those of Props/C04.v at W := width.  TIE HYPOTHESIS NOT IMPLIED by the model theorem's hypotheses: the
   matching functions are tied for candidates satisfying C02.wf_net, which ALSO asks for version 4 or 6 (the code builds
   `cidr.network` through the version-checking constructor); C04_all_matching assumes only wf_net_w (ranges).  Natural for
   IPNetwork objects, but extra.
   Clauses still about the model:
     * the operand that is no BaseIP object (`IPNetwork(other) in self` / `IPAddress(other) in self` for strings): not
       translated (the generated OOther arm is Raise Unsupported) — C04_contains_string_net / _range are not repeated;
     * sorted(cidrs) inside the matching functions is the prelude symbol py_sorted_nets = Contains.py_sorted (C04_sorted
       is about that model function and is not repeated); py_sorted also appears in the STATEMENT of
       C04_all_matching_of_source as the meaning of "sorted";
     * C04_inside_is_subset is a fact about the vocabulary.
   Nothing but statements closed by `exact`, each followed by Print Assumptions. *)
From NV Require Import Base.Tac Base.PyVal Model.Ip Model.Contains Model.SrcPrelude Gen.pysrc_gen Gen.pysrc_match_gen
  Proofs.C02 Proofs.C04 Proofs.C04_match Proofs.GenOk_Src_C04 Proofs.Code_C04.
From Coq Require Import Sorting.Permutation Sorting.Sorted.
Import ListNotations.
Open Scope Z_scope.

(* `x in y` is interval inclusion, for an IPNetwork and for an IPRange container *)
Theorem C04_contains_net_of_source : forall sver sv sp x, wf_obj width (Net sver sv sp) -> wf_obj width x ->
  src_IPNetwork_contains sver (width sver) sv sp (operand_of x) =
    Ok ((over x =? sver) && (lo width (Net sver sv sp) <=? lo width x) && (hi width x <=? hi width (Net sver sv sp))).
Proof. exact code_net_contains_spec. Qed.
Print Assumptions C04_contains_net_of_source.

Theorem C04_contains_range_of_source : forall sver ss se x, wf_obj width (Rng sver ss se) -> wf_obj width x ->
  src_IPRange_contains sver (width sver) ss se (operand_of x) =
    Ok ((over x =? sver) && (lo width (Rng sver ss se) <=? lo width x) && (hi width x <=? hi width (Rng sver ss se))).
Proof. exact code_range_contains_spec. Qed.
Print Assumptions C04_contains_range_of_source.

(* the generated .first / .last are lo / hi *)
Theorem C04_first_last_of_source : forall o, wf_obj width o ->
  code_obj_first o = lo width o /\ code_obj_last o = hi width o /\
  0 <= lo width o /\ lo width o <= hi width o /\ hi width o < 2 ^ width (over o).
Proof. exact code_first_last_spec. Qed.
Print Assumptions C04_first_last_of_source.

(* IPListMixin.__contains__, for both receiver classes *)
Theorem C04_mixin_contains_of_source :
  (forall ver v p x, wf_obj width (Net ver v p) -> wf_obj width x ->
     src_IPNetwork_contains_mixin ver (width ver) v p (operand_of x) = Ok (insideb width x (Net ver v p))) /\
  (forall ver s e x, wf_obj width (Rng ver s e) -> wf_obj width x ->
     src_IPRange_contains_mixin ver (width ver) s e (operand_of x) = Ok (insideb width x (Rng ver s e))).
Proof. exact code_mixin_contains_spec. Qed.
Print Assumptions C04_mixin_contains_of_source.

(* all_matching_cidrs = the candidates containing ip, in sorted order, each inside the previous one;
   largest / smallest = its first / last element (None when empty) *)
Theorem C04_all_matching_of_source : forall ipver ipv cs, wf_obj width (Addr ipver ipv) -> Forall wf_net cs ->
  let R := filter (fun c => insideb width (Addr ipver ipv) (as_obj c)) (py_sorted width cs) in
  src_all_matching_cidrs (ipver, ipv) cs = Ok R /\
  Permutation R (filter (fun c => insideb width (Addr ipver ipv) (as_obj c)) cs) /\
  (forall c, In c R <-> In c cs /\ insideb width (Addr ipver ipv) (as_obj c) = true) /\
  StronglySorted (fun a b => insideb width (as_obj b) (as_obj a) = true /\ nplen a <= nplen b) R /\
  src_largest_matching_cidr (ipver, ipv) cs = Ok (hd_error R) /\
  src_smallest_matching_cidr (ipver, ipv) cs = Ok (last_opt R) /\
  (hd_error R = None <-> R = []) /\ (last_opt R = None <-> R = []) /\
  (R = [] <-> forall c, In c cs -> insideb width (Addr ipver ipv) (as_obj c) = false).
Proof. exact code_all_matching_full. Qed.
Print Assumptions C04_all_matching_of_source.

(* non-vacuity: 10.0.0.0/24 contains 10.0.0.64/26 and not 10.0.1.0/24; 10.0.0.77 matches two of three candidates —
   computed by the generated definitions *)
Example C04_code_nonvacuous :
  wf_obj width (Net 4 167772160 24) /\ wf_obj width (Net 4 167772224 26) /\
  src_IPNetwork_contains 4 32 167772160 24 (ONet 4 167772224 26) = Ok true /\
  src_IPNetwork_contains 4 32 167772160 24 (ONet 4 167772416 24) = Ok false /\
  src_all_matching_cidrs (4, 167772237)
    [ {| nver := 4; nval := 167772224; nplen := 26 |}; {| nver := 4; nval := 167772416; nplen := 24 |};
      {| nver := 4; nval := 167772160; nplen := 24 |} ] =
    Ok [ {| nver := 4; nval := 167772160; nplen := 24 |}; {| nver := 4; nval := 167772224; nplen := 26 |} ].
Proof.
  split; [cbn; change (width 4) with 32; lia|]. split; [cbn; change (width 4) with 32; lia|].
  repeat split; vm_compute; reflexivity.
Qed.
