(* Props/C12.v — property C12: equality, hashing, ordering and pickling of IP objects are coherent.
   Nothing but statements closed by `exact`, each followed by Print Assumptions.
   Objects: Addr ver v (IPAddress), Net ver v p (IPNetwork, host bits kept), Range ver s e (IPRange and IPGlob).
   wf_obj: version 4/6, values inside the family, 0 <= p <= width, s <= e.
   over/ofirst/olast: version, first and last address in plain arithmetic (Net: v - v mod 2^(w-p), + 2^(w-p) - 1). *)
From Coq Require Import Sorting.Sorted Sorting.Permutation.
From NV Require Import Base.Tac Base.PyVal Base.Bits Model.Ip Model.Order Proofs.C02 Proofs.C12_Lex Proofs.C12.
Open Scope Z_scope.

(* two addresses are equal iff same version and value *)
Theorem C12_eq_addr : forall ver1 v1 ver2 v2,
  py_eq (Addr ver1 v1) (Addr ver2 v2) = true <-> ver1 = ver2 /\ v1 = v2.
Proof. exact eq_addr. Qed.
Print Assumptions C12_eq_addr.

(* two block objects (IPNetwork / IPRange / IPGlob in any combination) are equal iff same version, first, last *)
Theorem C12_eq_block : forall x y, is_block x = true -> is_block y = true -> wf_obj x -> wf_obj y ->
  (py_eq x y = true <-> over x = over y /\ ofirst x = ofirst y /\ olast x = olast y).
Proof. exact eq_block. Qed.
Print Assumptions C12_eq_block.

(* an address never equals a block, in either operand order (no well-formedness needed) *)
Theorem C12_addr_ne_block : forall ver v y, is_block y = true ->
  py_eq (Addr ver v) y = false /\ py_eq y (Addr ver v) = false.
Proof. exact addr_ne_block. Qed.
Print Assumptions C12_addr_ne_block.

(* != is the negation of ==, and == is an equivalence relation *)
Theorem C12_ne : forall x y, py_ne x y = negb (py_eq x y).
Proof. exact ne_negb_eq. Qed.
Print Assumptions C12_ne.

Theorem C12_eq_equivalence :
  (forall x, py_eq x x = true) /\ (forall x y, py_eq x y = py_eq y x) /\
  (forall x y z, py_eq x y = true -> py_eq y z = true -> py_eq x z = true).
Proof. exact eq_equivalence. Qed.
Print Assumptions C12_eq_equivalence.

(* equal objects have equal hashes, for every hash function H on key tuples *)
Theorem C12_eq_hash : forall (H : list Z -> Z) x y, py_eq x y = true -> py_hash H x = py_hash H y.
Proof. exact eq_hash. Qed.
Print Assumptions C12_eq_hash.

(* the sort_key order: total preorder (reflexive, transitive, total), the six operators are one order,
   IPv4 before IPv6, lower first address first, a strictly enclosing network before the enclosed one,
   an address after every network that starts at it (indeed: that contains it), ranges by version then start
   (then: the range whose size needs more bits first) *)
Theorem C12_order :
  (forall x, py_le x x = true) /\
  (forall x y z, py_le x y = true -> py_le y z = true -> py_le x z = true) /\
  (forall x y, py_le x y = true \/ py_le y x = true) /\
  (forall x y, py_lt x y = negb (py_le y x) /\ py_gt x y = py_lt y x /\ py_ge x y = py_le y x /\
               py_lt x y = py_le x y && negb (tuple_cmp OpEq (sort_key x) (sort_key y))) /\
  (forall x y z, py_lt x y = true -> py_lt y z = true -> py_lt x z = true) /\
  (forall x y, over x < over y -> py_lt x y = true) /\
  (forall x y, wf_obj x -> wf_obj y -> over x = over y -> ofirst x < ofirst y -> py_lt x y = true) /\
  (forall ver v1 p1 v2 p2, let a := Net ver v1 p1 in let b := Net ver v2 p2 in
     wf_obj a -> wf_obj b -> ofirst a <= ofirst b -> olast b <= olast a ->
     (ofirst a <> ofirst b \/ olast a <> olast b) -> py_lt a b = true) /\
  (forall ver v p a, wf_obj (Net ver v p) -> ofirst (Net ver v p) <= a <= olast (Net ver v p) ->
     py_lt (Net ver v p) (Addr ver a) = true) /\
  (forall ver1 s1 e1 ver2 s2 e2, (ver1 < ver2 \/ (ver1 = ver2 /\ s1 < s2)) ->
     py_lt (Range ver1 s1 e1) (Range ver2 s2 e2) = true) /\
  (forall ver s e1 e2, num_bits (range_size s e2) < num_bits (range_size s e1) ->
     py_lt (Range ver s e1) (Range ver s e2) = true).
Proof. exact order_all. Qed.
Print Assumptions C12_order.

(* sorted() (stable insertion by `<`) returns a permutation of its input, in non-decreasing sort_key order,
   keeping the input order of objects with the same sort key *)
Theorem C12_sorted_spec : forall l,
  Permutation (sorted l) l /\ StronglySorted (fun a b => py_le a b = true) (sorted l) /\
  (forall k, filter (fun y => tuple_cmp OpEq (sort_key y) k) (sorted l) =
             filter (fun y => tuple_cmp OpEq (sort_key y) k) l).
Proof. exact sorted_spec. Qed.
Print Assumptions C12_sorted_spec.

(* the result of sorted() does not depend on the input order (up to objects with identical sort keys) *)
Theorem C12_sorted_perm : forall l l', Permutation l l' -> map sort_key (sorted l) = map sort_key (sorted l').
Proof. exact sorted_perm_invariant. Qed.
Print Assumptions C12_sorted_perm.

(* __setstate__(__getstate__(x)) on a fresh object of the same class restores x itself: same fields,
   hence ==, same sort key, same hash for every hash function *)
Theorem C12_state_roundtrip : forall x, wf_obj x ->
  setstate (cls_of x) (getstate x) = Ok x /\
  (forall y, setstate (cls_of x) (getstate x) = Ok y ->
     py_eq x y = true /\ sort_key x = sort_key y /\ forall H, py_hash H x = py_hash H y).
Proof. exact state_roundtrip_full. Qed.
Print Assumptions C12_state_roundtrip.

(* what each __setstate__ accepts, and that the restored object holds exactly the state's fields *)
Theorem C12_setstate_spec :
  (forall st, match addr_setstate st with
     | Ok x => getstate x = st /\ cls_of x = CAddr /\ valid_ver (over x) = true
     | Raise e => e = ValueError /\ forall v ver, st = [v; ver] -> valid_ver ver = false end) /\
  (forall st, match net_setstate st with
     | Ok x => getstate x = st /\ cls_of x = CNet /\ valid_ver (over x) = true /\
               exists v p, x = Net (over x) v p /\ 0 <= p <= width (over x)
     | Raise e => e = ValueError /\
               forall v p ver, st = [v; p; ver] -> valid_ver ver = false \/ ~ (0 <= p <= width ver) end) /\
  (forall st, match range_setstate st with
     | Ok x => getstate x = st /\ cls_of x = CRange /\ valid_ver (over x) = true /\
               exists s e, x = Range (over x) s e /\ 0 <= s < 2 ^ width (over x) /\ 0 <= e < 2 ^ width (over x)
     | Raise e => e = ValueError \/ e = AddrFormatError end).
Proof. exact setstate_spec. Qed.
Print Assumptions C12_setstate_spec.

(* IPSet: CIDRs = well-formed networks with pairwise different keys, in any dict order *)
Theorem C12_ipset_state_roundtrip : forall l, Forall wf_cidr l -> NoDup (map key l) -> ipset_restore l = Ok l.
Proof. exact ipset_restore_ok. Qed.
Print Assumptions C12_ipset_state_roundtrip.

(* EUI: value, version and dialect come back *)
Theorem C12_eui_state_roundtrip : forall ver v d, ver = 48 \/ ver = 64 ->
  eui_setstate (eui_getstate ver v d) = Ok (ver, v, d).
Proof. exact eui_roundtrip. Qed.
Print Assumptions C12_eui_state_roundtrip.

(* num_bits (used by IPRange.sort_key) is the bit length *)
Theorem C12_num_bits :
  num_bits 0 = 0 /\ (forall n, 0 < n -> 1 <= num_bits n /\ 2 ^ (num_bits n - 1) <= n < 2 ^ num_bits n) /\
  (forall a b, 0 < a <= b -> num_bits a <= num_bits b).
Proof. exact num_bits_all. Qed.
Print Assumptions C12_num_bits.

(* non-vacuity: 192.168.0.1/24, the range 192.168.0.0-192.168.0.255 and the address 192.168.0.0 *)
Example C12_nonvacuous :
  wf_obj (Net 4 3232235777 24) /\ wf_obj (Range 4 3232235776 3232236031) /\ wf_obj (Addr 4 3232235776) /\
  py_eq (Net 4 3232235777 24) (Range 4 3232235776 3232236031) = true /\
  py_lt (Net 4 3232235777 24) (Addr 4 3232235776) = true /\
  py_lt (Net 4 3232235777 16) (Net 4 3232235776 24) = true /\
  sorted [Addr 4 3232235776; Net 4 3232235777 24; Net 6 0 0; Net 4 3232235777 16] =
         [Net 4 3232235777 16; Net 4 3232235777 24; Addr 4 3232235776; Net 6 0 0] /\
  setstate CNet (getstate (Net 4 3232235777 24)) = Ok (Net 4 3232235777 24).
Proof.
  unfold wf_obj. change (width 4) with 32.
  split; [split; [reflexivity|lia]|]. split; [split; [reflexivity|lia]|]. split; [split; [reflexivity|lia]|].
  vm_compute. repeat split; reflexivity.
Qed.
