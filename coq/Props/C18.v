(* Props/C18.v — property C18: address classification follows the published special-purpose blocks exactly.
   Nothing but statements closed by `exact`, each followed by Print Assumptions.

   `gen_tables` (Model/ClassifyGen.v) are the block tables of netaddr/ip/__init__.py as re-generated from the
   working tree on THIS run; `spec p ver` / `maxblocks p ver` (Model/Classify.v) are hand-transcribed closed
   integer intervals of the published / documented blocks.  Predicates are the model functions of
   Model/Classify.v (`holds T p o` is `truthy (is_multicast T o)`, ..., `is_private T o`, `is_reserved T o`). *)
From NV Require Import Base.Tac Base.PyVal Base.Bits Model.Ip Model.Classify Model.ClassifyGen
  Proofs.C02 Proofs.C18_lift Proofs.C18 Proofs.GenOk_C18.
Open Scope Z_scope.

(* the finite obligations about the generated tables, re-checked by coqc on every run *)
Theorem C18_classify_tables_ok :
  forallb (fun p => forallb (fun ver =>
     forallb wfivb (ivs gen_tables p ver ++ spec p ver) &&
     agree_on_cuts (fun c => holds gen_tables p (OAddr ver c)) (mem (spec p ver)) (ivs gen_tables p ver ++ spec p ver))
     [4; 6]) all_preds = true.
Proof. exact classify_tables_ok. Qed.
Print Assumptions C18_classify_tables_ok.

Theorem C18_classify_rows_ok :
  forallb (fun p => forallb (fun ver => same_ivs (ivs gen_tables p ver) (spec p ver)) [4; 6]) all_preds = true.
Proof. exact classify_rows_ok. Qed.
Print Assumptions C18_classify_rows_ok.

(* every address of either family (indeed every integer v, so in particular 0 <= v < 2^32 resp. 2^128):
   each predicate is exactly membership in its published blocks; unicast is the negation of multicast;
   link-local addresses are private *)
Theorem C18_address : forall ver v, valid_ver ver = true ->
  is_multicast gen_tables (OAddr ver v) = Some (mem (spec Multicast ver) v) /\
  is_unicast gen_tables (OAddr ver v) = negb (mem (spec Multicast ver) v) /\
  is_loopback gen_tables (OAddr ver v) = Some (mem (spec Loopback ver) v) /\
  is_link_local gen_tables (OAddr ver v) = Some (mem (spec LinkLocal ver) v) /\
  is_private gen_tables (OAddr ver v) = mem (spec Private ver) v /\
  is_reserved gen_tables (OAddr ver v) = mem (spec Reserved ver) v /\
  (mem (spec LinkLocal ver) v = true -> mem (spec Private ver) v = true).
Proof. exact address_classification. Qed.
Print Assumptions C18_address.

(* is_unicast is the exact negation of is_multicast (which always returns a bool) for addresses, networks, ranges *)
Theorem C18_unicast : forall o, valid_ver (over o) = true ->
  exists b, is_multicast gen_tables o = Some b /\ is_unicast gen_tables o = negb b.
Proof. exact unicast_not_multicast. Qed.
Print Assumptions C18_unicast.

(* each predicate is constant (true) across each maximal block, false at both outside neighbours, true nowhere
   else, and its value changes between x and x+1 exactly at first-1|first and last|last+1 of the blocks *)
Theorem C18_flip : forall p ver, valid_ver ver = true ->
  let f := fun x => holds gen_tables p (OAddr ver x) in
  (forall b, In b (maxblocks p ver) ->
     0 <= fst b <= snd b /\ snd b <= 2 ^ width ver - 1 /\
     (forall x, fst b <= x <= snd b -> f x = true) /\ f (fst b - 1) = false /\ f (snd b + 1) = false) /\
  (forall x, f x = true -> exists b, In b (maxblocks p ver) /\ fst b <= x <= snd b) /\
  (forall x, f x <> f (x + 1) <-> exists b, In b (maxblocks p ver) /\ (x + 1 = fst b \/ x = snd b)).
Proof. exact flip. Qed.
Print Assumptions C18_flip.

(* containment, generic (any row, any operand): `obj in row` holds iff same family and [first, last] of the
   object lies inside [first, last] of the row; obj_first/obj_last/row_first/row_last are the `first`/`last`
   attributes (Model/Ip.v net_first/net_last for networks, proved = v - v mod 2^(w-p) etc. in C02) *)
Theorem C18_contains_row : forall r o, wf_row r -> wf_obj o ->
  (contains_row r o = true <-> rver r = over o /\ row_first r <= obj_first o /\ obj_last o <= row_last r).
Proof. exact contains_row_iff. Qed.
Print Assumptions C18_contains_row.

(* generic in the tables: a predicate holds for an address / network / range iff the whole object lies inside a
   single consulted row *)
Theorem C18_blocks_any_tables : forall T p o, wf_tables T -> wf_obj o ->
  (holds T p o = true <->
   exists r, In r (rows_of T p (over o)) /\ rver r = over o /\ row_first r <= obj_first o /\ obj_last o <= row_last r).
Proof. exact holds_iff_inside_row. Qed.
Print Assumptions C18_blocks_any_tables.

(* over the tables of the working tree: iff the whole object lies inside a single DOCUMENTED block *)
Theorem C18_blocks : forall p o, wf_obj o ->
  (holds gen_tables p o = true <->
   exists b, In b (spec p (over o)) /\ fst b <= obj_first o /\ obj_last o <= snd b).
Proof. exact blocks. Qed.
Print Assumptions C18_blocks.

(* non-vacuity: 239.0.0.0/8 (an IPRange row; the F-04 witness) is private as a network, 239.0.0.0/7 is not,
   and the answer flips at 10.0.0.0 - 1 | 10.0.0.0 *)
Example C18_nonvacuous :
  wf_obj (ONet 4 (ip4 239 0 0 0) 8) /\ is_private gen_tables (ONet 4 (ip4 239 0 0 0) 8) = true /\
  is_private gen_tables (ONet 4 (ip4 238 0 0 0) 7) = false /\
  is_private gen_tables (OAddr 4 (ip4 10 0 0 0 - 1)) = false /\ is_private gen_tables (OAddr 4 (ip4 10 0 0 0)) = true /\
  is_private gen_tables (OAddr 6 (hx6 0xfe80)) = true /\ is_reserved gen_tables (OAddr 6 (hx6 0x2000)) = false.
Proof. split; [split; [reflexivity|split; vm_compute; intuition discriminate]|vm_compute; repeat split]. Qed.
