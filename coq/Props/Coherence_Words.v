(* Props/Coherence_Words.v — COHERENCE of the model copies.  Several Python functions are modelled more than once (one
   executable model file per property, each tied to the code separately by differential execution).  Every theorem here
   says that two copies are the same function — as an equation, for all inputs, under the weakest well-formedness
   hypothesis that is really needed (stated in the theorem; the comment says "no hypothesis" when there is none) — so a
   theorem about one copy is a theorem about the others.  Nothing but statements closed by `exact`, each followed by
   Print Assumptions.  Proofs for this file: Proofs/Coherence_Text.v.
   The statements are split over Props/Coherence.v, Coherence_Order.v, Coherence_Cidrs.v, Coherence_Text.v and
   Coherence_Words.v so that the harness re-checks them in parallel; all five are obligations of `./check C04`
   (EXTRA_THEOREM_FILES of harness/props/c04.py); the list is in tools/claims/COH.json.
   Model files are `Require`d without `Import`: every model name is qualified by its file.  Translations between the
   object types of the models (Proofs/Coherence_Net.v): cl_of / ord_of (Contains.ipobj to Classify.ipobj / Order.obj),
   co_net / cl_net / ord_net (a `net` record as an object of each model), co_of_ranged, co_of_irow, co_of_row;
   row_of_irow, list4, state3 (Proofs/Coherence_Order.v); to_cidrs_real (Proofs/Coherence_Cidrs.v); gen_observe
   (Proofs/Coherence_Iter.v). *)
From Coq Require Import Sorting.Sorted Sorting.Permutation String Ascii.
From NV Require Import Base.Tac Base.PyVal Base.Bits Base.Canon Base.PyStr Base.PyStrFacts Model.Ip.
From NV Require Model.SrcPrelude Model.Span Model.Partition Model.Merge Model.Sets Model.Contains Model.Classify
  Model.ListLike Model.Iana Model.Order Model.AddrOps Model.Conv Model.Subnet Model.Splitter Model.NetText
  Model.AddrText Model.Glob Model.Nmap Model.IpText Model.FbSocket Model.Codec Model.Eui Model.Ieee Model.PySlice.
From NV Require Proofs.C02 Proofs.C03 Proofs.C04 Proofs.C04_match Proofs.C09 Proofs.C11 Proofs.C17 Proofs.C20.
From NV Require Import Proofs.Coherence_Net Proofs.Coherence_Text.
Open Scope Z_scope.

(* ======================================================================== Proofs/Coherence_Text.v
   family 10 — Python: strategy.int_to_words / words_to_int / int_to_bits (BYTES_TO_BITS), EUI.bits(), EUI.packed,
               strategy/ipv6.int_to_packed / int_to_str(verbose)
   also      — Python: IAB.split_iab_mac(eui_int, strict=False)[0] *)

(* Eui refuses negative sizes (2 ** negative is a float); elsewhere the two are the same function *)
Theorem Coherence_int_to_words : forall v ws nw,
  0 <= ws -> 0 <= nw -> Eui.int_to_words v ws nw = Codec.int_to_words v ws nw.
Proof. exact coh_int_to_words. Qed.
Print Assumptions Coherence_int_to_words.

Theorem Coherence_int_to_words_addrtext : forall v ws (n : nat),
  AddrText.int_to_words v ws n = Codec.int_to_words v ws (Z.of_nat n).
Proof. exact coh_int_to_words_addrtext. Qed.
Print Assumptions Coherence_int_to_words_addrtext.

Theorem Coherence_words_to_int : forall words ws nw,
  0 <= ws -> Eui.words_to_int words ws nw = Codec.words_to_int words ws nw.
Proof. exact coh_words_to_int. Qed.
Print Assumptions Coherence_words_to_int.

(* Python: the loop `for i, num in enumerate(reversed(words)): int_val |= num << word_size * i` (strategy.words_to_int,
   ipv6.packed_to_int, fbsocket.inet_ntop) is written three times: one function *)
Theorem Coherence_or_words : forall bits rw,
  forall i acc,
  FbSocket.Fb.or_words bits rw i acc = Codec.lor_words rw i bits acc /\
  Codec.lor_words rw i bits acc = Eui.w2i_loop rw i bits acc.
Proof. exact coh_or_words. Qed.
Print Assumptions Coherence_or_words.

Theorem Coherence_byte_bits : forall b,
  0 <= b < 256 -> Eui.byte_bits b = Codec.byte_bits b.
Proof. exact coh_byte_bits. Qed.
Print Assumptions Coherence_byte_bits.

Theorem Coherence_word_bits : forall ws word,
  0 < ws -> 0 <= word < 2 ^ ws -> Eui.word_bits ws word = Codec.word_bits ws word.
Proof. exact coh_word_bits. Qed.
Print Assumptions Coherence_word_bits.

(* strategy.int_to_bits for every word size > 0, count >= 0, separator and integer: EUI.bits() (Eui, at the default
   dialect rows (8, 6) and (8, 8)) and IPAddress.bits() / the module functions (Codec) are one function *)
Theorem Coherence_int_to_bits : forall v ws nw sep,
  0 < ws -> 0 <= nw ->
  Eui.int_to_bits v ws nw sep = Codec.int_to_bits v ws nw sep.
Proof. exact coh_int_to_bits. Qed.
Print Assumptions Coherence_int_to_bits.

Theorem Coherence_eui_bits : forall e sep,
  Eui.eui_bits e sep =
  Codec.int_to_bits (Eui.evalue e) 8 (if Eui.ever e =? 64 then 8 else 6)
    (match sep with Some s => s | None => "-"%string end).
Proof. exact coh_eui_bits. Qed.
Print Assumptions Coherence_eui_bits.

Theorem Coherence_be_bytes : forall k,
  forall n, map chr (Codec.be_bytes k n) = Eui.be_bytes k n.
Proof. exact coh_be_bytes. Qed.
Print Assumptions Coherence_be_bytes.

Theorem Coherence_eui_packed : forall e dflt,
  Codec.d_ws dflt = 8 -> Codec.d_nw dflt = 8 ->
  Eui.eui_packed e =
  omap Codec.str_of_bytes
    (if Eui.ever e =? 64 then Codec.eui64_int_to_packed dflt (Eui.evalue e) else Codec.eui48_int_to_packed (Eui.evalue e)).
Proof. exact coh_eui_packed. Qed.
Print Assumptions Coherence_eui_packed.

Theorem Coherence_ipv6_int_to_packed : forall v,
  (do packed <- Codec.ipv6_int_to_packed v;
   Codec.struct_unpack [2%nat; 2%nat; 2%nat; 2%nat; 2%nat; 2%nat; 2%nat; 2%nat] packed) = AddrText.int_to_packed v.
Proof. exact coh_ipv6_int_to_packed. Qed.
Print Assumptions Coherence_ipv6_int_to_packed.

(* Python: strategy/ipv6.packed_to_int — Codec (16 bytes, '>4I') vs AddrText (eight 16-bit words).  Every byte list
   (wrong lengths raise struct.error on both sides). *)
Theorem Coherence_ipv6_packed_to_int : forall b,
  Codec.ipv6_packed_to_int b =
  (do ws <- Codec.struct_unpack [2%nat; 2%nat; 2%nat; 2%nat; 2%nat; 2%nat; 2%nat; 2%nat] b; AddrText.packed_to_int ws).
Proof. exact coh_ipv6_packed_to_int. Qed.
Print Assumptions Coherence_ipv6_packed_to_int.

(* Python: strategy/ipv6.int_to_str(int_val, ipv6_verbose) (used by int_to_arpa): the C15 copy and the C01 function *)
Theorem Coherence_ipv6_int_to_str_verbose : forall be d v,
  Codec.d_sep d = ":"%string ->
  Codec.ipv6_int_to_str_verbose d v = AddrText.v6_int_to_str be v (Some AddrText.ipv6_verbose).
Proof. exact coh_ipv6_int_to_str_verbose. Qed.
Print Assumptions Coherence_ipv6_int_to_str_verbose.

(* Python: IAB.split_iab_mac(eui_int, strict=False)[0] — Ieee (C19: registry lookups) vs Eui (C08).  Every integer. *)
Theorem Coherence_iab_value : forall eui_int,
  Ieee.iab_value eui_int = omap fst (Eui.split_iab_mac eui_int false).
Proof. exact coh_iab_value. Qed.
Print Assumptions Coherence_iab_value.
