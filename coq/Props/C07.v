(* Props/C07.v — property C07: IPSet algebra and queries agree with plain set theory on addresses.
   This file ties the C07 theorems to C06: the two operands may be ANY two sets reachable by ANY history of IPSet
   operations (they satisfy SetInv, the hypothesis of every C07 theorem).  The operator theorems are in
   Props/C07_ops.v (& - ^ | update isdisjoint, with the sweep helpers), the query theorems in Props/C07_queries.v
   (membership, subset/superset, < > ==, size/len, iter_ipranges, iscontiguous, iprange, iteration order); both are
   checked together with this file.  Nothing but statements closed by `exact` + Print Assumptions. *)
From NV Require Import Base.Tac Base.PyVal Model.Ip Model.Merge Model.Sets Proofs.NetDen
  Proofs.C06_inv Proofs.C06_bulk Proofs.C07_final.
From NV Require Import Extract.Cmd_Sets.
Open Scope Z_scope.

Theorem C07_operands_reachable : forall ops r, Forall wf_op ops -> SetInv (get (fold_left ostep ops regs0) r).
Proof. exact reachable_setinv. Qed.
Print Assumptions C07_operands_reachable.

Theorem C07_reachable_algebra : forall ops r1 r2, Forall wf_op ops ->
  let a := get (fold_left ostep ops regs0) r1 in
  let b := get (fold_left ostep ops regs0) r2 in
  (exists d, set_intersection a b = Ok d /\ SetInv d /\ forall ver x, den d ver x <-> den a ver x /\ den b ver x) /\
  (exists d, set_difference a b = Ok d /\ SetInv d /\ forall ver x, den d ver x <-> den a ver x /\ ~ den b ver x) /\
  (exists d, set_symdiff a b = Ok d /\ SetInv d /\
     forall ver x, den d ver x <-> (den a ver x /\ ~ den b ver x) \/ (den b ver x /\ ~ den a ver x)) /\
  (exists d, set_union a b = Ok d /\ SetInv d /\ forall ver x, den d ver x <-> den a ver x \/ den b ver x).
Proof. exact reachable_algebra. Qed.
Print Assumptions C07_reachable_algebra.
