(* Props/C08_src.v — source tie for C08: the Gallina definitions that harness/gen/pysrc.py regenerates on every run from the
   CURRENT text of
   * netaddr/strategy/eui48.py, eui64.py (coq/Gen/pysrc_eui48_gen.v, pysrc_eui64_gen.v): valid_words / int_to_words /
     words_to_int -- `if dialect is None: dialect = DEFAULT_DIALECT`, then the translated netaddr.strategy function
     (Gen/pysrc_strategy_gen.v) on dialect.word_size, dialect.num_words -- and the constants DEFAULT_DIALECT /
     DEFAULT_EUI64_DIALECT read from the dialect class bodies;
   * netaddr/eui/__init__.py (coq/Gen/pysrc_eui_gen.v): EUI.oui, is_iab, eui64, modified_eui64, ipv6, ipv6_link_local
   are equal to the hand-written model of Model/Eui.v that the theorems of Props/C08.v are about (int_to_words / valid_words /
   words_to_int, eui_words, eui_oui, eui_is_iab, eui_eui64, eui_modified, eui_ipv6, eui_ipv6_link_local).
   A dialect is the pair (word_size, num_words); an EUI object is (_module.version, _value) and the equalities hold for every
   dialect d of the receiver.  OUI(e) is represented by the integer e handed to its constructor; self.__class__(value,
   version=64) is the symbol mk_eui = eui_init (AInt value) (Some 64) DNone (Model/SrcPreludeEui.v).
   Hypotheses: 0 <= word_size, and 0 <= num_words for int_to_words, for an explicitly given dialect; none otherwise.
   A source edit that changes one of these functions changes the generated term and this theorem stops compiling.
   Nothing but the statement closed by `exact`, followed by Print Assumptions. *)
From NV Require Import Base.Tac Base.PyVal Model.Ip Model.Eui Model.SrcPrelude Model.SrcPreludeEui
  Gen.pysrc_strategy_gen Gen.pysrc_eui48_gen Gen.pysrc_eui64_gen Gen.pysrc_eui_gen Proofs.GenOk_Src_C08.
Import ListNotations.
Open Scope Z_scope.

Theorem C08_source_tie :
  (src_eui48_DEFAULT_DIALECT = (word_size (default_dialect 48), num_words (default_dialect 48)) /\
   src_eui64_DEFAULT_EUI64_DIALECT = (word_size (default_dialect 64), num_words (default_dialect 64))) /\
  (forall ws nw, 0 <= ws ->
     (forall words, src_eui48_valid_words words (Some (ws, nw)) = Ok (Eui.valid_words words ws nw)) /\
     (forall iv, 0 <= nw -> src_eui48_int_to_words iv (Some (ws, nw)) = Eui.int_to_words iv ws nw) /\
     (forall words, src_eui48_words_to_int words (Some (ws, nw)) = Eui.words_to_int words ws nw) /\
     (forall words, src_eui64_valid_words words (Some (ws, nw)) = Ok (Eui.valid_words words ws nw)) /\
     (forall iv, 0 <= nw -> src_eui64_int_to_words iv (Some (ws, nw)) = Eui.int_to_words iv ws nw) /\
     (forall words, src_eui64_words_to_int words (Some (ws, nw)) = Eui.words_to_int words ws nw)) /\
  (forall iv d, src_eui48_int_to_words iv None = eui_words {| ever := 48; evalue := iv; edialect := d |} /\
                src_eui64_int_to_words iv None = eui_words {| ever := 64; evalue := iv; edialect := d |}) /\
  (forall words, src_eui48_valid_words words None = Ok (Eui.valid_words words 8 6) /\
                 src_eui48_words_to_int words None = Eui.words_to_int words 8 6 /\
                 src_eui64_valid_words words None = Ok (Eui.valid_words words 8 8) /\
                 src_eui64_words_to_int words None = Eui.words_to_int words 8 8) /\
  (forall ver v d prefix, let e := {| ever := ver; evalue := v; edialect := d |} in
     src_EUI_oui ver v = eui_oui e /\ src_EUI_is_iab ver v = eui_is_iab e /\
     src_EUI_eui64 ver v = eui_eui64 e /\ src_EUI_modified_eui64 ver v = eui_modified e /\
     src_EUI_ipv6 ver v prefix = eui_ipv6 e prefix /\ src_EUI_ipv6_link_local ver v = eui_ipv6_link_local e).
Proof. exact C08_tie_ok. Qed.
Print Assumptions C08_source_tie.

(* the generated definitions compute: EUI('00-1B-77-49-54-FD'): words, OUI integer, modified EUI-64, link-local address *)
Example C08_src_nonvacuous :
  src_eui48_int_to_words 117965411581 None = Ok [0; 27; 119; 73; 84; 253] /\
  src_EUI_oui 48 117965411581 = Some 7031 /\
  omap evalue (src_EUI_modified_eui64 48 117965411581) = Ok 151846953813628157 /\
  src_EUI_ipv6_link_local 48 117965411581 = Ok (6, 338288524927261089654170743795161322749).
Proof. repeat split; vm_compute; reflexivity. Qed.
