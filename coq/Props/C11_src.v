(* Props/C11_src.v — source tie for C11: the Gallina definitions that harness/gen/pysrc.py regenerates on every run from
   the CURRENT text of IPNetwork.__iadd__ / __isub__ (with network, size, first, last), the setters used by subnet() and
   IPNetwork.supernet with its `while` loop (src_IPNetwork_supernet_loop1, fuel `Z.to_nat w + 2` from the translator's FUEL
   table; the direct assignments to the local copy's _prefixlen are record updates; hypotheses prefixlen <= p <= width, under
   which the loop stops at p without leaving the class invariant that the translation of `.cidr` relies on)
   (coq/Gen/pysrc_gen.v) are equal to the hand-written model functions that the theorems of Props/C11.v are about.
   A source edit that changes one of these methods changes the generated term and this theorem stops compiling.
   Nothing but the statement closed by `exact`, followed by Print Assumptions. *)
From NV Require Import Base.Tac Base.PyVal Model.Ip Model.Subnet Model.SrcPrelude Gen.pysrc_gen Proofs.GenOk_Src_C11.
Open Scope Z_scope.

Theorem C11_source_tie :
  (forall ver v p prefixlen, valid_ver ver = true -> p <= width ver -> prefixlen <= p ->
     src_IPNetwork_supernet ver (width ver) v p prefixlen =
       omap (map (wnet_net ver)) (supernet (width ver) (v, p) prefixlen)) /\
  (forall ver v p, valid_ver ver = true -> p <= width ver -> forall fuel acc sv r, 0 <= r <= p ->
     src_IPNetwork_supernet_loop1 fuel ver (width ver) v p (map (wnet_net ver) acc) {| nver := ver; nval := sv; nplen := r |} =
       omap (fun rest => map (wnet_net ver) (acc ++ rest)) (supernet_loop fuel (width ver) sv r p)) /\
  (forall ver w v p num, mk_addr ver (net_network w v p) = Ok (ver, net_network w v p) ->
     omap (fun nv => (nv, p)) (src_IPNetwork_iadd ver w v p num) = net_iadd w (v, p) num /\
     omap (fun nv => (nv, p)) (src_IPNetwork_isub ver w v p num) = net_isub w (v, p) num) /\
  (forall ver v p num, valid_ver ver = true -> 0 <= p <= width ver -> 0 <= v < 2 ^ width ver ->
     omap (fun nv => (nv, p)) (src_IPNetwork_iadd ver (width ver) v p num) = net_iadd (width ver) (v, p) num /\
     omap (fun nv => (nv, p)) (src_IPNetwork_isub ver (width ver) v p num) = net_isub (width ver) (v, p) num) /\
  (forall ver w v p,
     src_IPNetwork_network ver w v p = mk_addr ver (net_network w v p) /\
     src_IPNetwork_size ver w v p = net_size w v p /\
     src_IPNetwork_first ver w v p = net_first w v p /\
     src_IPNetwork_last ver w v p = net_last w v p) /\
  (forall ver w n z,
     omap (fun x => (x, snd n)) (src_BaseIP_set_value ver w (fst n) (SInt z)) = set_value_w w n z /\
     omap (fun x => (fst n, x)) (src_IPNetwork_set_prefixlen ver w (fst n) (snd n) (SInt z)) = set_prefixlen_w w n z) /\
  (src_ipv4_version = 4 /\ src_ipv6_version = 6 /\
   src_ipv4_width = width src_ipv4_version /\ src_ipv6_width = width src_ipv6_version /\
   src_ipv4_max_int = max_int_w src_ipv4_width /\ src_ipv6_max_int = max_int_w src_ipv6_width /\
   src_ipv4_max_int = max_int 4 /\ src_ipv6_max_int = max_int 6).
Proof. exact C11_tie_ok. Qed.
Print Assumptions C11_source_tie.
