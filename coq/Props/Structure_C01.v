(* Props/Structure_C01.v -- WRITTEN BY tools/mkstructure.py.  Structure tie for C01: the parameter lists (names, order, default values),
   decorators, class bases and non-def class-body statements (aliases, __slots__, property lines, class attributes) of the classes and
   functions this property relies on (harness/gen/structure.py, table RELEVANT) -- and, for files it relies on entirely, the list of
   their top-level names -- regenerated from the working tree on every run, are the ones the models, adapters and translator tables
   were written against.  The source translator reads function BODIES; this covers what is around them.  60 groups, 81 rows.
   Statement closed by `exact`, followed by Print Assumptions. *)
From Coq Require Import List String Bool.
From NV Require Import Gen.structure_gen Proofs.GenOk_Structure_C01.
Import ListNotations.
Open Scope string_scope.

Theorem C01_structure_tie :
  gen_names_compat = ["_bytes_join"; "_zip"; "_range"; "_iter_next"] /\
  filter (keep drop_compat___bytes_join) gen_struct_compat___bytes_join = pinned_struct_compat___bytes_join /\
  filter (keep drop_compat___zip) gen_struct_compat___zip = pinned_struct_compat___zip /\
  filter (keep drop_compat___range) gen_struct_compat___range = pinned_struct_compat___range /\
  filter (keep drop_compat___iter_next) gen_struct_compat___iter_next = pinned_struct_compat___iter_next /\
  gen_names_core = ["AddrFormatError"; "AddrConversionError"; "NotRegisteredError"; "num_bits"; "Subscriber"; "PrettyPrinter"; "Publisher"; "DictDotLookup"] /\
  filter (keep drop_core__AddrFormatError) gen_struct_core__AddrFormatError = pinned_struct_core__AddrFormatError /\
  filter (keep drop_core__AddrConversionError) gen_struct_core__AddrConversionError = pinned_struct_core__AddrConversionError /\
  filter (keep drop_core__NotRegisteredError) gen_struct_core__NotRegisteredError = pinned_struct_core__NotRegisteredError /\
  filter (keep drop_core__num_bits) gen_struct_core__num_bits = pinned_struct_core__num_bits /\
  filter (keep drop_core__Subscriber) gen_struct_core__Subscriber = pinned_struct_core__Subscriber /\
  filter (keep drop_core__PrettyPrinter) gen_struct_core__PrettyPrinter = pinned_struct_core__PrettyPrinter /\
  filter (keep drop_core__Publisher) gen_struct_core__Publisher = pinned_struct_core__Publisher /\
  filter (keep drop_core__DictDotLookup) gen_struct_core__DictDotLookup = pinned_struct_core__DictDotLookup /\
  gen_names_fbsocket = ["inet_ntoa"; "_compact_ipv6_tokens"; "inet_ntop"; "_inet_pton_af_inet"; "_is_hextet"; "inet_pton"] /\
  filter (keep drop_fbsocket__inet_ntoa) gen_struct_fbsocket__inet_ntoa = pinned_struct_fbsocket__inet_ntoa /\
  filter (keep drop_fbsocket___compact_ipv6_tokens) gen_struct_fbsocket___compact_ipv6_tokens = pinned_struct_fbsocket___compact_ipv6_tokens /\
  filter (keep drop_fbsocket__inet_ntop) gen_struct_fbsocket__inet_ntop = pinned_struct_fbsocket__inet_ntop /\
  filter (keep drop_fbsocket___inet_pton_af_inet) gen_struct_fbsocket___inet_pton_af_inet = pinned_struct_fbsocket___inet_pton_af_inet /\
  filter (keep drop_fbsocket___is_hextet) gen_struct_fbsocket___is_hextet = pinned_struct_fbsocket___is_hextet /\
  filter (keep drop_fbsocket__inet_pton) gen_struct_fbsocket__inet_pton = pinned_struct_fbsocket__inet_pton /\
  filter (keep drop_ip_init__BaseIP) gen_struct_ip_init__BaseIP = pinned_struct_ip_init__BaseIP /\
  filter (keep drop_ip_init__IPAddress) gen_struct_ip_init__IPAddress = pinned_struct_ip_init__IPAddress /\
  filter (keep drop_ip_init___arg_repr) gen_struct_ip_init___arg_repr = pinned_struct_ip_init___arg_repr /\
  gen_names_strategy_ipv4 = ["valid_str"; "str_to_int"; "int_to_str"; "int_to_arpa"; "int_to_packed"; "packed_to_int"; "valid_words"; "int_to_words"; "words_to_int"; "valid_bits"; "bits_to_int"; "int_to_bits"; "valid_bin"; "int_to_bin"; "bin_to_int"; "expand_partial_address"] /\
  filter (keep drop_strategy_ipv4__valid_str) gen_struct_strategy_ipv4__valid_str = pinned_struct_strategy_ipv4__valid_str /\
  filter (keep drop_strategy_ipv4__str_to_int) gen_struct_strategy_ipv4__str_to_int = pinned_struct_strategy_ipv4__str_to_int /\
  filter (keep drop_strategy_ipv4__int_to_str) gen_struct_strategy_ipv4__int_to_str = pinned_struct_strategy_ipv4__int_to_str /\
  filter (keep drop_strategy_ipv4__int_to_arpa) gen_struct_strategy_ipv4__int_to_arpa = pinned_struct_strategy_ipv4__int_to_arpa /\
  filter (keep drop_strategy_ipv4__int_to_packed) gen_struct_strategy_ipv4__int_to_packed = pinned_struct_strategy_ipv4__int_to_packed /\
  filter (keep drop_strategy_ipv4__packed_to_int) gen_struct_strategy_ipv4__packed_to_int = pinned_struct_strategy_ipv4__packed_to_int /\
  filter (keep drop_strategy_ipv4__valid_words) gen_struct_strategy_ipv4__valid_words = pinned_struct_strategy_ipv4__valid_words /\
  filter (keep drop_strategy_ipv4__int_to_words) gen_struct_strategy_ipv4__int_to_words = pinned_struct_strategy_ipv4__int_to_words /\
  filter (keep drop_strategy_ipv4__words_to_int) gen_struct_strategy_ipv4__words_to_int = pinned_struct_strategy_ipv4__words_to_int /\
  filter (keep drop_strategy_ipv4__valid_bits) gen_struct_strategy_ipv4__valid_bits = pinned_struct_strategy_ipv4__valid_bits /\
  filter (keep drop_strategy_ipv4__bits_to_int) gen_struct_strategy_ipv4__bits_to_int = pinned_struct_strategy_ipv4__bits_to_int /\
  filter (keep drop_strategy_ipv4__int_to_bits) gen_struct_strategy_ipv4__int_to_bits = pinned_struct_strategy_ipv4__int_to_bits /\
  filter (keep drop_strategy_ipv4__valid_bin) gen_struct_strategy_ipv4__valid_bin = pinned_struct_strategy_ipv4__valid_bin /\
  filter (keep drop_strategy_ipv4__int_to_bin) gen_struct_strategy_ipv4__int_to_bin = pinned_struct_strategy_ipv4__int_to_bin /\
  filter (keep drop_strategy_ipv4__bin_to_int) gen_struct_strategy_ipv4__bin_to_int = pinned_struct_strategy_ipv4__bin_to_int /\
  filter (keep drop_strategy_ipv4__expand_partial_address) gen_struct_strategy_ipv4__expand_partial_address = pinned_struct_strategy_ipv4__expand_partial_address /\
  gen_names_strategy_ipv6 = ["ipv6_compact"; "ipv6_full"; "ipv6_verbose"; "valid_str"; "str_to_int"; "int_to_str"; "int_to_arpa"; "int_to_packed"; "packed_to_int"; "valid_words"; "int_to_words"; "words_to_int"; "valid_bits"; "bits_to_int"; "int_to_bits"; "valid_bin"; "int_to_bin"; "bin_to_int"] /\
  filter (keep drop_strategy_ipv6__ipv6_compact) gen_struct_strategy_ipv6__ipv6_compact = pinned_struct_strategy_ipv6__ipv6_compact /\
  filter (keep drop_strategy_ipv6__ipv6_full) gen_struct_strategy_ipv6__ipv6_full = pinned_struct_strategy_ipv6__ipv6_full /\
  filter (keep drop_strategy_ipv6__ipv6_verbose) gen_struct_strategy_ipv6__ipv6_verbose = pinned_struct_strategy_ipv6__ipv6_verbose /\
  filter (keep drop_strategy_ipv6__valid_str) gen_struct_strategy_ipv6__valid_str = pinned_struct_strategy_ipv6__valid_str /\
  filter (keep drop_strategy_ipv6__str_to_int) gen_struct_strategy_ipv6__str_to_int = pinned_struct_strategy_ipv6__str_to_int /\
  filter (keep drop_strategy_ipv6__int_to_str) gen_struct_strategy_ipv6__int_to_str = pinned_struct_strategy_ipv6__int_to_str /\
  filter (keep drop_strategy_ipv6__int_to_arpa) gen_struct_strategy_ipv6__int_to_arpa = pinned_struct_strategy_ipv6__int_to_arpa /\
  filter (keep drop_strategy_ipv6__int_to_packed) gen_struct_strategy_ipv6__int_to_packed = pinned_struct_strategy_ipv6__int_to_packed /\
  filter (keep drop_strategy_ipv6__packed_to_int) gen_struct_strategy_ipv6__packed_to_int = pinned_struct_strategy_ipv6__packed_to_int /\
  filter (keep drop_strategy_ipv6__valid_words) gen_struct_strategy_ipv6__valid_words = pinned_struct_strategy_ipv6__valid_words /\
  filter (keep drop_strategy_ipv6__int_to_words) gen_struct_strategy_ipv6__int_to_words = pinned_struct_strategy_ipv6__int_to_words /\
  filter (keep drop_strategy_ipv6__words_to_int) gen_struct_strategy_ipv6__words_to_int = pinned_struct_strategy_ipv6__words_to_int /\
  filter (keep drop_strategy_ipv6__valid_bits) gen_struct_strategy_ipv6__valid_bits = pinned_struct_strategy_ipv6__valid_bits /\
  filter (keep drop_strategy_ipv6__bits_to_int) gen_struct_strategy_ipv6__bits_to_int = pinned_struct_strategy_ipv6__bits_to_int /\
  filter (keep drop_strategy_ipv6__int_to_bits) gen_struct_strategy_ipv6__int_to_bits = pinned_struct_strategy_ipv6__int_to_bits /\
  filter (keep drop_strategy_ipv6__valid_bin) gen_struct_strategy_ipv6__valid_bin = pinned_struct_strategy_ipv6__valid_bin /\
  filter (keep drop_strategy_ipv6__int_to_bin) gen_struct_strategy_ipv6__int_to_bin = pinned_struct_strategy_ipv6__int_to_bin /\
  filter (keep drop_strategy_ipv6__bin_to_int) gen_struct_strategy_ipv6__bin_to_int = pinned_struct_strategy_ipv6__bin_to_int.
Proof. exact (conj names_compat_ok (conj struct_compat___bytes_join_ok (conj struct_compat___zip_ok (conj struct_compat___range_ok (conj struct_compat___iter_next_ok (conj names_core_ok (conj struct_core__AddrFormatError_ok (conj struct_core__AddrConversionError_ok (conj struct_core__NotRegisteredError_ok (conj struct_core__num_bits_ok (conj struct_core__Subscriber_ok (conj struct_core__PrettyPrinter_ok (conj struct_core__Publisher_ok (conj struct_core__DictDotLookup_ok (conj names_fbsocket_ok (conj struct_fbsocket__inet_ntoa_ok (conj struct_fbsocket___compact_ipv6_tokens_ok (conj struct_fbsocket__inet_ntop_ok (conj struct_fbsocket___inet_pton_af_inet_ok (conj struct_fbsocket___is_hextet_ok (conj struct_fbsocket__inet_pton_ok (conj struct_ip_init__BaseIP_ok (conj struct_ip_init__IPAddress_ok (conj struct_ip_init___arg_repr_ok (conj names_strategy_ipv4_ok (conj struct_strategy_ipv4__valid_str_ok (conj struct_strategy_ipv4__str_to_int_ok (conj struct_strategy_ipv4__int_to_str_ok (conj struct_strategy_ipv4__int_to_arpa_ok (conj struct_strategy_ipv4__int_to_packed_ok (conj struct_strategy_ipv4__packed_to_int_ok (conj struct_strategy_ipv4__valid_words_ok (conj struct_strategy_ipv4__int_to_words_ok (conj struct_strategy_ipv4__words_to_int_ok (conj struct_strategy_ipv4__valid_bits_ok (conj struct_strategy_ipv4__bits_to_int_ok (conj struct_strategy_ipv4__int_to_bits_ok (conj struct_strategy_ipv4__valid_bin_ok (conj struct_strategy_ipv4__int_to_bin_ok (conj struct_strategy_ipv4__bin_to_int_ok (conj struct_strategy_ipv4__expand_partial_address_ok (conj names_strategy_ipv6_ok (conj struct_strategy_ipv6__ipv6_compact_ok (conj struct_strategy_ipv6__ipv6_full_ok (conj struct_strategy_ipv6__ipv6_verbose_ok (conj struct_strategy_ipv6__valid_str_ok (conj struct_strategy_ipv6__str_to_int_ok (conj struct_strategy_ipv6__int_to_str_ok (conj struct_strategy_ipv6__int_to_arpa_ok (conj struct_strategy_ipv6__int_to_packed_ok (conj struct_strategy_ipv6__packed_to_int_ok (conj struct_strategy_ipv6__valid_words_ok (conj struct_strategy_ipv6__int_to_words_ok (conj struct_strategy_ipv6__words_to_int_ok (conj struct_strategy_ipv6__valid_bits_ok (conj struct_strategy_ipv6__bits_to_int_ok (conj struct_strategy_ipv6__int_to_bits_ok (conj struct_strategy_ipv6__valid_bin_ok (conj struct_strategy_ipv6__int_to_bin_ok struct_strategy_ipv6__bin_to_int_ok))))))))))))))))))))))))))))))))))))))))))))))))))))))))))). Qed.
Print Assumptions C01_structure_tie.
