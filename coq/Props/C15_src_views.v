(* Props/C15_src_views.v -- source tie for C15 (and for __hex__ of C14), IPAddress accessors: the Gallina definitions that
   harness/gen/pysrc.py regenerates on every run from the CURRENT text of IPAddress.bits / bin / words / packed / reverse_dns /
   __bytes__ / __hex__ (coq/Gen/pysrc_ipviews_gen.v) are equal to the hand-written accessors of Model/Codec.v that the theorems
   of Props/C15.v are about (ip_bits, m_int_to_bin, m_int_to_words, m_int_to_packed, ip_reverse_dns, ip_bytes, read with the
   strategy module's row of the generated dialect table) and to AddrOps.view_hex (Props/C14.v).
   These methods only hand `self._value` to a function of the strategy module; the module functions are NOT translated here
   (netaddr/strategy/ipv4.py / ipv6.py are another unit's): they are the symbols py_mod_<f> of Model/SrcPreludeViews.v = the hand
   models of Model/Codec.v by version.  What this tie covers is the text of the accessor methods: which module function is
   called and with which arguments (`word_sep` passed on, `width // 8` bytes, the '0x%x' format).  __oct__ has no model.
   Hypothesis: `d` is the module's row (second conjunct: both IP modules have one, of the module's width).
   Nothing but the statement closed by `exact`, followed by Print Assumptions. *)
From Coq Require Import String Ascii.
From NV Require Import Base.Tac Base.PyVal Base.PyStr Model.Ip Model.Codec Model.AddrOps Model.SrcPrelude Model.SrcPreludeSRCE
  Model.SrcPreludeViews Gen.pysrc_gen Gen.pysrc_ipviews_gen Proofs.GenOk_Src_C15_views.
Import ListNotations.
Open Scope Z_scope.

Theorem C15_source_tie_views :
  (forall ver d, find_dialect (py_mod_fam ver) "" = Some d -> forall w v sep,
     src_IPAddress_bits ver w v sep = ip_bits d v sep /\
     src_IPAddress_bin ver w v = m_int_to_bin d v /\
     src_IPAddress_words ver w v = m_int_to_words (py_mod_fam ver) d v /\
     src_IPAddress_packed ver w v = m_int_to_packed (py_mod_fam ver) d v /\
     src_IPAddress_reverse_dns ver w v = ip_reverse_dns (py_mod_fam ver) d v /\
     (w = d_width d -> src_IPAddress_bytes ver w v = ip_bytes d v)) /\
  (exists d4 d6, find_dialect (py_mod_fam 4) "" = Some d4 /\ find_dialect (py_mod_fam 6) "" = Some d6 /\
     d_width d4 = width 4 /\ d_width d6 = width 6) /\
  (forall ver w v, src_IPAddress_hex ver w v = view_hex v).
Proof. exact C15_views_tie_ok. Qed.
Print Assumptions C15_source_tie_views.

(* the generated definitions compute, for IPAddress('10.0.0.77') *)
Example C15_src_views_nonvacuous :
  src_IPAddress_bits 4 32 167772237 None = Ok "00001010.00000000.00000000.01001101"%string /\
  src_IPAddress_bits 4 32 167772237 (Some "-"%string) = Ok "00001010-00000000-00000000-01001101"%string /\
  src_IPAddress_words 4 32 167772237 = Ok [10; 0; 0; 77] /\
  src_IPAddress_bytes 4 32 167772237 = Ok [10; 0; 0; 77] /\
  src_IPAddress_reverse_dns 4 32 167772237 = Ok "77.0.0.10.in-addr.arpa."%string /\
  src_IPAddress_hex 4 32 167772237 = Ok "0xa00004d"%string.
Proof. repeat split; vm_compute; reflexivity. Qed.
