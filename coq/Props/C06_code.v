(* Props/C06_code.v — CODC: property C06 (IPSet is canonical after any history, so equality is extensional) stated DIRECTLY about
   the Gallina definitions that harness/gen/pysrc.py regenerates on every run from the CURRENT text of netaddr/ip/sets.py
   (coq/Gen/pysrc_sets_gen.v, pysrc_sets_ops_gen.v, pysrc_sets_mut_gen.v, pysrc_sets_add_gen.v, pysrc_sets_bulk_gen.v,
   pysrc_sets_state_gen.v).  Each theorem is the theorem of the same name in Props/C06.v / C06_bulk.v / C06_add.v with every
   model function replaced by the generated definition; what coqc re-checks on every run is "the property holds of what the
   code says now".
   SHAPES.  An IPSet object is its dict `_cidrs` = the insertion-ordered list of its IPNetwork keys (`list net`); a generated
   mutator takes that state first (then the argument, then `flags`) and returns the new state.  The generated code has ONE
   DEFINITION PER ARGUMENT FORM of a method (src_IPSet_add_net, src_IPSet_add_iprange, src_IPSet_update_ipset, ...), the model
   one function over an argument type (`elem`: int | IPAddress | IPNetwork | IPRange; `sarg`: None | IPNetwork | IPRange | IPSet |
   iterable of elem).  src_set_init / src_set_add / src_set_remove / src_set_update (Proofs/Code_C06.v, spelled out by
   C06_code_vocabulary below) dispatch on the form of the argument to the generated definition; src_set_pickle d = the generated
   __setstate__ (on a fresh object) applied to what the generated __getstate__ returns.
   HISTORIES.  src_ostep flags rs o: one step of the register machine of Props/C06.v (same `op` type: init / add / remove / update /
   clear / compact / copy / pickle / pop / | & - ^ over the same registers; a raising operation leaves the registers as they
   were), with every operation dispatched to the generated definitions; `flags` is any integer, the same for the whole history.
   C06_run_of_source: fold_left (src_ostep flags) = fold_left ostep on states satisfying the invariant; then the three theorems of
   Props/C06.v for fold_left (src_ostep flags), with sorted() replaced by the generated iter_cidrs() and dict_eqb by the generated
   __eq__.
   HYPOTHESES.  Exactly those of the model theorems (SetInv of the stored state, well-formed arguments: wf_net / wf_elem / wf_sarg /
   wf_op).  The ties' own hypotheses (wf_net where .cidr / the prefixlen setter / supernet() are used; a valid range for the
   IPRange forms; SetInv of the set for remove and of both operands for - and ^) are among them: nothing is added.
   CLAUSES STILL ABOUT THE MODEL.  (1) The argument forms that need parsing or conversion have no generated definition: add /
   remove of an int (EInt) or an IPAddress (EAddr), an iterable containing such an element or an IPRange (only iterables of
   IPNetwork objects are translated: src_IPSet_init_list / update_list), update(None) (TypeError) -- the dispatchers send them to
   Sets.set_add / set_remove / set_init / set_update; they stay tied by correspondence.  (2) cidr_merge, IPNetwork.previous() /
   next(), sorted() / `<` on networks, the dict operations (dset, ddel, dmem, dupdate, dfromkeys) enter the generated code as prelude
   symbols (Model/SrcPreludeSets.v = the hand models; cidr_merge is tied by C05_source_tie_merge, next / previous by
   C11_source_tie_subnet); C06_dict_ops, C06_dict_bulk, C06_sorted (Props/C06_bulk.v) are about those symbols and are not repeated.
   (3) __repr__, __iter__, __hash__, __reduce__ are not translated: "shown" is iter_cidrs().  (4) C06_step_enc / C06_steps_enc
   (the typed machine = the extracted command) concern the model machine only.
   Nothing but statements closed by `exact`, each followed by Print Assumptions. *)
From Coq Require Import Sorting.Sorted Sorting.Permutation.
From NV Require Import Base.Tac Base.PyVal Base.Canon Model.Ip Model.Merge Model.Sets Model.SrcPrelude Model.SrcPreludeSets
  Gen.pysrc_gen Gen.pysrc_sets_gen Gen.pysrc_sets_ops_gen Gen.pysrc_sets_mut_gen Gen.pysrc_sets_add_gen
  Gen.pysrc_sets_bulk_gen Gen.pysrc_sets_state_gen
  Proofs.C02 Proofs.NetDen Proofs.C06_inv Proofs.C06_bulk Proofs.Code_C06.
From NV Require Import Extract.Cmd_Sets.
Import ListNotations.
Open Scope Z_scope.

(* ---- constructors and bulk mutators ---- *)
(* IPSet(None | IPNetwork | IPRange | IPSet | iterable), any flags: the generated __init__ of the argument's form *)
Theorem C06_init_of_source : forall flags a, wf_sarg a ->
  exists d, src_set_init flags a = Ok d /\ SetInv d /\ forall ver x, den d ver x <-> in_sarg a ver x.
Proof. exact init_of_source. Qed.
Print Assumptions C06_init_of_source.

(* compact() as generated: whatever well-formed networks are stored, the canonical list of their union *)
Theorem C06_compact_of_source : forall d, Forall wf_net d ->
  exists d', src_IPSet_compact d = Ok d' /\ SetInv d' /\ canon_nets d' /\ forall ver x, den d' ver x <-> den d ver x.
Proof. exact compact_of_source. Qed.
Print Assumptions C06_compact_of_source.

(* update(IPSet | IPNetwork | IPRange | iterable) as generated *)
Theorem C06_update_of_source : forall flags d a, SetInv d -> wf_sarg a -> a <> ANone ->
  exists d', src_set_update flags d a = Ok d' /\ SetInv d' /\ forall ver x, den d' ver x <-> den d ver x \/ in_sarg a ver x.
Proof. exact update_of_source. Qed.
Print Assumptions C06_update_of_source.

(* A | B as generated *)
Theorem C06_union_of_source : forall a b, SetInv a -> SetInv b ->
  exists d, src_IPSet_union a b = Ok d /\ SetInv d /\ forall ver x, den d ver x <-> den a ver x \/ den b ver x.
Proof. exact union_of_source6. Qed.
Print Assumptions C06_union_of_source.

(* copy() as generated: the same stored dict *)
Theorem C06_copy_of_source : forall d, SetInv d ->
  src_IPSet_copy d = d /\ SetInv (src_IPSet_copy d) /\ forall ver x, den (src_IPSet_copy d) ver x <-> den d ver x.
Proof. exact copy_of_source. Qed.
Print Assumptions C06_copy_of_source.

(* clear() as generated *)
Theorem C06_clear_of_source : forall d, SetInv (src_IPSet_clear d) /\ forall ver x, ~ den (src_IPSet_clear d) ver x.
Proof. exact clear_of_source. Qed.
Print Assumptions C06_clear_of_source.

(* add(IPRange), the bulk branch of add(), as generated *)
Theorem C06_add_range_of_source : forall flags d ver s e, Forall wf_net d -> valid_ver ver = true -> 0 <= s <= e -> e < 2 ^ width ver ->
  exists d', src_IPSet_add_iprange d (ver, s, e) flags = Ok d' /\ SetInv d' /\ canon_nets d' /\
    forall ver' x, den d' ver' x <-> den d ver' x \/ (ver' = ver /\ s <= x <= e).
Proof. exact add_range_of_source. Qed.
Print Assumptions C06_add_range_of_source.

(* pop() as generated: KeyError exactly on the empty set; otherwise the last inserted key is removed and returned *)
Theorem C06_pop_of_source : forall d, SetInv d ->
  match src_IPSet_pop d with
  | Ok (d', k) => In k d /\ SetInv d' /\ forall ver x, den d' ver x <-> den d ver x /\ ~ in_net k ver x
  | Raise e => e = KeyError /\ d = []
  end.
Proof. exact pop_of_source. Qed.
Print Assumptions C06_pop_of_source.

Theorem C06_pop_last_of_source : forall d, SetInv d ->
  (d = [] -> src_IPSet_pop d = Raise KeyError) /\
  (d <> [] -> exists d' k, src_IPSet_pop d = Ok (d', k) /\ d = d' ++ [k] /\ In k d /\ SetInv d' /\
     forall ver x, den d' ver x <-> den d ver x /\ ~ in_net k ver x).
Proof. exact pop_last_of_source. Qed.
Print Assumptions C06_pop_last_of_source.

(* pickle round trip through the generated __getstate__ / __setstate__: the same stored dict, key for key *)
Theorem C06_pickle_of_source : forall d, SetInv d ->
  exists d', src_set_pickle d = Ok d' /\ d' = d /\ SetInv d' /\ forall ver x, den d' ver x <-> den d ver x.
Proof. exact pickle_of_source. Qed.
Print Assumptions C06_pickle_of_source.

(* ---- the incremental mutators ---- *)
(* _compact_single_network(a) as generated (four loops; the argument changed in place on a local copy), right after
   `self._cidrs[a] = True`, for ANY host-bit-free a: returns normally and the dict is canonical again *)
Theorem C06_compact_single_of_source : forall d0 a, SetInv d0 -> wfh a ->
  exists d', src_IPSet_compact_single_network (dset d0 a) a = Ok d' /\ SetInv d' /\
    forall ver x, den d' ver x <-> den d0 ver x \/ in_net a ver x.
Proof. exact compact_single_of_source. Qed.
Print Assumptions C06_compact_single_of_source.

(* add(e) / remove(e) for every argument form (the IPNetwork and IPRange forms are the generated definitions) *)
Theorem C06_add_of_source : forall flags d e, SetInv d -> wf_elem e ->
  exists d', src_set_add flags d e = Ok d' /\ SetInv d' /\ forall ver x, den d' ver x <-> den d ver x \/ in_elem e ver x.
Proof. exact add_of_source. Qed.
Print Assumptions C06_add_of_source.

Theorem C06_remove_of_source : forall flags d e, SetInv d -> wf_elem e ->
  exists d', src_set_remove flags d e = Ok d' /\ SetInv d' /\ forall ver x, den d' ver x <-> den d ver x /\ ~ in_elem e ver x.
Proof. exact remove_of_source. Qed.
Print Assumptions C06_remove_of_source.

(* remove(IPNetwork) as generated (add-then-cidr_exclude on the one covering key) *)
Theorem C06_remove_net_of_source : forall flags d addr, SetInv d -> wf_net addr ->
  exists d', src_IPSet_remove_net d addr flags = Ok d' /\ SetInv d' /\
    forall ver x, den d' ver x <-> den d ver x /\ ~ in_net addr ver x.
Proof. exact remove_net_of_source. Qed.
Print Assumptions C06_remove_net_of_source.

(* ---- what iter_cidrs() shows; == is extensional ---- *)
Theorem C06_shown_of_source : forall d, SetInv d ->
  canon_nets (src_IPSet_iter_cidrs d) /\ forall ver x, den (src_IPSet_iter_cidrs d) ver x <-> den d ver x.
Proof. exact shown_of_source. Qed.
Print Assumptions C06_shown_of_source.

Theorem C06_shown_unique_of_source : forall d l, SetInv d -> canon_nets l ->
  (forall ver x, den l ver x <-> den d ver x) -> src_IPSet_iter_cidrs d = l.
Proof. exact shown_unique_of_source. Qed.
Print Assumptions C06_shown_unique_of_source.

Theorem C06_shown_minimal_of_source : forall d l', SetInv d -> Forall wf_net l' ->
  (forall ver x, den l' ver x <-> den d ver x) -> (length (src_IPSet_iter_cidrs d) <= length l')%nat.
Proof. exact shown_minimal_of_source. Qed.
Print Assumptions C06_shown_minimal_of_source.

(* __eq__ as generated *)
Theorem C06_extensional_of_source : forall a b, SetInv a -> SetInv b ->
  (src_IPSet_eq a b = true <-> forall ver x, den a ver x <-> den b ver x).
Proof. exact extensional_of_source. Qed.
Print Assumptions C06_extensional_of_source.

(* ---- histories run by the generated code (src_ostep, all thirteen operations) ---- *)
(* one step: from registers related to abstract sets, any well-formed operation leads to registers related to the abstract result *)
Theorem C06_step_of_source : forall flags rs s o, Rel rs s -> wf_op o ->
  exists s', astep s o s' /\ Rel (src_ostep flags rs o) s'.
Proof. exact step_of_source. Qed.
Print Assumptions C06_step_of_source.

(* the history run by the generated code is the model's history, register for register *)
Theorem C06_run_of_source : forall flags ops rs s, Rel rs s -> Forall wf_op ops ->
  fold_left (src_ostep flags) ops rs = fold_left ostep ops rs.
Proof. exact run_of_source. Qed.
Print Assumptions C06_run_of_source.

(* every reachable state: induction over any finite operation history *)
Theorem C06_reachable_of_source : forall flags ops rs s, Rel rs s -> Forall wf_op ops ->
  exists s', aruns s ops s' /\ Rel (fold_left (src_ostep flags) ops rs) s'.
Proof. exact reachable_of_source. Qed.
Print Assumptions C06_reachable_of_source.

(* from four empty sets: after ANY history every register satisfies the invariant, what iter_cidrs() shows is the canonical
   list of exactly the addresses the history denotes, and == between two registers holds iff they denote the same addresses *)
Theorem C06_reachable_shown_of_source : forall flags ops, Forall wf_op ops ->
  exists s', aruns aregs0 ops s' /\
    let rs := fold_left (src_ostep flags) ops regs0 in
    (forall r, SetInv (get rs r) /\ canon_nets (src_IPSet_iter_cidrs (get rs r)) /\
               forall ver x, den (src_IPSet_iter_cidrs (get rs r)) ver x <-> aget s' r ver x) /\
    (forall r1 r2, src_IPSet_eq (get rs r1) (get rs r2) = true <-> forall ver x, aget s' r1 ver x <-> aget s' r2 ver x).
Proof. exact reachable_shown_of_source. Qed.
Print Assumptions C06_reachable_shown_of_source.

(* ---- the vocabulary added here is what the header says ---- *)
Theorem C06_code_vocabulary : forall flags rs d,
  (forall a, src_set_init flags a =
     match a with
     | ANone => Ok (src_IPSet_init_none [] tt flags)
     | ANet n => src_IPSet_init_net [] n flags
     | ARange ver s e => src_IPSet_init_iprange [] (ver, s, e) flags
     | ASet o => Ok (src_IPSet_init_ipset [] o flags)
     | AIter l => match nets_of_elems l with Some ns => src_IPSet_init_list [] ns flags | None => set_init a end
     | AElem _ => set_init a
     end) /\
  (forall e, src_set_add flags d e =
     match e with
     | ENet n => src_IPSet_add_net d n flags
     | ERange ver s e' => src_IPSet_add_iprange d (ver, s, e') flags
     | EInt _ | EAddr _ _ => set_add d e
     end) /\
  (forall e, src_set_remove flags d e =
     match e with
     | ENet n => src_IPSet_remove_net d n flags
     | ERange ver s e' => src_IPSet_remove_iprange d (ver, s, e') flags
     | EInt _ | EAddr _ _ => set_remove d e
     end) /\
  (forall a, src_set_update flags d a =
     match a with
     | ASet o => src_IPSet_update_ipset d o flags
     | ANet n => src_IPSet_update_net d n flags
     | ARange ver s e => src_IPSet_update_iprange d (ver, s, e) flags
     | AIter l => match nets_of_elems l with Some ns => src_IPSet_update_list d ns flags | None => set_update d a end
     | ANone | AElem _ => set_update d a
     end) /\
  (forall l ns, nets_of_elems l = Some ns <-> l = map ENet ns) /\
  (forall st, src_IPSet_getstate d = map (fun t => [fst (fst t); snd (fst t); snd t]) st ->
     src_set_pickle d = src_IPSet_setstate [] st) /\
  (forall o, src_ostep flags rs o =
     match o with
     | OInit r a => mutr rs r (src_set_init flags (resolve rs a))
     | OAdd r e => mutr rs r (src_set_add flags (get rs r) e)
     | ORemove r e => mutr rs r (src_set_remove flags (get rs r) e)
     | OUpdate r a => mutr rs r (src_set_update flags (get rs r) (resolve rs a))
     | OClear r => mutr rs r (Ok (src_IPSet_clear (get rs r)))
     | OCompact r => mutr rs r (src_IPSet_compact (get rs r))
     | OCopy dst src => mutr rs dst (Ok (src_IPSet_copy (get rs src)))
     | OPickle r => mutr rs r (src_set_pickle (get rs r))
     | OPop r => match src_IPSet_pop (get rs r) with Ok (d, _) => put rs r d | Raise _ => rs end
     | OUnion dst a b => mutr rs dst (src_IPSet_union (get rs a) (get rs b))
     | OInter dst a b => mutr rs dst (src_IPSet_intersection (get rs a) (get rs b))
     | ODiff dst a b => mutr rs dst (src_IPSet_difference (get rs a) (get rs b))
     | OXor dst a b => mutr rs dst (src_IPSet_symmetric_difference (get rs a) (get rs b))
     end).
Proof. exact code_vocabulary. Qed.
Print Assumptions C06_code_vocabulary.

(* non-vacuity: a 12-step mixed-family history over all four registers in which EVERY operation runs a generated definition
   (iterable of networks with host bits, add / remove of a network and of a range, range constructor, update with a set,
   | & - ^, pop, pickle, compact, copy): every op is well formed, the generated history equals the model's, and what the
   registers show at the end *)
Definition code_example_ops : list op :=
  let N v a p := {| nver := v; nval := a; nplen := p |} in
  [ OInit 0 (TIter [ENet (N 4 167772161 24); ENet (N 6 1 128)]);
    OAdd 0 (ENet (N 4 167772672 23));
    OAdd 0 (ERange 4 167772416 167772600);
    ORemove 0 (ENet (N 4 167772237 32));
    OInit 1 (TRange 6 0 1000);
    OUpdate 1 (TSet 0);
    OUnion 2 0 1;
    OInter 3 0 1;
    ODiff 2 1 0;
    OXor 3 1 0;
    OPop 1;
    OPickle 1;
    OCompact 0;
    OCopy 3 2;
    ORemove 3 (ERange 6 3 5) ].
Example C06_code_nonvacuous :
  Forall wf_op code_example_ops /\
  fold_left (src_ostep 0) code_example_ops regs0 = fold_left ostep code_example_ops regs0 /\
  map (@List.length net) (fold_left (src_ostep 0) code_example_ops regs0) = [15; 20; 15; 15]%nat /\
  src_IPSet_iter_cidrs (get (fold_left (src_ostep 0) code_example_ops regs0) 3) =
    [ {| nver := 6; nval := 0; nplen := 128 |}; {| nver := 6; nval := 2; nplen := 128 |}; {| nver := 6; nval := 6; nplen := 127 |};
      {| nver := 6; nval := 8; nplen := 125 |}; {| nver := 6; nval := 16; nplen := 124 |}; {| nver := 6; nval := 32; nplen := 123 |};
      {| nver := 6; nval := 64; nplen := 122 |}; {| nver := 6; nval := 128; nplen := 121 |}; {| nver := 6; nval := 256; nplen := 120 |};
      {| nver := 6; nval := 512; nplen := 120 |}; {| nver := 6; nval := 768; nplen := 121 |}; {| nver := 6; nval := 896; nplen := 122 |};
      {| nver := 6; nval := 960; nplen := 123 |}; {| nver := 6; nval := 992; nplen := 125 |}; {| nver := 6; nval := 1000; nplen := 128 |} ].
Proof.
  split; [|split; [|split]].
  - unfold code_example_ops. repeat constructor; try (vm_compute; congruence).
  - vm_compute. reflexivity.
  - vm_compute. reflexivity.
  - vm_compute. reflexivity.
Qed.
