(* Props/C20_src.v — source tie for C20: the Gallina definitions that harness/gen/pysrc.py regenerates on every run from the
   CURRENT text of netaddr/contrib/subnet_splitter.py (coq/Gen/pysrc_splitter_gen.v: src_SubnetSplitter_extract_subnet with
   its outer `for cidr in self.available_subnets()` loop _loop1 -- `continue`, `return subnets` from inside the loop -- and its
   inner `for extracted in cidr_merge(subnets)` loop _loop2 with the nested list comprehension over cidr_exclude;
   src_SubnetSplitter_available_subnets; src_SubnetSplitter_remove_subnet) are equal to the hand-written model
   Splitter.extract_subnet / exclude_each / available_subnets / remove_subnet that the theorems of Props/C20.v are about.
   The object state `self._subnets` (a Python set) is a list on both sides: IPNetwork objects in the generated code,
   (value, prefixlen) pairs of the family `ver` in the model; the equalities go through the model's representation function
   nets ver = map (net_of_cblk ver).  A stateful method takes the state first and returns the new state (with the returned
   value, if any).  Hypotheses, all of them consequences of the invariant Inv of Props/C20.v: the family exists (valid_ver),
   the available blocks are well formed (the early returns of the translated cidr_partition rebuild target.cidr through the
   range-checking constructor), their prefix lengths are pairwise distinct (Python's sorted is stable, the model's insertion
   sort is not; they agree when no two keys are equal).  IPNetwork.subnet and cidr_merge are not translated: they are the
   model's functions on both sides (Model/SrcPreludeSplitter.v).
   A source edit that changes one of the three methods changes the generated term and this theorem stops compiling.
   Nothing but the statement closed by `exact`, followed by Print Assumptions. *)
From NV Require Import Base.Tac Base.PyVal Model.Ip Model.Partition Model.Merge Model.Splitter Model.SrcPrelude
  Gen.pysrc_gen Gen.pysrc_partition_gen Gen.pysrc_splitter_gen Proofs.C09 Proofs.GenOk_Src_C09 Proofs.GenOk_Src_C20.
Import ListNotations.
Open Scope Z_scope.

Theorem C20_source_tie :
  (forall ver st prefix count, valid_ver ver = true -> Forall (wf_cblk (width ver)) st -> NoDup (map snd st) ->
     src_SubnetSplitter_extract_subnet (nets ver st) prefix count =
       omap (fun r => (nets ver (fst r), nets ver (snd r))) (extract_subnet ver st prefix count)) /\
  (forall ver st, NoDup (map snd st) ->
     src_SubnetSplitter_available_subnets (nets ver st) = nets ver (available_subnets st)) /\
  (forall ver st k,
     src_SubnetSplitter_remove_subnet (nets ver st) (net_of_cblk ver k) = omap (nets ver) (remove_subnet (width ver) st k)) /\
  (forall ver, valid_ver ver = true -> forall merged rem, Forall (wf_cblk (width ver)) rem ->
     src_SubnetSplitter_extract_subnet_loop2 (nets ver merged) (nets ver rem) =
       omap (nets ver) (exclude_each (width ver) rem merged)).
Proof. exact C20_tie_ok. Qed.
Print Assumptions C20_source_tie.

(* the generated definition computes: SubnetSplitter('10.0.0.0/24').extract_subnet(26, count=3) returns the first three /26
   and leaves 10.0.0.192/26 (the case of defect F-17) *)
Example C20_src_nonvacuous :
  src_SubnetSplitter_extract_subnet [ {| nver := 4; nval := 167772160; nplen := 24 |} ] 26 (Some 3) =
    Ok ([ {| nver := 4; nval := 167772352; nplen := 26 |} ],
        [ {| nver := 4; nval := 167772160; nplen := 26 |}; {| nver := 4; nval := 167772224; nplen := 26 |};
          {| nver := 4; nval := 167772288; nplen := 26 |} ]).
Proof. vm_compute. reflexivity. Qed.
