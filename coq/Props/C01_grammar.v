(* Props/C01_grammar.v — C01, clause "in strict (INET_PTON) mode exactly the standard dotted-quad and RFC 4291 strings
   are accepted, with their standard values", stated against an INDEPENDENT DECLARATIVE GRAMMAR.

   The grammar is PART 1 of Proofs/C01_Grammar.v (about 70 lines: inductive digit tables DecDigit/HexDigit, positional
   `Numeral`s, `dec_octet` = 1-3 decimal digits without leading zero and <= 255, `hextet` = 1-4 hex digits,
   `DottedQuad` = t1 ++ "." ++ t2 ++ "." ++ t3 ++ "." ++ t4, `Hextets` = h1:...:hk, `Groups` = groups whose last may be a
   dotted quad, `Rfc4291` = the full forms | P ++ "::" ++ Q with k + m <= 7 written groups).  It is written with `++`
   concatenations only and mentions no function of the executable model.  Strings are arbitrary character lists / ASCII
   `string`s: no bound on the length anywhere.

   Nothing but statements closed by `exact`, each followed by Print Assumptions, then non-vacuity examples. *)
From Coq Require Import ZArith List String Ascii Lia.
From NV Require Import Base.PyVal Base.PyStr Model.IpText Model.FbSocket Model.AddrText
  Proofs.C01_Grammar Proofs.C01_Grammar_V6 Proofs.C01_Grammar_Main.
Import ListNotations.
Open Scope Z_scope.

(* ---- (0) the token level: the model's field readers are the grammar's tokens ---- *)
Theorem C01_grammar_octet : forall t n, Std4.octet t = Some n <-> dec_octet t n.
Proof. exact octet_iff. Qed.
Print Assumptions C01_grammar_octet.

Theorem C01_grammar_hextet : forall t h, Std6.hextet t = Some h <-> hextet t h.
Proof. exact hextet_iff. Qed.
Print Assumptions C01_grammar_hextet.

(* ---- (1) the standard parsers (the oracles validated against glibc and `ipaddress` on every run) accept exactly the
   derivable strings, with exactly the derived octets / groups: for EVERY string ---- *)
Theorem C01_grammar_v4 : forall l q, Std4.pton4_chars l = Some q <-> DottedQuad l q.
Proof. exact grammar_v4. Qed.
Print Assumptions C01_grammar_v4.

Theorem C01_grammar_v6 : forall l g, Std6.pton6_chars l = Some g <-> Rfc4291 l g.
Proof. exact grammar_v6. Qed.
Print Assumptions C01_grammar_v6.

(* the grammar is unambiguous about the value: a string has at most one reading *)
Theorem C01_grammar_unique_v4 : forall l q q', DottedQuad l q -> DottedQuad l q' -> q = q'.
Proof. exact grammar_v4_unique. Qed.
Print Assumptions C01_grammar_unique_v4.

Theorem C01_grammar_unique_v6 : forall l g g', Rfc4291 l g -> Rfc4291 l g' -> g = g'.
Proof. exact grammar_v6_unique. Qed.
Print Assumptions C01_grammar_unique_v6.

(* ... and no string is both a dotted quad and an IPv6 text *)
Theorem C01_grammar_disjoint : forall l q g, DottedQuad l q -> Rfc4291 l g -> False.
Proof. exact DottedQuad_not_Rfc4291. Qed.
Print Assumptions C01_grammar_disjoint.

(* the standard values: four octets a.b.c.d |-> a*2^24 + b*2^16 + c*2^8 + d in [0, 2^32);
   eight 16-bit groups |-> the big-endian base-65536 number, in [0, 2^128) *)
Theorem C01_grammar_value_v4 : forall l q, DottedQuad l q ->
  exists a b c d, q = [a; b; c; d] /\ 0 <= a <= 255 /\ 0 <= b <= 255 /\ 0 <= c <= 255 /\ 0 <= d <= 255 /\
                  0 <= a * 2 ^ 24 + b * 2 ^ 16 + c * 2 ^ 8 + d < 2 ^ 32.
Proof. exact grammar_v4_value. Qed.
Print Assumptions C01_grammar_value_v4.

Theorem C01_grammar_value_v6 : forall l g, Rfc4291 l g ->
  exists g0 g1 g2 g3 g4 g5 g6 g7, g = [g0; g1; g2; g3; g4; g5; g6; g7] /\
    Forall (fun w => 0 <= w < 65536) g /\
    Std6.words_value g = g0 * 2 ^ 112 + g1 * 2 ^ 96 + g2 * 2 ^ 80 + g3 * 2 ^ 64 + g4 * 2 ^ 48 + g5 * 2 ^ 32 + g6 * 2 ^ 16 + g7 /\
    0 <= Std6.words_value g < 2 ^ 128.
Proof. exact grammar_v6_value. Qed.
Print Assumptions C01_grammar_value_v6.

(* the three text forms of RFC 4291 section 2.2 written out token by token:
   Form1 = x:x:x:x:x:x:x:x, Form3 = x:x:x:x:x:x:d.d.d.d, Form2 = P::Q (either side possibly empty, only Q may end in d.d.d.d) *)
Theorem C01_grammar_forms_v6 : forall l g, Rfc4291 l g <-> Form1 l g \/ Form3 l g \/ Form2 l g.
Proof. exact grammar_v6_forms. Qed.
Print Assumptions C01_grammar_forms_v6.

(* ---- (2) netaddr's own parsers.  Back-end level: inet_pton of either back-end — for Fallback this is the pure-Python
   netaddr.fbsocket.inet_pton — returns groups g iff the grammar derives the string with g, and raises otherwise ---- *)
Theorem C01_backend_accepts_exactly_rfc4291 : forall be s g, inet_pton6 be s = Ok g <-> Rfc4291 (chars s) g.
Proof. exact backend_pton6_grammar. Qed.
Print Assumptions C01_backend_accepts_exactly_rfc4291.

Theorem C01_backend_rejects_non_rfc4291 : forall be s, inet_pton6 be s = Raise ValueError <-> forall g, ~ Rfc4291 (chars s) g.
Proof. exact backend_pton6_reject. Qed.
Print Assumptions C01_backend_rejects_non_rfc4291.

Theorem C01_backend_accepts_exactly_dotted_quad : forall be s q, inet_pton4 be s = Ok q <-> DottedQuad (chars s) q.
Proof. exact backend_pton4_grammar. Qed.
Print Assumptions C01_backend_accepts_exactly_dotted_quad.

Theorem C01_backend_rejects_non_dotted_quad : forall be s, inet_pton4 be s = Raise ValueError <-> forall q, ~ DottedQuad (chars s) q.
Proof. exact backend_pton4_reject. Qed.
Print Assumptions C01_backend_rejects_non_dotted_quad.

Theorem C01_fallback_accepts_exactly_rfc4291 : forall s g, Fb.inet_pton6 s = Ok g <-> Rfc4291 (chars s) g.
Proof. exact fb_pton6_grammar. Qed.
Print Assumptions C01_fallback_accepts_exactly_rfc4291.

Theorem C01_fallback_accepts_exactly_dotted_quad : forall s q, Fb.inet_pton4 s = Ok q <-> DottedQuad (chars s) q.
Proof. exact fb_pton4_grammar. Qed.
Print Assumptions C01_fallback_accepts_exactly_dotted_quad.

(* ---- (3) strategy level: the strict parse of s (ipv6.str_to_int under any flags; ipv4.str_to_int with INET_PTON), under
   both back-ends, succeeds with value v iff the grammar derives s and v is the value of the derived groups / octets;
   every other string raises AddrFormatError ---- *)
Theorem C01_strict_accepts_exactly_rfc4291 : forall be s flags v,
  str_to_int be 6 s flags = Ok v <-> exists g, Rfc4291 (chars s) g /\ v = Std6.words_value g.
Proof. exact strict_rfc4291. Qed.
Print Assumptions C01_strict_accepts_exactly_rfc4291.

Theorem C01_strict_rejects_non_rfc4291 : forall be s flags,
  str_to_int be 6 s flags = Raise AddrFormatError <-> forall g, ~ Rfc4291 (chars s) g.
Proof. exact strict_rfc4291_reject. Qed.
Print Assumptions C01_strict_rejects_non_rfc4291.

Theorem C01_strict_accepts_exactly_dotted_quad : forall be s v,
  str_to_int be 4 s INET_PTON = Ok v <->
  exists a b c d, DottedQuad (chars s) [a; b; c; d] /\ v = a * 2 ^ 24 + b * 2 ^ 16 + c * 2 ^ 8 + d.
Proof. exact strict_dotted_quad. Qed.
Print Assumptions C01_strict_accepts_exactly_dotted_quad.

Theorem C01_strict_rejects_non_dotted_quad : forall be s,
  str_to_int be 4 s INET_PTON = Raise AddrFormatError <-> forall q, ~ DottedQuad (chars s) q.
Proof. exact strict_dotted_quad_reject. Qed.
Print Assumptions C01_strict_rejects_non_dotted_quad.

(* ---- (4) constructor level: IPAddress(s, version, flags=INET_PTON) with version in {None, 4, 6} returns (ver, value) iff
   one of the two grammars derives s with that value and ver is the grammar's family (and the requested one, if any);
   otherwise it raises AddrFormatError, or the documented ValueError when s contains '/' ---- *)
Theorem C01_strict_constructor_grammar : forall be s version r,
  version = None \/ version = Some 4 \/ version = Some 6 ->
  (init_str be s version INET_PTON = Ok r <->
   ((exists a b c d, DottedQuad (chars s) [a; b; c; d] /\ r = (4, a * 2 ^ 24 + b * 2 ^ 16 + c * 2 ^ 8 + d)) \/
    (exists g, Rfc4291 (chars s) g /\ r = (6, Std6.words_value g))) /\
   (version = None \/ version = Some (fst r))).
Proof. exact strict_constructor. Qed.
Print Assumptions C01_strict_constructor_grammar.

Theorem C01_strict_constructor_rejects : forall be s version,
  version = None \/ version = Some 4 \/ version = Some 6 ->
  (forall r, ~ (((exists a b c d, DottedQuad (chars s) [a; b; c; d] /\ r = (4, a * 2 ^ 24 + b * 2 ^ 16 + c * 2 ^ 8 + d)) \/
                 (exists g, Rfc4291 (chars s) g /\ r = (6, Std6.words_value g))) /\
                (version = None \/ version = Some (fst r)))) ->
  exists e, init_str be s version INET_PTON = Raise e /\
            (e = AddrFormatError \/ (e = ValueError /\ contains_char "/" s = true)).
Proof. exact strict_constructor_reject. Qed.
Print Assumptions C01_strict_constructor_rejects.

(* ================================================================ non-vacuity *)
(* derivations written by hand from the constructors of the grammar (no use of the equivalence) *)
Example C01_grammar_by_hand_v4 : DottedQuad (chars "10.0.255.7") [10; 0; 255; 7].
Proof.
  assert (N10 : dec_octet (chars "10") 10).
  { split; [exact (num_snoc DecDigit 10 _ _ _ _ (num_one DecDigit 10 _ _ dec_1) dec_0)|].
    split; [cbn; lia|]. split; [discriminate|lia]. }
  assert (N0 : dec_octet (chars "0") 0).
  { split; [exact (num_one DecDigit 10 _ _ dec_0)|]. split; [cbn; lia|]. split; [|lia]. intros r E. now injection E as <-. }
  assert (N255 : dec_octet (chars "255") 255).
  { split; [exact (num_snoc DecDigit 10 _ _ _ _ (num_snoc DecDigit 10 _ _ _ _ (num_one DecDigit 10 _ _ dec_2) dec_5) dec_5)|].
    split; [cbn; lia|]. split; [discriminate|lia]. }
  assert (N7 : dec_octet (chars "7") 7).
  { split; [exact (num_one DecDigit 10 _ _ dec_7)|]. split; [cbn; lia|]. split; [discriminate|lia]. }
  exact (dotted_quad _ _ _ _ _ _ _ _ N10 N0 N255 N7). Qed.

Example C01_grammar_by_hand_v6 : Rfc4291 (chars "fe80::1") [65152; 0; 0; 0; 0; 0; 0; 1].
Proof.
  assert (Hfe80 : hextet (chars "fe80") 65152).
  { split; [|cbn; lia].
    exact (num_snoc HexDigit 16 _ _ _ _ (num_snoc HexDigit 16 _ _ _ _ (num_snoc HexDigit 16 _ _ _ _
             (num_one HexDigit 16 _ _ hex_f) hex_e) (hex_dec _ _ dec_8)) (hex_dec _ _ dec_0)). }
  assert (H1 : hextet (chars "1") 1).
  { split; [|cbn; lia]. exact (num_one HexDigit 16 _ _ (hex_dec _ _ dec_1)). }
  exact (rfc_compressed (chars "fe80") [65152] (chars "1") [1]
           (or_intror (hextets_one _ _ Hfe80)) (or_intror (groups_hextets _ _ (hextets_one _ _ H1))) ltac:(cbn; lia)). Qed.

(* derivable strings and their groups (through the equivalence, by evaluation of the oracle) *)
Example C01_grammar_derives :
  Rfc4291 (chars "::ffff:1.2.3.4") [0; 0; 0; 0; 0; 65535; 258; 772] /\
  Rfc4291 (chars "1:2:3:4:5:6:7::") [1; 2; 3; 4; 5; 6; 7; 0] /\          (* "::" may stand for ONE group *)
  Rfc4291 (chars "::1:2:3:4:5:6:7") [0; 1; 2; 3; 4; 5; 6; 7] /\
  Rfc4291 (chars "::") [0; 0; 0; 0; 0; 0; 0; 0] /\
  Rfc4291 (chars "1::") [1; 0; 0; 0; 0; 0; 0; 0] /\
  Rfc4291 (chars "::1") [0; 0; 0; 0; 0; 0; 0; 1] /\
  Rfc4291 (chars "1:2:3:4:5:6:7:8") [1; 2; 3; 4; 5; 6; 7; 8] /\
  Rfc4291 (chars "1:2:3:4:5:6:1.2.3.4") [1; 2; 3; 4; 5; 6; 258; 772] /\
  Rfc4291 (chars "1:2:3:4:5::1.2.3.4") [1; 2; 3; 4; 5; 0; 258; 772] /\
  Rfc4291 (chars "0000:00A:a::") [0; 10; 10; 0; 0; 0; 0; 0] /\           (* leading zeros, either case *)
  DottedQuad (chars "255.255.255.255") [255; 255; 255; 255] /\
  DottedQuad (chars "0.0.0.0") [0; 0; 0; 0].
Proof. repeat split; first [apply grammar_v6|apply grammar_v4]; vm_compute; reflexivity. Qed.

(* strings the grammar does not derive (through the equivalence) *)
Example C01_grammar_refuses : forall s,
  In s [":::"; ""; ":"; "1"; ":1:2:3:4:5:6:7:8"; "1:2:3:4:5:6:7:8:"; "1:2:3:4:5:6:7:"; "::1:"; ":1::";
        "1:2:3:4:5:6:7:8::"; "1:2:3:4:5:6:7::8"; "1:2:3:4::5:6:7:8"; "1::2::3"; "1:::2"; "::::";
        "1.2.3.4::"; "1.2.3.4::1"; "::1.2.3.4:5"; "1:2:3:4:5:6:7:1.2.3.4"; "1:2:3:4:5:6::1.2.3.4"; "1:2:3:4:5:1.2.3.4";
        "12345::"; "::g"; ":: 1"; "::+1"; "::1 "; "::1%eth0"; "::01.2.3.4"; "::1.2.3.256"; "::1.2.3"; "1.2.3.4"; "::1/128"]%string ->
  forall g, ~ Rfc4291 (chars s) g.
Proof. intros s Hin g H. apply grammar_v6 in H.
  repeat (destruct Hin as [<-|Hin]; [vm_compute in H; discriminate H|]). destruct Hin. Qed.

Example C01_grammar_refuses_v4 : forall s,
  In s ["01.2.3.4"; "00.0.0.0"; "256.1.1.1"; "1.2.3"; "1.2.3.4.5"; "1..3.4"; ".1.2.3"; "1.2.3.4."; "1234.1.1.1"; "";
        "1.2.3.a"; "1.2.3.4 "; " 1.2.3.4"; "+1.2.3.4"; "1.2.3.0x4"; "1.2.3.09"; "1_0.2.3.4"; "::1.2.3.4"]%string ->
  forall q, ~ DottedQuad (chars s) q.
Proof. intros s Hin q H. apply grammar_v4 in H.
  repeat (destruct Hin as [<-|Hin]; [vm_compute in H; discriminate H|]). destruct Hin. Qed.

(* the property-level theorems at concrete inputs, both back-ends *)
Example C01_grammar_nonvacuous :
  init_str Fallback "::ffff:1.2.3.4" None INET_PTON = Ok (6, 281470698652420) /\
  init_str Platform "::ffff:1.2.3.4" (Some 6) INET_PTON = Ok (6, 281470698652420) /\
  init_str Fallback "1.2.3.4" None INET_PTON = Ok (4, 16909060) /\
  init_str Fallback "1.2.3.4" (Some 6) INET_PTON = Raise AddrFormatError /\
  init_str Fallback ":::" None INET_PTON = Raise AddrFormatError /\
  Std6.words_value [0; 0; 0; 0; 0; 65535; 258; 772] = 281470698652420.
Proof. repeat split; vm_compute; reflexivity. Qed.
