(* Props/C07_ops.v — property C07, part A: the IPSet operators &, -, ^, | (and update with a set) and isdisjoint agree
   with plain set theory on (version, address) pairs.  Nothing but statements closed by `exact`, each followed by
   Print Assumptions.
   Vocabulary (Proofs/NetDen.v): `den d ver x` = address x of family ver lies in some stored block of the dict d;
   `SetInv d` = the order-free invariant of a stored dict (blocks well formed and host-bit-free, pairwise disjoint,
   no two of them siblings), which holds after every history (C06).  The specifications of iprange_to_cidrs and
   cidr_merge used by -, ^ and | are the C05 theorems C05_range / C05_merge (instantiated: no hypotheses remain).
   `= Ok d` includes: no exception, and the loop fuel `len a + len b + 1` is never exhausted.
   Operand immutability: the model is functional — `a` and `b` are values, an operator cannot change them; the
   harness checks on the implementation that both operands print the same before and after every operator. *)
From Coq Require Import Sorting.Sorted Sorting.Permutation.
From NV Require Import Base.Tac Base.PyVal Base.Canon Model.Ip Model.Merge Model.Sets Proofs.C02 Proofs.NetDen
  Proofs.C07_sweeps Proofs.C07_sweeps_inter Proofs.C07_sweeps_ranges Proofs.C07_sweeps_xor Proofs.C07_sweeps_diff
  Proofs.C07_sweeps_union Proofs.C07_sweeps_closed.
Open Scope Z_scope.

(* A & B: never raises; the result is again a valid stored dict and denotes the intersection *)
Theorem C07_inter : forall a b, SetInv a -> SetInv b ->
  exists d, set_intersection a b = Ok d /\ SetInv d /\
    forall ver x, den d ver x <-> den a ver x /\ den b ver x.
Proof. exact set_intersection_den. Qed.
Print Assumptions C07_inter.

(* ... and consists of stored blocks of A or B *)
Theorem C07_inter_blocks : forall a b, SetInv a -> SetInv b ->
  exists r, set_intersection a b = Ok r /\ SetInv r /\
    (forall ver x, den r ver x <-> den a ver x /\ den b ver x) /\
    (forall n, In n r -> In n a \/ In n b).
Proof. exact set_intersection_spec. Qed.
Print Assumptions C07_inter_blocks.

(* A - B *)
Theorem C07_diff : forall a b, SetInv a -> SetInv b ->
  exists d, set_difference a b = Ok d /\ SetInv d /\
    forall ver x, den d ver x <-> den a ver x /\ ~ den b ver x.
Proof. exact set_difference_closed. Qed.
Print Assumptions C07_diff.

(* A ^ B *)
Theorem C07_xor : forall a b, SetInv a -> SetInv b ->
  exists d, set_symdiff a b = Ok d /\ SetInv d /\
    forall ver x, den d ver x <-> (den a ver x /\ ~ den b ver x) \/ (den b ver x /\ ~ den a ver x).
Proof. exact set_symdiff_closed. Qed.
Print Assumptions C07_xor.

(* A | B (copy of A updated with B): the canonical list of the union *)
Theorem C07_union : forall a b, SetInv a -> SetInv b ->
  exists d, set_union a b = Ok d /\ SetInv d /\ canon_nets d /\
    forall ver x, den d ver x <-> den a ver x \/ den b ver x.
Proof. exact set_union_closed. Qed.
Print Assumptions C07_union.

(* A.update(B) with B an IPSet: the same set, in place *)
Theorem C07_update_set : forall a b, SetInv a -> SetInv b ->
  exists d, set_update a (ASet b) = Ok d /\ SetInv d /\ canon_nets d /\
    forall ver x, den d ver x <-> den a ver x \/ den b ver x.
Proof. exact set_update_set_closed. Qed.
Print Assumptions C07_update_set.

(* the same three statements relative to ANY proof of the C05 specifications (how they were obtained) *)
Theorem C07_diff_rel : iprange_to_cidrs_spec -> forall a b, SetInv a -> SetInv b ->
  exists r, set_difference a b = Ok r /\ SetInv r /\
    forall ver x, den r ver x <-> den a ver x /\ ~ den b ver x.
Proof. exact set_difference_spec. Qed.
Print Assumptions C07_diff_rel.

Theorem C07_xor_rel : iprange_to_cidrs_spec -> forall a b, SetInv a -> SetInv b ->
  exists r, set_symdiff a b = Ok r /\ SetInv r /\
    forall ver x, den r ver x <-> (den a ver x /\ ~ den b ver x) \/ (den b ver x /\ ~ den a ver x).
Proof. exact set_symdiff_spec. Qed.
Print Assumptions C07_xor_rel.

(* A.isdisjoint(B): never raises, True exactly when no address lies in both *)
Theorem C07_isdisjoint : forall a b, SetInv a -> SetInv b ->
  exists r, set_isdisjoint a b = Ok r /\ (r = true <-> ~ exists ver x, den a ver x /\ den b ver x).
Proof. exact set_isdisjoint_spec. Qed.
Print Assumptions C07_isdisjoint.

(* the pieces: the sorted key list of a valid dict is strictly ascending (IPv4 first) and pairwise disjoint *)
Theorem C07_sorted_keys : forall d, SetInv d ->
  Permutation (sorted d) d /\ Forall wfh (sorted d) /\ StronglySorted nbelow (sorted d).
Proof. exact s_sorted_spec. Qed.
Print Assumptions C07_sorted_keys.

(* _subtract(supernet, subnets[idx:], ranges): consumes the maximal non-empty prefix of subnets lying inside the
   supernet, appends exactly the gaps of the supernet they leave, ascending, and leaves the cursor on blocks that
   lie entirely after the supernet *)
Theorem C07_subtract : forall super sub S' ranges, wfh super -> Good (sub :: S') -> ninside sub super ->
  exists ins rest G, sub :: S' = (sub :: ins) ++ rest /\
    subtract super (sub :: S') ranges = Ok (rest, ranges ++ G) /\
    (forall n, In n (sub :: ins) -> ninside n super) /\
    (forall t, In t rest -> nbelow super t) /\
    Forall (rng_in super) G /\ StronglySorted rbelow G /\
    (forall ver x, rden G ver x <-> in_net super ver x /\ ~ den (sub :: ins) ver x).
Proof. exact subtract_spec. Qed.
Print Assumptions C07_subtract.

(* _iter_merged_ranges on ascending non-overlapping ranges: same addresses, and afterwards consecutive ranges of one
   family are separated by at least one address *)
Theorem C07_merged_ranges : forall l, RAsc l ->
  RSep (iter_merged_ranges l) /\ forall ver x, rden (iter_merged_ranges l) ver x <-> rden l ver x.
Proof. exact iter_merged_ranges_spec. Qed.
Print Assumptions C07_merged_ranges.

(* non-vacuity: A = {10.0.0.0/24}, B = {::/127, 10.0.0.64/26} (stored in that order) satisfy the hypotheses, and the
   operators give the expected blocks *)
Example C07_ops_nonvacuous :
  let a := [{| nver := 4; nval := 167772160; nplen := 24 |}] in
  let b := [{| nver := 6; nval := 0; nplen := 127 |}; {| nver := 4; nval := 167772224; nplen := 26 |}] in
  SetInv a /\ SetInv b /\
  set_intersection a b = Ok [{| nver := 4; nval := 167772224; nplen := 26 |}] /\
  set_difference a b = Ok [{| nver := 4; nval := 167772160; nplen := 26 |}; {| nver := 4; nval := 167772288; nplen := 25 |}] /\
  set_symdiff a b = Ok [{| nver := 4; nval := 167772160; nplen := 26 |}; {| nver := 4; nval := 167772288; nplen := 25 |};
                        {| nver := 6; nval := 0; nplen := 127 |}] /\
  set_union a b = Ok [{| nver := 4; nval := 167772160; nplen := 24 |}; {| nver := 6; nval := 0; nplen := 127 |}] /\
  set_isdisjoint a b = Ok false.
Proof.
  assert (W: forall n, In n [{| nver := 4; nval := 167772160; nplen := 24 |}; {| nver := 6; nval := 0; nplen := 127 |};
                             {| nver := 4; nval := 167772224; nplen := 26 |}] -> wfh n).
  { intros n [<-|[<-|[<-|[]]]]; (split; [vm_compute; repeat split; try reflexivity; discriminate|vm_compute; reflexivity]). }
  cbv zeta. split; [apply SetInv_single, W; now left|].
  split; [apply SetInv_pair; [apply W; right; now left|apply W; right; right; now left|cbn [nver]; lia]|].
  repeat split; vm_compute; reflexivity.
Qed.
