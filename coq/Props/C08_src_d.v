(* Props/C08_src_d.v — source tie for C08, fourth part (tag SRCF): the parsers.  The Gallina definitions that harness/gen/pysrc.py
   regenerates on every run from the CURRENT text of valid_str / str_to_int of netaddr/strategy/eui48.py and of
   _get_match_result / valid_str / str_to_int of netaddr/strategy/eui64.py (coq/Gen/pysrc_eui48b_gen.v, pysrc_eui64b_gen.v) are equal
   to Model/Eui.v valid_str, str_to_int_48, str_to_int_64, first_match -- the functions the theorems of Props/C08.v
   (C08_roundtrip, C08_spellings_grouped, C08_spellings_bare) are about.
   Reading: RE_MAC_FORMATS / RE_EUI64_FORMATS are the hand-compiled matchers mac_pats / eui64_pats (Proofs/GenOk_C08.v pins them to the
   regenerated pattern strings); `regexp.findall(addr)` = match_pat (None = [], Some groups = [groups]); the groups of a match are
   a tuple of text or, for a one-group pattern, that text (py_is_tuple / py_group_str); everything around it is translated: the
   loop over the patterns with its break / return, the `try .. except TypeError` forms, the word-count cases, int(w, 16),
   '%.<k>x' % n, ''.join(..), int(.., 16).  The argument is text (`_is_str(addr)` is decided by that; the TypeError branch of
   eui48.str_to_int for other arguments is not generated).
   No hypothesis.  Nothing but the statement closed by `exact`, followed by Print Assumptions. *)
From Coq Require Import String Ascii.
From NV Require Import Base.Tac Base.PyVal Base.PyStr Model.Ip Model.Eui Model.SrcPrelude Model.SrcPreludeStr
  Model.SrcPreludeEui Model.SrcPreludeEui2 Gen.pysrc_eui48b_gen Gen.pysrc_eui64b_gen Proofs.GenOk_Src_C08_d.
Import ListNotations.
Open Scope Z_scope.

Theorem C08_source_tie_d :
  (forall s, src_eui48_valid_str s = Eui.valid_str 48 s /\ src_eui64_valid_str s = Ok (Eui.valid_str 64 s)) /\
  (forall s, src_eui48_str_to_int s = str_to_int_48 (BStr s) /\ src_eui64_str_to_int s = str_to_int_64 (BStr s)) /\
  (forall s ps, src_eui64__get_match_result s ps = Ok (first_match ps (chars s))) /\
  (forall s ps fm ws, src_eui48_str_to_int_loop1 s ps fm ws =
                      Ok (match first_match ps (chars s) with Some g => (true, g) | None => (fm, ws) end)).
Proof. exact C08_tie_d_ok. Qed.
Print Assumptions C08_source_tie_d.

(* the generated parsers compute *)
Example C08_src_d_nonvacuous :
  src_eui48_str_to_int "00-1B-77-49-54-FD" = Ok 117965411581 /\ src_eui48_str_to_int "001b.7749.54fd" = Ok 117965411581 /\
  src_eui48_str_to_int "1b774954fd0" = Ok 1887446585296 /\ src_eui48_str_to_int "00-1B-77-49-54" = Raise AddrFormatError /\
  src_eui64_str_to_int "00:1b:77:ff:fe:49:54:fd" = Ok 7731765737772285 /\ src_eui64_str_to_int "001B77FFFE4954F" = Raise AddrFormatError /\
  src_eui48_valid_str "0:1b:77:49:54:fd" = true /\ src_eui64_valid_str "0:1b:77:49:54:fd" = Ok false.
Proof. repeat split; vm_compute; reflexivity. Qed.
