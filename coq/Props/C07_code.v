(* Props/C07_code.v — CODC: property C07 (IPSet algebra and queries agree with plain set theory on addresses) stated DIRECTLY
   about the Gallina definitions that harness/gen/pysrc.py regenerates on every run from the CURRENT text of netaddr/ip/sets.py
   (coq/Gen/pysrc_sets_gen.v: the queries; pysrc_sets_ops_gen.v: _subtract, _iter_merged_ranges and the sweeps & - ^ isdisjoint
   iter_ipranges; pysrc_sets_mut_gen.v: | and update(IPSet)).  Each theorem is the theorem of the same name in Props/C07_ops.v /
   C07.v (the query theorems of Props/C07_queries.v are in Props/C07_code_queries.v, checked together with this file) with every model function replaced by the generated definition; what coqc re-checks on every run is
   "the property holds of what the code says now".
   SHAPES.  An IPSet object is its dict `_cidrs` = the insertion-ordered list of its IPNetwork keys (`list net`), the leading
   parameter of every generated method.  Methods that can raise return an `outcome`; where the model function is a plain bool
   (set_contains, set_issubset, set_lt, set_iscontiguous, ...) the statement here says `= Ok b` (the generated code does not
   raise) and characterises b.  A range is (version, first, last).
   HYPOTHESES.  Exactly those of the model theorems (SetInv of the operands = what C06 establishes after every history; wf_net of
   a queried network).  The ties' own hypotheses -- 0 <= prefixlen where the supernet walk starts, well-formed keys for iprange
   (IPNetwork.__getitem__ and the range-checking IPAddress constructor), valid ranges for _iter_merged_ranges, SetInv for
   - ^ iter_ipranges -- are all implied by them (Proofs/Code_C07.v: SetInv_plen_ok, q_inv_wf, rvalid_rok): nothing is added.
   C07_subtract_of_source is stated for a call at any index k with subnets[k:] = sub :: S' (the model walks the suffix).
   CLAUSES STILL ABOUT THE MODEL.  The dict operations, sorted() / `<` on IPNetwork objects, list indexing, sum, IPRange(a, b),
   previous() / next() and cidr_merge enter the generated code as prelude symbols (Model/SrcPreludeSets.v = the small
   definitions of Model/Sets.v resp. the hand models of the untranslated callees; cidr_merge is tied by C05_source_tie_merge);
   iprange_to_cidrs, IPNetwork.__contains__, supernet(), .cidr are the generated definitions.  IPSet.__iter__ (iteration over
   single addresses), __repr__, __hash__ are not translated: C07_iter_order_of_source speaks of iter_cidrs(), which they chain.
   The histories of C07_operands_reachable_of_source / C07_reachable_algebra_of_source are run by src_ostep (Proofs/Code_C06.v,
   spelled out by C06_code_vocabulary in Props/C06_code.v): the register machine of Props/C06.v with every operation that has a
   generated definition dispatched to it (flags = any integer, the same for the whole history); add / remove of an int or an
   IPAddress, iterables containing such elements and update(None) go through the hand model.
   Nothing but statements closed by `exact`, each followed by Print Assumptions. *)
From Coq Require Import Sorting.Sorted Sorting.Permutation.
From NV Require Import Base.Tac Base.PyVal Base.Canon Model.Ip Model.Merge Model.Sets Model.SrcPrelude Model.SrcPreludeSets
  Gen.pysrc_gen Gen.pysrc_sets_gen Gen.pysrc_sets_ops_gen Gen.pysrc_sets_mut_gen
  Proofs.C02 Proofs.NetDen Proofs.C06_inv Proofs.C06_bulk
  Proofs.C07_sweeps Proofs.C07_sweeps_ranges Proofs.C07_queries Proofs.GenOk_Src_C07_ops Proofs.Code_C07 Proofs.Code_C06.
From NV Require Import Extract.Cmd_Sets.
Import ListNotations.
Open Scope Z_scope.

(* A & B as generated (two-cursor sweep over own_nets[own_idx] / other_nets[other_idx]): never raises; a valid stored dict denoting the intersection *)
Theorem C07_inter_of_source : forall a b, SetInv a -> SetInv b ->
  exists d, src_IPSet_intersection a b = Ok d /\ SetInv d /\
    forall ver x, den d ver x <-> den a ver x /\ den b ver x.
Proof. exact inter_of_source. Qed.
Print Assumptions C07_inter_of_source.

(* ... and consists of stored blocks of A or B *)
Theorem C07_inter_blocks_of_source : forall a b, SetInv a -> SetInv b ->
  exists r, src_IPSet_intersection a b = Ok r /\ SetInv r /\
    (forall ver x, den r ver x <-> den a ver x /\ den b ver x) /\
    (forall n, In n r -> In n a \/ In n b).
Proof. exact inter_blocks_of_source. Qed.
Print Assumptions C07_inter_blocks_of_source.

(* A - B as generated (sweep with _subtract, _iter_merged_ranges, iprange_to_cidrs) *)
Theorem C07_diff_of_source : forall a b, SetInv a -> SetInv b ->
  exists d, src_IPSet_difference a b = Ok d /\ SetInv d /\
    forall ver x, den d ver x <-> den a ver x /\ ~ den b ver x.
Proof. exact diff_of_source. Qed.
Print Assumptions C07_diff_of_source.

(* A ^ B as generated *)
Theorem C07_xor_of_source : forall a b, SetInv a -> SetInv b ->
  exists d, src_IPSet_symmetric_difference a b = Ok d /\ SetInv d /\
    forall ver x, den d ver x <-> (den a ver x /\ ~ den b ver x) \/ (den b ver x /\ ~ den a ver x).
Proof. exact xor_of_source. Qed.
Print Assumptions C07_xor_of_source.

(* A | B as generated (copy of A updated with B): the canonical list of the union *)
Theorem C07_union_of_source : forall a b, SetInv a -> SetInv b ->
  exists d, src_IPSet_union a b = Ok d /\ SetInv d /\ canon_nets d /\
    forall ver x, den d ver x <-> den a ver x \/ den b ver x.
Proof. exact union_of_source. Qed.
Print Assumptions C07_union_of_source.

(* A.update(B) with B an IPSet, as generated (any flags) *)
Theorem C07_update_set_of_source : forall a b flags, SetInv a -> SetInv b ->
  exists d, src_IPSet_update_ipset a b flags = Ok d /\ SetInv d /\ canon_nets d /\
    forall ver x, den d ver x <-> den a ver x \/ den b ver x.
Proof. exact update_set_of_source. Qed.
Print Assumptions C07_update_set_of_source.

(* the same two statements relative to ANY proof of the C05 specification *)
Theorem C07_diff_rel_of_source : iprange_to_cidrs_spec -> forall a b, SetInv a -> SetInv b ->
  exists r, src_IPSet_difference a b = Ok r /\ SetInv r /\
    forall ver x, den r ver x <-> den a ver x /\ ~ den b ver x.
Proof. exact diff_rel_of_source. Qed.
Print Assumptions C07_diff_rel_of_source.

Theorem C07_xor_rel_of_source : iprange_to_cidrs_spec -> forall a b, SetInv a -> SetInv b ->
  exists r, src_IPSet_symmetric_difference a b = Ok r /\ SetInv r /\
    forall ver x, den r ver x <-> (den a ver x /\ ~ den b ver x) \/ (den b ver x /\ ~ den a ver x).
Proof. exact xor_rel_of_source. Qed.
Print Assumptions C07_xor_rel_of_source.

(* A.isdisjoint(B) as generated: never raises, True exactly when no address lies in both *)
Theorem C07_isdisjoint_of_source : forall a b, SetInv a -> SetInv b ->
  exists r, src_IPSet_isdisjoint a b = Ok r /\ (r = true <-> ~ exists ver x, den a ver x /\ den b ver x).
Proof. exact isdisjoint_of_source. Qed.
Print Assumptions C07_isdisjoint_of_source.

(* iter_cidrs() as generated = sorted(self._cidrs): strictly ascending (IPv4 first), pairwise disjoint *)
Theorem C07_sorted_keys_of_source : forall d, SetInv d ->
  Permutation (src_IPSet_iter_cidrs d) d /\ Forall wfh (src_IPSet_iter_cidrs d) /\
  StronglySorted nbelow (src_IPSet_iter_cidrs d).
Proof. exact sorted_keys_of_source. Qed.
Print Assumptions C07_sorted_keys_of_source.

(* _subtract(supernet, subnets, subnet_idx, ranges) as generated -- index-driven, the out-parameter list returned with the
   new index: started at an index k where subnets[k:] = sub :: S', it consumes the maximal non-empty run of subnets inside the
   supernet (the returned index is k + their number), appends exactly the gaps they leave, ascending *)
Theorem C07_subtract_of_source : forall super L k sub S' ranges, skipn k L = sub :: S' ->
  wfh super -> Good (sub :: S') -> ninside sub super ->
  exists ins rest G, sub :: S' = (sub :: ins) ++ rest /\
    src_sets_subtract super L (Z.of_nat k) ranges = Ok (ranges ++ G, Z.of_nat (k + length (sub :: ins))) /\
    (forall n, In n (sub :: ins) -> ninside n super) /\
    (forall t, In t rest -> nbelow super t) /\
    Forall (rng_in super) G /\ StronglySorted rbelow G /\
    (forall ver x, rden G ver x <-> in_net super ver x /\ ~ den (sub :: ins) ver x).
Proof. exact subtract_of_source. Qed.
Print Assumptions C07_subtract_of_source.

(* _iter_merged_ranges as generated (the generator read as the list of what it yields, each range a pair of (version, int)
   addresses = pair_of): on ascending non-overlapping ranges it never raises, keeps the addresses, and separates consecutive
   ranges of one family by at least one address *)
Theorem C07_merged_ranges_of_source : forall l, RAsc l ->
  exists m, src_sets_iter_merged_ranges l = Ok (map pair_of m) /\
    RSep m /\ forall ver x, rden m ver x <-> rden l ver x.
Proof. exact merged_ranges_of_source. Qed.
Print Assumptions C07_merged_ranges_of_source.

(* ---- the operands may be ANY two sets reachable by ANY history run by the generated code ---- *)
Theorem C07_operands_reachable_of_source : forall flags ops r, Forall wf_op ops ->
  SetInv (get (fold_left (src_ostep flags) ops regs0) r).
Proof. exact operands_reachable_of_source. Qed.
Print Assumptions C07_operands_reachable_of_source.

Theorem C07_reachable_algebra_of_source : forall flags ops r1 r2, Forall wf_op ops ->
  let a := get (fold_left (src_ostep flags) ops regs0) r1 in
  let b := get (fold_left (src_ostep flags) ops regs0) r2 in
  (exists d, src_IPSet_intersection a b = Ok d /\ SetInv d /\ forall ver x, den d ver x <-> den a ver x /\ den b ver x) /\
  (exists d, src_IPSet_difference a b = Ok d /\ SetInv d /\ forall ver x, den d ver x <-> den a ver x /\ ~ den b ver x) /\
  (exists d, src_IPSet_symmetric_difference a b = Ok d /\ SetInv d /\
     forall ver x, den d ver x <-> (den a ver x /\ ~ den b ver x) \/ (den b ver x /\ ~ den a ver x)) /\
  (exists d, src_IPSet_union a b = Ok d /\ SetInv d /\ forall ver x, den d ver x <-> den a ver x \/ den b ver x).
Proof. exact reachable_algebra_of_source. Qed.
Print Assumptions C07_reachable_algebra_of_source.

(* non-vacuity: the operands of C07_ops_nonvacuous -- A = {10.0.0.0/24}, B = {::/127, 10.0.0.64/26} (stored in that order) --
   evaluated by the GENERATED methods *)
Example C07_code_nonvacuous :
  let a := [{| nver := 4; nval := 167772160; nplen := 24 |}] in
  let b := [{| nver := 6; nval := 0; nplen := 127 |}; {| nver := 4; nval := 167772224; nplen := 26 |}] in
  src_IPSet_intersection a b = Ok [{| nver := 4; nval := 167772224; nplen := 26 |}] /\
  src_IPSet_difference a b = Ok [{| nver := 4; nval := 167772160; nplen := 26 |}; {| nver := 4; nval := 167772288; nplen := 25 |}] /\
  src_IPSet_symmetric_difference a b = Ok [{| nver := 4; nval := 167772160; nplen := 26 |}; {| nver := 4; nval := 167772288; nplen := 25 |};
                                            {| nver := 6; nval := 0; nplen := 127 |}] /\
  src_IPSet_union a b = Ok [{| nver := 4; nval := 167772160; nplen := 24 |}; {| nver := 6; nval := 0; nplen := 127 |}] /\
  src_IPSet_isdisjoint a b = Ok false.
Proof. cbv zeta. repeat split; vm_compute; reflexivity. Qed.
