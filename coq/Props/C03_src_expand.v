(* Props/C03_src_expand.v — source tie for C03 (SRCC): the Gallina definition that harness/gen/pysrc.py regenerates on every run from the
   CURRENT text of netaddr/strategy/ipv4.py expand_partial_address (coq/Gen/pysrc_ipv4_gen.v) is equal to the hand-written model
   NetText.expand_partial_address that the theorems of Props/C03.v use (for a `str` argument: isinstance(addr, _str_type) is
   decided by the declared type; int(o) is Base/PyStr.py_int, '%d' % n is fmt_d, the `except ValueError: raise error` is
   py_except, '%s.%s.%s.%s' % tuple(tokens) tests the length: TypeError).  No hypotheses.  The other parsers of C03
   (parse_ip_network, cidr_abbrev_to_verbose, IPNetwork.__init__) are tied in Props/C03_src.v.
   Nothing but the statement closed by `exact`, followed by Print Assumptions. *)
From Coq Require Import String.
From NV Require Import Base.PyVal Model.SrcPrelude Model.SrcPreludeText Gen.pysrc_ipv4_gen Proofs.GenOk_Src_C01_text.
From NV Require Model.NetText.

Theorem C03_source_tie_expand : forall s, src_ipv4_expand_partial_address s = NetText.expand_partial_address s.
Proof. exact src_ipv4_expand_partial_address_ok. Qed.
Print Assumptions C03_source_tie_expand.

Example C03_src_expand_nonvacuous :
  src_ipv4_expand_partial_address "10"%string = Ok "10.0.0.0"%string /\
  src_ipv4_expand_partial_address "1.2.3.4.5"%string = Raise AddrFormatError /\
  src_ipv4_expand_partial_address "a.b"%string = Raise AddrFormatError.
Proof. repeat split; vm_compute; reflexivity. Qed.
