(* Props/C07_src_g.v -- source tie for C07 / C06, tag SRCG: the definitions regenerated on every run from the CURRENT text of the four
   methods of IPSet (netaddr/ip/sets.py) that were not yet translated (coq/Gen/pysrc_sets_g_gen.v); with them every function of
   sets.py is source-tied.  Reading: the state `_cidrs` is the list of its keys (as for the other sets units);
   `itertools.chain` applied to the unpacked `sorted(self._cidrs)` is the list of what the iterator yields: the addresses of the sorted blocks, block after
   block (SrcPreludeG.py_flat_addrs; iterating one IPNetwork is the hand model net_addrs, property C10); __reduce__ answers
   (class, (), state) -- class and empty argument tuple are constants, the definition is the state component --; `'IPSet(%r)' % l`
   uses Python's repr of a list of str (py_repr_strlist, Unsupported for an item that would need escaping).
   Sets.v has no counterpart for __iter__, __hash__, __repr__: stated directly.  No hypothesis. *)
From Coq Require Import String Ascii.
From NV Require Import Base.Tac Base.PyVal Base.PyStr Model.Ip Model.Sets Model.AddrText Model.NetText Model.UniqueIps Model.SrcPreludeG
  Gen.pysrc_sets_g_gen Proofs.GenOk_Src_C06_state Proofs.GenOk_Src_C07_g.
Import ListNotations.
Open Scope list_scope.
Open Scope Z_scope.

Theorem C07_source_tie_g :
  (forall d, src_IPSet_iter d = flat_map net_addrs (sorted d)) /\
  (forall d, src_IPSet_hash d = Raise TypeError) /\
  (forall d, src_IPSet_reduce d = map state_list (set_getstate d)) /\
  (forall be d, src_IPSet_repr be d =
     (do l <- py_map_og (net_str be) (sorted d); do r <- py_repr_strlist l; Ok ("IPSet(" ++ r ++ ")")%string)).
Proof. exact C07_tie_g_ok. Qed.
Print Assumptions C07_source_tie_g.

Example C07_src_g_nonvacuous :
  src_IPSet_repr Fallback [ {| nver := 4; nval := 3221225984; nplen := 31 |}; {| nver := 4; nval := 167772160; nplen := 8 |} ]
    = Ok "IPSet(['10.0.0.0/8', '192.0.2.0/31'])"%string /\
  src_IPSet_iter [ {| nver := 4; nval := 3221225984; nplen := 31 |}; {| nver := 4; nval := 167772160; nplen := 32 |} ]
    = [(4, 167772160); (4, 3221225984); (4, 3221225985)].
Proof. split; vm_compute; reflexivity. Qed.
