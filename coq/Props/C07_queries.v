(* Props/C07_queries.v — property C07, part B: the QUERIES of an IPSet agree with plain set theory on addresses.
   Nothing but statements closed by `exact`, each followed by Print Assumptions, and one non-vacuity Example.
   Vocabulary (Proofs/NetDen.v): `den d ver x` = address (ver, x) lies in some stored block of the dict d;
   `in_net n ver x` = same version and first(n) <= x <= last(n); `SetInv d` = the order-free invariant of a stored
   dict (keys well formed and host-bit-free, pairwise non-overlapping, no two sibling halves), which Proofs/C06*
   establish after every history.  q_rv / q_rs / q_re are the three components (version, first, last) of a range. *)
From Coq Require Import Sorting.Sorted Sorting.Permutation.
From NV Require Import Base.Tac Base.PyVal Model.Ip Model.Merge Model.Sets Proofs.C02 Proofs.NetDen Proofs.C07_queries.
Open Scope Z_scope.

(* `net in s` (IPSet.__contains__, the supernet walk): True exactly when the whole block lies in the set; the queried
   network may carry host bits *)
Theorem C07_contains : forall d n, SetInv d -> wf_net n ->
  (set_contains d n = true <-> forall x, in_net n (nver n) x -> den d (nver n) x).
Proof. exact C07q_contains. Qed.
Print Assumptions C07_contains.

(* `ip in s` *)
Theorem C07_contains_addr : forall d ver v, SetInv d -> valid_ver ver = true -> 0 <= v < 2 ^ width ver ->
  (set_contains d (addr_net ver v) = true <-> den d ver v).
Proof. exact C07q_contains_addr. Qed.
Print Assumptions C07_contains_addr.

(* issubset / <= and issuperset / >= are inclusion of the denoted sets *)
Theorem C07_subset : forall a b, SetInv a -> SetInv b ->
  (set_issubset a b = true <-> forall ver x, den a ver x -> den b ver x) /\
  (set_issuperset a b = true <-> forall ver x, den b ver x -> den a ver x).
Proof. exact C07q_subset. Qed.
Print Assumptions C07_subset.

(* size = sum of the block sizes; non-negative; 0 exactly for the empty set *)
Theorem C07_size : forall d, SetInv d ->
  set_size d = fold_right (fun k acc => 2 ^ (width (nver k) - nplen k) + acc) 0 d /\
  0 <= set_size d /\
  (set_size d = 0 <-> forall ver x, ~ den d ver x).
Proof. exact C07q_size. Qed.
Print Assumptions C07_size.

(* size is the cardinality of the denoted set: monotone under inclusion, and among comparable sets equal sizes
   mean equal sets; in particular it depends on the denoted set only *)
Theorem C07_size_card : forall a b, SetInv a -> SetInv b -> (forall ver x, den a ver x -> den b ver x) ->
  set_size a <= set_size b /\ (set_size a = set_size b <-> forall ver x, den b ver x -> den a ver x).
Proof. exact C07q_size_card. Qed.
Print Assumptions C07_size_card.

Theorem C07_size_ext : forall a b, SetInv a -> SetInv b -> (forall ver x, den a ver x <-> den b ver x) ->
  set_size a = set_size b.
Proof. exact C07q_size_ext. Qed.
Print Assumptions C07_size_ext.

(* a < b is proper inclusion, a > b its converse *)
Theorem C07_order : forall a b, SetInv a -> SetInv b ->
  (set_lt a b = true <->
   (forall ver x, den a ver x -> den b ver x) /\ ~ (forall ver x, den b ver x -> den a ver x)) /\
  (set_gt a b = true <->
   (forall ver x, den b ver x -> den a ver x) /\ ~ (forall ver x, den a ver x -> den b ver x)).
Proof. exact C07q_order. Qed.
Print Assumptions C07_order.

(* == (equality of the key dicts) is equality of the denoted sets *)
Theorem C07_eq : forall a b, SetInv a -> SetInv b ->
  (dict_eqb a b = true <-> forall ver x, den a ver x <-> den b ver x).
Proof. exact C07q_eq. Qed.
Print Assumptions C07_eq.

(* len(): the size, or IndexError above sys.maxsize = 2^63 - 1 *)
Theorem C07_len : forall d,
  (set_size d <= 2 ^ 63 - 1 -> set_len d = Ok (set_size d)) /\
  (2 ^ 63 - 1 < set_size d -> set_len d = Raise IndexError).
Proof. exact C07q_len. Qed.
Print Assumptions C07_len.

(* iter_ipranges(): every emitted (v, s, e) is a non-empty interval inside the set that can be extended on neither
   side (maximal); the list ascends by (version, start), IPv4 first, consecutive ranges of one family are separated
   by at least one missing address; the union is the set *)
Theorem C07_ranges : forall d, SetInv d ->
  (forall v s e, In (v, s, e) (set_iter_ipranges d) ->
     s <= e /\ (forall x, s <= x <= e -> den d v x) /\ ~ den d v (s - 1) /\ ~ den d v (e + 1)) /\
  StronglySorted (fun r r' => q_rv r < q_rv r' \/ (q_rv r = q_rv r' /\ q_re r + 1 < q_rs r')) (set_iter_ipranges d) /\
  (forall ver x, den d ver x <-> exists s e, In (ver, s, e) (set_iter_ipranges d) /\ s <= x <= e).
Proof. exact C07q_ranges. Qed.
Print Assumptions C07_ranges.

(* iscontiguous() (a bool in the model: no exception path exists): True exactly for the empty set or one interval
   of one family *)
Theorem C07_contiguous : forall d, SetInv d ->
  (set_iscontiguous d = true <->
   (forall v x, ~ den d v x) \/ exists ver s e, forall v x, den d v x <-> v = ver /\ s <= x <= e).
Proof. exact C07q_contiguous. Qed.
Print Assumptions C07_contiguous.

(* iprange(): None for the empty set, that interval when contiguous, ValueError otherwise; no other exception (the
   version check and the start <= end check of the IPRange constructor cannot fail) *)
Theorem C07_iprange : forall d, SetInv d ->
  match set_iprange d with
  | Ok None => forall v x, ~ den d v x
  | Ok (Some (ver, s, e)) => s <= e /\ forall v x, den d v x <-> v = ver /\ s <= x <= e
  | Raise ValueError =>
      ~ ((forall v x, ~ den d v x) \/ exists ver s e, forall v x, den d v x <-> v = ver /\ s <= x <= e)
  | Raise _ => False
  end.
Proof. exact C07q_iprange. Qed.
Print Assumptions C07_iprange.

Theorem C07_iprange_total : forall d, SetInv d ->
  (set_iscontiguous d = true -> exists o, set_iprange d = Ok o) /\
  (set_iscontiguous d = false -> set_iprange d = Raise ValueError).
Proof. exact C07q_iprange_total. Qed.
Print Assumptions C07_iprange_total.

(* iteration (__iter__ / iter_cidrs chain the sorted blocks): sorted() permutes the keys, every block ends before
   every later one starts, IPv4 before IPv6 — so addresses come out strictly ascending within IPv4, then IPv6 *)
Theorem C07_iter_order : forall d, SetInv d ->
  Permutation (sorted d) d /\
  StronglySorted (fun k1 k2 => nver k1 < nver k2 \/ (nver k1 = nver k2 /\ nl k1 < nf k2)) (sorted d) /\
  (forall l1 k1 k2 l2, sorted d = l1 ++ k1 :: k2 :: l2 -> nver k1 < nver k2 \/ (nver k1 = nver k2 /\ nl k1 < nf k2)).
Proof. exact C07q_iter_order. Qed.
Print Assumptions C07_iter_order.

(* non-vacuity: a mixed-family set touching the top IPv4 address — 10.0.0.0/25, 10.0.0.192/26, ::/127,
   255.255.255.254/31 — satisfies SetInv; 10.0.0.205/29 (host bits) is inside, 10.0.0.128 is not *)
Example C07_queries_example :
  SetInv q_ex /\
  set_contains q_ex {| nver := 4; nval := 167772365; nplen := 29 |} = true /\
  set_contains q_ex {| nver := 4; nval := 167772288; nplen := 32 |} = false /\
  set_iter_ipranges q_ex =
    [(4, 167772160, 167772287); (4, 167772352, 167772415); (4, 4294967294, 4294967295); (6, 0, 1)] /\
  set_iscontiguous q_ex = false /\ set_iprange q_ex = Raise ValueError /\
  set_size q_ex = 196 /\ set_len q_ex = Ok 196 /\
  set_lt [ {| nver := 6; nval := 0; nplen := 127 |} ] q_ex = true.
Proof. exact C07q_example. Qed.
