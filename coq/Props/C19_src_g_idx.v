(* Props/C19_src_g_idx.v -- source tie for C19, tag SRCG, third part: the Gallina definition that harness/gen/pysrc.py regenerates on
   every run from the CURRENT text of load_index of netaddr/eui/ieee.py (coq/Gen/pysrc_ieeeg_gen.v) against the hand model
   Model/IeeeIndex.v load_rows (added with this tie: a fold of `index.setdefault(key, []); index[key].append((offset, size))` over the
   rows, int() of every field, ValueError unless a row has three fields).
   Reading: the index dict (changed in place) is a parameter and the result; the file is the list of its lines; csv.reader over the
   decoded lines is the Section variable CSV_READER (csv.Error / UnicodeDecodeError not modelled); `finally: fp.close()` is dropped.
   Second statement: loading into an index without empty entries (e.g. the `{}` the module starts with) gives an index without empty
   entries -- the hypothesis of C19_source_tie_g_eui.  Third: what an entry is after one more row.
   No hypothesis.  Nothing but the statement closed by `exact`, followed by Print Assumptions. *)
From Coq Require Import String Ascii.
From NV Require Import Base.Tac Base.PyVal Base.PyStr Model.SrcPrelude Model.SrcPreludeG Model.IeeeIndex Gen.pysrc_ieeeg_gen
  Proofs.GenOk_Src_C19_g_idx.
Import ListNotations.
Open Scope list_scope.
Open Scope Z_scope.

Theorem C19_source_tie_g_idx :
  (forall CSV index fp, src_ieee_load_index CSV index fp = load_rows index (CSV fp)) /\
  (forall CSV index fp index', no_empty index -> src_ieee_load_index CSV index fp = Ok index' -> no_empty index') /\
  (forall index key row k, py_eidx_find (index_add index key row) k =
     if k =? key then Some (match py_eidx_find index key with Some l => l | None => [] end ++ [row]) else py_eidx_find index k).
Proof. exact C19_tie_g_idx_ok. Qed.
Print Assumptions C19_source_tie_g_idx.

Definition demo_csv (lines : list string) : list (list string) := map (fun l => PyStr.split "," l) lines.

Example C19_src_g_idx_nonvacuous :
  src_ieee_load_index demo_csv [] ["1,0,10"; "2,10,5"; "1,15,7"]%string = Ok [(1, [(0, 10); (15, 7)]); (2, [(10, 5)])] /\
  src_ieee_load_index demo_csv [] ["1,0"]%string = Raise ValueError /\ src_ieee_load_index demo_csv [] ["1,x,3"]%string = Raise ValueError.
Proof. repeat split; vm_compute; reflexivity. Qed.
