(* Props/C02.v — property C02: every network's derived attributes satisfy the CIDR bit identities.
   Nothing but statements closed by `exact`, each followed by Print Assumptions. *)
From NV Require Import Base.Tac Base.PyVal Base.Bits Model.Ip Proofs.C02.
Open Scope Z_scope.

(* All attribute identities, for any width w >= 0 (instantiated at 32 and 128 by `width`). *)
Theorem C02_identities : forall w v p, 0 <= p <= w -> 0 <= v < 2 ^ w ->
  let H := 2 ^ (w - p) in
  let first := v - v mod H in
  net_hostmask w p = H - 1 /\
  net_netmask w p = 2 ^ w - 1 - (H - 1) /\
  net_network w v p = first /\
  net_network w v p = Z.land v (net_netmask w p) /\
  net_first w v p = first /\
  net_last w v p = first + (H - 1) /\
  net_size w v p = H /\
  net_size w v p = net_last w v p - net_first w v p + 1 /\
  net_ip v = v /\
  net_cidr w v p = (first, p) /\
  first mod H = 0 /\ 0 <= first /\ first + (H - 1) <= 2 ^ w - 1.
Proof. exact identities_w. Qed.
Print Assumptions C02_identities.

Theorem C02_broadcast : forall ver v p, valid_ver ver = true -> 0 <= p <= width ver -> 0 <= v < 2 ^ width ver ->
  net_broadcast ver v p = if (ver =? 4) && (31 <=? p) then None else Some (net_last (width ver) v p).
Proof. exact broadcast_eq. Qed.
Print Assumptions C02_broadcast.

Theorem C02_is_hostmask : forall w x, 0 <= w -> 0 <= x < 2 ^ w ->
  (is_hostmask x = true <-> exists p, 0 <= p <= w /\ x = 2 ^ (w - p) - 1).
Proof. exact is_hostmask_iff. Qed.
Print Assumptions C02_is_hostmask.

Theorem C02_is_netmask : forall w x, 0 <= w -> 0 <= x < 2 ^ w ->
  (is_netmask w x = true <-> exists p, 0 <= p <= w /\ x = 2 ^ w - 2 ^ (w - p)).
Proof. exact is_netmask_iff. Qed.
Print Assumptions C02_is_netmask.

Theorem C02_netmask_bits_inverts : forall w p, 0 <= p <= w -> netmask_bits w (2 ^ w - 2 ^ (w - p)) = Ok p.
Proof. exact netmask_bits_of_prefix. Qed.
Print Assumptions C02_netmask_bits_inverts.

Theorem C02_netmask_bits_other : forall w x, is_netmask w x = false -> netmask_bits w x = Ok w.
Proof. exact netmask_bits_not_mask. Qed.
Print Assumptions C02_netmask_bits_other.

Theorem C02_netmask_bits_terminates : forall w x, 0 <= w -> 0 <= x < 2 ^ w -> netmask_bits w x <> Raise OutOfFuel.
Proof. exact netmask_bits_no_fuel. Qed.
Print Assumptions C02_netmask_bits_terminates.

(* setters: success keeps the object well formed and changes only the addressed field;
   failure raises one of the three documented classes (and apply_setop leaves the object as it was) *)
Theorem C02_set_value : forall n a, wf_net n ->
  match set_value n a with
  | Ok n' => wf_net n' /\ nver n' = nver n /\ nplen n' = nplen n /\ a = SInt (nval n')
  | Raise e => setter_exn e
  end.
Proof. exact set_value_spec. Qed.
Print Assumptions C02_set_value.

Theorem C02_set_prefixlen : forall n a, wf_net n ->
  match set_prefixlen n a with
  | Ok n' => wf_net n' /\ nver n' = nver n /\ nval n' = nval n /\ a = SInt (nplen n')
  | Raise e => setter_exn e
  end.
Proof. exact set_prefixlen_spec. Qed.
Print Assumptions C02_set_prefixlen.

Theorem C02_set_netmask : forall n a, wf_net n ->
  match set_netmask n a with
  | Ok n' => wf_net n' /\ nver n' = nver n /\ nval n' = nval n /\
             (forall ver m, (a = SAddr ver m \/ (a = SInt m /\ addr_of_int m = Ok (ver, m))) ->
                ver = nver n /\ 0 <= m < 2 ^ width ver ->
                m = 2 ^ width ver - 2 ^ (width ver - nplen n'))
  | Raise e => setter_exn e
  end.
Proof. exact set_netmask_spec. Qed.
Print Assumptions C02_set_netmask.

Theorem C02_setter_step : forall n o, wf_net n -> wf_net (fst (apply_setop n o)) /\
  match snd (apply_setop n o) with Some e => setter_exn e /\ fst (apply_setop n o) = n | None => True end.
Proof. exact apply_setop_wf. Qed.
Print Assumptions C02_setter_step.

(* every setter sequence on a live object keeps it well formed, hence the identities keep holding *)
Theorem C02_history : forall ops n, wf_net n -> wf_net (fold_left (fun s o => fst (apply_setop s o)) ops n).
Proof. exact setops_history. Qed.
Print Assumptions C02_history.

Theorem C02_tables : forall w i, 0 <= i <= w ->
  assoc i (prefix_to_netmask_tab w) = Some (Z.lxor (max_int_w w) (2 ^ (w - i) - 1)) /\
  assoc i (prefix_to_hostmask_tab w) = Some (2 ^ (w - i) - 1).
Proof. exact tab_nth. Qed.
Print Assumptions C02_tables.

(* non-vacuity: a concrete network meets the hypotheses *)
Example C02_nonvacuous : wf_net {| nver := 4; nval := 3232235777; nplen := 24 |} /\
  net_first 32 3232235777 24 = 3232235776 /\ net_last 32 3232235777 24 = 3232236031.
Proof. unfold wf_net; cbn. repeat split; try lia; reflexivity. Qed.
