(* Props/C14_code.v — property C14, CODE-LEVEL: the theorems of Props/C14.v stated directly about the definitions that
   harness/gen/pysrc.py regenerates on every run from the CURRENT text of netaddr/ip/__init__.py:
     src_IPAddress_add / _sub / _rsub / _iadd / _isub / _or / _and / _xor / _lshift / _rshift
     src_IPAddress_int / _index / _nonzero                                     (Gen/pysrc_gen.v)
     src_IPAddress_init_int, src_IPAddress_init_copy                           (Gen/pysrc_ctor_gen.v: __init__ on an int / an IPAddress)
     src_IPAddress_hex                                                         (Gen/pysrc_ipviews_gen.v: __hex__)
   A source edit that changes one of them changes the generated term and these theorems stop compiling (with the ties
   C14_source_tie, C14_source_tie_ctor, and C15_source_tie_views for __hex__).
   A generated method takes the receiver's state (ver, w, v) = (version, width, _value) first; a result object is the
   pair (version, value); the in-place forms answer the value assigned to self._value and AddrOps.inplace ver v reads that
   as (what the name is bound to | exception, receiver afterwards).  Vocabulary of Proofs/C14.v: checked / ochecked /
   ichecked (exact result iff it is in range, else the given exception; receiver unchanged on failure).
   code_operand_int o = `int(other)` of the bitwise forms, through the generated __int__ for an address operand.
   Hypotheses: those of Props/C14.v (version 4 or 6 at object level).  The ties add nothing.
   Clauses still about the model:
     * __radd__ (an alias `__radd__ = __add__` in the class body, not a function: SKIP table) — the obj_radd clauses of
       C14_arith / C14_no_wrap are not repeated;
     * the width-level forms of add / sub / rsub / or / and / xor / shifts (C14_arith_w, C14_bitwise_w, C14_bitwise_total_w):
       the code has no width-level function for them (each rebuilds its result through the constructor); they are covered
       by the object-level theorems below.  C14_bitwise_bits is a fact about Z and mentions no function.
   Nothing but statements closed by `exact`, each followed by Print Assumptions. *)
From Coq Require Import String Ascii.
From NV Require Import Base.Tac Base.PyVal Base.Bits Model.Ip Model.AddrOps
  Gen.pysrc_gen Gen.pysrc_ctor_gen Gen.pysrc_ipviews_gen Proofs.C02 Proofs.C14 Proofs.Code_C14.
Import ListNotations.
Open Scope Z_scope.

(* ---- the in-place forms at integer level, any width ---- *)
Theorem C14_arith_w_of_source : forall ver w v n,
  checked w (v + n) IndexError (src_IPAddress_iadd ver w v n) /\
  checked w (v - n) IndexError (src_IPAddress_isub ver w v n).
Proof. exact code_arith_w. Qed.
Print Assumptions C14_arith_w_of_source.

(* ---- the constructor from an integer, with and without a version (any flags); the copy constructor ---- *)
Theorem C14_ctor_of_source : forall i flags,
  (0 <= i < 2 ^ 32 -> src_IPAddress_init_int i None flags = Ok (4, i)) /\
  (2 ^ 32 <= i < 2 ^ 128 -> src_IPAddress_init_int i None flags = Ok (6, i)) /\
  (i < 0 \/ 2 ^ 128 <= i -> src_IPAddress_init_int i None flags = Raise AddrFormatError) /\
  (forall ver, valid_ver ver = true -> ochecked ver i AddrFormatError (src_IPAddress_init_int i (Some ver) flags)) /\
  (forall ver, valid_ver ver = false -> src_IPAddress_init_int i (Some ver) flags = Raise ValueError).
Proof. exact code_ctor_int_spec. Qed.
Print Assumptions C14_ctor_of_source.

Theorem C14_copy_of_source : forall ver v version flags,
  ((version = None \/ version = Some ver) -> src_IPAddress_init_copy (ver, v) version flags = Ok (ver, v)) /\
  (forall ver', version = Some ver' -> ver' <> ver -> src_IPAddress_init_copy (ver, v) version flags = Raise ValueError).
Proof. exact code_ctor_copy_spec. Qed.
Print Assumptions C14_copy_of_source.

(* ---- object level (version 4 or 6) ---- *)
Theorem C14_arith_of_source : forall ver v n, valid_ver ver = true ->
  let w := width ver in
  ochecked ver (v + n) IndexError (src_IPAddress_add ver w v n) /\
  ochecked ver (v - n) IndexError (src_IPAddress_sub ver w v n) /\
  ochecked ver (n - v) IndexError (src_IPAddress_rsub ver w v n) /\
  ichecked ver v (v + n) IndexError (inplace ver v (src_IPAddress_iadd ver w v n)) /\
  ichecked ver v (v - n) IndexError (inplace ver v (src_IPAddress_isub ver w v n)).
Proof. exact code_obj_arith. Qed.
Print Assumptions C14_arith_of_source.

Theorem C14_bitwise_of_source : forall ver v o n, valid_ver ver = true ->
  let w := width ver in
  ochecked ver (Z.lor v (code_operand_int o)) AddrFormatError (src_IPAddress_or ver w v (code_operand_int o)) /\
  ochecked ver (Z.land v (code_operand_int o)) AddrFormatError (src_IPAddress_and ver w v (code_operand_int o)) /\
  ochecked ver (Z.lxor v (code_operand_int o)) AddrFormatError (src_IPAddress_xor ver w v (code_operand_int o)) /\
  (0 <= n -> ochecked ver (v * 2 ^ n) AddrFormatError (src_IPAddress_lshift ver w v n)) /\
  (0 <= n -> ochecked ver (v / 2 ^ n) AddrFormatError (src_IPAddress_rshift ver w v n)) /\
  (n < 0 -> src_IPAddress_lshift ver w v n = Raise ValueError /\ src_IPAddress_rshift ver w v n = Raise ValueError).
Proof. exact code_obj_bitwise. Qed.
Print Assumptions C14_bitwise_of_source.

(* int(other): an int operand is itself, an address operand is its value *)
Theorem C14_operand_of_source : forall o, code_operand_int o = match o with OInt n => n | OAddr _ v => v end.
Proof. exact code_operand_int_spec. Qed.
Print Assumptions C14_operand_of_source.

Theorem C14_bitwise_total_of_source : forall ver v o n, valid_ver ver = true -> 0 <= v < 2 ^ width ver ->
  let w := width ver in
  (0 <= code_operand_int o < 2 ^ width ver ->
     src_IPAddress_or ver w v (code_operand_int o) = Ok (ver, Z.lor v (code_operand_int o)) /\
     src_IPAddress_xor ver w v (code_operand_int o) = Ok (ver, Z.lxor v (code_operand_int o))) /\
  src_IPAddress_and ver w v (code_operand_int o) = Ok (ver, Z.land v (code_operand_int o)) /\
  (0 <= n -> src_IPAddress_rshift ver w v n = Ok (ver, v / 2 ^ n)).
Proof. exact code_obj_bitwise_total. Qed.
Print Assumptions C14_bitwise_total_of_source.

(* ---- no operation yields an out-of-range value or another version (no hypothesis on the inputs) ---- *)
Theorem C14_no_wrap_of_source : forall ver v n o a b,
  let w := width ver in
  src_IPAddress_add ver w v n = Ok (a, b) \/ src_IPAddress_sub ver w v n = Ok (a, b) \/
  src_IPAddress_rsub ver w v n = Ok (a, b) \/ src_IPAddress_or ver w v (code_operand_int o) = Ok (a, b) \/
  src_IPAddress_and ver w v (code_operand_int o) = Ok (a, b) \/
  src_IPAddress_xor ver w v (code_operand_int o) = Ok (a, b) \/ src_IPAddress_lshift ver w v n = Ok (a, b) \/
  src_IPAddress_rshift ver w v n = Ok (a, b) \/
  fst (inplace ver v (src_IPAddress_iadd ver w v n)) = Ok (a, b) \/
  fst (inplace ver v (src_IPAddress_isub ver w v n)) = Ok (a, b) ->
  a = ver /\ 0 <= b < 2 ^ width ver.
Proof. exact code_no_wrap. Qed.
Print Assumptions C14_no_wrap_of_source.

Theorem C14_ctor_no_wrap_of_source : forall i version flags a b, src_IPAddress_init_int i version flags = Ok (a, b) ->
  b = i /\ (a = 4 \/ a = 6) /\ 0 <= b < 2 ^ width a /\ (forall ver, version = Some ver -> a = ver) /\
  (version = None -> (a = 4 <-> i < 2 ^ 32)).
Proof. exact code_ctor_no_wrap. Qed.
Print Assumptions C14_ctor_no_wrap_of_source.

(* ---- views ---- *)
Theorem C14_views_of_source : forall ver w v, 0 <= v ->
  src_IPAddress_int ver w v = v /\ src_IPAddress_index ver w v = v /\ (src_IPAddress_nonzero ver w v = true <-> v <> 0) /\
  exists ds, src_IPAddress_hex ver w v = Ok (String "0" (String "x" (string_of_list_ascii (map hex_digit ds)))) /\
             Forall is_digit ds /\ eval16 ds = v /\
             eval16 (map hex_val (list_ascii_of_string (string_of_list_ascii (map hex_digit ds)))) = v /\
             ((v = 0 /\ ds = [0]) \/ (v <> 0 /\ exists d t, ds = d :: t /\ d <> 0)).
Proof. exact code_views_spec. Qed.
Print Assumptions C14_views_of_source.

(* non-vacuity: the generated definitions compute on both sides of the boundary, both families *)
Example C14_code_nonvacuous :
  valid_ver 4 = true /\ valid_ver 6 = true /\
  src_IPAddress_add 4 32 4294967294 1 = Ok (4, 4294967295) /\ src_IPAddress_add 4 32 4294967295 1 = Raise IndexError /\
  src_IPAddress_rsub 6 128 5 4 = Raise IndexError /\ src_IPAddress_or 4 32 1 4294967296 = Raise AddrFormatError /\
  src_IPAddress_xor 6 128 5 (code_operand_int (OAddr 4 5)) = Ok (6, 0) /\
  src_IPAddress_lshift 4 32 1 32 = Raise AddrFormatError /\
  inplace 4 0 (src_IPAddress_iadd 4 32 0 (-1)) = (Raise IndexError, (4, 0)) /\
  src_IPAddress_init_int 4294967296 None 0 = Ok (6, 4294967296) /\
  src_IPAddress_init_int 4294967296 (Some 4) 0 = Raise AddrFormatError /\
  src_IPAddress_hex 4 32 255 = Ok "0xff"%string.
Proof. vm_compute. repeat split; reflexivity. Qed.
