(* Props/C18_code.v — CODC: property C18 (address classification follows the published special-purpose blocks exactly) stated
   DIRECTLY about the Gallina definitions that harness/gen/pysrc.py regenerates on every run from the CURRENT text of
   BaseIP.is_multicast / is_unicast / is_loopback / is_link_local / is_private / is_reserved (netaddr/ip/__init__.py;
   coq/Gen/pysrc_classify_gen.v, one copy per receiver class: src_IPAddress_is_* (ver w v), src_IPNetwork_is_* (ver w v p),
   src_IPRange_is_* (ver w s e), with the four `for cidr in TABLE` loops and `return True` inside; src_contains_row = `self in T`
   through the translated __contains__ of the row's class).  The block tables IPV4_PRIVATE, IPV4_LINK_LOCAL, ... are DATA
   regenerated from the working tree by harness/gen/classify.py (Gen/classify_gen.v) and read by the generated predicates by
   name; `spec p ver` / `maxblocks p ver` (Model/Classify.v) are the hand-transcribed published / documented blocks.
   Each theorem is the theorem of the same name in Props/C18.v with the model predicate replaced by the generated one.
   SHAPES.  src_is_multicast o, ..., src_is_reserved o (o : ipobj = OAddr ver v | ONet ver v p | ORange ver s e): the generated
   predicate of o's class applied to o's state with w = width ver; src_holds p o: its truth value (is_multicast / is_loopback /
   is_link_local may return None = false); operand_of o: o as the generated __contains__ receives it.  All are spelled out by
   C18_code_vocabulary.  The generated predicates live in `outcome`: `= Ok b` includes "does not raise".
   HYPOTHESES.  Those of the model theorems (valid family; wf_obj o = valid family and, for a network, value and prefixlen in
   range).  ONE ADDITION, a finding about the tie: C18_unicast (model) needs only a valid family, C18_unicast_of_source also
   needs plen_le_width o (prefixlen <= width for an IPNetwork receiver): the translated IPRange.__contains__ / IPNetwork.__contains__
   carry CPython's negative-shift ValueError for 2 ** (width - prefixlen), which the model's net_last does not; no IPNetwork
   object with prefixlen > width can be constructed, and wf_obj implies it (so C18_blocks_of_source, C18_contains_row_of_source
   add nothing).
   CLAUSES STILL ABOUT THE MODEL.  C18_classify_tables_ok / C18_classify_rows_ok are finite checks of the regenerated DATA against
   the hand-transcribed blocks, evaluated through the model's `holds` (re-evaluating them through the generated code would be
   a heavy vm_compute); C18_blocks_any_tables is generic in the tables, while the generated code reads the tables of the
   working tree only -- its instance C18_blocks_of_source is what is restated.  IPAddress / IPNetwork / IPRange constructors are
   not part of these predicates (classification never depends on how the object was constructed: the predicates read the
   object's state only, which is what the generated signatures say).
   Nothing but statements closed by `exact`, each followed by Print Assumptions. *)
From NV Require Import Base.Tac Base.PyVal Base.Bits Model.Ip Model.Classify Model.ClassifyGen Model.SrcPrelude
  Gen.classify_gen Gen.pysrc_gen Gen.pysrc_classify_gen
  Proofs.C02 Proofs.C18_lift Proofs.C18 Proofs.GenOk_C18 Proofs.Code_C18.
Import ListNotations.
Open Scope Z_scope.

(* every address of either family (every integer v): each generated predicate of an IPAddress returns (never raises) exactly
   membership in its published blocks; unicast is the negation of multicast; link-local addresses are private.  `w` (the
   receiver's `_module.width`, not read by these predicates) is arbitrary *)
Theorem C18_address_of_source : forall ver w v, valid_ver ver = true ->
  src_IPAddress_is_multicast ver w v = Ok (Some (mem (spec Multicast ver) v)) /\
  src_IPAddress_is_unicast ver w v = Ok (negb (mem (spec Multicast ver) v)) /\
  src_IPAddress_is_loopback ver w v = Ok (Some (mem (spec Loopback ver) v)) /\
  src_IPAddress_is_link_local ver w v = Ok (Some (mem (spec LinkLocal ver) v)) /\
  src_IPAddress_is_private ver w v = Ok (mem (spec Private ver) v) /\
  src_IPAddress_is_reserved ver w v = Ok (mem (spec Reserved ver) v) /\
  (mem (spec LinkLocal ver) v = true -> mem (spec Private ver) v = true).
Proof. exact address_of_source. Qed.
Print Assumptions C18_address_of_source.

(* is_unicast as generated is the exact negation of is_multicast (which returns a bool) for addresses, networks, ranges *)
Theorem C18_unicast_of_source : forall o, valid_ver (over o) = true -> plen_le_width o ->
  exists b, src_is_multicast o = Ok (Some b) /\ src_is_unicast o = Ok (negb b).
Proof. exact unicast_of_source. Qed.
Print Assumptions C18_unicast_of_source.

(* each generated predicate is constant (true) across each maximal block, false at both outside neighbours, true nowhere else,
   and its value changes between x and x+1 exactly at first-1|first and last|last+1 of the blocks *)
Theorem C18_flip_of_source : forall p ver, valid_ver ver = true ->
  let f := fun x => src_holds p (Classify.OAddr ver x) in
  (forall b, In b (maxblocks p ver) ->
     0 <= fst b <= snd b /\ snd b <= 2 ^ width ver - 1 /\
     (forall x, fst b <= x <= snd b -> f x = Ok true) /\ f (fst b - 1) = Ok false /\ f (snd b + 1) = Ok false) /\
  (forall x, f x = Ok true -> exists b, In b (maxblocks p ver) /\ fst b <= x <= snd b) /\
  (forall x, f x <> f (x + 1) <-> exists b, In b (maxblocks p ver) /\ (x + 1 = fst b \/ x = snd b)).
Proof. exact flip_of_source. Qed.
Print Assumptions C18_flip_of_source.

(* `self in row` as generated (the translated __contains__ of the row's class): iff same family and [first, last] of the object
   lies inside [first, last] of the row *)
Theorem C18_contains_row_of_source : forall r o, wf_row r -> wf_obj o ->
  (src_contains_row r (operand_of o) = Ok true <->
   rver r = over o /\ row_first r <= obj_first o /\ obj_last o <= row_last r).
Proof. exact contains_row_of_source. Qed.
Print Assumptions C18_contains_row_of_source.

(* over the tables of the working tree: a generated predicate holds for an address / network / range iff the whole object lies
   inside a single DOCUMENTED block *)
Theorem C18_blocks_of_source : forall p o, wf_obj o ->
  (src_holds p o = Ok true <->
   exists b, In b (spec p (over o)) /\ fst b <= obj_first o /\ obj_last o <= snd b).
Proof. exact blocks_of_source. Qed.
Print Assumptions C18_blocks_of_source.

(* none of the generated predicates raises *)
Theorem C18_total_of_source : forall p o, plen_le_width o -> exists b, src_holds p o = Ok b.
Proof. exact total_of_source. Qed.
Print Assumptions C18_total_of_source.

(* ---- the vocabulary added here is what the header says ---- *)
Theorem C18_code_vocabulary : forall p o ver v pl s e,
  src_is_multicast (Classify.OAddr ver v) = src_IPAddress_is_multicast ver (width ver) v /\
  src_is_multicast (Classify.ONet ver v pl) = src_IPNetwork_is_multicast ver (width ver) v pl /\
  src_is_multicast (Classify.ORange ver s e) = src_IPRange_is_multicast ver (width ver) s e /\
  src_is_unicast (Classify.OAddr ver v) = src_IPAddress_is_unicast ver (width ver) v /\
  src_is_unicast (Classify.ONet ver v pl) = src_IPNetwork_is_unicast ver (width ver) v pl /\
  src_is_unicast (Classify.ORange ver s e) = src_IPRange_is_unicast ver (width ver) s e /\
  src_is_loopback (Classify.OAddr ver v) = src_IPAddress_is_loopback ver (width ver) v /\
  src_is_loopback (Classify.ONet ver v pl) = src_IPNetwork_is_loopback ver (width ver) v pl /\
  src_is_loopback (Classify.ORange ver s e) = src_IPRange_is_loopback ver (width ver) s e /\
  src_is_link_local (Classify.OAddr ver v) = src_IPAddress_is_link_local ver (width ver) v /\
  src_is_link_local (Classify.ONet ver v pl) = src_IPNetwork_is_link_local ver (width ver) v pl /\
  src_is_link_local (Classify.ORange ver s e) = src_IPRange_is_link_local ver (width ver) s e /\
  src_is_private (Classify.OAddr ver v) = src_IPAddress_is_private ver (width ver) v /\
  src_is_private (Classify.ONet ver v pl) = src_IPNetwork_is_private ver (width ver) v pl /\
  src_is_private (Classify.ORange ver s e) = src_IPRange_is_private ver (width ver) s e /\
  src_is_reserved (Classify.OAddr ver v) = src_IPAddress_is_reserved ver (width ver) v /\
  src_is_reserved (Classify.ONet ver v pl) = src_IPNetwork_is_reserved ver (width ver) v pl /\
  src_is_reserved (Classify.ORange ver s e) = src_IPRange_is_reserved ver (width ver) s e /\
  src_holds p o =
    match p with
    | Multicast => match src_is_multicast o with Ok r => Ok (match r with Some b => b | None => false end) | Raise x => Raise x end
    | Loopback => match src_is_loopback o with Ok r => Ok (match r with Some b => b | None => false end) | Raise x => Raise x end
    | LinkLocal => match src_is_link_local o with Ok r => Ok (match r with Some b => b | None => false end) | Raise x => Raise x end
    | Private => src_is_private o
    | Reserved => src_is_reserved o
    end /\
  (plen_le_width o <-> match o with Classify.ONet ver' _ p' => p' <= width ver' | _ => True end) /\
  (wf_obj o -> plen_le_width o).
Proof. exact code_vocabulary. Qed.
Print Assumptions C18_code_vocabulary.

(* non-vacuity (the cases of C18_nonvacuous, evaluated by the GENERATED predicates): 239.0.0.0/8 (an IPRange row; the F-04
   witness) is private as a network, 239.0.0.0/7 is not, and the answer flips at 10.0.0.0 - 1 | 10.0.0.0 *)
Example C18_code_nonvacuous :
  wf_obj (Classify.ONet 4 (ip4 239 0 0 0) 8) /\ src_holds Private (Classify.ONet 4 (ip4 239 0 0 0) 8) = Ok true /\
  src_holds Private (Classify.ONet 4 (ip4 238 0 0 0) 7) = Ok false /\
  src_holds Private (Classify.OAddr 4 (ip4 10 0 0 0 - 1)) = Ok false /\ src_holds Private (Classify.OAddr 4 (ip4 10 0 0 0)) = Ok true /\
  src_holds Private (Classify.OAddr 6 (hx6 0xfe80)) = Ok true /\ src_holds Reserved (Classify.OAddr 6 (hx6 0x2000)) = Ok false /\
  src_is_multicast (Classify.ORange 4 (ip4 224 0 0 0) (ip4 224 0 0 255)) = Ok (Some true).
Proof. split; [split; [reflexivity|split; vm_compute; intuition discriminate]|vm_compute; repeat split]. Qed.
