(* Props/Coherence_Order.v — COHERENCE of the model copies.  Several Python functions are modelled more than once (one
   executable model file per property, each tied to the code separately by differential execution).  Every theorem here
   says that two copies are the same function — as an equation, for all inputs, under the weakest well-formedness
   hypothesis that is really needed (stated in the theorem; the comment says "no hypothesis" when there is none) — so a
   theorem about one copy is a theorem about the others.  Nothing but statements closed by `exact`, each followed by
   Print Assumptions.  Proofs for this file: Proofs/Coherence_Order.v.
   The statements are split over Props/Coherence.v, Coherence_Order.v, Coherence_Cidrs.v, Coherence_Text.v and
   Coherence_Words.v so that the harness re-checks them in parallel; all five are obligations of `./check C04`
   (EXTRA_THEOREM_FILES of harness/props/c04.py); the list is in tools/claims/COH.json.
   Model files are `Require`d without `Import`: every model name is qualified by its file.  Translations between the
   object types of the models (Proofs/Coherence_Net.v): cl_of / ord_of (Contains.ipobj to Classify.ipobj / Order.obj),
   co_net / cl_net / ord_net (a `net` record as an object of each model), co_of_ranged, co_of_irow, co_of_row;
   row_of_irow, list4, state3 (Proofs/Coherence_Order.v); to_cidrs_real (Proofs/Coherence_Cidrs.v); gen_observe
   (Proofs/Coherence_Iter.v). *)
From Coq Require Import Sorting.Sorted Sorting.Permutation String Ascii.
From NV Require Import Base.Tac Base.PyVal Base.Bits Base.Canon Base.PyStr Base.PyStrFacts Model.Ip.
From NV Require Model.SrcPrelude Model.Span Model.Partition Model.Merge Model.Sets Model.Contains Model.Classify
  Model.ListLike Model.Iana Model.Order Model.AddrOps Model.Conv Model.Subnet Model.Splitter Model.NetText
  Model.AddrText Model.Glob Model.Nmap Model.IpText Model.FbSocket Model.Codec Model.Eui Model.Ieee Model.PySlice.
From NV Require Proofs.C02 Proofs.C03 Proofs.C04 Proofs.C04_match Proofs.C09 Proofs.C11 Proofs.C17 Proofs.C20.
From NV Require Import Proofs.Coherence_Net Proofs.Coherence_Order.
Open Scope Z_scope.

(* ======================================================================== Proofs/Coherence_Order.v
   family 2 — Python: IPNetwork.__contains__ (1130-1158), IPRange.__contains__ (1419-1439), iana._within_bounds (406-415),
              IPAddress.is_multicast as used by iana.query
   family 3 — Python: IPNetwork.sort_key (1166-1173), tuple `<` / `<=` behind BaseIP.__lt__ / __le__, sorted(list of IPNetwork)
   also     — Python: IPSet.__getstate__ / __setstate__ (sets.py 124-136) *)

(* Python: IPNetwork.__contains__ (1130-1158).  Contains models Python's `>>`/`<<` with their ValueError for a negative
   count, Classify uses Z.shiftr/Z.shiftl directly: equal as soon as the container's prefix does not exceed the width
   (the only hypothesis; nothing is assumed of the values or of the operand). *)
Theorem Coherence_net_contains : forall sver sv sp x,
  sp <= width sver ->
  Contains.net_contains width sver sv sp x = Ok (Classify.net_contains sver sv sp (cl_of x)).
Proof. exact coh_net_contains. Qed.
Print Assumptions Coherence_net_contains.

Theorem Coherence_range_contains : forall sver ss se x,
  operand_prefix_ok x ->
  Contains.range_contains width sver ss se x = Ok (Classify.range_contains sver ss se (cl_of x)).
Proof. exact coh_range_contains. Qed.
Print Assumptions Coherence_range_contains.

(* `x in y` with y a table row of Classify (IPNetwork or IPRange) = Contains.contains on the same container *)
Theorem Coherence_contains_row : forall r x,
  (Classify.rkind r = 0 -> Classify.rsnd r <= width (Classify.rver r)) ->
  (Classify.rkind r <> 0 -> operand_prefix_ok x) ->
  Contains.contains width (co_of_row r) x = Ok (Classify.contains_row r (cl_of x)).
Proof. exact coh_contains_row. Qed.
Print Assumptions Coherence_contains_row.

(* IPSet's `other in self` for two networks is the network/network case of the same method (no hypothesis
   against Classify; prefix <= width against Contains) *)
Theorem Coherence_net_in_net_classify : forall other self,
  Sets.net_in_net other self = Classify.net_contains (nver self) (nval self) (nplen self) (cl_net other).
Proof. exact coh_net_in_net_classify. Qed.
Print Assumptions Coherence_net_in_net_classify.

Theorem Coherence_net_in_net_contains : forall other self,
  nplen self <= width (nver self) ->
  Contains.net_contains width (nver self) (nval self) (nplen self) (co_net other) = Ok (Sets.net_in_net other self).
Proof. exact coh_net_in_net_contains. Qed.
Print Assumptions Coherence_net_in_net_contains.

(* hence, for well-formed networks, net_in_net is interval inclusion (the specification proved in C04) *)
Theorem Coherence_net_in_net_interval : forall other self,
  C02.wf_net other -> C02.wf_net self ->
  Sets.net_in_net other self =
  (nver other =? nver self) && (Sets.nf self <=? Sets.nf other) && (Sets.nl other <=? Sets.nl self).
Proof. exact coh_net_in_net_interval. Qed.
Print Assumptions Coherence_net_in_net_interval.

Theorem Coherence_iana_net_contains_addr : forall sver sval splen over oval,
  Iana.net_contains_addr sver sval splen over oval = Classify.net_contains sver sval splen (Classify.OAddr over oval).
Proof. exact coh_iana_net_contains_addr. Qed.
Print Assumptions Coherence_iana_net_contains_addr.

Theorem Coherence_iana_range_contains_addr : forall sver ss se over oval,
  Iana.range_contains_addr sver ss se over oval = Classify.range_contains sver ss se (Classify.OAddr over oval).
Proof. exact coh_iana_range_contains_addr. Qed.
Print Assumptions Coherence_iana_range_contains_addr.

Theorem Coherence_iana_addr_eq : forall sver sval over oval,
  Iana.addr_eq sver sval over oval = Order.py_eq (Order.Addr over oval) (Order.Addr sver sval).
Proof. exact coh_iana_addr_eq. Qed.
Print Assumptions Coherence_iana_addr_eq.

Theorem Coherence_within_bounds : forall ver v r,
  Iana.within_bounds ver v r =
  match Iana.r_kind r with
  | Iana.KA => Order.py_eq (Order.Addr ver v) (Order.Addr (Iana.r_ver r) (Iana.r_x r))
  | _ => Classify.contains_row (row_of_irow r) (Classify.OAddr ver v)
  end.
Proof. exact coh_within_bounds. Qed.
Print Assumptions Coherence_within_bounds.

Theorem Coherence_within_bounds_contains : forall ver v r,
  Iana.r_kind r <> Iana.KA ->
  (Iana.r_kind r = Iana.KN -> Iana.r_y r <= width (Iana.r_ver r)) ->
  Contains.contains width (co_of_irow r) (Contains.Addr ver v) = Ok (Iana.within_bounds ver v r).
Proof. exact coh_within_bounds_contains. Qed.
Print Assumptions Coherence_within_bounds_contains.

(* Python: IPAddress.is_multicast() as used by iana.query — Iana hard-codes IPV4_MULTICAST, Classify reads it from
   the (generated) table: equal whenever the table row is that network *)
Theorem Coherence_is_multicast4 : forall T ver v,
  Classify.t_multicast4 T = (0, 4, Iana.IPV4_MULTICAST_value, 4) ->
  Iana.is_multicast4 ver v = (ver =? 4) && Classify.truthy (Classify.is_multicast T (Classify.OAddr ver v)).
Proof. exact coh_is_multicast4. Qed.
Print Assumptions Coherence_is_multicast4.

Theorem Coherence_sort_key : forall n,
  Sets.sort_key n = Order.sort_key (ord_net n) /\ list4 (Contains.sort_key width n) = Sets.sort_key n.
Proof. exact coh_sort_key. Qed.
Print Assumptions Coherence_sort_key.

(* Python: tuple `<` / `<=` (CPython tuplerichcompare) on lists of any length *)
Theorem Coherence_lex_leb : forall a,
  forall b, Sets.lex_leb a b = Order.tuple_cmp Order.OpLe a b.
Proof. exact coh_lex_leb. Qed.
Print Assumptions Coherence_lex_leb.

Theorem Coherence_lex_ltb : forall a b,
  Sets.lex_ltb a b = Order.tuple_cmp Order.OpLt a b.
Proof. exact coh_lex_ltb. Qed.
Print Assumptions Coherence_lex_ltb.

Theorem Coherence_key_lt : forall k1 k2,
  Contains.key_lt k1 k2 = Order.tuple_cmp Order.OpLt (list4 k1) (list4 k2).
Proof. exact coh_key_lt. Qed.
Print Assumptions Coherence_key_lt.

(* Python: BaseIP.__lt__ on two networks *)
Theorem Coherence_net_lt : forall a b,
  Sets.net_ltb a b = Order.py_lt (ord_net a) (ord_net b) /\ Contains.net_lt width a b = Sets.net_ltb a b.
Proof. exact coh_net_lt. Qed.
Print Assumptions Coherence_net_lt.

Theorem Coherence_sorted_sets_contains : forall l,
  Sets.sorted l = Contains.py_sorted width l.
Proof. exact coh_sorted_sets_contains. Qed.
Print Assumptions Coherence_sorted_sets_contains.

Theorem Coherence_sorted_order_contains : forall l,
  Order.sorted (map ord_net l) = map ord_net (Contains.py_sorted width l).
Proof. exact coh_sorted_order_contains. Qed.
Print Assumptions Coherence_sorted_order_contains.

Theorem Coherence_sorted_order_sets : forall l,
  Order.sorted (map ord_net l) = map ord_net (Sets.sorted l).
Proof. exact coh_sorted_order_sets. Qed.
Print Assumptions Coherence_sorted_order_sets.

Theorem Coherence_ipset_getstate : forall d,
  Order.ipset_getstate (map ord_net d) = map state3 (Sets.set_getstate d).
Proof. exact coh_ipset_getstate. Qed.
Print Assumptions Coherence_ipset_getstate.

Theorem Coherence_ipset_setstate : forall st,
  Forall (fun t => valid_ver (snd t) = true) st ->
  Order.ipset_setstate (map state3 st) = omap (map ord_net) (Sets.set_setstate st).
Proof. exact coh_ipset_setstate. Qed.
Print Assumptions Coherence_ipset_setstate.

(* the hypothesis is needed: the Sets copy builds the networks with Span.net_of_tuple, which has no version check
   (its callers pass the version of a live object), the Order copy with the full constructor.  Real netaddr:
   IPSet().__setstate__(((1, 32, 5),)) raises ValueError('5 is an invalid IP version!') — both copies now agree (Model/Sets.v corrected). *)
Theorem Coherence_ipset_setstate_invalid_version : Order.ipset_setstate (map state3 [(1, 32, 5)]) = Raise ValueError /\
  Sets.set_setstate [(1, 32, 5)] = Raise ValueError.
Proof. exact coh_ipset_setstate_invalid_version. Qed.
Print Assumptions Coherence_ipset_setstate_invalid_version.
