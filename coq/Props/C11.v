(* Props/C11.v — property C11: subnetting, supernetting and stepping follow CIDR arithmetic.
   Nothing but statements closed by `exact`, each followed by Print Assumptions.
   Vocabulary: a network is (value, prefixlen) over a family of width w; first N = floor2 v (w - p) =
   v - v mod 2^(w-p) (C02_identities); `zseq s n` = [s; s+1; ...; s+n-1]; `gen_take step k g` =
   list(itertools.islice(gen, k)); `subnet_take ... k` = (number of subnets the generator runs to, its first k). *)
From NV Require Import Base.Tac Base.PyVal Base.Bits Model.Ip Model.Subnet Proofs.C02 Proofs.C11.
Open Scope Z_scope.

(* subnet(q, count) for p <= q <= w: the i-th block produced is {first N + i*2^(w-q); q} for 0 <= i < count
   (count defaulting to 2^(q-p)), the generator stops after exactly `count` blocks; ValueError iff
   count is outside [1, 2^(q-p)]. *)
Theorem C11_subnet : forall w v p q count, 0 <= p <= q -> q <= w -> 0 <= v < 2 ^ w ->
  let M := 2 ^ (q - p) in
  let c := match count with None => M | Some c => c end in
  (1 <= c <= M -> forall k,
     subnet_take w (v, p) q count k =
       Ok (c, map (fun i => (floor2 v (w - p) + i * 2 ^ (w - q), q)) (zseq 0 (Nat.min k (Z.to_nat c)))))
  /\ (~ (1 <= c <= M) -> forall k, subnet_take w (v, p) q count k = Raise ValueError).
Proof. exact subnet_take_spec. Qed.
Print Assumptions C11_subnet.

(* nothing when q < p (negative q included) *)
Theorem C11_subnet_below : forall w v p q count k, 0 <= p <= w -> q < p ->
  subnet_take w (v, p) q count k = Ok (0, []).
Proof. exact subnet_take_below. Qed.
Print Assumptions C11_subnet_below.

(* the blocks F + i*t (0 <= i < M = 2^(q-p)) are aligned /q blocks, ascending, each starting right after
   the previous one ends, the first at first N, the last ending at last N, and every address of N lies in
   exactly one of them: they tile N *)
Theorem C11_subnet_tiles : forall w v p q, 0 <= p <= q -> q <= w -> 0 <= v < 2 ^ w ->
  let F := floor2 v (w - p) in
  let T := 2 ^ (w - p) in
  let t := 2 ^ (w - q) in
  let M := 2 ^ (q - p) in
  T = M * t /\
  (forall i, 0 <= i < M ->
     (t | F + i * t) /\ floor2 (F + i * t) (w - q) = F + i * t /\
     F <= F + i * t /\ (F + i * t) + t - 1 <= F + T - 1 /\
     F + (i + 1) * t = ((F + i * t) + t - 1) + 1) /\
  F + 0 * t = F /\ (F + (M - 1) * t) + t - 1 = F + T - 1 /\
  (forall x, F <= x <= F + T - 1 ->
     exists i, 0 <= i < M /\ F + i * t <= x <= (F + i * t) + t - 1 /\
               forall j, 0 <= j < M -> F + j * t <= x <= (F + j * t) + t - 1 -> j = i).
Proof. exact subnet_tiles. Qed.
Print Assumptions C11_subnet_tiles.

(* supernet(q) for q <= p: the list [{first N masked to r; r} | r = q..p-1], outermost first *)
Theorem C11_supernet : forall w v p q, 0 <= q <= p -> p <= w -> 0 <= v < 2 ^ w ->
  supernet w (v, p) q = Ok (map (fun r => (floor2 v (w - r), r)) (zseq q (Z.to_nat (p - q)))).
Proof. exact supernet_spec. Qed.
Print Assumptions C11_supernet.

(* each listed block /r is host-bit-free, contains N, and is the only aligned /r block that contains N *)
Theorem C11_supernet_contains : forall w v p r, 0 <= r <= p -> p <= w -> 0 <= v < 2 ^ w ->
  let F := floor2 v (w - p) in
  let B := floor2 v (w - r) in
  (2 ^ (w - r) | B) /\ B <= F /\ F + 2 ^ (w - p) - 1 <= B + 2 ^ (w - r) - 1 /\
  (forall b, (2 ^ (w - r) | b) -> b <= F -> F <= b + 2 ^ (w - r) - 1 -> b = B).
Proof. exact supernet_contains. Qed.
Print Assumptions C11_supernet_contains.

(* outside the statement, as the code behaves: q outside 0..w and p < q <= w raise ValueError
   (the latter from `1 << -1` once the walked prefix passes the width); the loop never runs out of fuel *)
Theorem C11_supernet_invalid : forall w n q, ~ (0 <= q <= w) -> supernet w n q = Raise ValueError.
Proof. exact supernet_invalid. Qed.
Print Assumptions C11_supernet_invalid.

Theorem C11_supernet_above : forall w v p q, 0 <= p < q -> q <= w -> 0 <= v < 2 ^ w ->
  supernet w (v, p) q = Raise ValueError.
Proof. exact supernet_above. Qed.
Print Assumptions C11_supernet_above.

Theorem C11_supernet_terminates : forall w v p q, 0 <= p <= w -> 0 <= v < 2 ^ w ->
  supernet w (v, p) q <> Raise OutOfFuel.
Proof. exact supernet_no_fuel. Qed.
Print Assumptions C11_supernet_terminates.

(* N += k / N.next(k) give {first N + k*size; p}, N -= k / N.previous(k) give {first N - k*size; p}
   (aligned, host bits dropped) exactly when that whole block lies in [0, 2^w); otherwise IndexError and,
   for the in-place forms, the receiver is as it was *)
Theorem C11_step : forall w v p k, 0 <= p <= w -> 0 <= v < 2 ^ w ->
  let F := floor2 v (w - p) in
  let T := 2 ^ (w - p) in
  let up := F + k * T in
  let down := F - k * T in
  (T | up) /\ (T | down) /\
  (fits w p up ->
     apply_inplace (fun n => net_iadd w n k) (v, p) = ((up, p), None) /\ net_next w (v, p) k = Ok (up, p)) /\
  (~ fits w p up ->
     apply_inplace (fun n => net_iadd w n k) (v, p) = ((v, p), Some IndexError) /\
     net_next w (v, p) k = Raise IndexError) /\
  (fits w p down ->
     apply_inplace (fun n => net_isub w n k) (v, p) = ((down, p), None) /\ net_previous w (v, p) k = Ok (down, p)) /\
  (~ fits w p down ->
     apply_inplace (fun n => net_isub w n k) (v, p) = ((v, p), Some IndexError) /\
     net_previous w (v, p) k = Raise IndexError).
Proof. exact step_spec. Qed.
Print Assumptions C11_step.

(* `fits w p x` is: the block of size 2^(w-p) starting at x stays inside [0, 2^w) *)
Theorem C11_fits_def : forall w p x, fits w p x <-> (0 <= x /\ x + 2 ^ (w - p) - 1 <= 2 ^ w - 1).
Proof. exact (fun w p x => iff_refl _). Qed.
Print Assumptions C11_fits_def.

(* iter_hosts: first+1..last-1 for IPv4 blocks of >= 4 addresses, every address of IPv4 /31 and /32,
   first+1..last for IPv6, nothing for /128; `hosts_take .. k` = (number of hosts, the first k of them) *)
Theorem C11_hosts : forall ver v p, valid_ver ver = true -> 0 <= p <= width ver -> 0 <= v < 2 ^ width ver ->
  let w := width ver in
  let F := floor2 v (w - p) in
  let L := F + 2 ^ (w - p) - 1 in
  let yields (lo hi : Z) := forall k, hosts_take ver (v, p) k =
        Ok (hi - lo + 1, map (fun i => (ver, i)) (zseq lo (Nat.min k (Z.to_nat (hi - lo + 1))))) in
  (ver = 4 -> p <= 30 -> yields (F + 1) (L - 1)) /\
  (ver = 4 -> 31 <= p -> yields F L) /\
  (ver = 6 -> p <= 127 -> yields (F + 1) L) /\
  (ver = 6 -> p = 128 -> forall k, hosts_take ver (v, p) k = Ok (0, [])).
Proof. exact hosts_cases. Qed.
Print Assumptions C11_hosts.

(* zseq is what its name says *)
Theorem C11_zseq : forall start n, length (zseq start n) = n /\
  forall j, (j < n)%nat -> nth_error (zseq start n) j = Some (start + Z.of_nat j).
Proof. exact (fun start n => conj (zseq_length start n) (zseq_nth start n)). Qed.
Print Assumptions C11_zseq.

(* non-vacuity: 192.168.1.1/24 split into /26 blocks, its supernets down to /22, one step up, its hosts *)
Example C11_nonvacuous :
  subnet_take 32 (3232235777, 24) 26 None 10 =
    Ok (4, [(3232235776, 26); (3232235840, 26); (3232235904, 26); (3232235968, 26)]) /\
  supernet 32 (3232235777, 24) 22 = Ok [(3232235520, 22); (3232235520, 23)] /\
  net_next 32 (3232235777, 24) 1 = Ok (3232236032, 24) /\
  hosts_take 4 (3232235777, 30) 5 = Ok (2, [(4, 3232235777); (4, 3232235778)]).
Proof. repeat split; vm_compute; reflexivity. Qed.
