(* Props/Structure_C06.v -- WRITTEN BY tools/mkstructure.py.  Structure tie for C06: the parameter lists (names, order, default values),
   decorators, class bases and non-def class-body statements (aliases, __slots__, property lines, class attributes) of the classes and
   functions this property relies on (harness/gen/structure.py, table RELEVANT) -- and, for files it relies on entirely, the list of
   their top-level names -- regenerated from the working tree on every run, are the ones the models, adapters and translator tables
   were written against.  The source translator reads function BODIES; this covers what is around them.  21 groups, 107 rows.
   Statement closed by `exact`, followed by Print Assumptions. *)
From Coq Require Import List String Bool.
From NV Require Import Gen.structure_gen Proofs.GenOk_Structure_C06.
Import ListNotations.
Open Scope string_scope.

Theorem C06_structure_tie :
  gen_names_compat = ["_bytes_join"; "_zip"; "_range"; "_iter_next"] /\
  filter (keep drop_compat___bytes_join) gen_struct_compat___bytes_join = pinned_struct_compat___bytes_join /\
  filter (keep drop_compat___zip) gen_struct_compat___zip = pinned_struct_compat___zip /\
  filter (keep drop_compat___range) gen_struct_compat___range = pinned_struct_compat___range /\
  filter (keep drop_compat___iter_next) gen_struct_compat___iter_next = pinned_struct_compat___iter_next /\
  filter (keep drop_ip_init__BaseIP) gen_struct_ip_init__BaseIP = pinned_struct_ip_init__BaseIP /\
  filter (keep drop_ip_init__IPAddress) gen_struct_ip_init__IPAddress = pinned_struct_ip_init__IPAddress /\
  filter (keep drop_ip_init__IPNetwork) gen_struct_ip_init__IPNetwork = pinned_struct_ip_init__IPNetwork /\
  filter (keep drop_ip_init__IPListMixin) gen_struct_ip_init__IPListMixin = pinned_struct_ip_init__IPListMixin /\
  filter (keep drop_ip_init__parse_ip_network) gen_struct_ip_init__parse_ip_network = pinned_struct_ip_init__parse_ip_network /\
  filter (keep drop_ip_init___arg_repr) gen_struct_ip_init___arg_repr = pinned_struct_ip_init___arg_repr /\
  filter (keep drop_ip_init__IPRange) gen_struct_ip_init__IPRange = pinned_struct_ip_init__IPRange /\
  filter (keep drop_ip_init__cidr_merge) gen_struct_ip_init__cidr_merge = pinned_struct_ip_init__cidr_merge /\
  filter (keep drop_ip_init__iprange_to_cidrs) gen_struct_ip_init__iprange_to_cidrs = pinned_struct_ip_init__iprange_to_cidrs /\
  filter (keep drop_ip_init__spanning_cidr) gen_struct_ip_init__spanning_cidr = pinned_struct_ip_init__spanning_cidr /\
  filter (keep drop_ip_init__cidr_partition) gen_struct_ip_init__cidr_partition = pinned_struct_ip_init__cidr_partition /\
  filter (keep drop_ip_init__cidr_exclude) gen_struct_ip_init__cidr_exclude = pinned_struct_ip_init__cidr_exclude /\
  gen_names_ip_sets = ["_subtract"; "_iter_merged_ranges"; "IPSet"] /\
  filter (keep drop_ip_sets___subtract) gen_struct_ip_sets___subtract = pinned_struct_ip_sets___subtract /\
  filter (keep drop_ip_sets___iter_merged_ranges) gen_struct_ip_sets___iter_merged_ranges = pinned_struct_ip_sets___iter_merged_ranges /\
  filter (keep drop_ip_sets__IPSet) gen_struct_ip_sets__IPSet = pinned_struct_ip_sets__IPSet.
Proof. exact (conj names_compat_ok (conj struct_compat___bytes_join_ok (conj struct_compat___zip_ok (conj struct_compat___range_ok (conj struct_compat___iter_next_ok (conj struct_ip_init__BaseIP_ok (conj struct_ip_init__IPAddress_ok (conj struct_ip_init__IPNetwork_ok (conj struct_ip_init__IPListMixin_ok (conj struct_ip_init__parse_ip_network_ok (conj struct_ip_init___arg_repr_ok (conj struct_ip_init__IPRange_ok (conj struct_ip_init__cidr_merge_ok (conj struct_ip_init__iprange_to_cidrs_ok (conj struct_ip_init__spanning_cidr_ok (conj struct_ip_init__cidr_partition_ok (conj struct_ip_init__cidr_exclude_ok (conj names_ip_sets_ok (conj struct_ip_sets___subtract_ok (conj struct_ip_sets___iter_merged_ranges_ok struct_ip_sets__IPSet_ok)))))))))))))))))))). Qed.
Print Assumptions C06_structure_tie.
