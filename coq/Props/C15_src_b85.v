(* Props/C15_src_b85.v -- source tie for C15, base 85: the Gallina definitions that harness/gen/pysrc.py (class FnB) regenerates on
   every run from the CURRENT text of netaddr/ip/rfc1924.py (coq/Gen/pysrc_rfc1924_gen.v) are equal to the hand-written model of
   Model/Codec.v that the base-85 theorems of Props/C15.v are about:
     src_ipv6_to_base85 (its `while int_val > 0` loop, `[BASE_85[w] for w in reversed(remainder)]`, the zero padding)
       = Codec.ipv6_to_base85 (b85_loop, b85_char);
     src_base85_to_ipv6 (`for i, num in enumerate(reversed(tokens)): num = BASE_85_DICT[num]; result += num * 85 ** i`,
       IPAddress(result, 6) = mk_addr) = Codec.base85_to_int followed by str() of the IPv6 address -- the formatter is a parameter
       of the generated definition (property C01), the model stops at the integer;
     src_chr_range (the helper that builds BASE_85; no model function): the one-character strings with codes ord(low) .. ord(high).
   The tables BASE_85 / BASE_85_DICT are regenerated DATA (harness/gen/codec.py -> Gen/codec_gen.v, which also checks that the dict is
   the index map of the list); IPAddress(int) with inferred version is the hand-model symbol py_ipaddress_of_int = Ip.addr_of_int.
   The fuel of the while loop is not in the source: 21 = the model's 20 + 1 (the generated Fixpoint tests the fuel before the
   condition, the model after; an IPv6 value is < 85^20).  No hypotheses.
   A source edit that changes one of the functions changes the generated term and this theorem stops compiling.
   Nothing but the statement closed by `exact`, followed by Print Assumptions. *)
From Coq Require Import String Ascii.
From NV Require Import Base.Tac Base.PyVal Base.PyStr Model.Ip Model.Codec Model.SrcPrelude Model.SrcPreludeGlob Model.SrcPreludeB85
  Gen.pysrc_rfc1924_gen Proofs.GenOk_Src_C15_b85.
Import ListNotations.
Open Scope Z_scope.

Theorem C15_source_tie_b85 :
  (forall lo hi, src_chr_range lo hi = Ok (map (fun i => one (chr i)) (py_zrange (code lo) (code hi + 1)))) /\
  (forall addr, src_ipv6_to_base85 addr = ipv6_to_base85 addr) /\
  (forall k v acc, v < 85 ^ Z.of_nat k -> src_ipv6_to_base85_loop1 (S k) acc v = do r <- b85_loop k v; Ok (acc ++ r)%list) /\
  (forall addr_str s, src_base85_to_ipv6 addr_str s = do v <- base85_to_int s; Ok (addr_str (6, v))) /\
  (forall cs i r, src_base85_to_ipv6_loop1 (map one cs) i r = b85_sum cs i r).
Proof. exact C15_b85_tie_ok. Qed.
Print Assumptions C15_source_tie_b85.

(* the generated definitions compute: RFC 1924's example 1080::8:800:200C:417A = 4)+k&C#VzJ4br>0wv%Yp and back *)
Example C15_src_b85_nonvacuous :
  src_ipv6_to_base85 21932261930451111902915077091070067066 = Ok "4)+k&C#VzJ4br>0wv%Yp"%string /\
  src_base85_to_ipv6 (fun a => fmt_d (snd a)) "4)+k&C#VzJ4br>0wv%Yp" = Ok "21932261930451111902915077091070067066"%string /\
  src_base85_to_ipv6 (fun a => fmt_d (snd a)) "4)+k&C#VzJ4br>0wv%Y" = Raise AddrFormatError /\
  src_base85_to_ipv6 (fun a => fmt_d (snd a)) "4)+k&C#VzJ4br>0wv%Y " = Raise KeyError /\
  src_ipv6_to_base85 1 = Ok "00000000000000000001"%string /\
  src_chr_range "a" "c" = Ok ["a"; "b"; "c"]%string.
Proof. repeat split; vm_compute; reflexivity. Qed.
