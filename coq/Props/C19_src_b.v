(* Props/C19_src_b.v — source tie for C19, second part (tag SRCF): the Gallina definitions that harness/gen/pysrc.py regenerates on
   every run from the CURRENT text of OUI._parse_data, IAB._parse_data, OUI.__str__ and IAB.__str__ of netaddr/eui/__init__.py
   (coq/Gen/pysrc_euic_gen.v) against the hand-written model Model/Ieee.v parse_data (parse_line / parse_lines) that oui_lookup /
   iab_lookup and C19_registered are built on.
   Reading: the record dict is one variable per key (d['k'] = d__k); OUI._parse_data answers the record it appends to self.records,
   IAB._parse_data the new value of self.record given the old one; the text methods are the model's own (split("\n") = split_nl,
   strip() = strip, '(hex)' in line = contains, split(None, 2)[2] = third_field with IndexError, truth of text).
   Stated on the fields the model knows -- idx, org, address, with offset and size (keep5) --; the 'oui' / 'iab' field (str(self)
   when a (hex) line is seen, else what it was) is not in the model.  __str__ is stated directly: the octets of the value as %02X
   joined by '-' (and the fixed "-00" of an IAB); it never raises, so _parse_data raises exactly where the model does (IndexError).
   No hypothesis.  Nothing but the statement closed by `exact`, followed by Print Assumptions. *)
From Coq Require Import String Ascii.
From NV Require Import Base.Tac Base.PyVal Base.PyStr Model.Ip Model.Ieee Model.SrcPrelude Model.SrcPreludeStr
  Model.SrcPreludeEui2 Model.SrcPreludeIeee Gen.pysrc_euic_gen Proofs.GenOk_Src_C19_b.
Import ListNotations.
Open Scope list_scope.
Open Scope Z_scope.

Theorem C19_source_tie_b :
  (forall v, src_OUI_str v = Ok (join "-" (map (fmt_X_pad 2) [Z.land (Z.shiftr v 16) 0xff; Z.land (Z.shiftr v 8) 0xff; Z.land v 0xff]))) /\
  (forall v, let i := Z.shiftl v 4 in
     src_IAB_str v = Ok (String.append (join "-" (map (fmt_X_pad 2)
       [Z.land (Z.shiftr i 32) 0xff; Z.land (Z.shiftr i 24) 0xff; Z.land (Z.shiftr i 16) 0xff; Z.land (Z.shiftr i 8) 0xff; Z.land i 0xff])) "-00")) /\
  (forall v data offset size,
     omap keep5 (src_OUI_parse_data v data offset size) = omap (fun r => (r, offset, size)) (parse_data v data)) /\
  (forall v data offset size idx0 iab0 org0 address0 offset0 size0,
     omap keep5 (src_IAB_parse_data v data offset size idx0 iab0 org0 address0 offset0 size0) =
     omap (fun r => (r, offset0, size0)) (parse_lines v (idx0, org0, address0) (split_nl data))).
Proof. exact C19_tie_b_ok. Qed.
Print Assumptions C19_source_tie_b.

Definition NLb : string := String (ascii_of_nat 10) EmptyString.

Example C19_src_b_nonvacuous :
  src_OUI_str 51966 = Ok "00-CA-FE"%string /\ src_IAB_str 84683452 = Ok "00-50-C2-AB-C0-00"%string /\
  src_OUI_parse_data 51966 ("00-CA-FE   (hex)  ACME CORP" ++ NLb ++ "00CAFE (base 16) ACME" ++ NLb ++ "  1 MAIN STREET" ++ NLb)%string 7 45
    = Ok (51966, "00-CA-FE"%string, "ACME CORP"%string, ["1 MAIN STREET"%string], 7, 45) /\
  src_OUI_parse_data 1 "00-00-01   (hex)"%string 0 16 = Raise IndexError.
Proof. repeat split; vm_compute; reflexivity. Qed.
