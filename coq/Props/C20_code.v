(* Props/C20_code.v — CODC: property C20 (SubnetSplitter never hands out overlapping space) stated DIRECTLY about the Gallina
   definitions that harness/gen/pysrc.py regenerates on every run from the CURRENT text of netaddr/contrib/subnet_splitter.py
   (coq/Gen/pysrc_splitter_gen.v: src_SubnetSplitter_extract_subnet with both loops, src_SubnetSplitter_remove_subnet,
   src_SubnetSplitter_available_subnets).  Each theorem is the theorem of the same name in Props/C20.v with the model function
   replaced by the generated definition; what coqc re-checks on every run is "the property holds of what the code says now".
   SHAPES.  The generated methods take the object state `self._subnets` first (a list of IPNetwork objects = `net` records)
   and return the new state (with the returned value).  The vocabulary of Props/C20.v (Inv, inc, cov, chosen, subnets_of,
   step_ok; spelled out by C20_Inv_def / C20_step_ok_def / C20_vocabulary there) is over (value, prefixlen) pairs of the family
   `ver`; a state of the generated code is read through cblks = map cblk_of_net, with all_ver ver l (every element has version
   ver) stated next to it; a state of the family is written nets ver st = map (net_of_cblk ver) st (cblks (nets ver st) = st).
   HISTORIES.  src_sp_step ver st o: one API call through the GENERATED methods -- SpExtract q count calls
   src_SubnetSplitter_extract_subnet st q count, SpRemove k calls src_SubnetSplitter_remove_subnet st (net_of_cblk ver k);
   a raising call leaves the state as it was -- over the same op type `sp_op` as the model's sp_step.  src_run ver B ops =
   fold_left (src_acc_step ver) ops ([net_of_cblk ver B], []) = (available blocks, blocks handed out or removed so far) after
   the calls `ops` on SubnetSplitter(B).  view_res reads a call's (state, outcome) as pairs.
   HYPOTHESES.  Exactly those of the model theorems (valid family, Inv, q <= width, well-formed operands).  The hypotheses of
   the tie C20_source_tie (valid_ver, well-formed available blocks, pairwise distinct prefix lengths) are all parts of Inv, so
   nothing is added -- except in C20_extract_none_of_source, whose model theorem assumes only well-formed available blocks and
   here also needs valid_ver ver and NoDup (map snd st) (the tie's hypotheses: Python's stable sort vs the model's insertion sort).
   CLAUSES STILL ABOUT THE MODEL.  IPNetwork.subnet and cidr_merge enter the generated code as the prelude symbols
   py_list_subnet / py_cidr_merge (Model/SrcPreludeSplitter.v = the hand models Subnet.subnet_start/next, Merge.cidr_merge; their
   own ties are C11_source_tie_subnet and C05_source_tie_merge).  cidr_exclude / cidr_partition inside the comprehension are the
   generated src_cidr_exclude.  SubnetSplitter.__init__ (one line, `self._subnets = set([IPNetwork(base_cidr)])`) is not
   translated: the initial state of src_run is [net_of_cblk ver B].  C20_init, C20_chosen_exists, C20_chosen_unique, C20_Inv_perm
   and the vocabulary theorems mention no model function and are not repeated.
   Nothing but statements closed by `exact`, each followed by Print Assumptions. *)
From NV Require Import Base.Tac Base.PyVal Base.Bits Base.Canon Model.Ip Model.Partition Model.Merge Model.Subnet Model.Splitter
  Model.SrcPrelude Gen.pysrc_gen Gen.pysrc_partition_gen Gen.pysrc_splitter_gen
  Proofs.C09 Proofs.C20_excl Proofs.C20 Proofs.GenOk_Src_C09 Proofs.Code_C20.
From Coq Require Import Sorting.Permutation.
Import ListNotations.
Open Scope Z_scope.

(* ---- extract_subnet(q, count) as generated, for every q <= w (negative q included) and every count ---- *)
Theorem C20_extract_of_source : forall ver, valid_ver ver = true -> forall B st H q count,
  Inv (width ver) B st H -> q <= width ver ->
  match src_SubnetSplitter_extract_subnet (nets ver st) q count with
  | Ok (S', R) =>
      all_ver ver S' /\ all_ver ver R /\
      Inv (width ver) B (cblks S') (H ++ cblks R) /\
      (forall s, In s (cblks R) -> snd s = q /\ wf_cblk (width ver) s /\ hostfree (width ver) s /\
                 (forall x, inc (width ver) s x -> inc (width ver) B x) /\
                 (forall h x, In h H -> inc (width ver) h x -> inc (width ver) s x -> False)) /\
      pw_disjoint (width ver) (cblks R) /\
      (R = [] -> S' = nets ver st)
  | Raise e => e = ValueError
  end.
Proof. exact extract_of_source. Qed.
Print Assumptions C20_extract_of_source.

Theorem C20_extract_none_of_source : forall ver, valid_ver ver = true -> forall st q count,
  (forall c, In c st -> wf_cblk (width ver) c) -> NoDup (map snd st) -> (forall c, In c st -> q < snd c) ->
  src_SubnetSplitter_extract_subnet (nets ver st) q count = Ok (nets ver st, []).
Proof. exact extract_none_of_source. Qed.
Print Assumptions C20_extract_none_of_source.

Theorem C20_extract_chosen_of_source : forall ver, valid_ver ver = true -> forall B st H q count c0,
  Inv (width ver) B st H -> q <= width ver -> chosen st q c0 ->
  let cnt := req_count count q (snd c0) in
  1 <= cnt <= 2 ^ (q - snd c0) ->
  exists st', src_SubnetSplitter_extract_subnet (nets ver st) q count =
                Ok (nets ver st', nets ver (subnets_of (width ver) c0 q cnt)) /\
    Inv (width ver) B st' (H ++ subnets_of (width ver) c0 q cnt) /\
    subnets_of (width ver) c0 q cnt <> [] /\
    (forall s, In s (subnets_of (width ver) c0 q cnt) ->
       snd s = q /\ wf_cblk (width ver) s /\ hostfree (width ver) s /\
       (forall x, inc (width ver) s x -> inc (width ver) c0 x)) /\
    pw_disjoint (width ver) (subnets_of (width ver) c0 q cnt) /\
    (forall x, cov (width ver) st' x <-> cov (width ver) st x /\ ~ cov (width ver) (subnets_of (width ver) c0 q cnt) x).
Proof. exact extract_chosen_of_source. Qed.
Print Assumptions C20_extract_chosen_of_source.

Theorem C20_extract_bad_count_of_source : forall ver, valid_ver ver = true -> forall B st H q count c0,
  Inv (width ver) B st H -> q <= width ver -> chosen st q c0 ->
  ~ (1 <= req_count count q (snd c0) <= 2 ^ (q - snd c0)) ->
  src_SubnetSplitter_extract_subnet (nets ver st) q count = Raise ValueError.
Proof. exact extract_bad_count_of_source. Qed.
Print Assumptions C20_extract_bad_count_of_source.

(* ---- remove_subnet(k) as generated ---- *)
Theorem C20_remove_of_source : forall ver B st H k c, Inv (width ver) B st H -> wf_cblk (width ver) k -> In c st ->
  cidr_of (width ver) k = cidr_of (width ver) c ->
  exists st', src_SubnetSplitter_remove_subnet (nets ver st) (net_of_cblk ver k) = Ok (nets ver st') /\
              Inv (width ver) B st' (H ++ [k]) /\ (forall x, In x st' <-> In x st /\ x <> c).
Proof. exact remove_of_source. Qed.
Print Assumptions C20_remove_of_source.

Theorem C20_remove_absent_of_source : forall ver st k,
  (forall c, In c st -> wf_cblk (width ver) c) -> wf_cblk (width ver) k ->
  (forall c, In c st -> cidr_of (width ver) k <> cidr_of (width ver) c) ->
  src_SubnetSplitter_remove_subnet (nets ver st) (net_of_cblk ver k) = Raise KeyError.
Proof. exact remove_absent_of_source. Qed.
Print Assumptions C20_remove_absent_of_source.

(* ---- one API call through the generated methods ---- *)
Theorem C20_step_of_source : forall ver, valid_ver ver = true -> forall B st H o,
  Inv (width ver) B st H -> op_ok ver o -> step_ok ver B st H o (view_res (src_sp_step ver (nets ver st) o)).
Proof. exact step_of_source. Qed.
Print Assumptions C20_step_of_source.

(* ---- histories run by the generated methods: any finite sequence of extract_subnet(q <= w, any count) and
        remove_subnet(any well-formed network) calls on SubnetSplitter(B) ---- *)
(* the history of the generated code is the model's history, block for block ... *)
Theorem C20_run_of_source : forall ver, valid_ver ver = true -> forall B, wf_cblk (width ver) B ->
  forall ops, Forall (op_ok ver) ops ->
  src_run ver B ops = (nets ver (fst (run ver B ops)), nets ver (snd (run ver B ops))).
Proof. exact src_run_eq. Qed.
Print Assumptions C20_run_of_source.

(* ... so every state it reaches is of the base's family and satisfies the invariant (tiling: no overlap, no gap) *)
Theorem C20_reachable_of_source : forall ver, valid_ver ver = true -> forall B, wf_cblk (width ver) B ->
  forall ops, Forall (op_ok ver) ops ->
  all_ver ver (fst (src_run ver B ops)) /\ all_ver ver (snd (src_run ver B ops)) /\
  Inv (width ver) B (cblks (fst (src_run ver B ops))) (cblks (snd (src_run ver B ops))).
Proof. exact reachable_of_source. Qed.
Print Assumptions C20_reachable_of_source.

(* the next call after any history *)
Theorem C20_reachable_step_of_source : forall ver, valid_ver ver = true -> forall B, wf_cblk (width ver) B ->
  forall ops o, Forall (op_ok ver) ops -> op_ok ver o ->
  step_ok ver B (cblks (fst (src_run ver B ops))) (cblks (snd (src_run ver B ops))) o
          (view_res (src_sp_step ver (fst (src_run ver B ops)) o)).
Proof. exact reachable_step_of_source. Qed.
Print Assumptions C20_reachable_step_of_source.

Theorem C20_run_snoc_of_source : forall ver B ops o, src_run ver B (ops ++ [o]) = src_acc_step ver (src_run ver B ops) o.
Proof. exact run_snoc_of_source. Qed.
Print Assumptions C20_run_snoc_of_source.

(* totality of the generated methods: no OutOfFuel / Unsupported / IndexError / AddrFormatError; a raising call changes nothing *)
Theorem C20_no_fuel_of_source : forall ver, valid_ver ver = true -> forall B st H o e,
  Inv (width ver) B st H -> op_ok ver o -> snd (src_sp_step ver (nets ver st) o) = Raise e ->
  match o with SpExtract _ _ => e = ValueError | SpRemove _ => e = KeyError end /\
  fst (src_sp_step ver (nets ver st) o) = nets ver st.
Proof. exact no_fuel_of_source. Qed.
Print Assumptions C20_no_fuel_of_source.

(* ---- the iteration order of the Python set is irrelevant, for the generated methods ---- *)
Theorem C20_available_unique_of_source : forall ver st st2, NoDup (map snd st) -> Permutation st st2 ->
  src_SubnetSplitter_available_subnets (nets ver st) = src_SubnetSplitter_available_subnets (nets ver st2).
Proof. exact available_unique_of_source. Qed.
Print Assumptions C20_available_unique_of_source.

Theorem C20_order_irrelevant_of_source : forall ver B st st2 H q count, valid_ver ver = true ->
  Inv (width ver) B st H -> Permutation st st2 -> q <= width ver ->
  match src_SubnetSplitter_extract_subnet (nets ver st) q count, src_SubnetSplitter_extract_subnet (nets ver st2) q count with
  | Ok (S', R), Ok (S2', R2) => R = R2 /\ forall x, cov (width ver) (cblks S') x <-> cov (width ver) (cblks S2') x
  | Raise e, Raise e2 => e = e2
  | _, _ => False
  end.
Proof. exact order_irrelevant_of_source. Qed.
Print Assumptions C20_order_irrelevant_of_source.

(* ---- the vocabulary added here is what the header says ---- *)
Theorem C20_code_vocabulary : forall ver st o (l : list net) (c : list cblk) (s : list net * list net) B ops
                                     (res : list net * outcome (list net)),
  cblks l = map (fun n => (nval n, nplen n)) l /\
  (all_ver ver l <-> forall n, In n l -> nver n = ver) /\
  nets ver c = map (fun b => {| nver := ver; nval := fst b; nplen := snd b |}) c /\
  cblks (nets ver c) = c /\
  src_sp_step ver st o =
    match o with
    | SpExtract q count => match src_SubnetSplitter_extract_subnet st q count with
                           | Ok (st', subnets) => (st', Ok subnets) | Raise e => (st, Raise e) end
    | SpRemove k => match src_SubnetSplitter_remove_subnet st {| nver := ver; nval := fst k; nplen := snd k |} with
                    | Ok st' => (st', Ok []) | Raise e => (st, Raise e) end
    end /\
  src_acc_step ver s o =
    (fst (src_sp_step ver (fst s) o),
     snd s ++ match snd (src_sp_step ver (fst s) o) with
              | Raise _ => []
              | Ok r => match o with SpExtract _ _ => r | SpRemove k => [{| nver := ver; nval := fst k; nplen := snd k |}] end
              end) /\
  src_run ver B ops = fold_left (src_acc_step ver) ops ([{| nver := ver; nval := fst B; nplen := snd B |}], []) /\
  view_res res = (cblks (fst res), match snd res with Ok r => Ok (cblks r) | Raise e => Raise e end).
Proof. exact code_vocabulary. Qed.
Print Assumptions C20_code_vocabulary.

(* non-vacuity: the history of Props/C20.v (C20_nonvacuous) run by the GENERATED methods on SubnetSplitter('10.0.0.77/24'):
   extract_subnet(26, 3), extract_subnet(28, 1), remove_subnet('10.0.0.230/27'), extract_subnet(24), a failing
   remove_subnet('10.0.0.0/26') and a failing extract_subnet(28, 2) meet the hypotheses of C20_reachable_of_source *)
Example C20_code_nonvacuous :
  let B := (167772237, 24) in
  let ops := [SpExtract 26 (Some 3); SpExtract 28 (Some 1); SpRemove (167772390, 27); SpExtract 24 None;
              SpRemove (167772160, 26); SpExtract 28 (Some 2)] in
  valid_ver 4 = true /\ wf_cblk (width 4) B /\ Forall (op_ok 4) ops /\
  src_run 4 B ops = (nets 4 [(167772368, 28)],
    nets 4 [(167772160, 26); (167772224, 26); (167772288, 26); (167772352, 28); (167772390, 27)]) /\
  snd (src_sp_step 4 (nets 4 [(167772368, 28)]) (SpExtract 28 (Some 2))) = Raise ValueError /\
  snd (src_sp_step 4 (nets 4 [(167772368, 28)]) (SpRemove (167772160, 26))) = Raise KeyError.
Proof.
  cbv zeta. split; [reflexivity|]. split; [unfold wf_cblk; cbn; lia|]. split.
  - repeat constructor; unfold op_ok, wf_cblk; cbn; lia.
  - repeat split; vm_compute; reflexivity.
Qed.
