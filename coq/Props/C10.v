(* Props/C10.v — property C10: ranged objects (IPNetwork, IPRange, IPGlob) behave exactly like the list of
   their addresses.  Nothing but statements closed by `exact`, each followed by Print Assumptions.

   Vocabulary (Model/ListLike.v, Model/PySlice.v):
     rwf x            x is a well-formed object: valid version, value/prefix or bounds inside the family
     r_addresses x    list(x) as the property means it: first, first+1, ..., last
     it_take n it     pull at most n elements from iterator `it`: (elements, Done | More | Raised e)
     list_take n l    the same observation made on a list: (firstn n l, Done iff length l <= n)
     aseq_take n s    the same observation made on the closed form (start, count, step)
     py_list_index / py_list_slice / py_slice_indices / range_len    CPython's list and range semantics *)
From NV Require Import Base.Tac Base.PyVal Model.Ip Model.PySlice Model.ListLike Proofs.C02 Proofs.C10.
From Coq Require Import Sorted.
Open Scope Z_scope.

(* ---- the specification objects mean what they should ---- *)
Theorem C10_wf_geometry : forall x, rwf x ->
  valid_ver (r_ver x) = true /\ 0 <= r_first x /\ r_first x <= r_last x /\ r_last x <= max_int (r_ver x).
Proof. exact rwf_geom. Qed.
Print Assumptions C10_wf_geometry.

Theorem C10_addresses : forall x, rwf x ->
  Z.of_nat (length (r_addresses x)) = r_size x /\
  (forall a, In a (r_addresses x) <-> r_first x <= a <= r_last x) /\
  StronglySorted Z.lt (r_addresses x) /\ NoDup (r_addresses x) /\
  (forall k, 0 <= k < r_size x -> nth_error (r_addresses x) (Z.to_nat k) = Some (r_first x + k)).
Proof. exact addresses_spec. Qed.
Print Assumptions C10_addresses.

Theorem C10_aseq_take_meaning : forall n start count step,
  aseq_take n {| a_start := start; a_count := count; a_step := step |} =
  (map (fun k => start + Z.of_nat k * step) (seq 0 (Nat.min n (Z.to_nat count))),
   if count <=? Z.of_nat n then Done else More).
Proof. exact aseq_take_meaning. Qed.
Print Assumptions C10_aseq_take_meaning.

(* len(range(a,b,c)) is the number of k >= 0 for which a + k*c has not reached b, and nothing else is *)
Theorem C10_range_len : forall a b c, c <> 0 ->
  0 <= range_len a b c /\
  (forall k, 0 <= k -> (k < range_len a b c <-> (if 0 <? c then a + k * c < b else b < a + k * c))) /\
  (forall n, 0 <= n ->
     (forall k, 0 <= k -> (k < n <-> (if 0 <? c then a + k * c < b else b < a + k * c))) -> n = range_len a b c).
Proof.
  exact (fun a b c Hc => conj (range_len_nonneg a b c)
           (conj (range_len_spec a b c Hc) (fun n Hn => range_len_unique a b c n Hc Hn))).
Qed.
Print Assumptions C10_range_len.

(* slice.indices(n): step 0 is rejected; otherwise negatives are shifted by n and clamped, every selected index
   lies in [0, n) and at most n are selected *)
Theorem C10_slice_indices : forall a b c n, 0 <= n ->
  (step_of c = 0 -> py_slice_indices a b c n = Raise ValueError) /\
  (step_of c <> 0 -> exists s e, py_slice_indices a b c n = Ok (s, e, step_of c) /\
      (0 < step_of c -> 0 <= s <= n /\ 0 <= e <= n) /\
      (step_of c < 0 -> -1 <= s <= n - 1 /\ -1 <= e <= n - 1) /\
      range_len s e (step_of c) <= n /\
      forall k, 0 <= k < range_len s e (step_of c) -> 0 <= s + k * step_of c < n).
Proof. exact slice_indices_facts. Qed.
Print Assumptions C10_slice_indices.

Theorem C10_slice_indices_explicit : forall a b c n, 0 <= n -> step_of c <> 0 ->
  py_slice_indices a b c n =
    Ok (if 0 <? step_of c
        then (norm_clamp a 0 0 n n, norm_clamp b n 0 n n, step_of c)
        else (norm_clamp a (n - 1) (-1) (n - 1) n, norm_clamp b (-1) (-1) (n - 1) n, step_of c)).
Proof. exact slice_indices_explicit. Qed.
Print Assumptions C10_slice_indices_explicit.

(* list slicing never reads outside the list: the slice of l has exactly range_len(indices) elements *)
Theorem C10_list_slice_total : forall (l : list Z) a b c r, py_list_slice l a b c = Ok r ->
  exists s e, py_slice_indices a b c (Z.of_nat (length l)) = Ok (s, e, step_of c) /\
              Z.of_nat (length r) = range_len s e (step_of c).
Proof. exact (@py_list_slice_length Z). Qed.
Print Assumptions C10_list_slice_total.

(* ---- iteration: yields first + k for 0 <= k < size, ascending, each once, then stops ---- *)
Theorem C10_iter : forall x, rwf x ->
  exists it, r_iter x = Ok it /\
    forall n, it_take n it = aseq_take n {| a_start := r_first x; a_count := r_size x; a_step := 1 |} /\
              it_take n it = list_take n (r_addresses x).
Proof. exact iter_spec. Qed.
Print Assumptions C10_iter.

(* ---- size and len ---- *)
Theorem C10_len : forall x,
  r_size x = r_last x - r_first x + 1 /\
  r_len x = if r_size x <=? 2 ^ 63 - 1 then Ok (r_size x) else Raise IndexError.
Proof. exact len_spec. Qed.
Print Assumptions C10_len.

Theorem C10_net_size : forall ver v p, rwf (RNet ver v p) -> r_size (RNet ver v p) = 2 ^ (width ver - p).
Proof. exact net_size_pow2. Qed.
Print Assumptions C10_net_size.

(* ---- integer indexing: exactly list indexing ---- *)
Theorem C10_index : forall x i, rwf x ->
  r_getitem_int x i =
    if (- r_size x <=? i) && (i <? r_size x) then Ok (r_ver x, r_first x + i mod r_size x) else Raise IndexError.
Proof. exact index_spec. Qed.
Print Assumptions C10_index.

Theorem C10_index_list : forall x i, rwf x ->
  r_getitem_int x i = omap (fun a => (r_ver x, a)) (py_list_index (r_addresses x) i).
Proof. exact index_list. Qed.
Print Assumptions C10_index_list.

(* ---- IPv4 slicing: x[a:b:c] is first + s + k*st for 0 <= k < len(range(s, e, st)), (s, e, st) = slice(a,b,c)
   .indices(size) — the definition of list slicing; every element lies in [first, last] ---- *)
Theorem C10_slice : forall x a b c, rwf x -> r_ver x = 4 ->
  match py_slice_indices a b c (r_size x) with
  | Raise err => err = ValueError /\ c = Some 0 /\ r_getitem_slice x a b c = Raise ValueError
  | Ok (s, e, st) =>
      st <> 0 /\ st = match c with None => 1 | Some z => z end /\
      (exists it, r_getitem_slice x a b c = Ok it /\
         forall n, it_take n it = aseq_take n {| a_start := r_first x + s; a_count := range_len s e st; a_step := st |}) /\
      (forall k, 0 <= k < range_len s e st ->
         0 <= s + k * st < r_size x /\ r_first x <= r_first x + s + k * st <= r_last x)
  end.
Proof. exact slice_match. Qed.
Print Assumptions C10_slice.

(* the same, literally: x[a:b:c] yields list(x)[a:b:c] (and raises when the list would) *)
Theorem C10_slice_list : forall x a b c, rwf x -> r_ver x = 4 ->
  match py_list_slice (r_addresses x) a b c with
  | Raise e => r_getitem_slice x a b c = Raise e
  | Ok l => exists it, r_getitem_slice x a b c = Ok it /\ forall n, it_take n it = list_take n l
  end.
Proof. exact slice_list. Qed.
Print Assumptions C10_slice_list.

Theorem C10_slice_v6 : forall x a b c, r_ver x = 6 -> r_getitem_slice x a b c = Raise TypeError.
Proof. exact slice_v6. Qed.
Print Assumptions C10_slice_v6.

(* ---- iter_iprange(start, end, step): start, start+step, ... while inside the closed interval ---- *)
Theorem C10_iprange_iter : forall sver sv ever ev step,
  valid_ver sver = true -> valid_ver ever = true -> 0 <= sv <= max_int sver -> 0 <= ev <= max_int ever ->
  forall n,
  iter_iprange_take n sver sv ever ev step =
    if negb (sver =? ever) then ([], Raised TypeError)
    else if step =? 0 then ([], Raised ValueError)
    else aseq_take n {| a_start := sv; a_count := Z.max 0 ((ev - sv) / step + 1); a_step := step |}.
Proof. exact iprange_spec. Qed.
Print Assumptions C10_iprange_iter.

(* the count above is the number of k >= 0 with start + k*step still inside the closed interval *)
Theorem C10_iprange_count : forall sv ev step, step <> 0 -> forall k, 0 <= k ->
  (k < Z.max 0 ((ev - sv) / step + 1) <-> (if 0 <? step then sv + k * step <= ev else ev <= sv + k * step)).
Proof. exact iprange_count_spec. Qed.
Print Assumptions C10_iprange_count.

(* non-vacuity: the F-12 witness object is well formed and its [::3] slice has the three expected addresses *)
Example C10_nonvacuous :
  rwf (RNet 4 167772160 29) /\ r_ver (RNet 4 167772160 29) = 4 /\
  exists it, r_getitem_slice (RNet 4 167772160 29) None None (Some 3) = Ok it /\
             it_take 10 it = ([167772160; 167772163; 167772166], Done).
Proof.
  split; [cbn [rwf]; split; [reflexivity|]; unfold width; cbn [Z.eqb Pos.eqb];
          change (2 ^ 32) with 4294967296; lia|].
  split; [reflexivity|]. exists (ItIprange 4 167772160 4 167772166 3). split; vm_compute; reflexivity.
Qed.
