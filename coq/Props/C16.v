(* Props/C16.v — property C16: IPv4/IPv6 conversion is lossless and refuses what cannot convert.
   Nothing but statements closed by `exact`, each followed by Print Assumptions.
   Objects: addresses (ver, value), networks {nver; nval; nplen} (host bits kept). *)
From NV Require Import Base.Tac Base.PyVal Base.Bits Model.Ip Model.Conv Proofs.C16.
Open Scope Z_scope.

(* embed: every IPv4 address a maps to ::ffff:a (default) or ::a (ipv4_compatible=True);
   the low 32 bits are a, and the image lies in the block its predicate recognises. *)
Theorem C16_embed_addr : forall a, 0 <= a < 2 ^ 32 ->
  addr_ipv6 4 a false = Ok (6, 0xffff00000000 + a) /\
  addr_ipv6 4 a true = Ok (6, a) /\
  (0xffff00000000 + a) mod 2 ^ 32 = a /\ a mod 2 ^ 32 = a /\
  Z.land (0xffff00000000 + a) 0xffffffff = a /\ Z.land a 0xffffffff = a /\
  is_ipv4_mapped 6 (0xffff00000000 + a) = true /\ is_ipv4_compat 6 a = true.
Proof. exact embed_addr. Qed.
Print Assumptions C16_embed_addr.

(* embed, networks: same value map, prefix p + 96, for every prefix 0..32 (host bits kept). *)
Theorem C16_embed_net : forall a p, 0 <= a < 2 ^ 32 -> 0 <= p <= 32 ->
  net_ipv6 4 a p false = Ok {| nver := 6; nval := 0xffff00000000 + a; nplen := p + 96 |} /\
  net_ipv6 4 a p true = Ok {| nver := 6; nval := a; nplen := p + 96 |}.
Proof. exact embed_net. Qed.
Print Assumptions C16_embed_net.

(* recognise: the predicates (written with v >> 32) hold exactly on ::ffff:0:0/96 and ::/96,
   for every integer v; never on an IPv4 object; the blocks are disjoint. *)
Theorem C16_recognise :
  (forall v, is_ipv4_mapped 6 v = true <-> 0xffff00000000 <= v <= 0xffffffffffff) /\
  (forall v, is_ipv4_compat 6 v = true <-> 0 <= v <= 0xffffffff) /\
  (forall v, is_ipv4_mapped 6 v = true <->
             net_first 128 0xffff00000000 96 <= v <= net_last 128 0xffff00000000 96) /\
  (forall v, is_ipv4_compat 6 v = true <-> net_first 128 0 96 <= v <= net_last 128 0 96) /\
  (forall v, is_ipv4_mapped 4 v = false /\ is_ipv4_compat 4 v = false) /\
  (forall v, is_ipv4_mapped 6 v = true -> is_ipv4_compat 6 v = true -> False).
Proof. exact recognise_all. Qed.
Print Assumptions C16_recognise.

(* roundtrip: x.ipv6(c).ipv4() = x for both embeddings c, addresses and networks. *)
Theorem C16_roundtrip_addr : forall a c, 0 <= a < 2 ^ 32 -> addr_v6_then_v4 4 a c = Ok (4, a).
Proof. exact roundtrip_addr. Qed.
Print Assumptions C16_roundtrip_addr.

Theorem C16_roundtrip_net : forall a p c, 0 <= a < 2 ^ 32 -> 0 <= p <= 32 ->
  net_v6_then_v4 4 a p c = Ok {| nver := 4; nval := a; nplen := p |}.
Proof. exact roundtrip_net. Qed.
Print Assumptions C16_roundtrip_net.

(* lossless in the other direction too: y.ipv4().ipv6(kind of y's block) = y. *)
Theorem C16_roundtrip_back_addr : forall v,
  (is_ipv4_mapped 6 v = true -> addr_v4_then_v6 6 v false = Ok (6, v)) /\
  (is_ipv4_compat 6 v = true -> addr_v4_then_v6 6 v true = Ok (6, v)).
Proof. exact roundtrip_back_addr. Qed.
Print Assumptions C16_roundtrip_back_addr.

Theorem C16_roundtrip_back_net : forall v p, 96 <= p <= 128 ->
  (is_ipv4_mapped 6 v = true ->
     net_v4_then_v6 6 v p false = Ok {| nver := 6; nval := v; nplen := p |}) /\
  (is_ipv4_compat 6 v = true ->
     net_v4_then_v6 6 v p true = Ok {| nver := 6; nval := v; nplen := p |}).
Proof. exact roundtrip_back_net. Qed.
Print Assumptions C16_roundtrip_back_net.

(* identity: v4.ipv4() and v6.ipv6() return the object; v6.ipv6(ipv4_compatible=True) rewrites
   exactly the IPv4-mapped block to the IPv4-compatible one and nothing else. *)
Theorem C16_identity_addr :
  (forall a, 0 <= a < 2 ^ 32 -> addr_ipv4 4 a = Ok (4, a)) /\
  (forall v, 0 <= v < 2 ^ 128 -> addr_ipv6 6 v false = Ok (6, v)) /\
  (forall v, 0 <= v < 2 ^ 128 ->
     addr_ipv6 6 v true = Ok (6, if is_ipv4_mapped 6 v then v - 0xffff00000000 else v)).
Proof. exact identity_addr. Qed.
Print Assumptions C16_identity_addr.

Theorem C16_identity_net :
  (forall a p, 0 <= a < 2 ^ 32 -> 0 <= p <= 32 ->
     net_ipv4 4 a p = Ok {| nver := 4; nval := a; nplen := p |}) /\
  (forall v p, 0 <= v < 2 ^ 128 -> 0 <= p <= 128 ->
     net_ipv6 6 v p false = Ok {| nver := 6; nval := v; nplen := p |}) /\
  (forall v p, 0 <= v < 2 ^ 128 -> 0 <= p <= 128 ->
     net_ipv6 6 v p true =
       Ok {| nver := 6; nval := if is_ipv4_mapped 6 v then v - 0xffff00000000 else v; nplen := p |}).
Proof. exact identity_net. Qed.
Print Assumptions C16_identity_net.

(* refuse: an IPv6 value outside both /96 blocks raises exactly AddrConversionError (any integer v);
   so does every network whose prefix is shorter than /96, whatever its value. *)
Theorem C16_refuse_addr : forall v,
  ~ (0 <= v <= 0xffffffff) -> ~ (0xffff00000000 <= v <= 0xffffffffffff) ->
  addr_ipv4 6 v = Raise AddrConversionError.
Proof. exact refuse_addr_ranges. Qed.
Print Assumptions C16_refuse_addr.

Theorem C16_refuse_net : forall v p, p <= 128 ->
  p < 96 \/ (~ (0 <= v <= 0xffffffff) /\ ~ (0xffff00000000 <= v <= 0xffffffffffff)) ->
  net_ipv4 6 v p = Raise AddrConversionError.
Proof. exact refuse_net_ranges. Qed.
Print Assumptions C16_refuse_net.

(* never a wrong address: whenever ipv4() on an IPv6 object answers at all, the answer is the
   version-4 object with the low 32 bits (and prefix - 96), and the input was in one of the blocks. *)
Theorem C16_ipv4_sound_addr : forall v y, addr_ipv4 6 v = Ok y ->
  y = (4, v mod 2 ^ 32) /\ (is_ipv4_mapped 6 v = true \/ is_ipv4_compat 6 v = true).
Proof. exact addr_ipv4_sound. Qed.
Print Assumptions C16_ipv4_sound_addr.

Theorem C16_ipv4_sound_net : forall v p n, p <= 128 -> net_ipv4 6 v p = Ok n ->
  n = {| nver := 4; nval := v mod 2 ^ 32; nplen := p - 96 |} /\ 96 <= p /\
  (is_ipv4_mapped 6 v = true \/ is_ipv4_compat 6 v = true).
Proof. exact net_ipv4_sound. Qed.
Print Assumptions C16_ipv4_sound_net.

(* non-vacuity: 192.0.2.1/23 <-> ::ffff:192.0.2.1/119, and the F-15 witnesses are refused properly *)
Example C16_nonvacuous :
  net_ipv6 4 0xc0000201 23 false = Ok {| nver := 6; nval := 0xffffc0000201; nplen := 119 |} /\
  net_ipv4 6 0xffffc0000201 119 = Ok {| nver := 4; nval := 0xc0000201; nplen := 23 |} /\
  addr_ipv4 6 0x100000000 = Raise AddrConversionError /\
  net_ipv4 6 0xffff01020304 64 = Raise AddrConversionError.
Proof. repeat split; vm_compute; reflexivity. Qed.
