(* Props/C01_code_grammar.v — property C01, second file of the code-level theorems (see the header of Props/C01_code.v for the
   replacement table, the reading of the back-end parameter `be` and the clauses still about the model): the theorems of
   Props/C01_grammar.v that mention netaddr's own functions, stated about the definitions regenerated from the CURRENT text of
   netaddr/fbsocket.py, strategy/ipv4.py, ipv6.py and IPAddress.__init__ -- against the independent declarative grammar of
   Proofs/C01_Grammar.v (DottedQuad, Rfc4291).  The four C01_fallback_… theorems are ENTIRELY about regenerated code; the theorems with a
   `be` are, for be = Platform, relative to the oracles Std4 / Std6.
   Nothing but statements closed by `exact`, each followed by Print Assumptions. *)
From Coq Require Import ZArith List String Ascii Lia.
From NV Require Import Base.PyVal Base.PyStr Model.IpText Model.FbSocket Model.AddrText
  Proofs.C01_Chars Proofs.C01_V6 Proofs.C01_Value Proofs.C01_V4 Proofs.C01_Aton Proofs.C01_Grammar
  Model.SrcPrelude Model.SrcPreludeText
  Gen.pysrc_gen Gen.pysrc_fbsocket_gen Gen.pysrc_ipv4_gen Gen.pysrc_ipv6_gen Gen.pysrc_ctor_gen
  Proofs.GenOk_Src_C01 Proofs.GenOk_Src_C01_text Proofs.Code_C01.
Import ListNotations.
Open Scope Z_scope.

(* ---- against the independent declarative grammar of Proofs/C01_Grammar.v (DottedQuad, Rfc4291) ---- *)
(* ENTIRELY ABOUT REGENERATED CODE: netaddr.fbsocket.inet_pton accepts exactly the derivable strings, with the derived groups *)
Theorem C01_fallback_accepts_exactly_rfc4291_of_source : forall s p,
  src_fbsocket_inet_pton 10 s = Ok p <-> exists g, Rfc4291 (chars s) g /\ p = bytes_of_words g.
Proof. exact fallback_rfc4291_code. Qed.
Print Assumptions C01_fallback_accepts_exactly_rfc4291_of_source.

Theorem C01_fallback_rejects_non_rfc4291_of_source : forall s,
  src_fbsocket_inet_pton 10 s = Raise ValueError <-> forall g, ~ Rfc4291 (chars s) g.
Proof. exact fallback_rfc4291_reject_code. Qed.
Print Assumptions C01_fallback_rejects_non_rfc4291_of_source.

Theorem C01_fallback_accepts_exactly_dotted_quad_of_source : forall s q,
  (src_fbsocket__inet_pton_af_inet s = Ok q <-> DottedQuad (chars s) q) /\
  (src_fbsocket_inet_pton 2 s = Ok q <-> DottedQuad (chars s) q).
Proof. exact fallback_dotted_quad_code. Qed.
Print Assumptions C01_fallback_accepts_exactly_dotted_quad_of_source.

Theorem C01_fallback_rejects_non_dotted_quad_of_source : forall s,
  src_fbsocket__inet_pton_af_inet s = Raise ValueError <-> forall q, ~ DottedQuad (chars s) q.
Proof. exact fallback_dotted_quad_reject_code. Qed.
Print Assumptions C01_fallback_rejects_non_dotted_quad_of_source.

(* strategy level, both back-ends *)
Theorem C01_strict_accepts_exactly_rfc4291_of_source : forall be s flags v,
  src_ipv6_str_to_int be s flags = Ok v <-> exists g, Rfc4291 (chars s) g /\ v = Std6.words_value g.
Proof. exact strict_rfc4291_code. Qed.
Print Assumptions C01_strict_accepts_exactly_rfc4291_of_source.

Theorem C01_strict_rejects_non_rfc4291_of_source : forall be s flags,
  src_ipv6_str_to_int be s flags = Raise AddrFormatError <-> forall g, ~ Rfc4291 (chars s) g.
Proof. exact strict_rfc4291_reject_code. Qed.
Print Assumptions C01_strict_rejects_non_rfc4291_of_source.

Theorem C01_strict_accepts_exactly_dotted_quad_of_source : forall be s v,
  src_ipv4_str_to_int be s INET_PTON = Ok v <->
  exists a b c d, DottedQuad (chars s) [a; b; c; d] /\ v = a * 2 ^ 24 + b * 2 ^ 16 + c * 2 ^ 8 + d.
Proof. exact strict_dotted_quad_code. Qed.
Print Assumptions C01_strict_accepts_exactly_dotted_quad_of_source.

Theorem C01_strict_rejects_non_dotted_quad_of_source : forall be s,
  src_ipv4_str_to_int be s INET_PTON = Raise AddrFormatError <-> forall q, ~ DottedQuad (chars s) q.
Proof. exact strict_dotted_quad_reject_code. Qed.
Print Assumptions C01_strict_rejects_non_dotted_quad_of_source.

(* constructor level *)
Theorem C01_strict_constructor_grammar_of_source : forall be s version r,
  version = None \/ version = Some 4 \/ version = Some 6 ->
  (src_IPAddress_init_str be s version INET_PTON = Ok r <->
   ((exists a b c d, DottedQuad (chars s) [a; b; c; d] /\ r = (4, a * 2 ^ 24 + b * 2 ^ 16 + c * 2 ^ 8 + d)) \/
    (exists g, Rfc4291 (chars s) g /\ r = (6, Std6.words_value g))) /\
   (version = None \/ version = Some (fst r))).
Proof. exact strict_constructor_code. Qed.
Print Assumptions C01_strict_constructor_grammar_of_source.

Theorem C01_strict_constructor_rejects_of_source : forall be s version,
  version = None \/ version = Some 4 \/ version = Some 6 ->
  (forall r, ~ (((exists a b c d, DottedQuad (chars s) [a; b; c; d] /\ r = (4, a * 2 ^ 24 + b * 2 ^ 16 + c * 2 ^ 8 + d)) \/
                 (exists g, Rfc4291 (chars s) g /\ r = (6, Std6.words_value g))) /\
                (version = None \/ version = Some (fst r)))) ->
  exists e, src_IPAddress_init_str be s version INET_PTON = Raise e /\
            (e = AddrFormatError \/ (e = ValueError /\ contains_char "/" s = true)).
Proof. exact strict_constructor_reject_code. Qed.
Print Assumptions C01_strict_constructor_rejects_of_source.

(* non-vacuity: the generated parsers compute *)
Example C01_code_grammar_nonvacuous :
  src_fbsocket_inet_pton 10 "::ffff:1.2.3.4"%string = Ok (bytes_of_words [0; 0; 0; 0; 0; 65535; 258; 772]) /\
  src_fbsocket_inet_pton 10 ":::"%string = Raise ValueError /\
  src_IPAddress_init_str Fallback "::ffff:1.2.3.4" None INET_PTON = Ok (6, 281470698652420) /\
  src_IPAddress_init_str Platform "1.2.3.4" (Some 6) INET_PTON = Raise AddrFormatError /\
  src_ipv4_str_to_int Fallback "1.2.3.4" INET_PTON = Ok 16909060.
Proof. repeat split; vm_compute; reflexivity. Qed.
