(* Props/Structure_C05.v -- WRITTEN BY tools/mkstructure.py.  Structure tie for C05: the parameter lists (names, order, default values),
   decorators, class bases and non-def class-body statements (aliases, __slots__, property lines, class attributes) of the classes and
   functions this property relies on (harness/gen/structure.py, table RELEVANT) -- and, for files it relies on entirely, the list of
   their top-level names -- regenerated from the working tree on every run, are the ones the models, adapters and translator tables
   were written against.  The source translator reads function BODIES; this covers what is around them.  27 groups, 52 rows.
   Statement closed by `exact`, followed by Print Assumptions. *)
From Coq Require Import List String Bool.
From NV Require Import Gen.structure_gen Proofs.GenOk_Structure_C05.
Import ListNotations.
Open Scope string_scope.

Theorem C05_structure_tie :
  gen_names_compat = ["_bytes_join"; "_zip"; "_range"; "_iter_next"] /\
  filter (keep drop_compat___bytes_join) gen_struct_compat___bytes_join = pinned_struct_compat___bytes_join /\
  filter (keep drop_compat___zip) gen_struct_compat___zip = pinned_struct_compat___zip /\
  filter (keep drop_compat___range) gen_struct_compat___range = pinned_struct_compat___range /\
  filter (keep drop_compat___iter_next) gen_struct_compat___iter_next = pinned_struct_compat___iter_next /\
  filter (keep drop_ip_init__BaseIP) gen_struct_ip_init__BaseIP = pinned_struct_ip_init__BaseIP /\
  filter (keep drop_ip_init__IPAddress) gen_struct_ip_init__IPAddress = pinned_struct_ip_init__IPAddress /\
  filter (keep drop_ip_init__IPNetwork) gen_struct_ip_init__IPNetwork = pinned_struct_ip_init__IPNetwork /\
  filter (keep drop_ip_init__IPListMixin) gen_struct_ip_init__IPListMixin = pinned_struct_ip_init__IPListMixin /\
  filter (keep drop_ip_init__parse_ip_network) gen_struct_ip_init__parse_ip_network = pinned_struct_ip_init__parse_ip_network /\
  filter (keep drop_ip_init___arg_repr) gen_struct_ip_init___arg_repr = pinned_struct_ip_init___arg_repr /\
  filter (keep drop_ip_init__IPRange) gen_struct_ip_init__IPRange = pinned_struct_ip_init__IPRange /\
  filter (keep drop_ip_init__cidr_merge) gen_struct_ip_init__cidr_merge = pinned_struct_ip_init__cidr_merge /\
  filter (keep drop_ip_init__iprange_to_cidrs) gen_struct_ip_init__iprange_to_cidrs = pinned_struct_ip_init__iprange_to_cidrs /\
  filter (keep drop_ip_init__spanning_cidr) gen_struct_ip_init__spanning_cidr = pinned_struct_ip_init__spanning_cidr /\
  filter (keep drop_ip_init__cidr_partition) gen_struct_ip_init__cidr_partition = pinned_struct_ip_init__cidr_partition /\
  filter (keep drop_ip_init__cidr_exclude) gen_struct_ip_init__cidr_exclude = pinned_struct_ip_init__cidr_exclude /\
  filter (keep drop_ip_init__iter_unique_ips) gen_struct_ip_init__iter_unique_ips = pinned_struct_ip_init__iter_unique_ips /\
  gen_names_ip_glob = ["_octet_value"; "valid_glob"; "glob_to_iptuple"; "glob_to_iprange"; "iprange_to_globs"; "glob_to_cidrs"; "cidr_to_glob"; "IPGlob"] /\
  filter (keep drop_ip_glob___octet_value) gen_struct_ip_glob___octet_value = pinned_struct_ip_glob___octet_value /\
  filter (keep drop_ip_glob__valid_glob) gen_struct_ip_glob__valid_glob = pinned_struct_ip_glob__valid_glob /\
  filter (keep drop_ip_glob__glob_to_iptuple) gen_struct_ip_glob__glob_to_iptuple = pinned_struct_ip_glob__glob_to_iptuple /\
  filter (keep drop_ip_glob__glob_to_iprange) gen_struct_ip_glob__glob_to_iprange = pinned_struct_ip_glob__glob_to_iprange /\
  filter (keep drop_ip_glob__iprange_to_globs) gen_struct_ip_glob__iprange_to_globs = pinned_struct_ip_glob__iprange_to_globs /\
  filter (keep drop_ip_glob__glob_to_cidrs) gen_struct_ip_glob__glob_to_cidrs = pinned_struct_ip_glob__glob_to_cidrs /\
  filter (keep drop_ip_glob__cidr_to_glob) gen_struct_ip_glob__cidr_to_glob = pinned_struct_ip_glob__cidr_to_glob /\
  filter (keep drop_ip_glob__IPGlob) gen_struct_ip_glob__IPGlob = pinned_struct_ip_glob__IPGlob.
Proof. exact (conj names_compat_ok (conj struct_compat___bytes_join_ok (conj struct_compat___zip_ok (conj struct_compat___range_ok (conj struct_compat___iter_next_ok (conj struct_ip_init__BaseIP_ok (conj struct_ip_init__IPAddress_ok (conj struct_ip_init__IPNetwork_ok (conj struct_ip_init__IPListMixin_ok (conj struct_ip_init__parse_ip_network_ok (conj struct_ip_init___arg_repr_ok (conj struct_ip_init__IPRange_ok (conj struct_ip_init__cidr_merge_ok (conj struct_ip_init__iprange_to_cidrs_ok (conj struct_ip_init__spanning_cidr_ok (conj struct_ip_init__cidr_partition_ok (conj struct_ip_init__cidr_exclude_ok (conj struct_ip_init__iter_unique_ips_ok (conj names_ip_glob_ok (conj struct_ip_glob___octet_value_ok (conj struct_ip_glob__valid_glob_ok (conj struct_ip_glob__glob_to_iptuple_ok (conj struct_ip_glob__glob_to_iprange_ok (conj struct_ip_glob__iprange_to_globs_ok (conj struct_ip_glob__glob_to_cidrs_ok (conj struct_ip_glob__cidr_to_glob_ok struct_ip_glob__IPGlob_ok)))))))))))))))))))))))))). Qed.
Print Assumptions C05_structure_tie.
