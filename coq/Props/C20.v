(* Props/C20.v — property C20: SubnetSplitter never hands out overlapping space.
   Nothing but statements closed by `exact`, each followed by Print Assumptions.
   Vocabulary (Proofs/C20.v, spelled out by C20_Inv_def / C20_step_ok_def / C20_vocabulary):
   a network is c = (value, prefixlen) of the family `ver` (width w = width ver, 32 or 128), host bits allowed;
   inc w c x: address x lies in c (first_of w c <= x <= last_of w c); cov w l x: x lies in a network of l;
   hostfree w c: c has no host bits; B: the base network; st: the `_subnets` set as a list; H: every block handed out
   (returned by extract_subnet) or removed (remove_subnet) so far, in order.
   Inv w B st H: available blocks well formed, host-bit-free unless it is the untouched base, pairwise disjoint,
   of PAIRWISE DISTINCT PREFIX LENGTHS, disjoint from every block of H; the blocks of H pairwise disjoint; and
   every address of B lies in an available block or in a block of H, and nothing else does (tiling: no overlap, no gap).
   chosen st q c0: c0 is an available block with the largest prefix <= q (unique, C20_chosen_unique).
   subnets_of w c0 q cnt = [ {first c0 + i * 2^(w-q); q} | 0 <= i < cnt ].
   The proofs that go through the `cidr_merge(subnets)` call (Proofs/C20.v) are stated under `cidr_merge_spec`
   (Proofs/NetDen.v: cidr_merge returns the canonical list of exactly the union of its inputs); here that hypothesis
   is discharged by C05_merge (Proofs/C05.v), so the theorems below carry no hypothesis. *)
From NV Require Import Base.Tac Base.PyVal Base.Bits Base.Canon Model.Ip Model.Partition Model.Merge Model.Subnet Model.Splitter
  Proofs.C09 Proofs.C11 Proofs.NetDen Proofs.C05 Proofs.C20_excl Proofs.C20.
From Coq Require Import Sorting.Permutation.
Open Scope Z_scope.

(* SubnetSplitter(base): the base alone is available, nothing has been handed out *)
Theorem C20_init : forall w B, 0 <= w -> wf_cblk w B -> Inv w B [B] [].
Proof. exact Inv_init. Qed.
Print Assumptions C20_init.

(* ---- extract_subnet(q, count), for every q <= w (negative q included) and every count (None, 0, negative, too large) ---- *)
(* read off the outcome: a normal return keeps the invariant with the returned subnets added to H; every returned
   subnet is a host-bit-free /q inside the base, disjoint from everything handed out or removed before and from the
   other returned subnets; an empty result leaves the state as it was; the only exception is ValueError *)
Theorem C20_extract : forall ver, valid_ver ver = true -> forall B st H q count,
  Inv (width ver) B st H -> q <= width ver ->
  match extract_subnet ver st q count with
  | Ok (st', subnets) =>
      Inv (width ver) B st' (H ++ subnets) /\
      (forall s, In s subnets -> snd s = q /\ wf_cblk (width ver) s /\ hostfree (width ver) s /\
                 (forall x, inc (width ver) s x -> inc (width ver) B x) /\
                 (forall h x, In h H -> inc (width ver) h x -> inc (width ver) s x -> False)) /\
      pw_disjoint (width ver) subnets /\
      (subnets = [] -> st' = st)
  | Raise e => e = ValueError
  end.
Proof. exact (extract_cases C05_merge). Qed.
Print Assumptions C20_extract.

(* which block is used, and what exactly comes back: no available block of prefix <= q: [] and nothing changes *)
Theorem C20_extract_none : forall ver st q count,
  (forall c, In c st -> wf_cblk (width ver) c) -> (forall c, In c st -> q < snd c) ->
  extract_subnet ver st q count = Ok (st, []).
Proof. exact extract_none. Qed.
Print Assumptions C20_extract_none.

(* otherwise the available block c0 with the largest prefix <= q is used; with cnt = count (default 2^(q - p0)) in
   [1, 2^(q - p0)] its first cnt blocks /q are returned (never an empty list), the invariant is kept and the
   available space shrinks by exactly the returned subnets *)
Theorem C20_extract_chosen : forall ver, valid_ver ver = true -> forall B st H q count c0,
  Inv (width ver) B st H -> q <= width ver -> chosen st q c0 ->
  let cnt := req_count count q (snd c0) in
  1 <= cnt <= 2 ^ (q - snd c0) ->
  exists st', extract_subnet ver st q count = Ok (st', subnets_of (width ver) c0 q cnt) /\
    Inv (width ver) B st' (H ++ subnets_of (width ver) c0 q cnt) /\
    subnets_of (width ver) c0 q cnt <> [] /\
    (forall s, In s (subnets_of (width ver) c0 q cnt) ->
       snd s = q /\ wf_cblk (width ver) s /\ hostfree (width ver) s /\
       (forall x, inc (width ver) s x -> inc (width ver) c0 x)) /\
    pw_disjoint (width ver) (subnets_of (width ver) c0 q cnt) /\
    (forall x, cov (width ver) st' x <-> cov (width ver) st x /\ ~ cov (width ver) (subnets_of (width ver) c0 q cnt) x).
Proof. exact (extract_ok C05_merge). Qed.
Print Assumptions C20_extract_chosen.

(* ... and a count outside [1, 2^(q - p0)] raises ValueError (the state is kept by sp_step, C20_step) *)
Theorem C20_extract_bad_count : forall ver, valid_ver ver = true -> forall B st H q count c0,
  Inv (width ver) B st H -> q <= width ver -> chosen st q c0 ->
  ~ (1 <= req_count count q (snd c0) <= 2 ^ (q - snd c0)) -> extract_subnet ver st q count = Raise ValueError.
Proof. exact extract_bad_count. Qed.
Print Assumptions C20_extract_bad_count.

(* the three cases are exhaustive and the chosen block is unique *)
Theorem C20_chosen_exists : forall ver, valid_ver ver = true -> forall st q,
  (forall c, In c st -> q < snd c) \/ exists c0, chosen st q c0.
Proof. exact chosen_dec. Qed.
Print Assumptions C20_chosen_exists.

Theorem C20_chosen_unique : forall st q c0 c1, NoDup (map snd st) -> chosen st q c0 -> chosen st q c1 -> c0 = c1.
Proof. exact chosen_unique. Qed.
Print Assumptions C20_chosen_unique.

(* ---- remove_subnet(k) ---- *)
(* k equal (as IPNetwork: same first and last address) to an available block c: c leaves the available space *)
Theorem C20_remove : forall ver B st H k c, Inv (width ver) B st H -> wf_cblk (width ver) k -> In c st ->
  cidr_of (width ver) k = cidr_of (width ver) c ->
  exists st', remove_subnet (width ver) st k = Ok st' /\ Inv (width ver) B st' (H ++ [k]) /\
              (forall x, In x st' <-> In x st /\ x <> c).
Proof. exact remove_ok. Qed.
Print Assumptions C20_remove.

(* anything else: KeyError *)
Theorem C20_remove_absent : forall ver st k, (forall c, In c st -> wf_cblk (width ver) c) -> wf_cblk (width ver) k ->
  (forall c, In c st -> cidr_of (width ver) k <> cidr_of (width ver) c) -> remove_subnet (width ver) st k = Raise KeyError.
Proof. exact remove_absent. Qed.
Print Assumptions C20_remove_absent.

(* ---- one API call (sp_step: a raising call leaves the state as it was) ---- *)
Theorem C20_step : forall ver, valid_ver ver = true -> forall B st H o,
  Inv (width ver) B st H -> op_ok ver o -> step_ok ver B st H o (sp_step ver st o).
Proof. exact (step_spec C05_merge). Qed.
Print Assumptions C20_step.

(* ---- histories: any finite sequence of extract_subnet(q <= w, any count) and remove_subnet(any network) calls ----
   `run ver B ops` = (available blocks, blocks handed out or removed so far) after the calls `ops` on SubnetSplitter(B) *)
Theorem C20_reachable : forall ver, valid_ver ver = true -> forall B, wf_cblk (width ver) B ->
  forall ops, Forall (op_ok ver) ops -> Inv (width ver) B (fst (run ver B ops)) (snd (run ver B ops)).
Proof. exact (reachable C05_merge). Qed.
Print Assumptions C20_reachable.

(* the next call after any history: every subnet returned has the requested prefix, lies inside the base and is disjoint
   from every subnet returned or removed before; failed requests (ValueError, KeyError) leave the state unchanged *)
Theorem C20_reachable_step : forall ver, valid_ver ver = true -> forall B, wf_cblk (width ver) B ->
  forall ops o, Forall (op_ok ver) ops -> op_ok ver o ->
  step_ok ver B (fst (run ver B ops)) (snd (run ver B ops)) o (sp_step ver (fst (run ver B ops)) o).
Proof. exact (reachable_step C05_merge). Qed.
Print Assumptions C20_reachable_step.

Theorem C20_run_snoc : forall ver B ops o, run ver B (ops ++ [o]) = acc_step ver (run ver B ops) o.
Proof. exact run_snoc. Qed.
Print Assumptions C20_run_snoc.

(* totality: no OutOfFuel, Unsupported, IndexError, AddrFormatError; KeyError only from the user's remove_subnet
   (never from the internal remove_subnet of the chosen block), ValueError only from extract_subnet *)
Theorem C20_no_fuel : forall ver, valid_ver ver = true -> forall B st H o e,
  Inv (width ver) B st H -> op_ok ver o -> snd (sp_step ver st o) = Raise e ->
  match o with SpExtract _ _ => e = ValueError | SpRemove _ => e = KeyError end /\ fst (sp_step ver st o) = st.
Proof. exact (step_exn C05_merge). Qed.
Print Assumptions C20_no_fuel.

(* ---- the iteration order of the Python set is irrelevant ---- *)
(* with pairwise distinct prefix lengths (part of Inv) the stable sort of available_subnets has one answer *)
Theorem C20_available_unique : forall st st2, NoDup (map snd st) -> Permutation st st2 ->
  available_subnets st = available_subnets st2.
Proof. exact available_subnets_unique. Qed.
Print Assumptions C20_available_unique.

Theorem C20_Inv_perm : forall w B st st2 H, Permutation st st2 -> Inv w B st H -> Inv w B st2 H.
Proof. exact Inv_perm. Qed.
Print Assumptions C20_Inv_perm.

(* listing the same set in another order gives the same returned subnets and the same available space afterwards *)
Theorem C20_order_irrelevant : forall ver B st st2 H q count, valid_ver ver = true ->
  Inv (width ver) B st H -> Permutation st st2 -> q <= width ver ->
  match extract_subnet ver st q count, extract_subnet ver st2 q count with
  | Ok (st', s), Ok (st2', s2) => s = s2 /\ forall x, cov (width ver) st' x <-> cov (width ver) st2' x
  | Raise e, Raise e2 => e = e2
  | _, _ => False
  end.
Proof. exact (extract_order_irrelevant C05_merge). Qed.
Print Assumptions C20_order_irrelevant.

(* ---- the vocabulary is what the header says ---- *)
Theorem C20_Inv_def : forall w B st H, Inv w B st H <->
  (forall c, In c st -> wf_cblk w c) /\
  (forall c, In c st -> hostfree w c \/ c = B) /\
  NoDup (map snd st) /\
  (forall a b x, In a st -> In b st -> inc w a x -> inc w b x -> a = b) /\
  (forall h, In h H -> wf_cblk w h) /\
  (NoDup H /\ forall a b x, In a H -> In b H -> inc w a x -> inc w b x -> a = b) /\
  (forall c h x, In c st -> In h H -> inc w c x -> inc w h x -> False) /\
  (forall x, inc w B x <-> (exists c, In c st /\ inc w c x) \/ (exists h, In h H /\ inc w h x)).
Proof. exact Inv_def. Qed.
Print Assumptions C20_Inv_def.

Theorem C20_step_ok_def : forall ver B st H o res, step_ok ver B st H o res <->
  Inv (width ver) B (fst res) (H ++ handed o (snd res)) /\
  match o, snd res with
  | SpExtract q _, Ok subnets =>
      (forall s, In s subnets -> snd s = q /\ wf_cblk (width ver) s /\ hostfree (width ver) s /\
                 (forall x, inc (width ver) s x -> inc (width ver) B x) /\
                 (forall h x, In h H -> inc (width ver) h x -> inc (width ver) s x -> False)) /\
      pw_disjoint (width ver) subnets /\ (subnets = [] -> fst res = st)
  | SpExtract _ _, Raise e => e = ValueError /\ fst res = st
  | SpRemove k, Ok s => s = [] /\ exists c, In c st /\ cidr_of (width ver) k = cidr_of (width ver) c /\
                                            forall x, In x (fst res) <-> In x st /\ x <> c
  | SpRemove k, Raise e => e = KeyError /\ fst res = st /\ forall c, In c st -> cidr_of (width ver) k <> cidr_of (width ver) c
  end.
Proof. exact step_ok_def. Qed.
Print Assumptions C20_step_ok_def.

Theorem C20_vocabulary : forall w c l x o r k q cnt c0 st count p,
  (inc w c x <-> first_of w c <= x <= last_of w c) /\
  (first_of w c = fst c - fst c mod 2 ^ (w - snd c)) /\ (last_of w c = first_of w c + 2 ^ (w - snd c) - 1) /\
  (cidr_of w c = (first_of w c, snd c)) /\
  (cov w l x <-> exists d, In d l /\ inc w d x) /\
  (hostfree w c <-> fst c = first_of w c) /\
  (wf_cblk w c <-> 0 <= fst c < 2 ^ w /\ 0 <= snd c <= w) /\
  (pw_disjoint w l <-> NoDup l /\ forall a b y, In a l -> In b l -> inc w a y -> inc w b y -> a = b) /\
  (chosen st q c0 <-> In c0 st /\ snd c0 <= q /\ forall d, In d st -> snd d <= q -> snd d <= snd c0) /\
  req_count count q p = match count with None => 2 ^ (q - p) | Some n => n end /\
  subnets_of w c0 q cnt = map (fun i => (first_of w c0 + i * 2 ^ (w - q), q)) (zseq 0 (Z.to_nat cnt)) /\
  (op_ok k o <-> match o with SpExtract q' _ => q' <= width k | SpRemove n => wf_cblk (width k) n end) /\
  handed o r = match r with Raise _ => [] | Ok s => match o with SpExtract _ _ => s | SpRemove n => [n] end end.
Proof. exact vocabulary. Qed.
Print Assumptions C20_vocabulary.

(* non-vacuity: SubnetSplitter('10.0.0.77/24') (host bits in the base); extract_subnet(26, 3), extract_subnet(28, 1),
   remove_subnet('10.0.0.230/27') (host bits, equal to the available 10.0.0.224/27), extract_subnet(24) (nothing coarse
   enough: []), a failing remove_subnet('10.0.0.0/26') (KeyError) and a failing extract_subnet(28, 2) (ValueError)
   meet the hypotheses of C20_reachable / C20_reachable_step *)
Example C20_nonvacuous :
  let B := (167772237, 24) in
  let ops := [SpExtract 26 (Some 3); SpExtract 28 (Some 1); SpRemove (167772390, 27); SpExtract 24 None;
              SpRemove (167772160, 26); SpExtract 28 (Some 2)] in
  valid_ver 4 = true /\ wf_cblk (width 4) B /\ Forall (op_ok 4) ops /\
  run 4 B [SpExtract 26 (Some 3)] = ([(167772352, 26)], [(167772160, 26); (167772224, 26); (167772288, 26)]) /\
  run 4 B ops = ([(167772368, 28)],
    [(167772160, 26); (167772224, 26); (167772288, 26); (167772352, 28); (167772390, 27)]) /\
  snd (sp_step 4 [(167772368, 28)] (SpExtract 24 None)) = Ok [] /\
  snd (sp_step 4 [(167772368, 28)] (SpExtract 28 (Some 2))) = Raise ValueError /\
  snd (sp_step 4 [(167772368, 28)] (SpRemove (167772160, 26))) = Raise KeyError.
Proof.
  cbv zeta. split; [reflexivity|]. split; [unfold wf_cblk; cbn; lia|]. split.
  - repeat constructor; unfold op_ok, wf_cblk; cbn; lia.
  - repeat split; vm_compute; reflexivity.
Qed.
