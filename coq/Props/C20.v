(* Props/C20.v — placeholder until the proofs land. *)
From Coq Require Import ZArith.
