(* Props/C02_code.v — property C02, CODE-LEVEL: the theorems of Props/C02.v stated directly about the definitions that
   harness/gen/pysrc.py regenerates on every run from the CURRENT text of netaddr/ip/__init__.py:
     src_IPNetwork_hostmask_int / _netmask_int / _first / _last / _size            (integers)
     src_IPNetwork_hostmask / _netmask / _network / _ip / _cidr / _broadcast      (objects built through mk_addr / mk_net)
     src_IPAddress_is_hostmask / _is_netmask / _netmask_bits (with its `while` loop)
     src_BaseIP_set_value, src_IPNetwork_set_prefixlen                            (Gen/pysrc_gen.v)
     src_IPNetwork_netmask_setter_int / _addr, src_IPAddress_init_int             (Gen/pysrc_ctor_gen.v)
   A source edit that changes one of them changes the generated term and these theorems stop compiling (with the ties
   C02_source_tie, C02_source_tie_ctor).  The generated definitions take the object state as leading parameters
   (ver, w, v, p) = (version, width, _value, _prefixlen); an IPAddress result is the pair (version, value).
   Setters (Proofs/Code_C02.v): code_set_value / code_set_prefixlen / code_set_netmask put the value a generated setter
   stores back into the object; code_apply_setop is the step of a setter history built from them (a raising setter leaves
   the object as it was).
   Hypotheses: those of Props/C02.v (prefix and value in range; wf_net for the setters).  The integer-level identities need
   no version hypothesis; the object-level ones (C02_identities_obj_of_source) need version 4 or 6 because the results are
   rebuilt through the version-checking constructors — the hypothesis of C02_broadcast in Props/C02.v, part of wf_net.
   Clauses still about the model:
     * the netmask setter for an argument that is neither an int nor an IPAddress (SOther, i.e. text): not translated
       (SKIP table of the translator); code_set_netmask answers with the model there;
     * C02_tables (the prefix <-> mask tables of the strategy modules): the tables are module-level data, not translated; not
       repeated here.
   Nothing but statements closed by `exact`, each followed by Print Assumptions. *)
From NV Require Import Base.Tac Base.PyVal Base.Bits Model.Ip Model.SrcPrelude Gen.pysrc_gen Gen.pysrc_ctor_gen
  Proofs.C02 Proofs.Code_C02.
Open Scope Z_scope.

(* the integer attributes, for any width w >= 0 *)
Theorem C02_identities_of_source : forall ver w v p, 0 <= p <= w -> 0 <= v < 2 ^ w ->
  let H := 2 ^ (w - p) in
  let first := v - v mod H in
  src_IPNetwork_hostmask_int ver w v p = H - 1 /\
  src_IPNetwork_netmask_int ver w v p = 2 ^ w - 1 - (H - 1) /\
  src_IPNetwork_first ver w v p = first /\
  first = Z.land v (src_IPNetwork_netmask_int ver w v p) /\
  src_IPNetwork_last ver w v p = first + (H - 1) /\
  src_IPNetwork_size ver w v p = H /\
  src_IPNetwork_size ver w v p = src_IPNetwork_last ver w v p - src_IPNetwork_first ver w v p + 1 /\
  first mod H = 0 /\ 0 <= first /\ first + (H - 1) <= 2 ^ w - 1.
Proof. exact code_identities_int. Qed.
Print Assumptions C02_identities_of_source.

(* the attributes that are objects: each constructor call succeeds and the result is the closed form *)
Theorem C02_identities_obj_of_source : forall ver v p, valid_ver ver = true -> 0 <= p <= width ver -> 0 <= v < 2 ^ width ver ->
  let w := width ver in
  let H := 2 ^ (w - p) in
  let first := v - v mod H in
  src_IPNetwork_hostmask ver w v p = Ok (ver, H - 1) /\
  src_IPNetwork_netmask ver w v p = Ok (ver, 2 ^ w - 1 - (H - 1)) /\
  src_IPNetwork_network ver w v p = Ok (ver, first) /\
  src_IPNetwork_ip ver w v p = Ok (ver, v) /\
  src_IPNetwork_cidr ver w v p = Ok {| nver := ver; nval := first; nplen := p |} /\
  src_IPNetwork_broadcast ver w v p =
    Ok (if (ver =? 4) && (31 <=? p) then None else Some (ver, src_IPNetwork_last ver w v p)).
Proof. exact code_identities_obj. Qed.
Print Assumptions C02_identities_obj_of_source.

Theorem C02_is_hostmask_of_source : forall ver w x, 0 <= w -> 0 <= x < 2 ^ w ->
  (src_IPAddress_is_hostmask ver w x = true <-> exists p, 0 <= p <= w /\ x = 2 ^ (w - p) - 1).
Proof. exact code_is_hostmask_iff. Qed.
Print Assumptions C02_is_hostmask_of_source.

Theorem C02_is_netmask_of_source : forall ver w x, 0 <= w -> 0 <= x < 2 ^ w ->
  (src_IPAddress_is_netmask ver w x = true <-> exists p, 0 <= p <= w /\ x = 2 ^ w - 2 ^ (w - p)).
Proof. exact code_is_netmask_iff. Qed.
Print Assumptions C02_is_netmask_of_source.

Theorem C02_netmask_bits_inverts_of_source : forall ver w p, 0 <= p <= w ->
  src_IPAddress_netmask_bits ver w (2 ^ w - 2 ^ (w - p)) = Ok p.
Proof. exact code_netmask_bits_of_prefix. Qed.
Print Assumptions C02_netmask_bits_inverts_of_source.

Theorem C02_netmask_bits_other_of_source : forall ver w x,
  src_IPAddress_is_netmask ver w x = false -> src_IPAddress_netmask_bits ver w x = Ok w.
Proof. exact code_netmask_bits_not_mask. Qed.
Print Assumptions C02_netmask_bits_other_of_source.

Theorem C02_netmask_bits_terminates_of_source : forall ver w x, 0 <= w -> 0 <= x < 2 ^ w ->
  src_IPAddress_netmask_bits ver w x <> Raise OutOfFuel.
Proof. exact code_netmask_bits_no_fuel. Qed.
Print Assumptions C02_netmask_bits_terminates_of_source.

(* setters: success keeps the object well formed and changes only the addressed field; failure raises one of the three
   documented classes *)
Theorem C02_set_value_of_source : forall n a, wf_net n ->
  match code_set_value n a with
  | Ok n' => wf_net n' /\ nver n' = nver n /\ nplen n' = nplen n /\ a = SInt (nval n')
  | Raise e => setter_exn e
  end.
Proof. exact code_set_value_spec. Qed.
Print Assumptions C02_set_value_of_source.

Theorem C02_set_prefixlen_of_source : forall n a, wf_net n ->
  match code_set_prefixlen n a with
  | Ok n' => wf_net n' /\ nver n' = nver n /\ nval n' = nval n /\ a = SInt (nplen n')
  | Raise e => setter_exn e
  end.
Proof. exact code_set_prefixlen_spec. Qed.
Print Assumptions C02_set_prefixlen_of_source.

Theorem C02_set_netmask_of_source : forall n a, wf_net n ->
  match code_set_netmask n a with
  | Ok n' => wf_net n' /\ nver n' = nver n /\ nval n' = nval n /\
             (forall ver m, (a = SAddr ver m \/ (a = SInt m /\ src_IPAddress_init_int m None 0 = Ok (ver, m))) ->
                ver = nver n /\ 0 <= m < 2 ^ width ver ->
                m = 2 ^ width ver - 2 ^ (width ver - nplen n'))
  | Raise e => setter_exn e
  end.
Proof. exact code_set_netmask_spec. Qed.
Print Assumptions C02_set_netmask_of_source.

Theorem C02_setter_step_of_source : forall n o, wf_net n -> wf_net (fst (code_apply_setop n o)) /\
  match snd (code_apply_setop n o) with Some e => setter_exn e /\ fst (code_apply_setop n o) = n | None => True end.
Proof. exact code_apply_setop_wf. Qed.
Print Assumptions C02_setter_step_of_source.

(* every history of the generated setters on a live object keeps it well formed, hence the identities keep holding *)
Theorem C02_history_of_source : forall ops n, wf_net n -> wf_net (fold_left (fun s o => fst (code_apply_setop s o)) ops n).
Proof. exact code_setops_history. Qed.
Print Assumptions C02_history_of_source.

(* non-vacuity: a concrete network meets the hypotheses; the generated definitions compute on it; a generated setter runs *)
Example C02_code_nonvacuous : wf_net {| nver := 4; nval := 3232235777; nplen := 24 |} /\
  src_IPNetwork_first 4 32 3232235777 24 = 3232235776 /\ src_IPNetwork_last 4 32 3232235777 24 = 3232236031 /\
  code_set_netmask {| nver := 4; nval := 3232235777; nplen := 24 |} (SInt 4294901760) =
    Ok {| nver := 4; nval := 3232235777; nplen := 16 |}.
Proof.
  split; [unfold wf_net; cbn [nver nval nplen]; change (width 4) with 32; split; [reflexivity|lia]|].
  split; [vm_compute; reflexivity|]. split; vm_compute; reflexivity.
Qed.
