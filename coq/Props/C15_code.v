(* Props/C15_code.v — property C15 stated DIRECTLY ABOUT THE CODE: every theorem of Props/C15.v whose model functions are
   source-tied, with each model function replaced by the Gallina definition `src_…` that harness/gen/pysrc.py regenerates on every
   run from the CURRENT text of netaddr (coq/Gen/pysrc_strategy_gen.v, pysrc_strategy_bits_gen.v, pysrc_ipv4_gen.v, pysrc_ipv6_gen.v,
   pysrc_eui48_gen.v, pysrc_eui64_gen.v, pysrc_eui48b_gen.v, pysrc_eui64b_gen.v, pysrc_rfc1924_gen.v, pysrc_ipviews_gen.v).  What
   coqc re-checks on every run is "the property holds of what the code says now"; a behavioural edit of one of these functions
   breaks these obligations together with the source tie (Props/C15_src*.v, C08_src.v, C08_src_b.v).
   Shapes.  `src_codec fam d c` (Proofs/Code_C15.v, an inductive with four constructors and no computation): c is the record of the
   eight module-level functions int_to_words words_to_int int_to_bits bits_to_int int_to_bin bin_to_int int_to_packed packed_to_int
   of netaddr/strategy/<fam>.py as regenerated — for ipv4 / ipv6 the functions themselves (d = the module's row row4 / row6 of the
   regenerated dialect table), for eui48 / eui64 the functions called with a dialect class r whose word_size / num_words / word_sep
   are those of the table row d (`rec_of_row r d`).  A packed value (bytes) is the list of its byte values, where Props/C15.v goes
   through the latin-1 string.  The IPAddress accessors take the object state (version, width, value) as leading parameters.
   Hypotheses: exactly those of the model theorems (`builtin fam name d dflt`, the value in range); the sign conditions of the
   ties (0 <= word_size, 0 <= num_words, 0 <= width) follow from the rows being well formed (GenOk_C15.find_dialect_ok) resp. are the
   hypotheses of C15_generic_*.  No tie hypothesis goes beyond the property's own.
   Clauses still about the model (or about regenerated DATA rather than code):
   * inside the IPAddress accessors the strategy module's function is a prelude symbol py_mod_<f> = the hand model (the accessor
     unit does not inline the module unit); the module functions themselves are covered by C15_encode_spec_of_source;
   * int_to_arpa of both modules is C15_arpa_of_source; ipv6.int_to_arpa goes through ipv6.int_to_str and takes the socket back-end
     as a parameter (Platform: relative to the oracle Std6);
   * the EUI object accessors (EUI.packed / bits / bin / words) are C08's (Props/C08_code.v);
   * BASE_85 / BASE_85_DICT and the dialect rows are regenerated data (C15_tables); IPAddress(result, 6) in base85_to_ipv6 is the
     constructor symbol mk_addr, str() of that object the parameter fmt (C01);
   * struct.pack / unpack, int(s, 2), bin(), str.replace, '%'-formatting are the CPython models of Base/PyStr.v / Codec.struct_*.
   Nothing but statements closed by `exact`, each followed by Print Assumptions. *)
From Coq Require Import String Ascii.
From NV Require Import Base.Tac Base.PyVal Base.PyStr Base.PyStrFacts Model.Ip Model.Codec Gen.codec_gen
  Proofs.C15_Digits Proofs.C15 Proofs.GenOk_C15 Proofs.C15_Main Proofs.C15_Dec Proofs.C15_B85
  Model.SrcPrelude Model.SrcPreludeViews
  Gen.pysrc_strategy_gen Gen.pysrc_strategy_bits_gen Gen.pysrc_ipv4_gen Gen.pysrc_ipv6_gen Gen.pysrc_eui48_gen Gen.pysrc_eui64_gen
  Gen.pysrc_eui48b_gen Gen.pysrc_eui64b_gen Gen.pysrc_rfc1924_gen Gen.pysrc_ipviews_gen
  Proofs.GenOk_Src_C15_ip Proofs.Code_C15.
From NV Require Model.Eui.
Import ListNotations.
Close Scope string_scope.
Open Scope Z_scope.

(* C15_encode_spec about the regenerated module functions of all four families, every built-in dialect *)
Theorem C15_encode_spec_of_source :
  forall fam name d dflt c v, src_codec fam d c -> builtin fam name d dflt -> 0 <= v < 2 ^ d_width d ->
  let ws := d_ws d in let nw := d_nw d in let w := d_width d in
  c_int_to_words c v = Ok (spec_words ws nw v) /\
  c_int_to_bits c v None = Ok (spec_bits ws nw (d_sep d) v) /\
  (forall sep, c_int_to_bits c v (Some sep) = Ok (spec_bits ws nw sep v)) /\
  chars (strip_sep (d_sep d) (spec_bits ws nw (d_sep d) v)) = spec_bin_fixed (Z.to_nat w) v /\
  c_int_to_bin c v = Ok (spec_bin v) /\
  c_int_to_packed c v = Ok (spec_packed w v).
Proof. exact encode_spec_code. Qed.
Print Assumptions C15_encode_spec_of_source.

(* C15_decode_encode: regenerated decoder after regenerated encoder is the identity *)
Theorem C15_decode_encode_of_source :
  forall fam name d dflt c v, src_codec fam d c -> builtin fam name d dflt -> 0 <= v < 2 ^ d_width d ->
  (do x <- c_int_to_words c v; c_words_to_int c x) = Ok v /\
  (do x <- c_int_to_bits c v None; c_bits_to_int c x) = Ok v /\
  (do x <- c_int_to_bin c v; c_bin_to_int c x) = Ok v /\
  (do x <- c_int_to_packed c v; c_packed_to_int c x) = Ok v.
Proof. exact decode_encode_code. Qed.
Print Assumptions C15_decode_encode_of_source.

(* C15_decode_strict: a regenerated decoder returns v only for an input that denotes v; every other input raises *)
Theorem C15_decode_strict_of_source :
  forall fam name d dflt c, src_codec fam d c -> builtin fam name d dflt ->
  let ws := d_ws d in let nw := d_nw d in let w := d_width d in
  (forall words v, c_words_to_int c words = Ok v -> words = spec_words ws nw v /\ 0 <= v < 2 ^ w) /\
  (forall words, ~ (Z.of_nat (List.length words) = nw /\ Forall (fun x => 0 <= x < 2 ^ ws) words) ->
                 c_words_to_int c words = Raise ValueError) /\
  (forall s v, c_bits_to_int c s = Ok v ->
               chars (strip_sep (d_sep d) s) = spec_bin_fixed (Z.to_nat w) v /\ 0 <= v < 2 ^ w) /\
  (forall s, ~ (str_len (strip_sep (d_sep d) s) = w /\
                Forall (fun c => c = "0"%char \/ c = "1"%char) (chars (strip_sep (d_sep d) s))) ->
             c_bits_to_int c s = Raise ValueError) /\
  (forall s v, c_bin_to_int c s = Ok v ->
               exists t, s = ("0b" ++ t)%string /\ 1 <= str_len t <= w /\
                         chars t = spec_bin_fixed (String.length t) v /\ 0 <= v < 2 ^ w) /\
  (forall s, ~ (exists t, s = ("0b" ++ t)%string /\ 1 <= str_len t <= w /\
                          Forall (fun c => c = "0"%char \/ c = "1"%char) (chars t)) ->
             c_bin_to_int c s = Raise ValueError) /\
  (forall s v, c_packed_to_int c (bytes_of_str s) = Ok v -> bytes_of_str s = spec_packed w v /\ 0 <= v < 2 ^ w) /\
  (forall s, String.length s <> Z.to_nat (w / 8) -> c_packed_to_int c (bytes_of_str s) = Raise StructError).
Proof. exact decode_strict_code. Qed.
Print Assumptions C15_decode_strict_of_source.

(* the object level: IPAddress.words / bits() / bits(sep) / bin / packed / __bytes__ / reverse_dns as regenerated, for the
   object state (ver, width, v) of an address of either version (d = the strategy module's row) *)
Theorem C15_accessors_of_source :
  forall ver d v, find_dialect (py_mod_fam ver) "" = Some d -> 0 <= v < 2 ^ d_width d ->
  let ws := d_ws d in let nw := d_nw d in let w := d_width d in
  src_IPAddress_words ver w v = Ok (spec_words ws nw v) /\
  src_IPAddress_bits ver w v None = Ok (spec_bits ws nw (d_sep d) v) /\
  (forall sep, src_IPAddress_bits ver w v (Some sep) = Ok (spec_bits ws nw sep v)) /\
  src_IPAddress_bin ver w v = Ok (spec_bin v) /\
  src_IPAddress_packed ver w v = Ok (spec_packed w v) /\
  src_IPAddress_bytes ver w v = Ok (spec_packed w v) /\
  (ver = 4 -> src_IPAddress_reverse_dns ver w v = Ok (spec_arpa4 v)) /\
  (ver = 6 -> src_IPAddress_reverse_dns ver w v = Ok (spec_arpa6 v)).
Proof. exact accessors_code. Qed.
Print Assumptions C15_accessors_of_source.

(* int_to_arpa of both IP strategy modules as regenerated (the clause of C15_encode_spec about reverse_dns, at module level);
   ipv6.int_to_arpa goes through ipv6.int_to_str, hence the back-end parameter: for be = Platform the statement is relative to the
   oracle Std6 of Model/IpText.v (inet_ntop), for be = Fallback it goes through Model/FbSocket.v = the regenerated fbsocket.py *)
Theorem C15_arpa_of_source :
  (forall v, 0 <= v < 2 ^ 32 -> src_ipv4_int_to_arpa v = Ok (spec_arpa4 v)) /\
  (forall be v, 0 <= v < 2 ^ 128 -> src_ipv6_int_to_arpa be v = Ok (spec_arpa6 v)).
Proof. exact arpa_code. Qed.
Print Assumptions C15_arpa_of_source.

(* C15_base85 about the regenerated rfc1924.py; fmt = str() of the IPv6 address object the decoder builds (a parameter) *)
Theorem C15_base85_of_source :
  (forall v, 0 <= v < 2 ^ 128 -> src_ipv6_to_base85 v = Ok (spec_base85 v)) /\
  (forall fmt v, 0 <= v < 2 ^ 128 -> (do s <- src_ipv6_to_base85 v; src_base85_to_ipv6 fmt s) = Ok (fmt (6, v))) /\
  (forall fmt s t, src_base85_to_ipv6 fmt s = Ok t -> exists v, t = fmt (6, v) /\ s = spec_base85 v /\ 0 <= v < 2 ^ 128) /\
  (forall fmt s, String.length s <> 20%nat -> src_base85_to_ipv6 fmt s = Raise AddrFormatError) /\
  (forall fmt s c, In c (chars s) -> ~ In c (chars rfc1924_alphabet) -> exists e, src_base85_to_ipv6 fmt s = Raise e).
Proof. exact base85_code. Qed.
Print Assumptions C15_base85_of_source.

Theorem C15_base85_decoder_of_source : forall fmt s,
  src_base85_to_ipv6 fmt s =
  if negb (Nat.eqb (String.length s) 20) then Raise AddrFormatError
  else if negb (forallb b85_known (chars s)) then Raise KeyError
  else let v := from_digits 85 (map b85_idx (chars s)) in
       if v <? 2 ^ 128 then Ok (fmt (6, v)) else Raise AddrFormatError.
Proof. exact base85_decoder_code. Qed.
Print Assumptions C15_base85_decoder_of_source.

(* C15_generic_words / _bits / _bin about the regenerated netaddr/strategy/__init__.py, ANY word size / count / separator *)
Theorem C15_generic_words_of_source : forall ws nw, 0 <= ws -> 0 <= nw ->
  (forall v, 0 <= v < 2 ^ (ws * nw) -> src_strategy_int_to_words v ws nw = Ok (spec_words ws nw v)) /\
  (forall v, ~ (0 <= v < 2 ^ (nw * ws)) -> src_strategy_int_to_words v ws nw = Raise IndexError) /\
  (forall v, 0 <= v < 2 ^ (ws * nw) -> src_strategy_words_to_int (spec_words ws nw v) ws nw = Ok v) /\
  (forall words v, src_strategy_words_to_int words ws nw = Ok v -> words = spec_words ws nw v /\ 0 <= v < 2 ^ (ws * nw)) /\
  (forall words, src_strategy_words_to_int words ws nw =
                 (do ok <- src_strategy_valid_words words ws nw;
                  if ok : bool then Ok (from_digits (2 ^ ws) words) else Raise ValueError)) /\
  (forall words, src_strategy_valid_words words ws nw = Ok true <->
                 Z.of_nat (List.length words) = nw /\ Forall (fun d => 0 <= d < 2 ^ ws) words) /\
  (forall words, exists b, src_strategy_valid_words words ws nw = Ok b).
Proof. exact generic_words_code. Qed.
Print Assumptions C15_generic_words_of_source.

Theorem C15_generic_bits_of_source : forall ws nw sep, 0 < ws -> 0 < nw ->
  (forall v, 0 <= v < 2 ^ (ws * nw) -> src_strategy_int_to_bits v ws nw sep = Ok (spec_bits ws nw sep v)) /\
  (forall s, src_strategy_bits_to_int s (ws * nw) sep =
             if bits_wf (strip_sep sep s) (ws * nw) then Ok (from_digits 2 (map bit_val (chars (strip_sep sep s))))
             else Raise ValueError) /\
  (forall s, src_strategy_valid_bits s (ws * nw) sep = Ok (bits_wf (strip_sep sep s) (ws * nw))) /\
  (forall s v, src_strategy_bits_to_int s (ws * nw) sep = Ok v ->
               chars (strip_sep sep s) = spec_bin_fixed (Z.to_nat (ws * nw)) v /\ 0 <= v < 2 ^ (ws * nw)) /\
  (sep_ok sep = true -> forall v, 0 <= v < 2 ^ (ws * nw) ->
     (do s <- src_strategy_int_to_bits v ws nw sep; src_strategy_bits_to_int s (ws * nw) sep) = Ok v).
Proof. exact generic_bits_code. Qed.
Print Assumptions C15_generic_bits_of_source.

Theorem C15_generic_bin_of_source : forall width, 0 < width ->
  (forall v, 0 <= v < 2 ^ width -> src_strategy_int_to_bin v width = Ok (spec_bin v)) /\
  (forall v, 0 <= v < 2 ^ width -> (do s <- src_strategy_int_to_bin v width; src_strategy_bin_to_int s width) = Ok v) /\
  (forall s, src_strategy_bin_to_int s width =
             if bin_wf s width then Ok (from_digits 2 (map bit_val (chars (drop2 s)))) else Raise ValueError) /\
  (forall s, src_strategy_valid_bin s width = Ok (bin_wf s width)).
Proof. exact generic_bin_code. Qed.
Print Assumptions C15_generic_bin_of_source.

(* C15_terminates: the fuel the translator gives the two `while` loops is never exhausted on values of the family;
   C15_tables, code part: bytes_to_bits() as regenerated evaluates to the table of 8-digit binary numerals *)
Theorem C15_terminates_of_source :
  (forall ws nw sep v, 0 < ws -> 0 < nw -> 0 <= v < 2 ^ (ws * nw) -> src_strategy_int_to_bits v ws nw sep <> Raise OutOfFuel) /\
  (forall v, 0 <= v < 2 ^ 128 -> src_ipv6_to_base85 v <> Raise OutOfFuel).
Proof. exact terminates_code. Qed.
Print Assumptions C15_terminates_of_source.

Theorem C15_bytes_to_bits_of_source :
  src_strategy_bytes_to_bits = Ok (map (fun n => str_of (spec_bin_fixed 8 (Z.of_nat n))) (seq 0 256)).
Proof. exact bytes_to_bits_code. Qed.
Print Assumptions C15_bytes_to_bits_of_source.

(* non-vacuity: the four regenerated codecs exist for rows of the table and compute; the theorems apply to them *)
Example C15_code_nonvacuous :
  src_codec "ipv4" row4 src_codec_ipv4 /\ builtin "ipv4" "" row4 row4 /\
  src_codec "eui48" {| d_width := 48; d_ws := 16; d_nw := 3; d_sep := "." |} (src_codec_eui48 Eui.mac_cisco) /\
  builtin "eui48" "mac_cisco" {| d_width := 48; d_ws := 16; d_nw := 3; d_sep := "." |}
                              {| d_width := 48; d_ws := 8; d_nw := 6; d_sep := "-" |} /\
  c_int_to_bits src_codec_ipv4 3232235777 None = Ok "11000000.10101000.00000001.00000001"%string /\
  c_int_to_words (src_codec_eui48 Eui.mac_cisco) 117965411581 = Ok [27; 30537; 21757] /\
  c_packed_to_int src_codec_ipv6 [0; 0; 0; 0; 0; 0; 0; 0; 0; 0; 0; 0; 0; 0; 1; 0] = Ok 256 /\
  src_IPAddress_reverse_dns 4 32 3232235777 = Ok "1.1.168.192.in-addr.arpa."%string /\
  src_base85_to_ipv6 (fun a => fmt_d (snd a)) "4)+k&C#VzJ4br>0wv%Yp" = Ok "21932261930451111902915077091070067066"%string.
Proof.
  split; [constructor|]. split; [exact builtin4|]. split; [constructor; repeat split|].
  split; [split; vm_compute; reflexivity|]. repeat split; vm_compute; reflexivity.
Qed.
