(* Props/C03_tables.v -- data tie for the prefix <-> mask dictionaries of netaddr/strategy/ipv4.py and ipv6.py (module-level code that
   runs at import time, so no function of the source translator covers it): the dictionaries AS LOADED from the current working tree
   (coq/Gen/prefix_gen.v, regenerated on every run by harness/gen/prefix.py; each dictionary = its items sorted by prefix) are the
   tables the model reads.  A dropped, shifted or duplicated row changes the generated literal and these theorems stop compiling.
   An obligation of C02, C03 and of every check whose model composition goes through the network parser (harness/callee_ties.py).
   Nothing but statements closed by `exact`, followed by Print Assumptions. *)
From NV Require Import Base.Tac Base.PyVal Model.Ip Model.NetText Gen.prefix_gen Proofs.GenOk_Prefix.
Import ListNotations.
Open Scope Z_scope.

Theorem prefix_tables_source_tie_v4 :
  gen_ipv4_width = width 4 /\
  gen_ipv4_prefix_to_netmask = prefix_to_netmask_tab (width 4) /\
  gen_ipv4_netmask_to_prefix = swap_pairs (prefix_to_netmask_tab (width 4)) /\
  gen_ipv4_prefix_to_hostmask = prefix_to_hostmask_tab (width 4) /\
  gen_ipv4_hostmask_to_prefix = swap_pairs (prefix_to_hostmask_tab (width 4)).
Proof. exact prefix_tables_v4_ok. Qed.
Print Assumptions prefix_tables_source_tie_v4.

Theorem prefix_tables_source_tie_v6 :
  gen_ipv6_width = width 6 /\
  gen_ipv6_prefix_to_netmask = prefix_to_netmask_tab (width 6) /\
  gen_ipv6_netmask_to_prefix = swap_pairs (prefix_to_netmask_tab (width 6)) /\
  gen_ipv6_prefix_to_hostmask = prefix_to_hostmask_tab (width 6) /\
  gen_ipv6_hostmask_to_prefix = swap_pairs (prefix_to_hostmask_tab (width 6)).
Proof. exact prefix_tables_v6_ok. Qed.
Print Assumptions prefix_tables_source_tie_v6.

Theorem prefix_lookups_source_tie :
  (forall k, dict_get k gen_ipv4_prefix_to_netmask = prefix_to_netmask (width 4) k) /\
  (forall k, dict_get k gen_ipv4_netmask_to_prefix = netmask_to_prefix (width 4) k) /\
  (forall k, dict_get k gen_ipv4_hostmask_to_prefix = hostmask_to_prefix (width 4) k) /\
  (forall k, dict_get k gen_ipv6_prefix_to_netmask = prefix_to_netmask (width 6) k) /\
  (forall k, dict_get k gen_ipv6_netmask_to_prefix = netmask_to_prefix (width 6) k) /\
  (forall k, dict_get k gen_ipv6_hostmask_to_prefix = hostmask_to_prefix (width 6) k).
Proof. exact prefix_lookups_ok. Qed.
Print Assumptions prefix_lookups_source_tie.

(* the loaded IPv6 dictionary knows the all-ones netmask: prefix 128 *)
Example prefix_tables_nonvacuous :
  dict_get (2 ^ 128 - 1) gen_ipv6_netmask_to_prefix = Ok 128 /\ dict_get 0 gen_ipv4_netmask_to_prefix = Ok 0 /\
  dict_get 0 gen_ipv4_hostmask_to_prefix = Ok 32.
Proof. repeat split; vm_compute; reflexivity. Qed.
