(* Props/C04.v — property C04: containment (`x in y`) and CIDR matching are exactly interval inclusion.
   Nothing but statements closed by `exact`, each followed by Print Assumptions.
   W maps a version to its address width (any function; 4 -> 32, 6 -> 128 in netaddr).
   lo/hi (Proofs/C04.v) are the interval ends in plain arithmetic: v for an address, v - v mod 2^(w-p) and
   v - v mod 2^(w-p) + 2^(w-p) - 1 for a network (host bits allowed), start/end for a range or glob. *)
From Coq Require Import Sorting.Sorted Sorting.Permutation.
From NV Require Import Base.Tac Base.PyVal Base.Bits Model.Ip Model.Contains Proofs.C02 Proofs.C04 Proofs.C04_match.
Open Scope Z_scope.

(* `x in y` for every container kind (IPNetwork; IPRange/IPGlob) and every operand kind (IPAddress, IPNetwork,
   IPRange/IPGlob): never raises, and is True exactly for same version and first y <= first x and last x <= last y. *)
Theorem C04_contains : forall W y x, is_container y -> wf_obj W y -> wf_obj W x ->
  contains W y x = Ok ((over x =? over y) && (lo W y <=? lo W x) && (hi W x <=? hi W y)).
Proof. exact contains_spec. Qed.
Print Assumptions C04_contains.

(* the .first/.last properties are those interval ends, and the interval is non-empty and inside the address space *)
Theorem C04_first_last : forall W o, wf_obj W o ->
  obj_first W o = lo W o /\ obj_last W o = hi W o /\
  0 <= lo W o /\ lo W o <= hi W o /\ hi W o < 2 ^ W (over o).
Proof. exact first_last_spec. Qed.
Print Assumptions C04_first_last.

(* the boolean is inclusion of address sets *)
Theorem C04_inside_is_subset : forall W x y, wf_obj W x -> wf_obj W y ->
  ((over x =? over y) && (lo W y <=? lo W x) && (hi W x <=? hi W y) = true <->
   over x = over y /\ forall a, lo W x <= a <= hi W x -> lo W y <= a <= hi W y).
Proof. exact insideb_subset. Qed.
Print Assumptions C04_inside_is_subset.

(* IPListMixin.__contains__ (user subclasses) computes the same thing *)
Theorem C04_mixin_contains : forall W y x, wf_obj W y -> wf_obj W x ->
  mixin_contains W y x = Ok ((over x =? over y) && (lo W y <=? lo W x) && (hi W x <=? hi W y)).
Proof. exact mixin_contains_spec. Qed.
Print Assumptions C04_mixin_contains.

(* string operands: the object produced by the constructor is what is tested *)
Theorem C04_contains_string_net : forall W sver sv sp n, wf_obj W (Net sver sv sp) -> wf_obj W (as_obj n) ->
  net_contains_other W sver sv sp (Ok n) = Ok (insideb W (as_obj n) (Net sver sv sp)).
Proof. exact net_contains_other_spec. Qed.
Print Assumptions C04_contains_string_net.

Theorem C04_contains_string_range : forall W sver ss se ver v, wf_obj W (Addr ver v) ->
  range_contains_other W sver ss se (Ok (ver, v)) = Ok (insideb W (Addr ver v) (Rng sver ss se)).
Proof. exact range_contains_other_spec. Qed.
Print Assumptions C04_contains_string_range.

(* sorted(): an ascending permutation w.r.t. sort_key, and the only one (so any correct sort returns it) *)
Theorem C04_sorted : forall W l,
  Permutation (py_sorted W l) l /\ StronglySorted (net_le W) (py_sorted W l) /\
  forall l', Permutation l' l -> StronglySorted (net_le W) l' -> l' = py_sorted W l.
Proof. exact py_sorted_spec. Qed.
Print Assumptions C04_sorted.

(* all_matching_cidrs returns exactly the candidates containing ip (the early exit drops none), in sort order,
   which is least -> most specific: every later match lies inside every earlier one and its prefix is not shorter;
   largest_/smallest_matching_cidr are the head / last of that list, None iff no candidate contains ip. *)
Theorem C04_all_matching : forall W ipver ipv cs, wf_obj W (Addr ipver ipv) -> Forall (wf_net_w W) cs ->
  let R := filter (fun c => insideb W (Addr ipver ipv) (as_obj c)) (py_sorted W cs) in
  all_matching_cidrs W ipver ipv cs = Ok R /\
  Permutation R (filter (fun c => insideb W (Addr ipver ipv) (as_obj c)) cs) /\
  (forall c, In c R <-> In c cs /\ insideb W (Addr ipver ipv) (as_obj c) = true) /\
  StronglySorted (fun a b => insideb W (as_obj b) (as_obj a) = true /\ nplen a <= nplen b) R /\
  largest_matching_cidr W ipver ipv cs = Ok (hd_error R) /\
  smallest_matching_cidr W ipver ipv cs = Ok (last_opt R) /\
  (hd_error R = None <-> R = []) /\ (last_opt R = None <-> R = []) /\
  (R = [] <-> forall c, In c cs -> insideb W (Addr ipver ipv) (as_obj c) = false).
Proof. exact all_matching_full. Qed.
Print Assumptions C04_all_matching.

(* non-vacuity: concrete objects meet the hypotheses; the F-04 witness is now inside *)
Example C04_nonvacuous :
  wf_obj width (Net 4 167772161 24) /\ wf_obj width (Rng 4 167772160 167772415) /\
  contains width (Rng 4 167772160 167772415) (Net 4 167772161 24) = Ok true /\
  contains width (Net 4 167772161 24) (Rng 4 167772160 167772416) = Ok false /\
  all_matching_cidrs width 4 167772165
    [ {| nver := 4; nval := 167772160; nplen := 24 |}; {| nver := 6; nval := 0; nplen := 0 |};
      {| nver := 4; nval := 167772161; nplen := 8 |}; {| nver := 4; nval := 167772164; nplen := 30 |};
      {| nver := 4; nval := 167772168; nplen := 30 |} ]
  = Ok [ {| nver := 4; nval := 167772161; nplen := 8 |}; {| nver := 4; nval := 167772160; nplen := 24 |};
         {| nver := 4; nval := 167772164; nplen := 30 |} ].
Proof. unfold wf_obj. repeat split; vm_compute; (reflexivity || discriminate). Qed.
