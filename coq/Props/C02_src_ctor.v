(* Props/C02_src_ctor.v — source tie for C02, the netmask setter: the Gallina definitions that harness/gen/pysrc.py regenerates on
   every run from the CURRENT text of `@netmask.setter def netmask(self, value)` of IPNetwork (coq/Gen/pysrc_ctor_gen.v),
   specialised to an int `value` and to an IPAddress `value`, are equal to the hand-written model Ip.set_netmask on SInt / SAddr
   that C02_setters / C02_history of Props/C02.v are about; no hypothesis.  (A string `value` goes through the address parser; the
   model's SOther stands for a string that IPAddress() rejects and stays tied by correspondence only.)
   Nothing but the statement closed by `exact`, followed by Print Assumptions. *)
From NV Require Import Base.Tac Base.PyVal Model.Ip Model.SrcPrelude Gen.pysrc_gen Gen.pysrc_ctor_gen Proofs.GenOk_Src_C02_ctor.
Open Scope Z_scope.

Theorem C02_source_tie_ctor :
  (forall n z, omap (with_plen n) (src_IPNetwork_netmask_setter_int (nver n) (width (nver n)) (nval n) (nplen n) z) =
                 set_netmask n (SInt z)) /\
  (forall n ver v, omap (with_plen n) (src_IPNetwork_netmask_setter_addr (nver n) (width (nver n)) (nval n) (nplen n) (ver, v)) =
                     set_netmask n (SAddr ver v)).
Proof. exact C02_ctor_tie_ok. Qed.
Print Assumptions C02_source_tie_ctor.

(* the generated definition computes: 10.0.0.0/8 with netmask 255.255.0.0 gets prefix 16; 255.0.255.0 is refused; an IPv6 mask
   on an IPv4 network is refused *)
Example C02_src_ctor_nonvacuous :
  src_IPNetwork_netmask_setter_int 4 32 167772160 8 4294901760 = Ok 16 /\
  src_IPNetwork_netmask_setter_int 4 32 167772160 8 4278255360 = Raise ValueError /\
  src_IPNetwork_netmask_setter_addr 4 32 167772160 8 (6, 4294901760) = Raise ValueError.
Proof. repeat split; vm_compute; reflexivity. Qed.
