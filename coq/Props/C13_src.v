(* Props/C13_src.v — source tie for C13: the Gallina definitions that harness/gen/pysrc.py regenerates on every run from the
   CURRENT text of spanning_cidr (coq/Gen/pysrc_span_gen.v: src_spanning_cidr, its `for` loop src_spanning_cidr_loop1 and its
   `while` loop src_spanning_cidr_loop2, fuel `Z.to_nat width + 1` from the translator's FUEL table) are equal to the
   hand-written model Span.spanning_cidr / span_step / span_loop that the theorems of Props/C13.v are about.
   Inputs are already constructed IPNetwork objects; the only hypothesis is that the first element's version is 4 or 6
   (the version test of the IPNetwork((ipnum, prefixlen), version=...) constructor symbol mk_net).
   A source edit that changes spanning_cidr changes the generated term and this theorem stops compiling.
   Nothing but the statement closed by `exact`, followed by Print Assumptions. *)
From NV Require Import Base.Tac Base.PyVal Model.Ip Model.Span Model.SrcPrelude Gen.pysrc_gen Gen.pysrc_span_gen Proofs.GenOk_Src_C13.
Import ListNotations.
Open Scope Z_scope.

Theorem C13_source_tie :
  (forall l, match l with a :: _ :: _ => valid_ver (nver a) = true | _ => True end -> src_spanning_cidr l = spanning_cidr l) /\
  (forall version rest m lo hi,
     src_spanning_cidr_loop1 version rest m lo hi = fold_left (span_step width version) rest (m, lo, hi)) /\
  (forall fuel lo w p ip, p <= w ->
     src_spanning_cidr_loop2 fuel lo w p ip = omap (fun r => (snd r, fst r)) (span_loop fuel w lo ip p)).
Proof. exact C13_tie_ok. Qed.
Print Assumptions C13_source_tie.

(* the generated definition computes: spanning_cidr([10.0.0.1/32, 10.0.0.6/32, 10.0.0.3/32]) = 10.0.0.0/29 *)
Example C13_src_nonvacuous :
  src_spanning_cidr [ {| nver := 4; nval := 167772161; nplen := 32 |}; {| nver := 4; nval := 167772166; nplen := 32 |};
                      {| nver := 4; nval := 167772163; nplen := 32 |} ] = Ok {| nver := 4; nval := 167772160; nplen := 29 |}.
Proof. vm_compute. reflexivity. Qed.
