(* Props/C01_code.v — property C01 stated DIRECTLY ABOUT THE CODE: the theorems of Props/C01.v and of Props/C01_grammar.v that mention
   netaddr's own functions, with each model function replaced by the Gallina definition `src_…` that harness/gen/pysrc.py regenerates
   on every run from the CURRENT text of netaddr/fbsocket.py (coq/Gen/pysrc_fbsocket_gen.v), netaddr/strategy/ipv4.py, ipv6.py
   (pysrc_ipv4_gen.v, pysrc_ipv6_gen.v) and IPAddress.__init__ of netaddr/ip/__init__.py for a `str` argument (pysrc_ctor_gen.v):
     init_str be s version flags  ->  src_IPAddress_init_str be s version flags          (IPAddress(s, version, flags) = (version, value))
     int_to_str be 4 v d          ->  src_ipv4_int_to_str v tt                           (ipv4.int_to_str ignores its dialect argument)
     int_to_str be 6 v d          ->  src_ipv6_int_to_str be v (option_map dcls d)       (a dialect class is seen through the two attributes
                                      the code reads, (word_fmt, compact): GenOk_Src_C01_text.dcls; the generated constants
                                      src_ipv6_ipv6_compact / _verbose are dcls ipv6_compact / ipv6_verbose, C01_source_tie_text)
     str_to_int / valid_str be 4|6 ->  src_ipv4_… / src_ipv6_str_to_int / valid_str be
     Fb.inet_ntoa / inet_pton4 / inet_pton6 / inet_ntop6 -> src_fbsocket_inet_ntoa / _inet_pton_af_inet / inet_pton / inet_ntop; a packed IPv6
                                      address is its 16 bytes in the code, bytes_of_words of the 8 words the model speaks of.
   Hypotheses: exactly those of the model theorems; the ties have none.
   THE BACK-END `be`.  ipv4.py / ipv6.py bind _inet_aton / _inet_pton / _inet_ntop at import time either to the platform's socket
   functions or to netaddr.fbsocket; the generated definitions take that choice as the parameter `be` and reach the functions through
   the prelude symbols py_inet_aton / py_inet_pton4 / py_inet_pton6 / py_inet_ntop6 of Model/SrcPreludeText.v.
   * The theorems about src_fbsocket_… (C01_fb_print_…, C01_strict_exact_…, C01_fallback_…) are ENTIRELY about regenerated code,
     compared with the standard grammar / the standard parsers Std4 / Std6 as SPECIFICATION.
   * In the theorems with a `be`: for be = Platform the statement is RELATIVE TO the named oracles Std4 / Std6 of Model/IpText.v, which
     stand for socket.inet_aton / inet_pton / inet_ntop (validated against the platform by differential execution on every run, not
     verified); for be = Fallback the prelude symbols are the hand model Model/FbSocket.v, which is proved equal to the regenerated
     fbsocket.py (Props/C01_src.v) — the strategy units do not inline the fbsocket unit.  socket.inet_aton (default-mode IPv4 parsing)
     is a platform function under BOTH back-ends (netaddr.fbsocket has no inet_aton): C01_aton_shorthand_of_source is relative to the
     oracle Std4.aton for either be.
   Clauses still about the model / not code: the token- and grammar-level theorems about the oracles themselves (C01_grammar_octet,
   _hextet, _v4, _v6, _unique_*, _disjoint, _value_*, _forms_v6) mention no netaddr function; C01_backend_accepts_exactly_* /
   _rejects_* are about the prelude's back-end switch (inet_pton4 / inet_pton6 be) and are restated here for the Fallback side only,
   about src_fbsocket_inet_pton; IPAddress.format(dialect) is not translated (dialect classes), int_to_str with a dialect stands for it.
   The theorems against the declarative grammar (Props/C01_grammar.v) are in Props/C01_code_grammar.v (a separate file so that the two
   are re-checked in parallel).  Nothing but statements closed by `exact`, each followed by Print Assumptions. *)
From Coq Require Import ZArith List String Ascii Lia.
From NV Require Import Base.PyVal Base.PyStr Model.IpText Model.FbSocket Model.AddrText
  Proofs.C01_Chars Proofs.C01_V6 Proofs.C01_Value Proofs.C01_V4 Proofs.C01_Aton Proofs.C01_Grammar
  Model.SrcPrelude Model.SrcPreludeText
  Gen.pysrc_gen Gen.pysrc_fbsocket_gen Gen.pysrc_ipv4_gen Gen.pysrc_ipv6_gen Gen.pysrc_ctor_gen
  Proofs.GenOk_Src_C01 Proofs.GenOk_Src_C01_text Proofs.Code_C01.
Import ListNotations.
Open Scope Z_scope.

(* (1) every value prints to text that parses back to the same value and version; both back-ends (Platform: relative to Std4 / Std6) *)
Theorem C01_print_parse_v4_of_source : forall be v version flags, 0 <= v < 2 ^ 32 ->
  version = None \/ version = Some 4 -> flags = 0 \/ flags = 1 \/ flags = 2 \/ flags = 3 ->
  (do s <- src_ipv4_int_to_str v tt; src_IPAddress_init_str be s version flags) = Ok (4, v).
Proof. exact print_parse_v4_code. Qed.
Print Assumptions C01_print_parse_v4_of_source.

Theorem C01_print_parse_v6_of_source : forall be v d version flags, 0 <= v < 2 ^ 128 ->
  d = None \/ d = Some ipv6_compact \/ d = Some ipv6_full \/ d = Some ipv6_verbose ->
  version = Some 6 \/ (version = None /\ (flags = 0 \/ flags = 1)) ->
  (do s <- src_ipv6_int_to_str be v (option_map dcls d); src_IPAddress_init_str be s version flags) = Ok (6, v).
Proof. exact print_parse_v6_code. Qed.
Print Assumptions C01_print_parse_v6_of_source.

(* ... and the standard parser reads the same value from the printed text (ipv4.int_to_str uses no socket function: no back-end) *)
Theorem C01_printed_standard_v4_of_source : forall v, 0 <= v < 2 ^ 32 ->
  exists s, src_ipv4_int_to_str v tt = Ok s /\ Std4.pton4 s = Some (octets_of v).
Proof. exact printed_standard_v4_code. Qed.
Print Assumptions C01_printed_standard_v4_of_source.

Theorem C01_printed_standard_v6_of_source : forall be v d, 0 <= v < 2 ^ 128 ->
  d = None \/ d = Some ipv6_compact \/ d = Some ipv6_full \/ d = Some ipv6_verbose ->
  exists s, src_ipv6_int_to_str be v (option_map dcls d) = Ok s /\ Std6.pton6 s = Some (words_of v).
Proof. exact printed_standard_v6_code. Qed.
Print Assumptions C01_printed_standard_v6_of_source.

(* (2) a rejected address string raises AddrFormatError; ValueError only for '/' or an invalid `version` *)
Theorem C01_reject_kind_of_source : forall be s version flags e, src_IPAddress_init_str be s version flags = Raise e ->
  e = AddrFormatError \/
  (e = ValueError /\ (contains_char "/" s = true \/ exists v, version = Some v /\ v <> 4 /\ v <> 6)).
Proof. exact reject_kind_code. Qed.
Print Assumptions C01_reject_kind_of_source.

(* (3) ENTIRELY ABOUT REGENERATED CODE: the fallback printers print exactly the standard text *)
Theorem C01_fb_print_of_source : forall ws, Forall (fun w => 0 <= w < 65536) ws -> List.length ws = 8%nat ->
  src_fbsocket_inet_ntop 10 (bytes_of_words ws) = Ok (Std6.ntop6 ws).
Proof. exact fb_print_code. Qed.
Print Assumptions C01_fb_print_of_source.

Theorem C01_fb_print_v4_of_source : forall a b c d,
  src_fbsocket_inet_ntoa [a; b; c; d] = Ok (Std4.ntoa [a; b; c; d]) /\
  src_fbsocket_inet_ntop 2 [a; b; c; d] = Ok (Std4.ntoa [a; b; c; d]).
Proof. exact fb_print_v4_code. Qed.
Print Assumptions C01_fb_print_v4_of_source.

(* (4) ENTIRELY ABOUT REGENERATED CODE: for EVERY string the fallback parser returns what the standard grammar says *)
Theorem C01_strict_exact_v4_of_source : forall s,
  src_fbsocket__inet_pton_af_inet s = of_option (Std4.pton4 s) /\ src_fbsocket_inet_pton 2 s = of_option (Std4.pton4 s).
Proof. exact strict_exact_v4_code. Qed.
Print Assumptions C01_strict_exact_v4_of_source.

Theorem C01_strict_exact_of_source : forall s, src_fbsocket_inet_pton 10 s = omap bytes_of_words (of_option (Std6.pton6 s)).
Proof. exact strict_exact_code. Qed.
Print Assumptions C01_strict_exact_of_source.

(* strict mode of the strategy modules, both back-ends (Platform: relative to the oracles, where it holds by definition of the
   prelude symbol; Fallback: through Model/FbSocket.v = the regenerated fbsocket.py) *)
Theorem C01_strict_mode_v4_of_source : forall be s, src_ipv4_str_to_int be s INET_PTON =
  match Std4.pton4 s with
  | Some o => match unpack_I o with Ok v => Ok v | Raise _ => Raise AddrFormatError end
  | None => Raise AddrFormatError
  end.
Proof. exact strict_mode_v4_code. Qed.
Print Assumptions C01_strict_mode_v4_of_source.

Theorem C01_strict_mode_v6_of_source : forall be s flags, src_ipv6_str_to_int be s flags =
  match Std6.pton6 s with
  | Some ws => match packed_to_int ws with Ok v => Ok v | Raise _ => Raise AddrFormatError end
  | None => Raise AddrFormatError
  end.
Proof. exact strict_mode_v6_code. Qed.
Print Assumptions C01_strict_mode_v6_of_source.

(* "unchanged under the fallback": on EVERY string / value the regenerated functions give the same outcome for the two back-ends *)
Theorem C01_backend_invariant_parse_of_source : forall be s version flags,
  src_IPAddress_init_str be s version flags = src_IPAddress_init_str Platform s version flags.
Proof. exact backend_invariant_parse_code. Qed.
Print Assumptions C01_backend_invariant_parse_of_source.

Theorem C01_backend_invariant_print_of_source : forall be v d,
  src_ipv6_int_to_str be v (option_map dcls d) = src_ipv6_int_to_str Platform v (option_map dcls d).
Proof. exact backend_invariant_print_code. Qed.
Print Assumptions C01_backend_invariant_print_of_source.

Theorem C01_backend_invariant_valid_of_source : forall be s flags,
  src_ipv4_valid_str be s flags = src_ipv4_valid_str Platform s flags /\
  src_ipv6_valid_str be s flags = src_ipv6_valid_str Platform s flags /\
  src_ipv4_str_to_int be s flags = src_ipv4_str_to_int Platform s flags /\
  src_ipv6_str_to_int be s flags = src_ipv6_str_to_int Platform s flags.
Proof. exact backend_invariant_valid_code. Qed.
Print Assumptions C01_backend_invariant_valid_of_source.

(* (5) default mode reads every BSD inet_aton shorthand (relative to the oracle Std4.aton under BOTH back-ends); ZEROFILL reads
   zero-padded octets *)
Theorem C01_aton_shorthand_of_source : forall be pre t x version,
  Forall (fun p => spelling (fst p) (snd p) /\ snd p <= 255) pre -> (List.length pre <= 3)%nat -> spelling t x ->
  x <= Std4.last_max (List.length pre) -> version = None \/ version = Some 4 ->
  src_IPAddress_init_str be (str_of (spelled_text pre t)) version 0 = Ok (4, Std4.parts_value (map snd pre) 24 + x).
Proof. exact aton_shorthand_code. Qed.
Print Assumptions C01_aton_shorthand_of_source.

Theorem C01_zerofill_of_source : forall be k1 k2 k3 k4 a b c d version flags,
  0 <= a < 256 -> 0 <= b < 256 -> 0 <= c < 256 -> 0 <= d < 256 ->
  version = None \/ version = Some 4 -> flags = 2 \/ flags = 3 ->
  src_IPAddress_init_str be (join "." [fmt_d_pad k1 a; fmt_d_pad k2 b; fmt_d_pad k3 c; fmt_d_pad k4 d]) version flags =
  Ok (4, ((a * 256 + b) * 256 + c) * 256 + d).
Proof. exact zerofill_code. Qed.
Print Assumptions C01_zerofill_of_source.

(* non-vacuity: the generated definitions compute, on both back-ends *)
Example C01_code_nonvacuous :
  (do s <- src_ipv6_int_to_str Fallback 281470698652420 None; src_IPAddress_init_str Fallback s None 0) = Ok (6, 281470698652420) /\
  src_ipv6_int_to_str Fallback 281470698652420 None = Ok "::ffff:1.2.3.4"%string /\
  src_ipv6_int_to_str Platform 65537 (option_map dcls (Some ipv6_verbose)) = Ok "0000:0000:0000:0000:0000:0000:0001:0001"%string /\
  src_IPAddress_init_str Fallback "0x7f.1"%string None 0 = Ok (4, 2130706433) /\
  src_IPAddress_init_str Platform "010.001.000.09"%string (Some 4) 2 = Ok (4, 167837705) /\
  src_IPAddress_init_str Fallback "::1 "%string (Some 6) 1 = Raise AddrFormatError /\
  src_fbsocket_inet_pton 10 "fe80::1"%string = Ok (bytes_of_words [65152; 0; 0; 0; 0; 0; 0; 1]) /\
  src_fbsocket_inet_ntop 10 (bytes_of_words [65152; 0; 0; 0; 0; 0; 0; 1]) = Ok "fe80::1"%string.
Proof. repeat split; vm_compute; reflexivity. Qed.
