(* Props/C17.v — property C17: glob and nmap range notations denote exactly their address sets.
   Nothing but statements closed by `exact`, each followed by Print Assumptions. *)
From Coq Require Import String Ascii Sorted.
From NV Require Import Base.Tac Base.PyVal Base.PyStr Model.Ip Model.Glob Model.Nmap
  Proofs.C17_str Proofs.C17 Proofs.C17_nmap.
Open Scope string_scope.
Open Scope Z_scope.

(* valid_glob accepts exactly the glob grammar: four dot-separated fields, each the canonical decimal of 0..255,
   '*', or 'x-y' with x < y; at most one hyphen field; after a hyphen field or '*' only '*'. *)
Theorem C17_valid : forall s, valid_glob s = true <-> glob_lang s.
Proof. exact valid_glob_iff. Qed.
Print Assumptions C17_valid.

(* every accepted glob converts to exactly the addresses that match it field-wise, and those form one interval
   whose ends are read off octet-wise (glob_lo / glob_hi) *)
Theorem C17_convert : forall fs, glob_fields fs ->
  let s := show_glob fs in
  glob_to_iptuple s = Ok (glob_lo fs, glob_hi fs) /\
  glob_to_iprange s = Ok (glob_lo fs, glob_hi fs) /\
  (forall to_cidrs, glob_to_cidrs to_cidrs s = to_cidrs (glob_lo fs) (glob_hi fs)) /\
  0 <= glob_lo fs <= glob_hi fs /\ glob_hi fs < 2 ^ 32 /\
  forall v, 0 <= v < 2 ^ 32 -> (glob_match fs v <-> glob_lo fs <= v <= glob_hi fs).
Proof. exact convert_spec. Qed.
Print Assumptions C17_convert.

Theorem C17_convert_rejects : forall s, valid_glob s = false ->
  glob_to_iptuple s = Raise AddrFormatError /\ glob_to_iprange s = Raise AddrFormatError /\
  forall to_cidrs, glob_to_cidrs to_cidrs s = Raise AddrFormatError.
Proof. exact convert_invalid. Qed.
Print Assumptions C17_convert_rejects.

(* given a correct iprange_to_cidrs (canonical aligned blocks tiling [lo, hi] in ascending order — property C05),
   iprange_to_globs returns valid globs whose address sets are consecutive intervals from lo to hi, and exactly one
   glob iff [lo, hi] is the address set of some glob *)
Theorem C17_to_globs : forall to_cidrs,
  (forall lo hi, 0 <= lo <= hi /\ hi < 2 ^ 32 -> exists cs, to_cidrs lo hi = Ok cs /\ cidrs_tile cs lo hi) ->
  forall lo hi, 0 <= lo <= hi /\ hi < 2 ^ 32 ->
  exists gl ivs, iprange_to_globs to_cidrs (4, lo) (4, hi) = Ok gl /\
                 Forall2 (fun g iv => glob_denotes g (fst iv) (snd iv)) gl ivs /\
                 chain ivs lo hi /\
                 (List.length gl = 1%nat <-> glob_shaped lo hi).
Proof. exact to_globs_tile. Qed.
Print Assumptions C17_to_globs.

(* the executable decomposition used in the correspondence commands (compared with the real iprange_to_cidrs on every
   run) meets that specification, so for it the conclusion holds outright *)
Theorem C17_to_cidrs_exec : forall lo hi, 0 <= lo <= hi /\ hi < 2 ^ 32 ->
  exists cs, to_cidrs_exec lo hi = Ok cs /\ cidrs_tile cs lo hi.
Proof. exact to_cidrs_exec_spec. Qed.
Print Assumptions C17_to_cidrs_exec.

Theorem C17_to_globs_exec : forall lo hi, 0 <= lo <= hi /\ hi < 2 ^ 32 ->
  exists gl ivs, iprange_to_globs to_cidrs_exec (4, lo) (4, hi) = Ok gl /\
                 Forall2 (fun g iv => glob_denotes g (fst iv) (snd iv)) gl ivs /\
                 chain ivs lo hi /\
                 (List.length gl = 1%nat <-> glob_shaped lo hi).
Proof. exact to_globs_tile_exec. Qed.
Print Assumptions C17_to_globs_exec.

(* what the two notions used above mean: a denoted glob is valid and converts to exactly that interval of matching
   addresses; a chain of intervals is ascending, pairwise disjoint and covers exactly [lo, hi] *)
Theorem C17_glob_denotes : forall g a b, glob_denotes g a b ->
  valid_glob g = true /\ glob_to_iptuple g = Ok (a, b) /\ glob_to_iprange g = Ok (a, b) /\
  0 <= a <= b /\ b < 2 ^ 32 /\
  exists fs, g = show_glob fs /\ glob_fields fs /\ forall v, 0 <= v < 2 ^ 32 -> (glob_match fs v <-> a <= v <= b).
Proof. exact glob_denotes_facts. Qed.
Print Assumptions C17_glob_denotes.

Theorem C17_chain_tiles : forall ivs lo hi, chain ivs lo hi -> lo <= hi + 1 /\
  forall x, (lo <= x <= hi <-> exists iv, In iv ivs /\ fst iv <= x <= snd iv).
Proof. exact chain_mem. Qed.
Print Assumptions C17_chain_tiles.

(* a glob-shaped range gives its single glob whatever iprange_to_cidrs does *)
Theorem C17_to_globs_single : forall to_cidrs lo hi, glob_shaped lo hi ->
  exists g, iprange_to_globs to_cidrs (4, lo) (4, hi) = Ok [g] /\ glob_denotes g lo hi.
Proof. exact to_globs_shaped. Qed.
Print Assumptions C17_to_globs_single.

(* every IPv4 CIDR has exactly one glob, denoting exactly [first, last]; IPv6 is refused *)
Theorem C17_cidr_glob : forall to_cidrs v p, 0 <= p <= 32 -> 0 <= v < 2 ^ 32 ->
  let first := v - v mod 2 ^ (32 - p) in
  let last := first + 2 ^ (32 - p) - 1 in
  exists g, cidr_to_glob to_cidrs 4 v p = Ok g /\ glob_denotes g first last.
Proof. exact cidr_to_glob_exact. Qed.
Print Assumptions C17_cidr_glob.

Theorem C17_cidr_glob_v6 : forall to_cidrs v p, cidr_to_glob to_cidrs 6 v p = Raise AddrConversionError.
Proof. exact cidr_to_glob_v6. Qed.
Print Assumptions C17_cidr_glob_v6.

(* IPGlob(s) for an accepted s: spans exactly the matching addresses, carries a valid glob with the same denotation,
   str() is that glob, and pickling round-trips; IPGlob(s) for any other s raises AddrFormatError *)
Theorem C17_ipglob : forall to_cidrs fs, glob_fields fs ->
  exists g, ipglob_new to_cidrs (show_glob fs) = Ok {| g_start := glob_lo fs; g_end := glob_hi fs; g_glob := Some g |} /\
            glob_denotes g (glob_lo fs) (glob_hi fs) /\
            ipglob_str {| g_start := glob_lo fs; g_end := glob_hi fs; g_glob := Some g |} = Ok g /\
            ipglob_setstate to_cidrs (ipglob_getstate {| g_start := glob_lo fs; g_end := glob_hi fs; g_glob := Some g |})
              = Ok {| g_start := glob_lo fs; g_end := glob_hi fs; g_glob := Some g |}.
Proof. exact ipglob_new_spec. Qed.
Print Assumptions C17_ipglob.

Theorem C17_ipglob_rejects : forall to_cidrs s, valid_glob s = false -> ipglob_new to_cidrs s = Raise AddrFormatError.
Proof. exact ipglob_new_invalid. Qed.
Print Assumptions C17_ipglob_rejects.

(* the glob setter: an accepted glob replaces the range and the text coherently; anything else raises
   AddrFormatError and leaves the object as it was *)
Theorem C17_ipglob_set : forall to_cidrs o fs, glob_fields fs ->
  exists g, set_glob to_cidrs o (show_glob fs) =
              ({| g_start := glob_lo fs; g_end := glob_hi fs; g_glob := Some g |}, None) /\
            glob_denotes g (glob_lo fs) (glob_hi fs).
Proof. exact set_glob_valid. Qed.
Print Assumptions C17_ipglob_set.

Theorem C17_ipglob_set_rejects : forall to_cidrs o s, valid_glob s = false ->
  set_glob to_cidrs o s = (o, Some AddrFormatError).
Proof. exact set_glob_invalid. Qed.
Print Assumptions C17_ipglob_set_rejects.

(* the platform parser model used on the strings the glob code builds: exactly the canonical dotted quads *)
Theorem C17_pton4 : forall s v, pton4 s = Some v <->
  exists a b c d, (0 <= a <= 255 /\ 0 <= b <= 255 /\ 0 <= c <= 255 /\ 0 <= d <= 255) /\
                  s = join "." [fmt_d a; fmt_d b; fmt_d c; fmt_d d] /\ v = of_octets [a; b; c; d].
Proof. exact pton4_iff. Qed.
Print Assumptions C17_pton4.

(* ---- nmap; for any behaviour of the platform parsers (inet_pton(AF_INET6), IPAddress(text)) ---- *)

(* valid_nmap_range(spec) is True exactly when iter_nmap_range(spec) raises nothing *)
Theorem C17_nmap_valid : forall pton6 ip_address s,
  valid_nmap_range pton6 ip_address s = Ok true <-> snd (iter_nmap_range pton6 ip_address [s]) = None.
Proof. exact valid_iff_iter. Qed.
Print Assumptions C17_nmap_valid.

(* all errors precede the first yield; a generator that does not fail yields at least one address; valid_nmap_range
   answers False exactly on TypeError / ValueError / AddrFormatError *)
Theorem C17_nmap_valid_cases : forall pton6 ip_address s,
  match parse_nmap_target_spec pton6 ip_address s with
  | (_ :: _, None) => valid_nmap_range pton6 ip_address s = Ok true
  | ([], Some e) => valid_nmap_range pton6 ip_address s =
                      (match e with TypeError | ValueError | AddrFormatError => Ok false | _ => Raise e end)
  | _ => False
  end.
Proof. exact valid_cases. Qed.
Print Assumptions C17_nmap_valid_cases.

(* the probe the correspondence uses for CIDR targets of any size observes the generator faithfully: same validity
   flag, same error, and exactly its first three addresses *)
Theorem C17_nmap_cidr_probe : forall pton6 ip_address s, contains_char ch_slash s = true ->
  fst (cidr_probe pton6 s) = firstn 3 (fst (parse_nmap_target_spec pton6 ip_address s)) /\
  snd (cidr_probe pton6 s) = snd (parse_nmap_target_spec pton6 ip_address s) /\
  valid_of_gen (cidr_probe pton6 s) = valid_nmap_range pton6 ip_address s.
Proof. exact cidr_probe_ok. Qed.
Print Assumptions C17_nmap_cidr_probe.

(* one octet specification: a non-empty strictly ascending list of octets, exactly the values its comma-separated
   elements denote (numbers; ranges with optional ends, '-n' = 0..n, 'n-' = n..255, '-' = 0..255) *)
Theorem C17_nmap_octet_set : forall spec l, nmap_octet_target_values spec = Ok l ->
  StronglySorted Z.lt l /\ Forall octet l /\ l <> [] /\ forall x, In x l <-> octets_den spec x.
Proof. exact octet_values_ok. Qed.
Print Assumptions C17_nmap_octet_set.

(* dotted specification: strictly ascending (hence duplicate-free) and exactly {a.b.c.d | a in A, ..., d in D} *)
Theorem C17_nmap_iter : forall pton6 ip_address s,
  contains_char ch_slash s = false -> contains_char ch_colon s = false ->
  match generate_nmap_octet_ranges s with
  | Raise e => parse_nmap_target_spec pton6 ip_address s = ([], Some e)
  | Ok (A, B, C, D) =>
      parse_nmap_target_spec pton6 ip_address s = (map (fun v => (4, v)) (quads A B C D), None) /\
      StronglySorted Z.lt (quads A B C D) /\ quads A B C D <> [] /\
      exists t0 t1 t2 t3, split ch_dot s = [t0; t1; t2; t3] /\
        (forall v, In v (quads A B C D) <->
                   exists a b c d, octets_den t0 a /\ octets_den t1 b /\ octets_den t2 c /\ octets_den t3 d /\
                                   v = of_octets [a; b; c; d])
  end.
Proof. exact parse_octets. Qed.
Print Assumptions C17_nmap_iter.

(* canonically written IPv4 CIDR a.b.c.d/p: every address of the block, ascending *)
Theorem C17_nmap_iter_cidr : forall pton6 ip_address a b c d p,
  octet a -> octet b -> octet c -> octet d -> 0 < p < 33 ->
  let v := of_octets [a; b; c; d] in
  let first := v - v mod 2 ^ (32 - p) in
  parse_nmap_target_spec pton6 ip_address (join "." [fmt_d a; fmt_d b; fmt_d c; fmt_d d] ++ "/" ++ fmt_d p) =
    (map (fun x => (4, x)) (py_range first (first + 2 ^ (32 - p))), None).
Proof. exact parse_cidr. Qed.
Print Assumptions C17_nmap_iter_cidr.

(* any '/' specification that succeeds (partial addresses, lenient prefixes, ...) yields, ascending, exactly the
   addresses of the IPv4 network that IPNetwork(text) denotes, with a prefix 1..32 *)
Theorem C17_nmap_iter_slash : forall pton6 ip_address s xs,
  contains_char ch_slash s = true -> parse_nmap_target_spec pton6 ip_address s = (xs, None) ->
  exists v p, ipnetwork_of_str pton6 s = Ok (4, v, p) /\ 0 <= v < 2 ^ 32 /\ 0 < p <= 32 /\
              let first := v - v mod 2 ^ (32 - p) in
              xs = map (fun x => (4, x)) (py_range first (first + 2 ^ (32 - p))).
Proof. exact parse_slash_ok. Qed.
Print Assumptions C17_nmap_iter_slash.

(* a text with ':' and no '/': the single address IPAddress() makes of it, or its error *)
Theorem C17_nmap_iter_colon : forall pton6 ip_address s,
  contains_char ch_slash s = false -> contains_char ch_colon s = true ->
  parse_nmap_target_spec pton6 ip_address s =
    match ip_address s with Ok a => ([a], None) | Raise e => ([], Some e) end.
Proof. exact parse_colon. Qed.
Print Assumptions C17_nmap_iter_colon.

(* iter_nmap_range of one specification is that specification's generator; of several, their concatenation up to
   the first failing one *)
Theorem C17_nmap_iter_single : forall pton6 ip_address s,
  iter_nmap_range pton6 ip_address [s] = parse_nmap_target_spec pton6 ip_address s.
Proof. exact iter_single. Qed.
Print Assumptions C17_nmap_iter_single.

Theorem C17_nmap_iter_many : forall pton6 ip_address s rest,
  iter_nmap_range pton6 ip_address (s :: rest) =
  match parse_nmap_target_spec pton6 ip_address s with
  | (xs, Some e) => (xs, Some e)
  | (xs, None) => ((xs ++ fst (iter_nmap_range pton6 ip_address rest))%list, snd (iter_nmap_range pton6 ip_address rest))
  end.
Proof. exact iter_cons. Qed.
Print Assumptions C17_nmap_iter_many.

(* ---- non-vacuity ---- *)
(* the hypothesis of C17_to_globs is satisfiable (one /32 per address), and the functions compute *)
Theorem C17_to_globs_hypothesis_satisfiable : forall lo hi, 0 <= lo <= hi /\ hi < 2 ^ 32 ->
  exists cs, singles lo hi = Ok cs /\ cidrs_tile cs lo hi.
Proof. exact singles_spec. Qed.
Print Assumptions C17_to_globs_hypothesis_satisfiable.

Example C17_examples :
  valid_glob "192.0.2-3.*" = true /\ valid_glob "010.0.0.*" = false /\
  glob_to_iprange "192.0.2-3.*" = Ok (3221225984, 3221226495) /\
  iprange_to_globs to_cidrs_exec (4, 3221225984) (4, 3221226496) = Ok ["192.0.2-3.*"; "192.0.4.0"] /\
  cidr_to_glob to_cidrs_exec 4 167772160 12 = Ok "10.0-15.*.*" /\
  fst (iter_nmap_range (fun _ => None) (fun _ => Raise AddrFormatError) ["192.0.2.1,5-6"]) =
    [(4, 3221225985); (4, 3221225989); (4, 3221225990)].
Proof. vm_compute. repeat split; reflexivity. Qed.
