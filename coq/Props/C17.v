(* placeholder *)
From NV Require Import Base.Tac Model.Glob Model.Nmap.
Theorem C17_placeholder : True. Proof. exact I. Qed.
Print Assumptions C17_placeholder.
