(* Props/C05_src_g.v -- source tie for C05, tag SRCG: the Gallina definition that harness/gen/pysrc.py regenerates on every run from
   the CURRENT text of iter_unique_ips (netaddr/ip/__init__.py; coq/Gen/pysrc_uniq_gen.v) against the hand model
   Model/UniqueIps.v unique_ips (added with this tie), and the property of that function: for well-formed arguments (networks
   with or without host bits, ranges, both families, any order, duplicates, overlaps) it returns normally and yields exactly the
   addresses of the union of the arguments, none of them twice.
   Reading: the argument tuple *args is one list parameter; the generator is the list of what it yields; `for ip in cidr` over an
   IPNetwork object is SrcPreludeG.py_net_addrs = IPAddress(first) .. IPAddress(last) as (version, value) pairs (the hand model
   of IPListMixin.__iter__, property C10; not translated here); cidr_merge is the translated definition of C05_source_tie_merge.
   Hypothesis: well-formed items (NetDen.wf_mitem, the hypothesis of every C05 theorem).
   Nothing but the statements closed by `exact`, followed by Print Assumptions. *)
From NV Require Import Base.Tac Base.PyVal Model.Ip Model.Merge Model.UniqueIps Proofs.NetDen Proofs.C05_unique Proofs.GenOk_Src_C05_g
  Gen.pysrc_uniq_gen.
Import ListNotations.
Open Scope Z_scope.

Theorem C05_source_tie_g :
  (forall items, Forall wf_mitem items -> src_iter_unique_ips items = unique_ips items) /\
  (forall items, Forall wf_mitem items ->
     exists ips, src_iter_unique_ips items = Ok ips /\ NoDup ips /\ (forall ver x, In (ver, x) ips <-> den_items items ver x)).
Proof. exact C05_tie_g_ok. Qed.
Print Assumptions C05_source_tie_g.

(* the model level statement: iter_unique_ips enumerates the union without repetition *)
Theorem C05_unique_ips : forall items, Forall wf_mitem items ->
  exists ips, unique_ips items = Ok ips /\ NoDup ips /\ (forall ver x, In (ver, x) ips <-> den_items items ver x).
Proof. exact unique_ips_spec. Qed.
Print Assumptions C05_unique_ips.

(* 10.0.0.0/31, 10.0.0.1/32 (inside), 10.0.0.2 - 10.0.0.3 (adjacent) -> 10.0.0.0 .. 10.0.0.3, once each *)
Example C05_src_g_nonvacuous :
  src_iter_unique_ips [MNet {| nver := 4; nval := 167772160; nplen := 31 |}; MNet {| nver := 4; nval := 167772161; nplen := 32 |};
                       MRange 4 167772162 167772163]
    = Ok [(4, 167772160); (4, 167772161); (4, 167772162); (4, 167772163)].
Proof. vm_compute. reflexivity. Qed.
