(* Props/C19_src_g_load.v -- source tie for C19, tag SRCG, fourth part: the Gallina definitions that harness/gen/pysrc.py regenerates
   on every run from the CURRENT text of MulticastParser.normalise_addr and DictUpdater.update (netaddr/ip/iana.py;
   coq/Gen/pysrc_ianab_gen.v) against the hand models Model/IanaLoad.v normalise_addr / update_item (added with this tie).
   Reading: a record is the association list of its text fields (`data[k]` with KeyError); `self.topic` / `self.unique_key` are
   parameters; update() answers the item (key object, record) that its last statement `self.dct[key] = data` stores (None when the
   topic is none of the four: nothing is stored) -- the dict itself is not represented --; the key object is an IPNetwork, an
   IPRange or an IPAddress (SrcPreludeG.ikeyview, the three kinds of Model/Iana.v); IPNetwork(text) / IPAddress(text) /
   IPRange(text, text) / cidr_abbrev_to_verbose / IPRange.cidrs are the translated definitions of the other units, which their
   source ties (C03, C01, C12, C05) identify with the hand models update_item is written with.  Both socket back-ends.
   No hypothesis.  Nothing but the statement closed by `exact`, followed by Print Assumptions. *)
From Coq Require Import String Ascii.
From NV Require Import Base.Tac Base.PyVal Base.PyStr Model.Ip Model.AddrText Model.SrcPreludeG Model.IanaLoad Gen.pysrc_ianab_gen
  Proofs.GenOk_Src_C19_g_load.
Import ListNotations.
Open Scope list_scope.
Open Scope Z_scope.

Theorem C19_source_tie_g_load :
  (forall addr, src_MulticastParser_normalise_addr addr = normalise_addr addr) /\
  (forall be topic key data, src_DictUpdater_update be topic key data = update_item be topic key data).
Proof. exact C19_tie_g_load_ok. Qed.
Print Assumptions C19_source_tie_g_load.

Example C19_src_g_load_nonvacuous :
  src_MulticastParser_normalise_addr "224.000.001.010 - 224.0.1.20"%string = Ok "224.0.1.10-224.0.1.20"%string /\
  omap (option_map fst) (src_DictUpdater_update Fallback "IPv4" "prefix" [("prefix", "010/8")]%string)
    = Ok (Some (IKNet {| nver := 4; nval := 167772160; nplen := 8 |})) /\
  omap (option_map fst) (src_DictUpdater_update Fallback "multicast" "address" [("address", "224.0.1.0-224.0.1.255")]%string)
    = Ok (Some (IKNet {| nver := 4; nval := 3758096640; nplen := 24 |})) /\
  omap (option_map fst) (src_DictUpdater_update Fallback "multicast" "address" [("address", "224.0.1.1-224.0.1.255")]%string)
    = Ok (Some (IKRange 4 3758096641 3758096895)) /\
  omap (option_map fst) (src_DictUpdater_update Fallback "multicast" "address" [("address", "224.0.1.1")]%string)
    = Ok (Some (IKAddr (4, 3758096641))) /\
  src_DictUpdater_update Fallback "IPv4" "prefix" [("address", "1")]%string = Raise KeyError.
Proof. repeat split; vm_compute; reflexivity. Qed.
