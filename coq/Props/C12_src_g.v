(* Props/C12_src_g.v -- source tie for C12, tag SRCG: the Gallina definitions that harness/gen/pysrc.py regenerates on every run from
   the CURRENT text of BOTH definitions of num_bits in netaddr/core.py (coq/Gen/pysrc_core_gen.v) against Model/Order.v num_bits
   (the model of IPRange.sort_key's key).  The translator checks the module-level shape `try: <probe>; def num_bits / except
   AttributeError: def num_bits`; `x.bit_length()` is the symbol py_num_bits = Order.num_bits (so the first statement says that the
   definition in use is still exactly `return int_val.bit_length()`); the fallback loop is proved equal to it for int_val >= 0
   (fuel of the while loop: int_val + 1, table FUEL).  Nothing but the statement closed by `exact`, followed by Print Assumptions. *)
From NV Require Import Base.Tac Base.PyVal Model.Order Gen.pysrc_core_gen Proofs.GenOk_Src_C12_g.
Open Scope Z_scope.

Theorem C12_source_tie_g :
  (forall n, src_core_num_bits_bit_length n = num_bits n) /\
  (forall n, 0 <= n -> src_core_num_bits_fallback n = Ok (num_bits n)).
Proof. exact C12_tie_g_ok. Qed.
Print Assumptions C12_source_tie_g.

Example C12_src_g_nonvacuous :
  src_core_num_bits_fallback 255 = Ok 8 /\ src_core_num_bits_fallback 256 = Ok 9 /\ src_core_num_bits_bit_length (2 ^ 128) = 129 /\
  src_core_num_bits_fallback 0 = Ok 0.
Proof. repeat split; vm_compute; reflexivity. Qed.
