(* Props/C11_src_subnet.v -- source tie for C11, second part: the Gallina definitions that harness/gen/pysrc.py regenerates on
   every run from the CURRENT text of the generator IPNetwork.subnet, of IPNetwork.next / previous and of IPNetwork.iter_hosts
   (coq/Gen/pysrc_subnet_gen.v) are equal to the hand-written model functions of Model/Subnet.v that the theorems of
   Props/C11.v are about.
   A generator is translated into its prologue (src_IPNetwork_subnet_start: the locals (i, count, base_subnet, prefixlen) the
   loop starts with, or None for the bare `return`) and one resumption (src_IPNetwork_subnet_next: None when `while i < count`
   ends, else the yielded object and the next state; an exception of the body is the outcome's Raise); the model's
   subnet_start / subnet_next are the same two pieces (first two conjuncts), and list(islice(gen, k)) of both agree
   (SrcPreludeSRCE.py_gen_take vs Subnet.gen_take / subnet_take, third conjunct).  No hypothesis.
   `self.__class__('%s/%d' % (a, prefixlen), version)` is the symbol py_net_of_cidr_text (NOT translated: the model's
   net_of_cidr_str -- the text round trip is the identity on in-range values, C01 / C03 -- on net records); `.value += ..`,
   `.prefixlen = ..`, `ip_copy += step` are the regenerated setters and in-place operators.
   next / previous: for a well-formed receiver (version 4 / 6, prefix and value in range: the hypotheses of C11_step), as for
   __iadd__ / __isub__ in Props/C11_src.v (the code builds IPAddress objects from the network address on the way).
   iter_hosts returns iter([]) (ItEmpty) or the not yet started generator iter_iprange(a, b) (ItIprange); the model of
   Subnet.v has that generator's prologue already run: start_it.  No hypothesis.
   Last conjunct: the symbol py_list_subnet that stands for list(cidr.subnet(prefix, count=count)) in the SubnetSplitter unit
   (Model/SrcPreludeSplitter.v, Props/C20_src.v) is this regenerated generator run for `count` elements.
   Nothing but the statement closed by `exact`, followed by Print Assumptions. *)
From NV Require Model.SrcPreludeSplitter.
From NV Require Import Base.Tac Base.PyVal Model.Ip Model.PySlice Model.ListLike Model.Subnet Model.SrcPrelude Model.SrcPreludeSRCE
  Gen.pysrc_gen Gen.pysrc_subnet_gen Proofs.GenOk_Src_C11 Proofs.GenOk_Src_C11_subnet.
Import ListNotations.
Open Scope Z_scope.

Theorem C11_source_tie_subnet :
  (forall ver v p prefixlen count fmt,
     src_IPNetwork_subnet_start ver (width ver) v p prefixlen count fmt =
       omap (option_map sg_state) (subnet_start (width ver) (v, p) prefixlen count)) /\
  (forall ver v p g,
     subnet_next_src ver v p (sg_state g) =
       match subnet_next (width ver) g with
       | None => Ok None
       | Some (r, g') => omap (fun n => Some (wnet_net ver n, sg_state g')) r
       end) /\
  (forall ver v p prefixlen count fmt k,
     (do og <- src_IPNetwork_subnet_start ver (width ver) v p prefixlen count fmt;
      match og with
      | None => Ok (0, [])
      | Some st => do l <- py_gen_take (subnet_next_src ver v p) k st; Ok (snd (fst (fst st)), l)
      end) =
     omap (fun cl => (fst cl, map (wnet_net ver) (snd cl))) (subnet_take (width ver) (v, p) prefixlen count k)) /\
  (forall ver v p step, valid_ver ver = true -> 0 <= p <= width ver -> 0 <= v < 2 ^ width ver ->
     src_IPNetwork_next ver (width ver) v p step = omap (wnet_net ver) (net_next (width ver) (v, p) step) /\
     src_IPNetwork_previous ver (width ver) v p step = omap (wnet_net ver) (net_previous (width ver) (v, p) step)) /\
  (forall ver v p, (do it <- src_IPNetwork_iter_hosts ver (width ver) v p; start_it it) = iter_hosts ver (v, p)) /\
  (forall cidr prefix count fmt,
     SrcPreludeSplitter.py_list_subnet cidr prefix count =
       (do og <- src_IPNetwork_subnet_start (nver cidr) (width (nver cidr)) (nval cidr) (nplen cidr) prefix count fmt;
        match og with
        | None => Ok []
        | Some st => py_gen_take (subnet_next_src (nver cidr) (nval cidr) (nplen cidr)) (Z.to_nat (snd (fst (fst st)))) st
        end)).
Proof. exact C11_subnet_tie_ok. Qed.
Print Assumptions C11_source_tie_subnet.

(* the generated definitions compute: list(IPNetwork('10.0.0.77/24').subnet(26)) = the four /26 of 10.0.0.0/24;
   IPNetwork('10.0.0.77/24').next(2) = 10.0.2.0/24; iter_hosts of it = iter_iprange(10.0.0.1, 10.0.0.254) *)
Example C11_src_subnet_nonvacuous :
  (do og <- src_IPNetwork_subnet_start 4 32 167772237 24 26 None None;
   match og with None => Ok [] | Some st => py_gen_take (subnet_next_src 4 167772237 24) 9 st end) =
    Ok [ {| nver := 4; nval := 167772160; nplen := 26 |}; {| nver := 4; nval := 167772224; nplen := 26 |};
         {| nver := 4; nval := 167772288; nplen := 26 |}; {| nver := 4; nval := 167772352; nplen := 26 |} ] /\
  src_IPNetwork_next 4 32 167772237 24 2 = Ok {| nver := 4; nval := 167772672; nplen := 24 |} /\
  src_IPNetwork_iter_hosts 4 32 167772237 24 = Ok (ItIprange 4 167772161 4 167772414 1).
Proof. repeat split; vm_compute; reflexivity. Qed.
