(* Props/C12_src_cmp.v -- source tie for C12, second part: the Gallina definitions that harness/gen/pysrc.py regenerates on
   every run from the CURRENT text of BaseIP.__eq__ __ne__ __lt__ __le__ __gt__ __ge__ __hash__ (one copy per receiver class
   IPAddress / IPNetwork / IPRange, the receiver's own key() / sort_key() being the regenerated ones of Gen/pysrc_gen.v), of
   IPRange.sort_key and of IPAddress.__long__ (coq/Gen/pysrc_cmp_gen.v) are equal to the hand-written model of Model/Order.v
   that the theorems of Props/C12.v are about: src_cmp op a o is the generated method for the operator `op` of the class of
   `a`, py_cmp op a b the model's py_eq / py_ne / py_lt / py_le / py_gt / py_ge.
   `other` is an operand (IPAddress / IPNetwork / IPRange object, or anything else): for the three BaseIP kinds the `try` body
   `return self.key() <op> other.key()` is translated without anything that can raise (so the handler `except (AttributeError,
   TypeError): return NotImplemented` is dead) -- first conjunct; for anything else the method answers NotImplemented and
   Python goes on to the reflected operation: NOT translated (Raise Unsupported) -- second conjunct.
   Tuple comparison is the symbol py_tuple_<op> (= Order.tuple_cmp, CPython's tuplerichcompare), core.num_bits is the symbol
   py_num_bits (= Order.num_bits; the translator checks that netaddr/core.py still says `return int_val.bit_length()`);
   `hash(..)` is a PARAMETER of the generated __hash__ (the model's Section variable H: any function).  No hypothesis.
   Fifth conjunct: the comparison that `sorted()` of the CIDR matching functions uses (Contains.net_lt, through
   SrcPreludeMatch.py_sorted_nets) is the regenerated IPNetwork `__lt__`.
   The abstract BaseIP.key / sort_key (`return NotImplemented`, overridden by every class) have no model counterpart.
   Nothing but the statement closed by `exact`, followed by Print Assumptions. *)
From NV Require Import Base.Tac Base.PyVal Model.Ip Model.Order Model.SrcPrelude Model.SrcPreludeSRCE Model.SrcPreludeCmp
  Gen.pysrc_gen Gen.pysrc_cmp_gen Proofs.GenOk_Src_C12_cmp.
From NV Require Model.Contains.
Import ListNotations.
Open Scope Z_scope.

Theorem C12_source_tie_cmp :
  (forall op a b, src_cmp op a (operand_of_obj b) = Ok (py_cmp op a b)) /\
  (forall op a, src_cmp op a OOther = Raise Unsupported) /\
  (forall ver s e, src_IPRange_sort_key ver (width ver) s e = sort_key (Range ver s e)) /\
  (forall H : list Z -> Z,
     (forall ver w v, src_IPAddress_hash ver w v H = py_hash H (Addr ver v)) /\
     (forall ver v p, src_IPNetwork_hash ver (width ver) v p H = py_hash H (Net ver v p)) /\
     (forall ver w s e, src_IPRange_hash ver w s e H = py_hash H (Range ver s e))) /\
  (forall a b, src_IPNetwork_lt (nver a) (width (nver a)) (nval a) (nplen a) (ONet (nver b) (nval b) (nplen b))
               = Ok (Contains.net_lt width a b)) /\
  (forall ver w v, src_IPAddress_long ver w v = v).
Proof. exact C12_cmp_tie_ok. Qed.
Print Assumptions C12_source_tie_cmp.

(* the generated definitions compute: 10.0.0.0/24 < 10.0.0.0/25 (a strictly enclosing network sorts first), 10.0.0.0/24 ==
   IPRange(10.0.0.0, 10.0.0.255), IPRange(10.0.0.0, 10.0.0.255).sort_key() = (4, 167772160, 23) *)
Example C12_src_cmp_nonvacuous :
  src_IPNetwork_lt 4 32 167772160 24 (ONet 4 167772160 25) = Ok true /\
  src_IPNetwork_eq 4 32 167772160 24 (ORng 4 167772160 167772415) = Ok true /\
  src_IPAddress_ge 4 32 167772160 (ONet 4 167772160 24) = Ok true /\
  src_IPRange_sort_key 4 32 167772160 167772415 = [4; 167772160; 23].
Proof. repeat split; vm_compute; reflexivity. Qed.
