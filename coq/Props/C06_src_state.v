(* Props/C06_src_state.v -- SRCA: source tie for C06 (pickling): the Gallina definitions that harness/gen/pysrc.py regenerates on
   every run from the CURRENT text of IPSet.__getstate__ / __setstate__ (netaddr/ip/sets.py, coq/Gen/pysrc_sets_state_gen.v) and
   of IPNetwork.__getstate__ (netaddr/ip/__init__.py, coq/Gen/pysrc_ctor_gen.v) are equal to the hand-written model
   Sets.set_getstate / set_setstate (command `pickle` of the C06 correspondence).  A tuple of ints returned by a method is the
   list [value; prefixlen; version] (state_list).  __setstate__ takes the (ignored) old state first.  No hypotheses.
   __reduce__ (which only packs class, arguments and __getstate__()) is not translated.
   Nothing but the statement closed by `exact`, followed by Print Assumptions. *)
From NV Require Import Base.Tac Base.PyVal Model.Ip Model.Sets Model.SrcPrelude Model.SrcPreludeSets
  Gen.pysrc_ctor_gen Gen.pysrc_sets_state_gen Proofs.GenOk_Src_C06_state.
Import ListNotations.
Open Scope Z_scope.

Theorem C06_source_tie_state :
  (forall d, src_IPSet_getstate d = map state_list (set_getstate d)) /\
  (forall d0 st, src_IPSet_setstate d0 st = set_setstate st) /\
  (forall ver w v p, src_IPNetwork_getstate ver w v p = [v; p; ver]).
Proof. exact C06_state_tie_ok. Qed.
Print Assumptions C06_source_tie_state.

(* the generated definitions compute: a pickled state with a duplicate key is restored to one key; an invalid version raises *)
Example C06_src_state_nonvacuous :
  src_IPSet_setstate [] [ (167772160, 24, 4); (167772161, 24, 4) ] = Ok [ {| nver := 4; nval := 167772160; nplen := 24 |} ] /\
  src_IPSet_setstate [] [ (167772160, 24, 5) ] = Raise ValueError.
Proof. split; vm_compute; reflexivity. Qed.
