(* Props/C19_src_g.v -- source tie for C19, tag SRCG: the Gallina definitions that harness/gen/pysrc.py regenerates on every run
   from the CURRENT text of `_within_bounds` and `query` of netaddr/ip/iana.py (coq/Gen/pysrc_iana_gen.v) against the hand-written
   model Model/Iana.v (within_bounds, query) that C19_iana_lookup_exact / C19_within_bounds are about.
   Reading: IANA_INFO is a Section variable of the generated file (dictionary name -> its rows (key object, record) in insertion
   order: the VALUES are regenerated data, Gen/iana_gen.v iana_impl); the model's table parameter is read through
   SrcPreludeG.iana_table (IANA_INFO['IPv4' / 'multicast' / 'IPv6' / 'IPv6_unicast'] = the rows with registry tag 0 / 1 / 2 / 3);
   the result dict of lists is an insertion-ordered association list whose keys 'IPv4' / 'Multicast' / 'IPv6' / 'IPv6_unicast'
   name the model's tags (iana_named); `hasattr(key, 'first')` / `hasattr(key, 'value')` are decided by the class of the key
   object (IPNetwork / IPRange / IPAddress; the final `raise Exception` is dead for these three classes and not represented).
   No hypothesis.  Nothing but the statement closed by `exact`, followed by Print Assumptions. *)
From Coq Require Import String Ascii.
From NV Require Import Base.Tac Base.PyVal Model.Ip Model.Iana Model.SrcPrelude Model.SrcPreludeG Gen.iana_gen Gen.pysrc_iana_gen
  Proofs.GenOk_Src_C19_g.
Import ListNotations.
Open Scope list_scope.
Open Scope Z_scope.

Theorem C19_source_tie_g :
  (forall ver v r, src_iana__within_bounds (ver, v) r = Ok (within_bounds ver v r)) /\
  (forall tab ver v, src_iana_query (iana_table tab) (ver, v) = Ok (iana_named (query tab ver v))).
Proof. exact C19_tie_g_ok. Qed.
Print Assumptions C19_source_tie_g.

(* 192.0.2.1 over the regenerated dictionaries: one record of the IPv4 address space, no multicast record *)
Example C19_src_g_nonvacuous :
  omap (map (fun kl => (fst kl, Z.of_nat (List.length (snd kl))))) (src_iana_query (iana_table iana_impl) (4, 3221225985))
    = Ok [("IPv4"%string, 1)] /\
  omap (map fst) (src_iana_query (iana_table iana_impl) (4, 3758096385)) = Ok ["IPv4"%string; "Multicast"%string] /\
  src_iana__within_bounds (4, 256) (IRow 0 0 KN 4 0 8) = Ok true /\ src_iana__within_bounds (4, 256) (IRow 1 0 KA 4 255 255) = Ok false.
Proof. repeat split; vm_compute; reflexivity. Qed.
