(* Props/C15.v — property C15: binary, bit, word, DNS and base-85 encodings are faithful and invertible.
   Nothing but statements closed by `exact`, each followed by Print Assumptions.
   `builtin fam name d dflt`: (fam, name) is a row of the table generated from the source tree (the module constants
   of ipv4/ipv6, every dialect class of eui48/eui64) with parameters d; dflt is the family's default dialect. *)
From Coq Require Import String Ascii.
From NV Require Import Base.Tac Base.PyVal Base.PyStr Base.PyStrFacts Model.Ip Model.Codec Gen.codec_gen
  Proofs.C15_Digits Proofs.C15 Proofs.GenOk_C15 Proofs.C15_Arpa Proofs.C15_Dec Proofs.C15_B85 Proofs.C15_Main.
Close Scope string_scope.
Open Scope Z_scope.

(* every encoder equals its independent specification, for every value of the family *)
Theorem C15_encode_spec : forall fam name d dflt v, builtin fam name d dflt -> 0 <= v < 2 ^ d_width d ->
  let ws := d_ws d in let nw := d_nw d in let w := d_width d in
  m_int_to_words fam d v = Ok (spec_words ws nw v) /\
  m_int_to_bits d v = Ok (spec_bits ws nw (d_sep d) v) /\
  ip_bits d v None = Ok (spec_bits ws nw (d_sep d) v) /\
  (forall sep, ip_bits d v (Some sep) = Ok (spec_bits ws nw sep v)) /\
  chars (strip_sep (d_sep d) (spec_bits ws nw (d_sep d) v)) = spec_bin_fixed (Z.to_nat w) v /\
  m_int_to_bin d v = Ok (spec_bin v) /\
  m_int_to_packed fam dflt v = Ok (spec_packed w v) /\
  ip_bytes d v = Ok (spec_packed w v) /\
  (fam = "ipv4"%string -> ip_reverse_dns fam d v = Ok (spec_arpa4 v)) /\
  (fam = "ipv6"%string -> ip_reverse_dns fam d v = Ok (spec_arpa6 v)).
Proof. exact encode_spec. Qed.
Print Assumptions C15_encode_spec.

(* decoder (encoder v) = Ok v: all four families, every built-in word size / separator *)
Theorem C15_decode_encode : forall fam name d dflt v, builtin fam name d dflt -> 0 <= v < 2 ^ d_width d ->
  (do x <- m_int_to_words fam d v; m_words_to_int fam d x) = Ok v /\
  (do x <- m_int_to_bits d v; m_bits_to_int d x) = Ok v /\
  (do x <- m_int_to_bin d v; m_bin_to_int d x) = Ok v /\
  (do x <- m_int_to_packed fam dflt v; m_packed_to_int fam (bytes_of_str (str_of_bytes x))) = Ok v.
Proof. exact decode_encode. Qed.
Print Assumptions C15_decode_encode.

(* a decoder returns v only for an input that denotes v under the specification's reading; every other input
   (wrong length / count, a word or value out of range, a character that is not a digit of the base) raises *)
Theorem C15_decode_strict : forall fam name d dflt, builtin fam name d dflt ->
  let ws := d_ws d in let nw := d_nw d in let w := d_width d in
  (forall words v, m_words_to_int fam d words = Ok v -> words = spec_words ws nw v /\ 0 <= v < 2 ^ w) /\
  (forall words, ~ (Z.of_nat (List.length words) = nw /\ Forall (fun x => 0 <= x < 2 ^ ws) words) ->
                 m_words_to_int fam d words = Raise ValueError) /\
  (forall s v, m_bits_to_int d s = Ok v ->
               chars (strip_sep (d_sep d) s) = spec_bin_fixed (Z.to_nat w) v /\ 0 <= v < 2 ^ w) /\
  (forall s, ~ (str_len (strip_sep (d_sep d) s) = w /\
                Forall (fun c => c = "0"%char \/ c = "1"%char) (chars (strip_sep (d_sep d) s))) ->
             m_bits_to_int d s = Raise ValueError) /\
  (forall s v, m_bin_to_int d s = Ok v ->
               exists t, s = ("0b" ++ t)%string /\ 1 <= str_len t <= w /\
                         chars t = spec_bin_fixed (String.length t) v /\ 0 <= v < 2 ^ w) /\
  (forall s, ~ (exists t, s = ("0b" ++ t)%string /\ 1 <= str_len t <= w /\
                          Forall (fun c => c = "0"%char \/ c = "1"%char) (chars t)) ->
             m_bin_to_int d s = Raise ValueError) /\
  (forall s v, m_packed_to_int fam (bytes_of_str s) = Ok v ->
               bytes_of_str s = spec_packed w v /\ 0 <= v < 2 ^ w) /\
  (forall s, String.length s <> Z.to_nat (w / 8) -> m_packed_to_int fam (bytes_of_str s) = Raise StructError).
Proof. exact decode_strict. Qed.
Print Assumptions C15_decode_strict.

(* RFC 1924: the encoder is the 20-digit base-85 numeral; decoder after encoder is the identity; the decoder accepts
   only the 20-digit numeral of a value below 2^128 *)
Theorem C15_base85 :
  (forall v, 0 <= v < 2 ^ 128 -> ipv6_to_base85 v = Ok (spec_base85 v)) /\
  (forall v, 0 <= v < 2 ^ 128 -> (do s <- ipv6_to_base85 v; base85_to_int s) = Ok v) /\
  (forall s v, base85_to_int s = Ok v -> s = spec_base85 v /\ 0 <= v < 2 ^ 128) /\
  (forall s, String.length s <> 20%nat -> base85_to_int s = Raise AddrFormatError) /\
  (forall s c, In c (chars s) -> ~ In c (chars rfc1924_alphabet) -> exists e, base85_to_int s = Raise e).
Proof. exact base85_all. Qed.
Print Assumptions C15_base85.

(* the exact behaviour of the base-85 decoder, including numerals >= 2^128 *)
Theorem C15_base85_decoder : forall s,
  base85_to_int s =
  if negb (Nat.eqb (String.length s) 20) then Raise AddrFormatError
  else if negb (forallb b85_known (chars s)) then Raise KeyError
  else let v := from_digits 85 (map b85_idx (chars s)) in
       if v <? 2 ^ 128 then Ok v else Raise AddrFormatError.
Proof. exact base85_to_int_char. Qed.
Print Assumptions C15_base85_decoder.

(* the generic codecs of strategy/__init__.py for ANY word size and word count, any separator string *)
Theorem C15_generic_words : forall ws nw, 0 <= ws -> 0 <= nw ->
  (forall v, 0 <= v < 2 ^ (ws * nw) -> int_to_words v ws nw = Ok (spec_words ws nw v)) /\
  (forall v, ~ (0 <= v < 2 ^ (nw * ws)) -> int_to_words v ws nw = Raise IndexError) /\
  (forall v, 0 <= v < 2 ^ (ws * nw) -> words_to_int (spec_words ws nw v) ws nw = Ok v) /\
  (forall words v, words_to_int words ws nw = Ok v -> words = spec_words ws nw v /\ 0 <= v < 2 ^ (ws * nw)) /\
  (forall words, words_to_int words ws nw =
                 if valid_words words ws nw then Ok (from_digits (2 ^ ws) words) else Raise ValueError) /\
  (forall words, valid_words words ws nw = true <->
                 Z.of_nat (List.length words) = nw /\ Forall (fun d => 0 <= d < 2 ^ ws) words).
Proof.
  exact (fun ws nw Hws Hnw => conj (fun v H => int_to_words_spec v ws nw Hws Hnw H)
    (conj (fun v H => int_to_words_raises v ws nw H)
    (conj (fun v H => words_to_int_roundtrip ws nw v Hws Hnw H)
    (conj (fun words v H => words_to_int_strict words ws nw v Hws Hnw H)
    (conj (fun words => words_to_int_char words ws nw Hws)
          (fun words => valid_words_iff words ws nw)))))).
Qed.
Print Assumptions C15_generic_words.

Theorem C15_generic_bits : forall ws nw sep, 0 < ws -> 0 < nw ->
  (forall v, 0 <= v < 2 ^ (ws * nw) -> int_to_bits v ws nw sep = Ok (spec_bits ws nw sep v)) /\
  (forall s, bits_to_int s (ws * nw) sep =
             if bits_wf (strip_sep sep s) (ws * nw) then Ok (from_digits 2 (map bit_val (chars (strip_sep sep s))))
             else Raise ValueError) /\
  (forall s, valid_bits s (ws * nw) sep = bits_wf (strip_sep sep s) (ws * nw)) /\
  (forall s v, bits_to_int s (ws * nw) sep = Ok v ->
               chars (strip_sep sep s) = spec_bin_fixed (Z.to_nat (ws * nw)) v /\ 0 <= v < 2 ^ (ws * nw)) /\
  (sep_ok sep = true -> forall v, 0 <= v < 2 ^ (ws * nw) -> bits_to_int (spec_bits ws nw sep v) (ws * nw) sep = Ok v).
Proof.
  exact (fun ws nw sep Hws Hnw =>
    conj (fun v H => int_to_bits_spec v ws nw sep Hws (Z.lt_le_incl _ _ Hnw) H)
    (conj (fun s => bits_to_int_char s (ws * nw) sep (Z.mul_pos_pos _ _ Hws Hnw))
    (conj (fun s => valid_bits_char s (ws * nw) sep (Z.mul_pos_pos _ _ Hws Hnw))
    (conj (fun s v H => bits_to_int_strict s (ws * nw) sep v (Z.mul_pos_pos _ _ Hws Hnw) H)
          (fun Hsep v H => bits_to_int_roundtrip ws nw sep v Hws Hnw Hsep H))))).
Qed.
Print Assumptions C15_generic_bits.

Theorem C15_generic_bin : forall width, 0 < width ->
  (forall v, 0 <= v < 2 ^ width -> int_to_bin v width = Ok (spec_bin v)) /\
  (forall v, 0 <= v < 2 ^ width -> bin_to_int (spec_bin v) width = Ok v) /\
  (forall s, bin_to_int s width =
             if bin_wf s width then Ok (from_digits 2 (map bit_val (chars (drop2 s)))) else Raise ValueError) /\
  (forall s, valid_bin s width = bin_wf s width).
Proof.
  exact (fun width Hw => conj (fun v H => int_to_bin_spec v width Hw H)
    (conj (fun v H => bin_to_int_roundtrip v width Hw H)
    (conj (fun s => bin_to_int_char s width) (fun s => valid_bin_char s width)))).
Qed.
Print Assumptions C15_generic_bin.

(* the two fuelled loops never run out of fuel on values of the family *)
Theorem C15_terminates :
  (forall ws word, 0 < ws -> 0 <= word < 2 ^ ws -> word_bits ws word <> Raise OutOfFuel) /\
  (forall v, 0 <= v < 2 ^ 128 -> ipv6_to_base85 v <> Raise OutOfFuel).
Proof. exact (conj word_bits_no_fuel ipv6_to_base85_no_fuel). Qed.
Print Assumptions C15_terminates.

(* the generated tables: BYTES_TO_BITS is the table of 8-digit numerals, BASE_85 the RFC 1924 alphabet, every
   dialect row is well formed (width = word_size * num_words, separator empty or one non-binary character, ...) *)
Theorem C15_tables :
  gen_bytes_to_bits = map (fun n => str_of (byte_bits (Z.of_nat n))) (seq 0 256) /\
  (forall num, byte_bits num = spec_bin_fixed 8 num) /\
  gen_base85 = rfc1924_alphabet /\
  (forall fam name d, find_dialect fam name = Some d -> fam_ok fam d).
Proof. exact (conj gen_bytes_to_bits_ok (conj byte_bits_spec (conj gen_base85_ok find_dialect_ok))). Qed.
Print Assumptions C15_tables.

(* non-vacuity: the IPv4 row exists and the theorems apply to 192.168.1.1 *)
Example C15_nonvacuous :
  let d := {| d_width := 32; d_ws := 8; d_nw := 4; d_sep := "." |} in
  builtin "ipv4" "" d d /\ builtin "eui48" "mac_cisco" {| d_width := 48; d_ws := 16; d_nw := 3; d_sep := "." |}
                                   {| d_width := 48; d_ws := 8; d_nw := 6; d_sep := "-" |} /\
  m_int_to_bits d 3232235777 = Ok "11000000.10101000.00000001.00000001"%string /\
  m_bits_to_int d "11000000.10101000.00000001.00000001" = Ok 3232235777 /\
  ip_reverse_dns "ipv4" d 3232235777 = Ok "1.1.168.192.in-addr.arpa."%string /\
  ipv6_to_base85 21932261930451111902915077091070067066 = Ok "4)+k&C#VzJ4br>0wv%Yp"%string.
Proof. vm_compute. repeat split; reflexivity. Qed.
