(* Props/C06.v — property C06: IPSet is canonical after any history, so equality is extensional.
   Final, hypothesis-free statements over ALL thirteen operations of the register machine
   (init / add / remove / update / clear / compact / copy / pickle / pop / | & - ^), obtained by discharging the
   operator specifications with the C07 sweep theorems.  The per-operation theorems are in Props/C06_bulk.v
   (constructors, update, compact, union, copy, clear, pop, pickle, shown, extensional) and Props/C06_add.v
   (compact_single, add, remove, pop); both are checked together with this file.
   Nothing but statements closed by `exact`, each followed by Print Assumptions. *)
From NV Require Import Base.Tac Base.PyVal Base.Canon Model.Ip Model.Merge Model.Sets Proofs.NetDen
  Proofs.C06_inv Proofs.C06_bulk Proofs.C06_final.
From NV Require Import Extract.Cmd_Sets.
Open Scope Z_scope.

(* one step: from registers related to abstract sets (every register satisfies SetInv and denotes its abstract set),
   any well-formed operation leads to registers related to the abstract result *)
Theorem C06_step : forall rs s o, Rel rs s -> wf_op o -> exists s', astep s o s' /\ Rel (ostep rs o) s'.
Proof. exact C06_step_closed. Qed.
Print Assumptions C06_step.

(* every reachable state: induction over any finite operation history *)
Theorem C06_reachable : forall ops rs s, Rel rs s -> Forall wf_op ops ->
  exists s', aruns s ops s' /\ Rel (fold_left ostep ops rs) s'.
Proof. exact C06_reachable_closed. Qed.
Print Assumptions C06_reachable.

(* from four empty sets: after ANY history every register satisfies the invariant, what it shows (iter_cidrs, repr,
   iteration = sorted keys) is the canonical list of exactly the addresses the history denotes, and == between two
   registers holds iff they denote the same addresses *)
Theorem C06_reachable_shown : forall ops, Forall wf_op ops ->
  exists s', aruns aregs0 ops s' /\
    let rs := fold_left ostep ops regs0 in
    (forall r, SetInv (get rs r) /\ canon_nets (sorted (get rs r)) /\
               forall ver x, den (sorted (get rs r)) ver x <-> aget s' r ver x) /\
    (forall r1 r2, dict_eqb (get rs r1) (get rs r2) = true <-> forall ver x, aget s' r1 ver x <-> aget s' r2 ver x).
Proof. exact C06_reachable_shown_closed. Qed.
Print Assumptions C06_reachable_shown.
