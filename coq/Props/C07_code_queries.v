(* Props/C07_code_queries.v — CODC: property C07, part B (the QUERIES of an IPSet agree with plain set theory on addresses) stated
   DIRECTLY about the Gallina definitions that harness/gen/pysrc.py regenerates on every run from the CURRENT text of
   netaddr/ip/sets.py (coq/Gen/pysrc_sets_gen.v: __contains__ with the supernet walk, issubset, issuperset, __lt__, __gt__,
   __eq__, __ne__, size, __len__, iscontiguous, iprange, iter_cidrs; pysrc_sets_ops_gen.v: iter_ipranges).  Each theorem is the
   theorem of the same name in Props/C07_queries.v with every model function replaced by the generated definition.
   Shapes, hypotheses and the clauses still about the model: see the header of Props/C07_code.v (nothing is added to the
   hypotheses of the model theorems; where the model function is a plain bool the statement says `= Ok b`, i.e. the generated
   method does not raise, and characterises b).
   Nothing but statements closed by `exact`, each followed by Print Assumptions. *)
From Coq Require Import Sorting.Sorted Sorting.Permutation.
From NV Require Import Base.Tac Base.PyVal Base.Canon Model.Ip Model.Merge Model.Sets Model.SrcPrelude Model.SrcPreludeSets
  Gen.pysrc_gen Gen.pysrc_sets_gen Gen.pysrc_sets_ops_gen
  Proofs.C02 Proofs.NetDen Proofs.C07_queries Proofs.Code_C07.
Import ListNotations.
Open Scope Z_scope.

(* `net in s` as generated (IPSet.__contains__, the supernet walk `while supernet._prefixlen`): never raises; True exactly when
   the whole block lies in the set; the queried network may carry host bits *)
Theorem C07_contains_of_source : forall d n, SetInv d -> wf_net n ->
  exists b, src_IPSet_contains d n = Ok b /\
    (b = true <-> forall x, in_net n (nver n) x -> den d (nver n) x).
Proof. exact contains_of_source. Qed.
Print Assumptions C07_contains_of_source.

(* `ip in s` *)
Theorem C07_contains_addr_of_source : forall d ver v, SetInv d -> valid_ver ver = true -> 0 <= v < 2 ^ width ver ->
  exists b, src_IPSet_contains d (addr_net ver v) = Ok b /\ (b = true <-> den d ver v).
Proof. exact contains_addr_of_source. Qed.
Print Assumptions C07_contains_addr_of_source.

(* issubset / <= and issuperset / >= as generated: never raise; inclusion of the denoted sets *)
Theorem C07_subset_of_source : forall a b, SetInv a -> SetInv b ->
  (exists r, src_IPSet_issubset a b = Ok r /\ (r = true <-> forall ver x, den a ver x -> den b ver x)) /\
  (exists r, src_IPSet_issuperset a b = Ok r /\ (r = true <-> forall ver x, den b ver x -> den a ver x)).
Proof. exact subset_of_source. Qed.
Print Assumptions C07_subset_of_source.

(* size as generated = sum of the block sizes; non-negative; 0 exactly for the empty set *)
Theorem C07_size_of_source : forall d, SetInv d ->
  src_IPSet_size d = fold_right (fun k acc => 2 ^ (width (nver k) - nplen k) + acc) 0 d /\
  0 <= src_IPSet_size d /\
  (src_IPSet_size d = 0 <-> forall ver x, ~ den d ver x).
Proof. exact size_of_source. Qed.
Print Assumptions C07_size_of_source.

(* size is the cardinality of the denoted set *)
Theorem C07_size_card_of_source : forall a b, SetInv a -> SetInv b -> (forall ver x, den a ver x -> den b ver x) ->
  src_IPSet_size a <= src_IPSet_size b /\
  (src_IPSet_size a = src_IPSet_size b <-> forall ver x, den b ver x -> den a ver x).
Proof. exact size_card_of_source. Qed.
Print Assumptions C07_size_card_of_source.

Theorem C07_size_ext_of_source : forall a b, SetInv a -> SetInv b -> (forall ver x, den a ver x <-> den b ver x) ->
  src_IPSet_size a = src_IPSet_size b.
Proof. exact size_ext_of_source. Qed.
Print Assumptions C07_size_ext_of_source.

(* a < b as generated is proper inclusion, a > b its converse; neither raises *)
Theorem C07_order_of_source : forall a b, SetInv a -> SetInv b ->
  (exists r, src_IPSet_lt a b = Ok r /\
     (r = true <-> (forall ver x, den a ver x -> den b ver x) /\ ~ (forall ver x, den b ver x -> den a ver x))) /\
  (exists r, src_IPSet_gt a b = Ok r /\
     (r = true <-> (forall ver x, den b ver x -> den a ver x) /\ ~ (forall ver x, den a ver x -> den b ver x))).
Proof. exact order_of_source. Qed.
Print Assumptions C07_order_of_source.

(* == as generated (equality of the key dicts) is equality of the denoted sets; != its negation *)
Theorem C07_eq_of_source : forall a b, SetInv a -> SetInv b ->
  (src_IPSet_eq a b = true <-> forall ver x, den a ver x <-> den b ver x) /\
  src_IPSet_ne a b = negb (src_IPSet_eq a b).
Proof. exact eq_of_source. Qed.
Print Assumptions C07_eq_of_source.

(* len() as generated: the size, or IndexError above sys.maxsize = 2^63 - 1 *)
Theorem C07_len_of_source : forall d,
  (src_IPSet_size d <= 2 ^ 63 - 1 -> src_IPSet_len d = Ok (src_IPSet_size d)) /\
  (2 ^ 63 - 1 < src_IPSet_size d -> src_IPSet_len d = Raise IndexError).
Proof. exact len_of_source. Qed.
Print Assumptions C07_len_of_source.

(* iter_ipranges() as generated (read as the list of what it yields): never raises; maximal non-empty intervals inside the
   set, ascending (IPv4 first), separated by at least one missing address, covering the set *)
Theorem C07_ranges_of_source : forall d, SetInv d ->
  exists R, src_IPSet_iter_ipranges d = Ok R /\
  (forall v s e, In (v, s, e) R ->
     s <= e /\ (forall x, s <= x <= e -> den d v x) /\ ~ den d v (s - 1) /\ ~ den d v (e + 1)) /\
  StronglySorted (fun r r' => q_rv r < q_rv r' \/ (q_rv r = q_rv r' /\ q_re r + 1 < q_rs r')) R /\
  (forall ver x, den d ver x <-> exists s e, In (ver, s, e) R /\ s <= x <= e).
Proof. exact ranges_of_source. Qed.
Print Assumptions C07_ranges_of_source.

(* iscontiguous() as generated (as repaired: no IndexError at the top of a family): never raises; True exactly for the empty
   set or one interval of one family *)
Theorem C07_contiguous_of_source : forall d, SetInv d ->
  exists r, src_IPSet_iscontiguous d = Ok r /\
  (r = true <->
   (forall v x, ~ den d v x) \/ exists ver s e, forall v x, den d v x <-> v = ver /\ s <= x <= e).
Proof. exact contiguous_of_source. Qed.
Print Assumptions C07_contiguous_of_source.

(* iprange() as generated: None for the empty set, that interval when contiguous, ValueError otherwise; no other exception *)
Theorem C07_iprange_of_source : forall d, SetInv d ->
  match src_IPSet_iprange d with
  | Ok None => forall v x, ~ den d v x
  | Ok (Some (ver, s, e)) => s <= e /\ forall v x, den d v x <-> v = ver /\ s <= x <= e
  | Raise ValueError =>
      ~ ((forall v x, ~ den d v x) \/ exists ver s e, forall v x, den d v x <-> v = ver /\ s <= x <= e)
  | Raise _ => False
  end.
Proof. exact iprange_of_source. Qed.
Print Assumptions C07_iprange_of_source.

Theorem C07_iprange_total_of_source : forall d, SetInv d ->
  (src_IPSet_iscontiguous d = Ok true -> exists o, src_IPSet_iprange d = Ok o) /\
  (src_IPSet_iscontiguous d = Ok false -> src_IPSet_iprange d = Raise ValueError).
Proof. exact iprange_total_of_source. Qed.
Print Assumptions C07_iprange_total_of_source.

(* iteration order: iter_cidrs() as generated permutes the keys, every block ends before every later one starts, IPv4 first *)
Theorem C07_iter_order_of_source : forall d, SetInv d ->
  Permutation (src_IPSet_iter_cidrs d) d /\
  StronglySorted (fun k1 k2 => nver k1 < nver k2 \/ (nver k1 = nver k2 /\ nl k1 < nf k2)) (src_IPSet_iter_cidrs d) /\
  (forall l1 k1 k2 l2, src_IPSet_iter_cidrs d = l1 ++ k1 :: k2 :: l2 ->
     nver k1 < nver k2 \/ (nver k1 = nver k2 /\ nl k1 < nf k2)).
Proof. exact iter_order_of_source. Qed.
Print Assumptions C07_iter_order_of_source.

(* non-vacuity: the mixed-family set q_ex of C07_queries_example (10.0.0.0/25, 10.0.0.192/26, ::/127, 255.255.255.254/31 -- it
   touches the top IPv4 address) satisfies SetInv, and the GENERATED queries give the expected answers *)
Example C07_code_queries_nonvacuous :
  SetInv q_ex /\
  src_IPSet_contains q_ex {| nver := 4; nval := 167772365; nplen := 29 |} = Ok true /\
  src_IPSet_contains q_ex {| nver := 4; nval := 167772288; nplen := 32 |} = Ok false /\
  src_IPSet_iter_ipranges q_ex =
    Ok [(4, 167772160, 167772287); (4, 167772352, 167772415); (4, 4294967294, 4294967295); (6, 0, 1)] /\
  src_IPSet_iscontiguous q_ex = Ok false /\ src_IPSet_iprange q_ex = Raise ValueError /\
  src_IPSet_size q_ex = 196 /\ src_IPSet_len q_ex = Ok 196 /\
  src_IPSet_lt [ {| nver := 6; nval := 0; nplen := 127 |} ] q_ex = Ok true.
Proof. split; [exact q_ex_inv|]. repeat split; vm_compute; reflexivity. Qed.
