(* Props/C10_src.v — source tie for C10: the Gallina definitions that harness/gen/pysrc.py regenerates on every run from the
   CURRENT text of IPListMixin.__len__ and IPListMixin.__getitem__ (coq/Gen/pysrc_listlike_gen.v: src_<Class>_len,
   src_<Class>_getitem_int, src_<Class>_getitem_slice for the receiver classes IPNetwork and IPRange; __getitem__ is translated
   twice, specialised to an int index and to a slice index, `hasattr(index, 'indices')` being decided by that declared type)
   are equal to the hand-written model ListLike.r_len / r_getitem_int / r_getitem_slice on RNet, RRange and RGlob (an IPGlob is
   an IPRange of version 4) that the theorems of Props/C10.v are about.  A slice is the triple of its components (None or int).
   `index.indices(self.size)`, `len(_iter_range(start, stop, step))` and `_sys_maxint` are the model's CPython builtins
   py_slice_indices / py_range_len / ssize_max (Model/PySlice.v, validated against CPython on every C10 run); the returned
   iterators are the model's values ItEmpty (`iter([])`) and ItIprange (the generator iter_iprange(..), not yet started).
   No hypothesis.  A source edit that changes __len__ or __getitem__ (or size / first / last, which they read) changes the
   generated term and this theorem stops compiling.
   Nothing but the statement closed by `exact`, followed by Print Assumptions. *)
From NV Require Import Base.Tac Base.PyVal Model.Ip Model.PySlice Model.ListLike Model.SrcPrelude
  Gen.pysrc_gen Gen.pysrc_listlike_gen Proofs.GenOk_Src_C10.
Import ListNotations.
Open Scope Z_scope.

Theorem C10_source_tie :
  (forall ver v p, src_IPNetwork_len ver (width ver) v p = r_len (RNet ver v p)) /\
  (forall ver v p index, src_IPNetwork_getitem_int ver (width ver) v p index = r_getitem_int (RNet ver v p) index) /\
  (forall ver v p a b c, src_IPNetwork_getitem_slice ver (width ver) v p (a, b, c) = r_getitem_slice (RNet ver v p) a b c) /\
  (forall ver w s e, src_IPRange_len ver w s e = r_len (RRange ver s e)) /\
  (forall ver w s e index, src_IPRange_getitem_int ver w s e index = r_getitem_int (RRange ver s e) index) /\
  (forall ver w s e a b c, src_IPRange_getitem_slice ver w s e (a, b, c) = r_getitem_slice (RRange ver s e) a b c) /\
  (forall w s e index a b c,
     src_IPRange_len 4 w s e = r_len (RGlob s e) /\ src_IPRange_getitem_int 4 w s e index = r_getitem_int (RGlob s e) index /\
     src_IPRange_getitem_slice 4 w s e (a, b, c) = r_getitem_slice (RGlob s e) a b c).
Proof. exact C10_tie_ok. Qed.
Print Assumptions C10_source_tie.

(* the generated definitions compute: IPNetwork('10.0.0.77/24')[-1] = 10.0.0.255, [256] raises IndexError,
   [::-100] is the not yet started iter_iprange(10.0.0.255, 10.0.0.55, -100) *)
Example C10_src_nonvacuous :
  src_IPNetwork_getitem_int 4 32 167772237 24 (-1) = Ok (4, 167772415) /\
  src_IPNetwork_getitem_int 4 32 167772237 24 256 = Raise IndexError /\
  src_IPNetwork_getitem_slice 4 32 167772237 24 (None, None, Some (-100)) = Ok (ItIprange 4 167772415 4 167772215 (-100)).
Proof. repeat split; vm_compute; reflexivity. Qed.
