(* Props/Coherence_Cidrs.v — COHERENCE of the model copies.  Several Python functions are modelled more than once (one
   executable model file per property, each tied to the code separately by differential execution).  Every theorem here
   says that two copies are the same function — as an equation, for all inputs, under the weakest well-formedness
   hypothesis that is really needed (stated in the theorem; the comment says "no hypothesis" when there is none) — so a
   theorem about one copy is a theorem about the others.  Nothing but statements closed by `exact`, each followed by
   Print Assumptions.  Proofs for this file: Proofs/Coherence_Cidrs.v.
   The statements are split over Props/Coherence.v, Coherence_Order.v, Coherence_Cidrs.v, Coherence_Text.v and
   Coherence_Words.v so that the harness re-checks them in parallel; all five are obligations of `./check C04`
   (EXTRA_THEOREM_FILES of harness/props/c04.py); the list is in tools/claims/COH.json.
   Model files are `Require`d without `Import`: every model name is qualified by its file.  Translations between the
   object types of the models (Proofs/Coherence_Net.v): cl_of / ord_of (Contains.ipobj to Classify.ipobj / Order.obj),
   co_net / cl_net / ord_net (a `net` record as an object of each model), co_of_ranged, co_of_irow, co_of_row;
   row_of_irow, list4, state3 (Proofs/Coherence_Order.v); to_cidrs_real (Proofs/Coherence_Cidrs.v); gen_observe
   (Proofs/Coherence_Iter.v). *)
From Coq Require Import Sorting.Sorted Sorting.Permutation String Ascii.
From NV Require Import Base.Tac Base.PyVal Base.Bits Base.Canon Base.PyStr Base.PyStrFacts Model.Ip.
From NV Require Model.SrcPrelude Model.Span Model.Partition Model.Merge Model.Sets Model.Contains Model.Classify
  Model.ListLike Model.Iana Model.Order Model.AddrOps Model.Conv Model.Subnet Model.Splitter Model.NetText
  Model.AddrText Model.Glob Model.Nmap Model.IpText Model.FbSocket Model.Codec Model.Eui Model.Ieee Model.PySlice.
From NV Require Proofs.C02 Proofs.C03 Proofs.C04 Proofs.C04_match Proofs.C09 Proofs.C11 Proofs.C17 Proofs.C20.
From NV Require Import Proofs.Coherence_Net Proofs.Coherence_Cidrs.
Open Scope Z_scope.

(* ======================================================================== Proofs/Coherence_Cidrs.v
   family 8 — Python: iprange_to_cidrs(start, end) (1795-1828) on IPv4 address endpoints: Merge.iprange_to_cidrs (as written)
              vs Glob.cover / to_cidrs_exec (executable trie walk); the C17 theorems closed over the real model *)

Theorem Coherence_cover_canon : forall lo hi,
  0 <= lo <= hi -> hi < 2 ^ 32 ->
  canon 32 (C09.blks_of (Glob.cover 32 0 lo hi)) /\
  forall x, covered 32 (C09.blks_of (Glob.cover 32 0 lo hi)) x <-> lo <= x <= hi.
Proof. exact cover_canon. Qed.
Print Assumptions Coherence_cover_canon.

Theorem Coherence_iprange_to_cidrs_cover : forall lo hi,
  0 <= lo <= hi -> hi < 2 ^ 32 ->
  Merge.iprange_to_cidrs (Merge.addr_net 4 lo) (Merge.addr_net 4 hi) =
  Ok (map (Merge.net_of_cblk 4) (Glob.cover 32 0 lo hi)).
Proof. exact coh_iprange_to_cidrs_cover. Qed.
Print Assumptions Coherence_iprange_to_cidrs_cover.

Theorem Coherence_to_cidrs_real_exec : forall lo hi,
  0 <= lo <= hi -> hi < 2 ^ 32 ->
  to_cidrs_real lo hi = Glob.to_cidrs_exec lo hi.
Proof. exact coh_to_cidrs_real_exec. Qed.
Print Assumptions Coherence_to_cidrs_real_exec.

(* the hypothesis of C17_to_globs holds of the real model ... *)
Theorem Coherence_to_cidrs_real_spec : forall lo hi,
  0 <= lo <= hi /\ hi < 2 ^ 32 ->
  exists cs, to_cidrs_real lo hi = Ok cs /\ C17.cidrs_tile cs lo hi.
Proof. exact to_cidrs_real_spec. Qed.
Print Assumptions Coherence_to_cidrs_real_spec.

(* ... so C17_to_globs holds outright for iprange_to_globs built on the real iprange_to_cidrs *)
Theorem Coherence_C17_to_globs_closed : forall lo hi,
  0 <= lo <= hi /\ hi < 2 ^ 32 ->
  exists gl ivs, Glob.iprange_to_globs to_cidrs_real (4, lo) (4, hi) = Ok gl /\
                 Forall2 (fun g iv => C17.glob_denotes g (fst iv) (snd iv)) gl ivs /\
                 C17.chain ivs lo hi /\
                 (List.length gl = 1%nat <-> C17.glob_shaped lo hi).
Proof. exact to_globs_tile_real. Qed.
Print Assumptions Coherence_C17_to_globs_closed.

(* and the result is the one the correspondence commands compute with the executable decomposition *)
Theorem Coherence_iprange_to_globs_real_exec : forall lo hi,
  0 <= lo <= hi -> hi < 2 ^ 32 ->
  Glob.iprange_to_globs to_cidrs_real (4, lo) (4, hi) = Glob.iprange_to_globs Glob.to_cidrs_exec (4, lo) (4, hi).
Proof. exact coh_iprange_to_globs_real_exec. Qed.
Print Assumptions Coherence_iprange_to_globs_real_exec.

(* glob_to_cidrs: same list from both, for every glob of the grammar *)
Theorem Coherence_glob_to_cidrs_real_exec : forall fs,
  C17.glob_fields fs ->
  Glob.glob_to_cidrs to_cidrs_real (C17.show_glob fs) = Glob.glob_to_cidrs Glob.to_cidrs_exec (C17.show_glob fs).
Proof. exact coh_glob_to_cidrs_real_exec. Qed.
Print Assumptions Coherence_glob_to_cidrs_real_exec.
