(* Props/C05_src.v — source tie for C05: the Gallina definition that harness/gen/pysrc.py regenerates on every run from the
   CURRENT text of iprange_to_cidrs (coq/Gen/pysrc_iprange_gen.v; it calls the regenerated spanning_cidr and cidr_partition
   of Gen/pysrc_span_gen.v, pysrc_partition_gen.v, so an edit to either of those also reaches this theorem) is equal to the
   hand-written model Merge.iprange_to_cidrs that the theorems of Props/C05.v are about, for all already constructed
   IPNetwork arguments whose first has version 4 or 6 (the version test of the constructor symbol mk_net); list.pop() of the
   generated code (SrcPrelude.py_pop) is the model's Merge.pop_last.
   A source edit that changes iprange_to_cidrs changes the generated term and this theorem stops compiling.
   Nothing but the statement closed by `exact`, followed by Print Assumptions. *)
From NV Require Import Base.Tac Base.PyVal Model.Ip Model.Merge Model.SrcPrelude Gen.pysrc_gen Gen.pysrc_iprange_gen
  Proofs.GenOk_Src_C05.
Import ListNotations.
Open Scope Z_scope.

Theorem C05_source_tie :
  (forall start end_, valid_ver (nver start) = true -> src_iprange_to_cidrs start end_ = iprange_to_cidrs start end_) /\
  (forall (A : Type) (l : list A), py_pop l = pop_last l).
Proof. exact C05_tie_ok. Qed.
Print Assumptions C05_source_tie.

(* the generated definition computes: iprange_to_cidrs(10.0.0.1, 10.0.0.6) = [10.0.0.1/32, 10.0.0.2/31, 10.0.0.4/31, 10.0.0.6/32] *)
Example C05_src_nonvacuous :
  src_iprange_to_cidrs {| nver := 4; nval := 167772161; nplen := 32 |} {| nver := 4; nval := 167772166; nplen := 32 |} =
    Ok [ {| nver := 4; nval := 167772161; nplen := 32 |}; {| nver := 4; nval := 167772162; nplen := 31 |};
         {| nver := 4; nval := 167772164; nplen := 31 |}; {| nver := 4; nval := 167772166; nplen := 32 |} ].
Proof. vm_compute. reflexivity. Qed.
