(* Props/C19_src_g_eui.v -- source tie for C19 (and the C08 identifier classes), tag SRCG, second part: the Gallina definitions that
   harness/gen/pysrc.py regenerates on every run from the CURRENT text of OUI.__init__ / IAB.__init__ (int argument) and of the
   small methods of BaseIdentifier / OUI / IAB in netaddr/eui/__init__.py (coq/Gen/pysrc_euig_gen.v).
   The constructors against Model/Ieee.v oui_lookup / iab_lookup (the models of C19_registered and of the correspondence commands
   oui_lookup / iab_lookup).  Reading: ieee.OUI_INDEX / ieee.IAB_INDEX (dicts identifier -> list of (offset, size)) and the registry
   file (REGISTRY_FILE name offset size = what fh.seek(offset); fh.read(size).decode('UTF-8') answers) are Section variables of the
   generated file; the model takes the rows of the identifier with their bytes (reg_rows reads them off the two); a record dict is
   the tuple of its six values (keep5 drops the 'oui' / 'iab' text, which the model does not have); the constructor answers
   (_value, records) resp. (_value, record); strict = False for IAB (the model's iab_value).
   Hypothesis: the index has no EMPTY entry for the identifier (the code asks `key in index`, the model `rows = []`).
   The small methods have no model counterpart and are stated directly (== / != on two OUI / IAB objects, reg_count, registration
   with DictDotLookup(d) represented by d, pickled state, __repr__ through the translated __str__, __hex__ / __oct__).
   Nothing but the statements closed by `exact`, followed by Print Assumptions. *)
From Coq Require Import String Ascii.
From NV Require Import Base.Tac Base.PyVal Base.PyStr Model.Ip Model.Ieee Model.SrcPrelude Model.SrcPreludeSRCE Model.SrcPreludeG
  Model.Eui Model.SrcPreludeEui2 Gen.pysrc_eui_gen Gen.pysrc_euib_gen Gen.pysrc_euic_gen Gen.pysrc_euig_gen Proofs.GenOk_Src_C19_b Proofs.GenOk_Src_C19_g_eui.
Import ListNotations.
Open Scope list_scope.
Open Scope Z_scope.

Theorem C19_source_tie_g_eui :
  (forall OUI FILE v0 oui, py_eidx_find OUI oui <> Some [] ->
     omap (fun st => (fst st, map keep5 (snd st))) (src_OUI_init_int OUI FILE v0 oui) =
     omap (fun rs => (oui, rs)) (oui_lookup oui (reg_rows OUI (FILE "oui.txt"%string) oui))) /\
  (forall IAB FILE v0 iab, (forall k, iab_value iab = Ok k -> py_eidx_find IAB k <> Some []) ->
     omap (fun st => (fst st, keep5 (snd st))) (src_IAB_init_int IAB FILE v0 iab false) =
     (do k <- iab_value iab; omap (fun r => (k, r)) (iab_lookup iab (reg_rows IAB (FILE "iab.txt"%string) k)))).
Proof. exact C19_tie_g_eui_ok. Qed.
Print Assumptions C19_source_tie_g_eui.

Theorem C19_source_tie_g_small :
  (forall v o, src_OUI_eq_oui v o = (v =? o) /\ src_OUI_ne_oui v o = negb (v =? o) /\
               src_IAB_eq_iab v o = (v =? o) /\ src_IAB_ne_iab v o = negb (v =? o)) /\
  (forall v (recs : list orec), src_OUI_reg_count v recs = Z.of_nat (List.length recs)) /\
  (forall v (recs : list orec) i, src_OUI_registration v recs i = SrcPreludeSRCE.py_index recs i) /\
  (forall v (recs : list orec), src_OUI_getstate v recs = (v, recs)) /\
  (forall v0 v (recs : list orec), src_OUI_setstate v0 (v, recs) = (v, recs)) /\
  (forall v (r : orec), src_IAB_registration v r = r /\ src_IAB_getstate v r = (v, r)) /\
  (forall v0 v (r : orec), src_IAB_setstate v0 (v, r) = (v, r)) /\
  (forall v, src_OUI_repr v = omap (fun s => append "OUI('" (append s "')")) (src_OUI_str v)) /\
  (forall v, src_IAB_repr v = omap (fun s => append "IAB('" (append s "')")) (src_IAB_str v)) /\
  (forall v, src_BaseIdentifier_hex v = AddrOps.view_hex v) /\
  (forall v, src_BaseIdentifier_oct v = if v =? 0 then "0"%string else py_fmt_oct "0" v).
Proof. exact src_id_small_ok. Qed.
Print Assumptions C19_source_tie_g_small.

(* EUI.__repr__ through the translated __str__ (which reads the receiver's dialect); EUI.info: `self.oui.registration()` really builds
   the OUI object -- the translated constructor on the integer the translated property getter answers, AttributeError for None --,
   likewise `self.iab.registration()` under is_iab(); the dict with the keys 'OUI' and possibly 'IAB' is the pair (record,
   None-or-record), DictDotLookup(d) is d.  No model counterpart: stated directly. *)
Theorem C19_source_tie_g_info :
  (forall ver v d, src_EUI_repr ver v d = omap (fun s => append "EUI('" (append s "')")) (src_EUI_str ver v d)) /\
  (forall OUI IAB FILE ver v, src_EUI_info OUI IAB FILE ver v =
     (do r0 <- reg_of (src_EUI_oui ver v) (fun e => do st <- src_OUI_init_int OUI FILE 0 e; SrcPreludeSRCE.py_index (snd st) 0);
      if src_EUI_is_iab ver v
      then do r <- reg_of (src_EUI_iab ver v) (fun e => do st <- src_IAB_init_int IAB FILE 0 e false; Ok (snd st)); Ok (r0, Some r)
      else Ok (r0, None))).
Proof. exact C19_tie_g_info_ok. Qed.
Print Assumptions C19_source_tie_g_info.

Definition NLg : string := String (ascii_of_nat 10) EmptyString.
Definition demo_file (name : string) (o s : Z) : string :=
  ("00-CA-FE   (hex)  ACME CORP" ++ NLg ++ "00CAFE (base 16) ACME" ++ NLg ++ "  1 MAIN STREET" ++ NLg)%string.

Example C19_src_g_eui_nonvacuous :
  src_OUI_init_int [(51966, [(7, 45)])] demo_file 0 51966
    = Ok (51966, [(51966, "00-CA-FE"%string, "ACME CORP"%string, ["1 MAIN STREET"%string], 7, 45)]) /\
  src_OUI_init_int [(51966, [(7, 45)])] demo_file 0 51967 = Raise NotRegisteredError /\
  src_OUI_init_int [] demo_file 0 16777216 = Raise ValueError /\
  omap fst (src_IAB_init_int [(84683452, [(3, 9)])] demo_file 0 346863419392 false) = Ok 84683452 /\
  src_IAB_init_int [] demo_file 0 5 false = Raise ValueError /\
  src_OUI_repr 51966 = Ok "OUI('00-CA-FE')"%string /\ src_BaseIdentifier_oct 8 = "010"%string /\ src_BaseIdentifier_hex 255 = Ok "0xff"%string.
Proof. repeat split; vm_compute; reflexivity. Qed.
