(* Props/C06_src_add.v -- SRCA: source tie for C06 (add / remove): the Gallina definitions that harness/gen/pysrc.py regenerates
   on every run from the CURRENT text of netaddr/ip/sets.py (coq/Gen/pysrc_sets_add_gen.v: IPSet._compact_single_network with
   its four loops, IPSet.add and IPSet.remove specialised to an IPNetwork argument) are equal to the hand-written model
   functions compact_single / set_add (ENet n) / set_remove (ENet n) of Model/Sets.v that the theorems of Props/C06*.v are about.
   _compact_single_network changes its argument in place (`added_network.prefixlen -= 1`, `added_network._value = ..`): it
   is translated on a local copy; the translator checks that the object is out of the dict when it is changed and that the
   caller (add) does not read it afterwards.  Hypotheses: the network well formed (wf_net; the range-checking prefixlen
   setter / constructor and the negative-shift guard of the generated code have no counterpart in the model); for remove also
   SetInv of the set (hypothesis of the property theorems).  IPNetwork.previous() / next() are the model's functions on both
   sides; supernet(), .cidr, cidr_exclude, __contains__ are the translated definitions (ties C11, C02, C09).  The int / str /
   IPAddress / IPRange argument forms of add and remove stay tied by correspondence only.
   Nothing but the statement closed by `exact`, followed by Print Assumptions. *)
From NV Require Import Base.Tac Base.PyVal Model.Ip Model.Sets Model.SrcPrelude Model.SrcPreludeSets
  Gen.pysrc_gen Gen.pysrc_sets_gen Gen.pysrc_sets_add_gen Proofs.C02 Proofs.NetDen Proofs.GenOk_Src_C06_add.
Import ListNotations.
Open Scope Z_scope.

Theorem C06_source_tie_add :
  (forall d a, wf_net a -> src_IPSet_compact_single_network d a = compact_single d a) /\
  (forall d n flags, wf_net n -> src_IPSet_add_net d n flags = set_add d (ENet n)) /\
  (forall d n flags, SetInv d -> wf_net n -> src_IPSet_remove_net d n flags = set_remove d (ENet n)) /\
  (forall fuel a d sw, 0 <= sw -> 0 <= nplen a <= width (nver a) ->
     bind (src_IPSet_compact_single_network_loop4 fuel a d sw) fin_lr = merge_up fuel d a sw).
Proof. exact C06_add_tie_ok. Qed.
Print Assumptions C06_source_tie_add.

(* the generated definitions compute: adding 10.0.0.128/25 to {10.0.0.0/25} merges the two halves into 10.0.0.0/24;
   removing 10.0.0.64/26 from {10.0.0.0/24} leaves 10.0.0.0/26 and 10.0.0.128/25 *)
Example C06_src_add_nonvacuous :
  src_IPSet_add_net [ {| nver := 4; nval := 167772160; nplen := 25 |} ] {| nver := 4; nval := 167772288; nplen := 25 |} 0
    = Ok [ {| nver := 4; nval := 167772160; nplen := 24 |} ] /\
  src_IPSet_remove_net [ {| nver := 4; nval := 167772160; nplen := 24 |} ] {| nver := 4; nval := 167772224; nplen := 26 |} 0
    = Ok [ {| nver := 4; nval := 167772160; nplen := 26 |}; {| nver := 4; nval := 167772288; nplen := 25 |} ].
Proof. split; vm_compute; reflexivity. Qed.
