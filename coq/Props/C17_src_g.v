(* Props/C17_src_g.v -- source tie for C17, tag SRCG: the definition regenerated on every run from the CURRENT text of IPGlob.__repr__
   (netaddr/ip/glob.py; coq/Gen/pysrc_globg_gen.v): the class name and the glob text the translated getter answers (tied to the
   model by C17_source_tie..), in `IPGlob('..')`; `self.__class__.__name__` is the name of the receiver class (a subclass prints
   its own: out of scope).  With it every function of glob.py is regenerated on every run.  No hypothesis. *)
From Coq Require Import String Ascii.
From NV Require Import Base.Tac Base.PyVal Base.PyStr Model.Ip Gen.pysrc_glob_gen Gen.pysrc_globg_gen Proofs.GenOk_Src_C17_g.
Import ListNotations.
Open Scope Z_scope.

Theorem C17_source_tie_g : forall s e g,
  src_IPGlob_repr s e g = omap (fun t => "IPGlob('" ++ t ++ "')")%string (src_IPGlob_get_glob s e g).
Proof. exact C17_tie_g_ok. Qed.
Print Assumptions C17_source_tie_g.

Example C17_src_g_nonvacuous :
  src_IPGlob_repr (4, 3221225984) (4, 3221226239) (Some "192.0.2.*"%string) = Ok "IPGlob('192.0.2.*')"%string.
Proof. vm_compute. reflexivity. Qed.
