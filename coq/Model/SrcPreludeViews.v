(* Model/SrcPreludeViews.v -- symbols of the generated translation of the IPAddress accessors bits / bin / words / packed /
   reverse_dns / __bytes__ / __hex__ (harness/gen/pysrc.py, block SRCE).  These methods hand `self._value` to a function of the
   strategy module (`self._module.int_to_bits(..)`, ..): the functions of netaddr/strategy/ipv4.py, ipv6.py are NOT translated in
   this unit; each symbol py_mod_<f> IS the hand model of that module function (Model/Codec.v), chosen by the module's version
   and read with the module's row of the generated dialect table (Gen/codec_gen.v; `Raise Unsupported` if the row is missing).
   py_int_to_bytes is int.to_bytes(n, 'big') (Codec.int_to_bytes), py_fmt_hex the `'<text>%x' % e` of AddrOps.fmt_x. *)
From Coq Require Import ZArith List Bool String Ascii.
From NV Require Import Base.PyVal Base.PyStr Model.Ip.
From NV Require Model.Codec Model.AddrOps.
Import ListNotations.
Open Scope string_scope.
Open Scope Z_scope.

(* the strategy module of an IP object, by its version: the family name used by Model/Codec.v and its row of the table *)
Definition py_mod_fam (ver : Z) : string := if ver =? 4 then "ipv4" else "ipv6".
Definition py_mod_row {A} (ver : Z) (k : Codec.dialect -> outcome A) : outcome A :=
  match Codec.find_dialect (py_mod_fam ver) "" with Some d => k d | None => Raise Unsupported end.

(* <module>.int_to_bits(int_val, word_sep=None) *)
Definition py_mod_int_to_bits (ver int_val : Z) (word_sep : option string) : outcome string :=
  py_mod_row ver (fun d => Codec.ip_bits d int_val word_sep).
(* <module>.int_to_bin(int_val) *)
Definition py_mod_int_to_bin (ver int_val : Z) : outcome string := py_mod_row ver (fun d => Codec.m_int_to_bin d int_val).
(* <module>.int_to_words(int_val) *)
Definition py_mod_int_to_words (ver int_val : Z) : outcome (list Z) :=
  py_mod_row ver (fun d => Codec.m_int_to_words (py_mod_fam ver) d int_val).
(* <module>.int_to_packed(int_val): bytes as the list of their values *)
Definition py_mod_int_to_packed (ver int_val : Z) : outcome (list Z) :=
  py_mod_row ver (fun d => Codec.m_int_to_packed (py_mod_fam ver) d int_val).
(* <module>.int_to_arpa(int_val) *)
Definition py_mod_int_to_arpa (ver int_val : Z) : outcome string :=
  py_mod_row ver (fun d => Codec.ip_reverse_dns (py_mod_fam ver) d int_val).

(* v.to_bytes(n, 'big') *)
Definition py_int_to_bytes (v n : Z) : outcome (list Z) := Codec.int_to_bytes (Z.to_nat n) v.

(* '<text>%x' % e *)
Definition py_fmt_hex (text : string) (e : Z) : outcome string := do s <- AddrOps.fmt_x e; Ok (String.append text s).
