(* Model/ListLike.v — IPListMixin (netaddr/ip/__init__.py:672-744, slice branch as repaired by the F-12 fix)
   and iter_iprange (1748-1791).  A ranged object is seen through `first`, `last` and `_module.version` only.
   Iterators are never materialised in full: an iterator is a value, `it_take n` pulls at most n elements and
   says whether the iterator is then exhausted (Done), has more (More) or raised (Raised e). *)
From Coq Require Import ZArith List Bool.
From NV Require Import Base.PyVal Model.Ip Model.PySlice.
Import ListNotations.
Open Scope Z_scope.

(* the three classes that mix in IPListMixin *)
Inductive ranged :=
| RNet (ver v p : Z)          (* IPNetwork: version, stored value (host bits kept), prefixlen *)
| RRange (ver s e : Z)        (* IPRange: version, _start value, _end value *)
| RGlob (s e : Z).            (* IPGlob: an IPv4 IPRange built from a glob *)

Definition r_ver (x : ranged) : Z :=
  match x with RNet ver _ _ => ver | RRange ver _ _ => ver | RGlob _ _ => 4 end.
(* IPNetwork.first / .last (1029-1040), IPRange.first / .last (1444-1451) *)
Definition r_first (x : ranged) : Z :=
  match x with RNet ver v p => net_first (width ver) v p | RRange _ s _ => s | RGlob s _ => s end.
Definition r_last (x : ranged) : Z :=
  match x with RNet ver v p => net_last (width ver) v p | RRange _ _ e => e | RGlob _ e => e end.

Inductive gstatus := Done | More | Raised (e : exn).

(* start, start+step, ... (n elements) *)
Fixpoint arith_list (n : nat) (start step : Z) : list Z :=
  match n with O => [] | S m => start :: arith_list m (start + step) step end.

(* iter_iprange: the `while True` loop (1781-1790).  `index` is the variable before `index += step`.
   Each pass: step, test against stop for the sign of step, build IPAddress(index, version), yield.
   fuel = number of elements the consumer still wants. *)
Fixpoint iprange_loop (fuel : nat) (version index step stop : Z) (negative_step : bool) : list Z * gstatus :=
  let index := index + step in
  if (if negative_step then negb (index >=? stop) else negb (index <=? stop)) then ([], Done)
  else match addr_of_int_ver index version with
       | Raise e => ([], Raised e)
       | Ok _ =>
           match fuel with
           | O => ([], More)
           | S f => let '(l, s) := iprange_loop f version index step stop negative_step in (index :: l, s)
           end
       end.

(* iter_iprange(start, end, step) with start/end IPAddress objects (sver, sv), (ever, ev): generator prologue
   (1762-1780) runs at the first next(); then the loop. *)
Definition iter_iprange_take (fuel : nat) (sver sv ever ev step : Z) : list Z * gstatus :=
  if negb (sver =? ever) then ([], Raised TypeError)
  else if step =? 0 then ([], Raised ValueError)
  else iprange_loop fuel sver (sv - step) step ev (step <? 0).

(* what __iter__ / __getitem__(slice) return: iter([]) or an iter_iprange generator not yet started *)
Inductive iterator :=
| ItEmpty
| ItIprange (sver sv ever ev step : Z).

Definition it_take (fuel : nat) (it : iterator) : list Z * gstatus :=
  match it with
  | ItEmpty => ([], Done)
  | ItIprange sver sv ever ev step => iter_iprange_take fuel sver sv ever ev step
  end.

(* IPListMixin.__iter__ (679-686) *)
Definition r_iter (x : ranged) : outcome iterator :=
  do start_ip <- addr_of_int_ver (r_first x) (r_ver x);
  do end_ip <- addr_of_int_ver (r_last x) (r_ver x);
  Ok (ItIprange (fst start_ip) (snd start_ip) (fst end_ip) (snd end_ip) 1).

(* IPListMixin.size (688-693) *)
Definition r_size (x : ranged) : Z := r_last x - r_first x + 1.

(* IPListMixin.__len__ (695-705); _sys_maxint = sys.maxsize *)
Definition r_len (x : ranged) : outcome Z :=
  let size := r_size x in
  if size >? ssize_max then Raise IndexError else Ok size.

(* `except ValueError: raise TypeError` around the integer branch *)
Definition value_error_to_type_error {A} (o : outcome A) : outcome A :=
  match o with Raise ValueError => Raise TypeError | _ => o end.

(* IPListMixin.__getitem__, integer branch (730-742); index is already an int *)
Definition r_getitem_int (x : ranged) (index : Z) : outcome (Z * Z) :=
  value_error_to_type_error
    (if (- r_size x <=? index) && (index <? 0) then addr_of_int_ver (r_last x + index + 1) (r_ver x)
     else if (0 <=? index) && (index <=? r_size x - 1) then addr_of_int_ver (r_first x + index) (r_ver x)
     else Raise IndexError).

(* IPListMixin.__getitem__, slice branch (715-729, repaired); the slice components are None or ints *)
Definition r_getitem_slice (x : ranged) (a b c : option Z) : outcome iterator :=
  if r_ver x =? 6 then Raise TypeError
  else
    do ind <- py_slice_indices a b c (r_size x);
    let '(start, stop, step) := ind in
    do count <- py_range_len start stop step;
    if count =? 0 then Ok ItEmpty
    else
      do start_ip <- addr_of_int_ver (r_first x + start) (r_ver x);
      do end_ip <- addr_of_int_ver (r_first x + start + (count - 1) * step) (r_ver x);
      Ok (ItIprange (fst start_ip) (snd start_ip) (fst end_ip) (snd end_ip) step).

(* ---- closed forms: an arithmetic sequence start, start+step, ... with `count` elements ---- *)
Record aseq := { a_start : Z; a_count : Z; a_step : Z }.

(* list(x) as the property understands it: first, first+1, ..., last.  A specification-level object (theorems
   speak about it for objects of any size; it is only ever computed for small objects). *)
Definition r_addresses (x : ranged) : list Z := arith_list (Z.to_nat (r_size x)) (r_first x) 1.

(* observing a list the way it_take observes an iterator *)
Definition list_take {A} (fuel : nat) (l : list A) : list A * gstatus :=
  (firstn fuel l, if (length l <=? fuel)%nat then Done else More).

(* the first `fuel` elements of the sequence, and whether that is all of it *)
Definition aseq_take (fuel : nat) (s : aseq) : list Z * gstatus :=
  (arith_list (Nat.min fuel (Z.to_nat (a_count s))) (a_start s) (a_step s),
   if a_count s <=? Z.of_nat fuel then Done else More).

(* closed form of iter_iprange for in-range same-family arguments and step <> 0 *)
Definition iprange_closed (sv ev step : Z) : aseq :=
  {| a_start := sv; a_count := Z.max 0 ((ev - sv) / step + 1); a_step := step |}.
