(* Model/SrcPreludeText.v — the symbols that the generated translation of netaddr/fbsocket.py, netaddr/strategy/ipv4.py,
   ipv6.py and of bytes_to_bits / int_to_bits of netaddr/strategy/__init__.py (Gen/pysrc_fbsocket_gen.v, pysrc_ipv4_gen.v,
   pysrc_ipv6_gen.v, pysrc_strategy_bits_gen.v, written by harness/gen/pysrc.py, block SRCC) uses for Python builtins and
   library calls on text, lists of text and packed byte strings.  Text is a Coq string, a list is a Coq list, a bytes object
   is the list of its byte values (list Z), as in Model/Codec.v.  Every symbol is either an existing function of Base/PyStr.v
   (split, join, int(), %-formatting: validated against CPython on every run of a check that uses them) or of Model/Codec.v
   (struct.pack / struct.unpack: validated by the c15_struct_* commands), or a small definition given here. *)
From Coq Require Import ZArith List Bool String Ascii.
From NV Require Import Base.PyVal Base.PyStr.
From NV Require Model.Codec.
Import ListNotations.
Open Scope Z_scope.

(* ---- struct.pack(fmt, v1, ..) / struct.unpack(fmt, buf) for a literal format of unsigned big-endian (or one-byte) fields:
   the translator turns the format into the list of field sizes in bytes; Codec.struct_pack / struct_unpack (StructError for a
   value out of range, a wrong argument count, a wrong buffer length) *)
Definition py_struct_pack (sizes : list nat) (vals : list Z) : outcome (list Z) := Codec.struct_pack sizes vals.
Definition py_struct_unpack (sizes : list nat) (buf : list Z) : outcome (list Z) := Codec.struct_unpack sizes buf.

(* t[k] for a literal k >= 0 on a sequence whose length is not known to the translator: IndexError beyond the end *)
Definition py_seq_item {A} (k : nat) (l : list A) : outcome A :=
  match nth_error l k with Some x => Ok x | None => Raise IndexError end.

(* l[i] with Python's index rule: a negative i counts from the end, IndexError outside -len .. len-1 *)
Definition py_list_item {A} (l : list A) (i : Z) : outcome A :=
  let n := Z.of_nat (List.length l) in
  let j := if i <? 0 then i + n else i in
  if (j <? 0) || (n <=? j) then Raise IndexError
  else match nth_error l (Z.to_nat j) with Some x => Ok x | None => Raise IndexError end.

(* x if x is not None else d *)
Definition py_opt_default {A} (o : option A) (d : A) : A := match o with Some x => x | None => d end.

(* [f(x) for x in l] where f(x) may raise: left to right, the first exception wins *)
Fixpoint py_map_o {A B} (f : A -> outcome B) (l : list A) : outcome (list B) :=
  match l with
  | [] => Ok []
  | x :: r => do y <- f x; do ys <- py_map_o f r; Ok (y :: ys)
  end.

(* l[lo:hi] (step 1) with Python's clamping: a missing bound is the end, a negative bound counts from the end *)
Definition py_clamp (n : Z) (o : option Z) (d : Z) : Z :=
  match o with None => d | Some k => if k <? 0 then Z.max (k + n) 0 else Z.min k n end.
Definition py_slice {A} (lo hi : option Z) (l : list A) : list A :=
  let n := Z.of_nat (List.length l) in
  let a := py_clamp n lo 0 in
  let b := py_clamp n hi n in
  firstn (Z.to_nat (b - a)) (skipn (Z.to_nat a) l).
Definition py_str_slice (lo hi : option Z) (s : string) : string := str_of (py_slice lo hi (chars s)).

(* a or b on text: a unless it is empty *)
Definition py_str_or (a b : string) : string := if String.eqb a ""%string then b else a.
(* s * n: n copies of s, none for n <= 0 *)
Fixpoint py_str_rep (n : nat) (s : string) : string := match n with O => ""%string | S k => String.append s (py_str_rep k s) end.
Definition py_str_mul (s : string) (n : Z) : string := py_str_rep (Z.to_nat n) s.
(* b * n on a bytes object *)
Fixpoint py_bytes_rep (n : nat) (b : list Z) : list Z := match n with O => [] | S k => (b ++ py_bytes_rep k b)%list end.
Definition py_bytes_mul (b : list Z) (n : Z) : list Z := py_bytes_rep (Z.to_nat n) b.
(* s.encode() for ASCII text / the bytes of a latin-1 literal *)
Definition py_encode (s : string) : list Z := Codec.bytes_of_str s.
(* _bytes_join(l) = b''.join(l) *)
Definition py_bytes_join (l : list (list Z)) : list Z := List.concat l.

(* c in s for text: s contains c as a substring ('' is in every string) *)
Fixpoint py_substr_chars (p l : list ascii) : bool :=
  starts_with_chars p l || match l with [] => false | _ :: r => py_substr_chars p r end.
Definition py_str_in (p s : string) : bool := py_substr_chars (chars p) (chars s).

(* list(s) for text: its characters as one-character strings *)
Definition py_char_str (c : ascii) : string := String c EmptyString.
Definition py_list_of_str (s : string) : list string := map py_char_str (chars s).

(* s.split(sep) for a separator of one or more characters: the pieces between the non-overlapping occurrences of sep found
   left to right; always at least one piece.  `fuel` = the length of the text + 1 *)
Fixpoint py_split_chars (fuel : nat) (sep l cur : list ascii) : list (list ascii) :=
  match fuel with
  | O => [(rev cur ++ l)%list]
  | S f =>
      match l with
      | [] => [rev cur]
      | c :: r => if starts_with_chars sep l then rev cur :: py_split_chars f sep (skipn (List.length sep) l) []
                  else py_split_chars f sep r (c :: cur)
      end
  end.
Definition py_split (sep s : string) : list string :=
  map str_of (py_split_chars (S (String.length s)) (chars sep) (chars s) []).

(* int(s) / int(s, 16): ValueError when s is no literal of that base (Base/PyStr.v py_int) *)
Definition py_int_base_o (base : Z) (s : string) : outcome Z :=
  match py_int base s with Some v => Ok v | None => Raise ValueError end.

(* '%.4x' % n *)
Definition py_fmt_x4 (n : Z) : string :=
  if n <? 0 then String ch_minus (fmt_x_pad 4 (- n)) else fmt_x_pad 4 n.

(* l.insert(0, x) *)
Definition py_insert0 {A} (x : A) (l : list A) : list A := x :: l.

(* try: body / except Exception [or a bare except]: raise E  -- every exception of the model that is a Python exception is
   replaced by E; OutOfFuel and Unsupported are modelling devices and pass through *)
Definition py_except_all {A} (e : exn) (o : outcome A) : outcome A :=
  match o with
  | Raise OutOfFuel => Raise OutOfFuel
  | Raise Unsupported => Raise Unsupported
  | Raise _ => Raise e
  | Ok a => Ok a
  end.
(* try: body / except Exception: <value>  -- the body's value, or the handler's *)
Definition py_except_value {A} (d : A) (o : outcome A) : outcome A :=
  match o with
  | Raise OutOfFuel => Raise OutOfFuel
  | Raise Unsupported => Raise Unsupported
  | Raise _ => Ok d
  | Ok a => Ok a
  end.

(* the module-level table BYTES_TO_BITS of netaddr/strategy/__init__.py: its VALUE as regenerated by harness/gen/codec.py on every
   run (Gen/codec_gen.v, which opens string_scope and is therefore not imported by the generated files) *)
From NV Require Gen.codec_gen.
Definition py_BYTES_TO_BITS : list string := NV.Gen.codec_gen.gen_bytes_to_bits.

(* s.split('::') and '::' in s: the hand models of Model/IpText.v (validated against CPython by the c01_split_dc command) *)
From NV Require Model.IpText.
Definition py_split_dc (s : string) : list string := map str_of (IpText.split_dc_chars (chars s) []).
Definition py_contains_dc (s : string) : bool := IpText.contains_dc_chars (chars s).

(* ---- the socket functions that netaddr/strategy/ipv4.py and ipv6.py bind at import time: `socket.inet_aton / inet_pton /
   inet_ntop` on the platform path, `netaddr.fbsocket.inet_pton / inet_ntop` on the fallback path.  Which path is taken is the
   parameter `be` of the model (Model/AddrText.v backend).  Platform = the named oracles Std4 / Std6 of Model/IpText.v (a failure
   of the platform function is OSError / ValueError, rendered as ValueError as in AddrText.v); Fallback = the hand model of
   Model/FbSocket.v (whose source tie is C01_source_tie).  inet_aton is the platform function on both paths.
   A packed IPv4 address is the list of its 4 bytes in both; the models write a packed IPv6 address as 8 big-endian 16-bit
   words, the code sees its 16 bytes: py_bytes_of_words / py_words_of_bytes convert. *)
From NV Require Model.AddrText.
Definition py_backend : Type := AddrText.backend.
Definition py_word_bytes (w : Z) : list Z := [w / 256; w mod 256].
Definition py_bytes_of_words (ws : list Z) : list Z := flat_map py_word_bytes ws.
Fixpoint py_words_of_bytes (p : list Z) : list Z :=
  match p with a :: b :: r => (a * 256 + b) :: py_words_of_bytes r | _ => [] end.
(* socket.inet_aton(s): the 4 bytes of the 32-bit value (Std4.octets_of) *)
Definition py_inet_aton (s : string) : outcome (list Z) :=
  omap IpText.Std4.octets_of (AddrText.of_option (IpText.Std4.aton s)).
Definition py_inet_pton4 (be : py_backend) (s : string) : outcome (list Z) := AddrText.inet_pton4 be s.
Definition py_inet_pton6 (be : py_backend) (s : string) : outcome (list Z) := omap py_bytes_of_words (AddrText.inet_pton6 be s).
(* inet_ntop(AF_INET6, p): both implementations refuse a byte string that is not 16 bytes long (ValueError) *)
Definition py_inet_ntop6 (be : py_backend) (p : list Z) : outcome string :=
  if Nat.eqb (List.length p) 16 then AddrText.inet_ntop6 be (py_words_of_bytes p) else Raise ValueError.

(* fmt % n for a format held in a variable: the two formats of the IPv6 dialect classes; any other text is outside the model *)
Definition py_format1 (fmt : string) (n : Z) : outcome string :=
  if String.eqb fmt "%x"%string then Ok (fmt_x n)
  else if String.eqb fmt "%.4x"%string then Ok (py_fmt_x4 n)
  else Raise Unsupported.

(* l.sort(key=k): stable, ascending.  Insertion from the left, a new item goes behind the items whose key is not larger
   (the same algorithm as Fb.sort_by_start) *)
Fixpoint py_ins_asc {A} (key : A -> Z) (x : A) (l : list A) : list A :=
  match l with
  | [] => [x]
  | y :: r => if key x <? key y then x :: l else y :: py_ins_asc key x r
  end.
Definition py_sort_asc {A} (key : A -> Z) (l : list A) : list A := fold_left (fun acc x => py_ins_asc key x acc) l [].
(* the same with keys that are None or an int: with two or more items every item is compared at least once, and comparing None
   with anything is a TypeError; fewer than two items are never compared *)
Definition py_sort_optkey {A} (key : A -> option Z) (l : list A) : outcome (list A) :=
  match l with
  | [] | [_] => Ok l
  | _ => if forallb (fun x => match key x with Some _ => true | None => false end) l
         then Ok (py_sort_asc (fun x => match key x with Some k => k | None => 0 end) l)
         else Raise TypeError
  end.

(* list(range(a, b, c)) for a literal step c <> 0: a, a + c, a + 2c, .. as long as they stay before b *)
Fixpoint py_range_from (n : nat) (a c : Z) : list Z := match n with O => [] | S k => a :: py_range_from k (a + c) c end.
Definition py_range (a b c : Z) : list Z :=
  let len := if 0 <? c then (if a <? b then (b - a + c - 1) / c else 0) else (if b <? a then (a - b - c - 1) / (- c) else 0) in
  py_range_from (Z.to_nat len) a c.
(* l[i] = x with Python's index rule (IndexError outside -len .. len-1) *)
Fixpoint py_set_nth {A} (l : list A) (k : nat) (x : A) : list A :=
  match l, k with
  | [], _ => []
  | _ :: r, O => x :: r
  | y :: r, S k' => y :: py_set_nth r k' x
  end.
Definition py_list_set {A} (l : list A) (i : Z) (x : A) : outcome (list A) :=
  let n := Z.of_nat (List.length l) in
  let j := if i <? 0 then i + n else i in
  if (j <? 0) || (n <=? j) then Raise IndexError else Ok (py_set_nth l (Z.to_nat j) x).
(* sep.join(l) for a list whose items are None or text: TypeError if an item is None *)
Fixpoint py_all_some {A} (l : list (option A)) : option (list A) :=
  match l with
  | [] => Some []
  | Some x :: r => match py_all_some r with Some t => Some (x :: t) | None => None end
  | None :: _ => None
  end.
Definition py_join_opt (sep : string) (l : list (option string)) : outcome string :=
  match py_all_some l with Some t => Ok (join sep t) | None => Raise TypeError end.
