(* Model/Ieee.v — netaddr/eui/ieee.py: OUIIndexParser.parse (113-157) and IABIndexParser.parse (196-247).
   No proofs here.

   A registry file opened in binary mode is the list of its lines, each line the bytes `readline()` returns
   (terminator included; only the last line may lack one; never empty).  `fh.tell()` after a `readline()` is the
   number of bytes read so far, carried as `tell`.  `self.notify(record)` hands the row to the subscribers: the
   model returns the rows in the order notified, together with the exception that ended the parse, if any
   (rows notified before an exception have already been delivered). *)
From Coq Require Import ZArith List Bool String Ascii.
From NV Require Import Base.PyVal.
Import ListNotations.
Open Scope Z_scope.
Open Scope string_scope.

(* ---------------------------------------------------------------- the bytes methods used *)
Definition blen (s : string) : Z := Z.of_nat (String.length s).

(* `needle in hay` for bytes *)
Fixpoint contains (needle hay : string) : bool :=
  match hay with
  | EmptyString => match needle with EmptyString => true | _ => false end
  | String _ t => if prefix needle hay then true else contains needle t
  end.

(* bytes.split() separators: Py_ISSPACE = \t \n \v \f \r and space *)
Definition is_space (c : ascii) : bool :=
  match c with
  | "009"%char | "010"%char | "011"%char | "012"%char | "013"%char | " "%char => true
  | _ => false
  end.

Fixpoint take_token (s : string) : string :=
  match s with
  | EmptyString => EmptyString
  | String c t => if is_space c then EmptyString else String c (take_token t)
  end.
(* line.split()[0]; None = the list is empty (IndexError) *)
Fixpoint first_token (s : string) : option string :=
  match s with
  | EmptyString => None
  | String c t => if is_space c then first_token t else Some (take_token s)
  end.

(* x.replace(b'-', b'') *)
Fixpoint remove_hyphens (s : string) : string :=
  match s with
  | EmptyString => EmptyString
  | String c t => if Ascii.eqb c "-" then remove_hyphens t else String c (remove_hyphens t)
  end.
(* x.split(b'-')[0] *)
Fixpoint before_hyphen (s : string) : string :=
  match s with
  | EmptyString => EmptyString
  | String c t => if Ascii.eqb c "-" then EmptyString else String c (before_hyphen t)
  end.

Definition hexval (c : ascii) : option Z :=
  match c with
  | "0"%char => Some 0 | "1"%char => Some 1 | "2"%char => Some 2 | "3"%char => Some 3 | "4"%char => Some 4
  | "5"%char => Some 5 | "6"%char => Some 6 | "7"%char => Some 7 | "8"%char => Some 8 | "9"%char => Some 9
  | "a"%char | "A"%char => Some 10 | "b"%char | "B"%char => Some 11 | "c"%char | "C"%char => Some 12
  | "d"%char | "D"%char => Some 13 | "e"%char | "E"%char => Some 14 | "f"%char | "F"%char => Some 15
  | _ => None
  end.

(* digit loop of PyLong_FromString for base 16: single underscores between digits only, at least one digit *)
Fixpoint digits16 (s : string) (acc : Z) (prev_us have_digit : bool) : option Z :=
  match s with
  | EmptyString => if prev_us then None else if have_digit then Some acc else None
  | String c t =>
      if Ascii.eqb c "_" then (if prev_us then None else digits16 t acc true have_digit)
      else match hexval c with
           | Some d => digits16 t (16 * acc + d) false true
           | None => None
           end
  end.

Fixpoint has_space (s : string) : bool :=
  match s with EmptyString => false | String c t => is_space c || has_space t end.

(* int(x, 16) for a bytes object x without whitespace (every argument below is built from split() tokens):
   optional sign, optional 0x/0X followed by at most one underscore, then the digit loop; ValueError otherwise *)
Definition int16 (s : string) : outcome Z :=
  if has_space s then Raise Unsupported else
  let '(neg, s1) := match s with
                    | String "+"%char t => (false, t)
                    | String "-"%char t => (true, t)
                    | _ => (false, s)
                    end in
  let s2 := match s1 with
            | String "0"%char (String "x"%char t) | String "0"%char (String "X"%char t) =>
                match t with String "_"%char t' => t' | _ => t end
            | _ => s1
            end in
  match s2 with
  | String "_"%char _ => Raise ValueError
  | _ => match digits16 s2 0 false false with
         | Some v => Ok (if neg then - v else v)
         | None => Raise ValueError
         end
  end.

Definition HEX : string := "(hex)".
Definition BASE16 : string := "(base 16)".

(* ---------------------------------------------------------------- OUIIndexParser.parse *)
Definition ouirow := (Z * Z * Z)%type.      (* [index, offset, size] *)

Definition emit {R} (r : R) (k : list R * option exn) : list R * option exn := let '(rs, e) := k in (r :: rs, e).

(* after the loop: record.append(size); self.notify(record)  (record is None when no record was seen) *)
Definition oui_finish (rec : option (Z * Z)) (size : Z) : list ouirow * option exn :=
  match rec with
  | None => ([], Some AttributeError)
  | Some (index, offset) => ([(index, offset, size)], None)
  end.

Fixpoint oui_loop (lines : list string) (tell : Z) (skip_header : bool) (rec : option (Z * Z)) (size : Z)
  : list ouirow * option exn :=
  match lines with
  | [] => oui_finish rec size                                   (* readline() returned b'' *)
  | line :: rest =>
      if String.eqb line "" then oui_finish rec size            (* if not line: break *)
      else
        let tell := tell + blen line in
        let skip_header := if skip_header && contains HEX line then false else skip_header in
        if skip_header then oui_loop rest tell skip_header rec size
        else if contains HEX line then
          (* record start *)
          let flush k := match rec with Some (index, offset) => emit (index, offset, size) k | None => k end in
          flush (
            let size := blen line in
            let offset := tell - blen line in
            match first_token line with
            | None => ([], Some IndexError)
            | Some oui =>
                match int16 (remove_hyphens oui) with
                | Raise e => ([], Some e)
                | Ok index => oui_loop rest tell skip_header (Some (index, offset)) size
                end
            end)
        else oui_loop rest tell skip_header rec (size + blen line)
  end.

Definition oui_parse (lines : list string) : list ouirow * option exn := oui_loop lines 0 true None 0.

(* ---------------------------------------------------------------- IABIndexParser.parse *)
(* record[0] is the bytes token of the (hex) line until a (base 16) line replaces it by an int *)
Inductive ikey := KB (s : string) | KI (z : Z).
Definition iabrow := (ikey * Z * Z)%type.

Definition iab_finish (rec : option (ikey * Z)) (size : Z) : list iabrow * option exn :=
  match rec with
  | None => ([], Some AttributeError)
  | Some (index, offset) => ([(index, offset, size)], None)
  end.

Fixpoint iab_loop (lines : list string) (tell : Z) (skip_header : bool) (rec : option (ikey * Z)) (size : Z)
  : list iabrow * option exn :=
  match lines with
  | [] => iab_finish rec size
  | line :: rest =>
      if String.eqb line "" then iab_finish rec size
      else
        let tell := tell + blen line in
        let skip_header := if skip_header && contains HEX line then false else skip_header in
        if skip_header then iab_loop rest tell skip_header rec size
        else if contains HEX line then
          let flush k := match rec with Some (index, offset) => emit (index, offset, size) k | None => k end in
          flush (
            let offset := tell - blen line in
            match first_token line with
            | None => ([], Some IndexError)
            | Some iab_prefix => iab_loop rest tell skip_header (Some (KB iab_prefix, offset)) (blen line)
            end)
        else if contains BASE16 line then
          let size := size + blen line in
          match rec with
          | None => ([], Some TypeError)                        (* record[0] on None; not reachable *)
          | Some (KI _, _) => ([], Some AttributeError)         (* int has no .replace: second (base 16) line *)
          | Some (KB p, offset) =>
              let prefix := remove_hyphens p in
              match first_token line with
              | None => ([], Some IndexError)
              | Some suffix =>
                  let suffix := before_hyphen suffix in
                  match int16 (prefix ++ suffix) with
                  | Raise e => ([], Some e)
                  | Ok v => iab_loop rest tell skip_header (Some (KI (Z.shiftr v 12), offset)) size
                  end
              end
          end
        else iab_loop rest tell skip_header rec (size + blen line)
  end.

Definition iab_parse (lines : list string) : list iabrow * option exn := iab_loop lines 0 true None 0.

(* ---------------------------------------------------------------- record retrieval
   OUI.__init__ (eui/__init__.py 64-101), IAB.split_iab_mac / IAB.__init__ (195-270), _parse_data (127-152, 296-310).

   The index (OUI_INDEX / IAB_INDEX entry of the identifier) and the bytes `fh.seek(offset); fh.read(size)` returns
   for each of its rows are parameters: rows = [(offset, size, data)].  `data.decode('UTF-8')` is not modelled:
   the str methods below act on the UTF-8 bytes, with the ASCII part of str.isspace (\t \n \v \f \r \x1c-\x1f and
   space) as whitespace; a non-ASCII Unicode space at a line end or between the first three fields of the `(hex)`
   line is outside the model. *)
Definition is_uspace (c : ascii) : bool :=
  is_space c || match c with "028"%char | "029"%char | "030"%char | "031"%char => true | _ => false end.

Fixpoint lstrip (s : string) : string :=
  match s with
  | EmptyString => EmptyString
  | String c t => if is_uspace c then lstrip t else s
  end.
Fixpoint rstrip (s : string) : string :=
  match s with
  | EmptyString => EmptyString
  | String c t => match rstrip t with
                  | EmptyString => if is_uspace c then EmptyString else String c EmptyString
                  | t' => String c t'
                  end
  end.
Definition strip (s : string) : string := rstrip (lstrip s).

(* data.split("\n") *)
Fixpoint split_nl (s : string) : list string :=
  match s with
  | EmptyString => [EmptyString]
  | String c t =>
      if Ascii.eqb c "010" then EmptyString :: split_nl t
      else match split_nl t with
           | h :: r => String c h :: r
           | [] => [String c EmptyString]
           end
  end.

Fixpoint drop_token (s : string) : string :=
  match s with
  | EmptyString => EmptyString
  | String c t => if is_uspace c then s else drop_token t
  end.
(* line.split(None, 2)[2]; None = fewer than three fields (IndexError) *)
Definition third_field (line : string) : option string :=
  let r3 := lstrip (drop_token (lstrip (drop_token (lstrip line)))) in
  match r3 with EmptyString => None | _ => Some r3 end.

(* the fields of a record dict that _parse_data fills: idx, org, address *)
Definition pdata := (Z * string * list string)%type.
Definition pdata0 : pdata := (0, "", []).

Definition parse_line (value : Z) (st : pdata) (raw : string) : outcome pdata :=
  let '(idx, org, address) := st in
  let line := strip raw in
  if String.eqb line "" then Ok st
  else if contains HEX line then
    match third_field line with
    | None => Raise IndexError
    | Some o => Ok (value, o, address)
    end
  else if contains BASE16 line then Ok st
  else Ok (idx, org, (address ++ [line])%list).

Fixpoint parse_lines (value : Z) (st : pdata) (lines : list string) : outcome pdata :=
  match lines with
  | [] => Ok st
  | l :: t => do st' <- parse_line value st l; parse_lines value st' t
  end.
Definition parse_data (value : Z) (data : string) : outcome pdata := parse_lines value pdata0 (split_nl data).

Definition idxrow := (Z * Z * string)%type.      (* offset, size, bytes read *)
Definition regrec := (pdata * Z * Z)%type.       (* idx/org/address, offset, size *)

(* OUI(oui) for an int argument: all rows of the identifier, one record each *)
Fixpoint oui_records (value : Z) (rows : list idxrow) : outcome (list regrec) :=
  match rows with
  | [] => Ok []
  | (offset, size, data) :: t =>
      do r <- parse_data value data;
      do rs <- oui_records value t;
      Ok ((r, offset, size) :: rs)
  end.
Definition oui_lookup (oui : Z) (rows : list idxrow) : outcome (list regrec) :=
  if ((0 <=? oui) && (oui <=? 16777215))%Z then
    match rows with
    | [] => Raise NotRegisteredError           (* self._value not in ieee.OUI_INDEX *)
    | _ => oui_records oui rows
    end
  else Raise ValueError.

(* IAB.split_iab_mac(eui_int, strict=False)[0] *)
Definition is_iab_eui (x : Z) : bool := ((x =? 20674) || (x =? 4249685))%Z.     (* IAB_EUI_VALUES = (0x0050c2, 0x40d855) *)
Definition iab_value (eui_int : Z) : outcome Z :=
  if is_iab_eui (Z.shiftr eui_int 12) then Ok eui_int
  else
    let iab_bits := Z.shiftr eui_int 12 in
    if is_iab_eui (Z.shiftr iab_bits 12) then Ok iab_bits else Raise ValueError.

(* IAB(iab) for an int argument, strict=False; `rows` are the index rows of the value iab_value returns:
   only the first row is used *)
Definition iab_lookup (iab : Z) (rows : list idxrow) : outcome regrec :=
  do value <- iab_value iab;
  match rows with
  | [] => Raise NotRegisteredError
  | (offset, size, data) :: _ => do r <- parse_data value data; Ok (r, offset, size)
  end.
