(* Model/Span.v — spanning_cidr (netaddr/ip/__init__.py:1702-1748, as repaired by the F-13 fix commit).
   Inputs arrive as already constructed IPNetwork objects (ver, value, prefixlen): the `IPNetwork(x)` calls on
   the elements are the constructor's business (C01/C03).  `wd` is the strategy-module width by version
   (`_module.width`); the real function is `spanning_cidr := spanning_cidr_gen width`. *)
From Coq Require Import ZArith List Bool.
From NV Require Import Base.PyVal Model.Ip.
Import ListNotations.
Open Scope Z_scope.

(* network.first / network.last of an IPNetwork object *)
Definition nfirst (wd : Z -> Z) (n : net) : Z := net_first (wd (nver n)) (nval n) (nplen n).
Definition nlast (wd : Z -> Z) (n : net) : Z := net_last (wd (nver n)) (nval n) (nplen n).

(* IPNetwork((value, prefixlen), version=version): parse_ip_network tuple branch (lines 774-785) *)
Definition net_of_tuple (wd : Z -> Z) (version value prefixlen : Z) : outcome net :=
  if negb ((0 <=? value) && (value <=? max_int_w (wd version))) then Raise AddrFormatError
  else if negb ((0 <=? prefixlen) && (prefixlen <=? wd version)) then Raise AddrFormatError
  else Ok {| nver := version; nval := value; nplen := prefixlen |}.

(* body of `for ip in ip_addrs_iter:`; state = (mixed_versions, lowest_ipnum, highest_ipnum) *)
Definition span_step (wd : Z -> Z) (version : Z) (st : bool * Z * Z) (network : net) : bool * Z * Z :=
  let '(mixed_versions, lowest_ipnum, highest_ipnum) := st in
  (if negb (nver network =? version) then true else mixed_versions,
   if nfirst wd network <? lowest_ipnum then nfirst wd network else lowest_ipnum,
   if nlast wd network >? highest_ipnum then nlast wd network else highest_ipnum).

(* `while prefixlen > 0 and ipnum > lowest_ipnum: prefixlen -= 1; ipnum &= -(1<<(width-prefixlen))` *)
Fixpoint span_loop (fuel : nat) (width lowest_ipnum ipnum prefixlen : Z) : outcome (Z * Z) :=
  match fuel with
  | O => Raise OutOfFuel
  | S f =>
      if (prefixlen >? 0) && (ipnum >? lowest_ipnum) then
        let prefixlen' := prefixlen - 1 in
        let ipnum' := Z.land ipnum (- (Z.shiftl 1 (width - prefixlen'))) in
        span_loop f width lowest_ipnum ipnum' prefixlen'
      else Ok (ipnum, prefixlen)
  end.

Definition spanning_cidr_gen (wd : Z -> Z) (ip_addrs : list net) : outcome net :=
  match ip_addrs with
  | network_a :: network_b :: rest =>
      let version := nver network_a in
      let mixed_versions := negb (nver network_b =? version) in
      let lowest_ipnum := Z.min (nfirst wd network_a) (nfirst wd network_b) in
      let highest_ipnum := Z.max (nlast wd network_a) (nlast wd network_b) in
      let '(mixed_versions, lowest_ipnum, highest_ipnum) :=
        fold_left (span_step wd version) rest (mixed_versions, lowest_ipnum, highest_ipnum) in
      if mixed_versions then Raise TypeError
      else
        let ipnum := highest_ipnum in
        let width := wd (nver network_a) in
        let prefixlen := width in
        do r <- span_loop (Z.to_nat width + 1) width lowest_ipnum ipnum prefixlen;
        net_of_tuple wd version (fst r) (snd r)
  | _ => Raise ValueError   (* StopIteration from either _iter_next *)
  end.

Definition spanning_cidr (ip_addrs : list net) : outcome net := spanning_cidr_gen width ip_addrs.
