(* Model/UniqueIps.v -- netaddr/ip/__init__.py iter_unique_ips (1512-1521): `for cidr in cidr_merge(args): for ip in cidr: yield ip`.
   A hand model (tag SRCG; there was none).  The generator is the list of what it yields: the addresses (version, value) of the
   merged blocks, block after block, each block ascending.  No proofs here. *)
From Coq Require Import ZArith List Bool.
From NV Require Import Base.PyVal Model.Ip Model.Span Model.Sets Model.Merge.
Import ListNotations.
Open Scope Z_scope.

(* iterating over one IPNetwork object: first .. last *)
Definition net_addrs (n : net) : list (Z * Z) :=
  map (fun i => (nver n, nf n + Z.of_nat i)) (seq 0 (Z.to_nat (nl n - nf n + 1))).

Definition unique_ips (items : list mitem) : outcome (list (Z * Z)) :=
  do l <- cidr_merge items; Ok (flat_map net_addrs l).
