(* Model/SrcPreludeStr.v — the text operations that the generated translation of the bit-string / binary-literal functions of
   netaddr/strategy/__init__.py (Gen/pysrc_strategy_gen.v, written by harness/gen/pysrc.py) uses.  Text is a Coq string; the
   CPython builtins themselves (int(s, base), str.replace, str.startswith) are the hand models of Base/PyStr.v. *)
From Coq Require Import ZArith List Bool String Ascii.
From NV Require Import Base.PyVal Base.PyStr.
Import ListNotations.
Open Scope Z_scope.

(* s[k:] for a literal k >= 0 *)
Definition py_str_from (k : Z) (s : string) : string := str_of (skipn (Z.to_nat k) (chars s)).

(* CHARSET.issuperset(s) for a frozenset of characters: every character of s is one of them *)
Definition py_chars_in (l : list ascii) (s : string) : bool := forallb (fun c => existsb (ascii_eqb c) l) (chars s).

(* int(s, base): ValueError when s is not a literal of that base (Base/PyStr.v py_int) *)
Definition py_int_o (base : Z) (s : string) : outcome Z :=
  match py_int base s with Some v => Ok v | None => Raise ValueError end.

(* bin(v).  Same text as Codec.py_bin, repeated here so that the generated file does not depend on Model/Codec.v. *)
Definition py_bin (v : Z) : string :=
  if v <? 0 then String.append "-0b" (str_of (fmt_nat 2 false (- v))) else String.append "0b" (str_of (fmt_nat 2 false v)).

(* try: body / except E: pass, where body assigns nothing: it answers inl r (it returned r) or inr tt (it reached its end);
   an exception of class E leaving it is swallowed and the statements after the try run *)
Definition py_except_pass {A} (e : exn) (o : outcome (A + unit)) : outcome (A + unit) :=
  match o with
  | Raise x => if exn_eqb x e then Ok (inr tt) else Raise x
  | Ok a => Ok a
  end.
