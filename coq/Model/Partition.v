(* Model/Partition.v — cidr_partition / cidr_exclude of netaddr/ip/__init__.py (lines 1628-1699), as written.
   A network is the pair (_value, _prefixlen) of one family of width w; host bits are kept wherever the
   code keeps them.  No proofs here (see Proofs/C09.v). *)
From Coq Require Import ZArith List Bool.
From NV Require Import Base.PyVal Model.Ip.
Import ListNotations.
Open Scope Z_scope.

(* (_value, _prefixlen) *)
Definition cblk := (Z * Z)%type.

(* IPNetwork((value, prefixlen), version=version): the tuple branch of parse_ip_network (lines 774-785);
   the value is stored as given (no NOHOST flag) *)
Definition net_of_tuple (w value prefixlen : Z) : outcome cblk :=
  if negb ((0 <=? value) && (value <=? max_int_w w)) then Raise AddrFormatError
  else if negb ((0 <=? prefixlen) && (prefixlen <=? w)) then Raise AddrFormatError
  else Ok (value, prefixlen).

(* 2 ** e : a negative exponent would give a float in Python; outside the model *)
Definition py_pow2 (e : Z) : outcome Z := if e <? 0 then Raise Unsupported else Ok (2 ^ e).

(* the `while exclude.prefixlen >= new_prefixlen` loop (lines 1682-1697); one iteration per unit of fuel.
   `left.append` / `right.append` are `++ [_]`; the `break` returns the lists collected so far. *)
Fixpoint part_loop (fuel : nat) (w ev ep new_prefixlen i_lower i_upper : Z) (left right : list cblk)
  : outcome (list cblk * list cblk) :=
  match fuel with
  | O => Raise OutOfFuel
  | S f =>
    if ep >=? new_prefixlen then
      do st <- (if net_first w ev ep >=? i_upper
                then (do n <- net_of_tuple w i_lower new_prefixlen; Ok (left ++ [n], right, i_upper))
                else (do n <- net_of_tuple w i_upper new_prefixlen; Ok (left, right ++ [n], i_lower)));
      let '(left', right', matched) := st in
      let new_prefixlen' := new_prefixlen + 1 in
      if new_prefixlen' >? w then Ok (left', right')
      else part_loop f w ev ep new_prefixlen' matched (matched + 2 ^ (w - new_prefixlen')) left' right'
    else Ok (left, right)
  end.

(* cidr_partition(target, exclude) for two IPNetwork objects of the family of width w (lines 1642-1699).
   Result: (before, partition, after). *)
Definition cidr_partition (w : Z) (target exclude : cblk) : outcome (list cblk * list cblk * list cblk) :=
  let '(tv, tp) := target in
  let '(ev, ep) := exclude in
  if net_last w ev ep <? net_first w tv tp then Ok ([], [], [net_cidr w tv tp])
  else if net_last w tv tp <? net_first w ev ep then Ok ([net_cidr w tv tp], [], [])
  else if tp >=? ep then Ok ([], [target], [])
  else
    let new_prefixlen := tp + 1 in
    let target_first := net_first w tv tp in
    let i_lower := target_first in
    do h <- py_pow2 (w - new_prefixlen);
    let i_upper := target_first + h in
    do lr <- part_loop (Z.to_nat w + 1) w ev ep new_prefixlen i_lower i_upper [] [];
    Ok (fst lr, [exclude], rev (snd lr)).

(* cidr_exclude (lines 1628-1640) *)
Definition cidr_exclude (w : Z) (target exclude : cblk) : outcome (list cblk) :=
  do r <- cidr_partition w target exclude;
  let '(l, _, r') := r in Ok (l ++ r').
