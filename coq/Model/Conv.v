(* Model/Conv.v — IPv4 <-> IPv6 conversion of netaddr/ip/__init__.py (after fix commit for F-15):
     IPAddress.is_ipv4_mapped / is_ipv4_compat   (lines 201-213)
     IPAddress.ipv4 / ipv6                        (lines 545-594)
     IPNetwork.ipv4 / ipv6                        (lines 1175-1231)
   Objects are (ver, value) and (ver, value, prefixlen); each definition follows the Python
   method's own case analysis and goes through the same constructors. *)
From Coq Require Import ZArith List Bool.
From NV Require Import Base.PyVal Model.Ip.
Import ListNotations.
Open Scope Z_scope.

(* the two literals of the source text *)
Definition MAPPED_LO : Z := 0xffff00000000.
Definition MAPPED_HI : Z := 0xffffffffffff.

(* ---- IPAddress.is_ipv4_mapped / is_ipv4_compat ---- *)
(* return self._module.version == 6 and (self._value >> 32) == 0xffff *)
Definition is_ipv4_mapped (ver v : Z) : bool := (ver =? 6) && (Z.shiftr v 32 =? 0xffff).
(* return self._module.version == 6 and (self._value >> 32) == 0 *)
Definition is_ipv4_compat (ver v : Z) : bool := (ver =? 6) && (Z.shiftr v 32 =? 0).

(* ---- IPAddress.ipv4 ----
   klass(x, 4) is the range-checking integer constructor Ip.addr_of_int_ver.
   `ip = None` is returned for a version that is neither 4 nor 6; no such module exists,
   the model answers Unsupported there. *)
Definition addr_ipv4 (ver v : Z) : outcome (Z * Z) :=
  if ver =? 4 then addr_of_int_ver v 4
  else if ver =? 6 then
    if (0 <=? v) && (v <=? max_int 4) then addr_of_int_ver v 4
    else if (0xffff00000000 <=? v) && (v <=? 0xffffffffffff) then addr_of_int_ver (v - 0xffff00000000) 4
    else Raise AddrConversionError
  else Raise Unsupported.

(* ---- IPAddress.ipv6(ipv4_compatible) ---- *)
Definition addr_ipv6 (ver v : Z) (ipv4_compatible : bool) : outcome (Z * Z) :=
  if ver =? 6 then
    if ipv4_compatible && ((0xffff00000000 <=? v) && (v <=? 0xffffffffffff))
    then addr_of_int_ver (v - 0xffff00000000) 6
    else addr_of_int_ver v 6
  else if ver =? 4 then
    (* ip = klass(self._value, 6); if not ipv4_compatible: ip = klass(0xffff00000000 + self._value, 6) *)
    do ip <- addr_of_int_ver v 6;
    if negb ipv4_compatible then addr_of_int_ver (0xffff00000000 + v) 6 else Ok ip
  else Raise Unsupported.

(* ---- constructors used by IPNetwork.ipv4 / ipv6 ---- *)

(* _ipv4.int_to_str(int_val) (strategy/ipv4.py:132-148), also reached by '%s' % self.ip:
   the dotted text of a 32-bit value, ValueError otherwise.  The text is represented by the
   value it prints (the print/parse round trip itself is C01/C03's business). *)
Definition ipv4_int_to_str (int_val : Z) : outcome Z :=
  if (0 <=? int_val) && (int_val <=? max_int 4) then Ok int_val else Raise ValueError.

(* klass('%s/%d' % (addr, prefixlen)) with addr a printed IPv4 address: the version-less string
   constructor tries parse_ip_network(_ipv4, ...) — address text parses back to its value, the
   decimal prefix must satisfy 0 <= prefixlen <= 32 (line 827) — and on AddrFormatError tries
   _ipv6, where dotted text is not an address, so AddrFormatError('invalid IPNetwork ...'). *)
Definition net_of_text_v4 (addr prefixlen : Z) : outcome net :=
  if (0 <=? prefixlen) && (prefixlen <=? width 4)
  then Ok {| nver := 4; nval := addr; nplen := prefixlen |}
  else Raise AddrFormatError.

(* klass((value, prefixlen), version=ver): parse_ip_network tuple branch (lines 774-785) *)
Definition net_of_tuple (ver value prefixlen : Z) : outcome net :=
  if negb ((0 <=? value) && (value <=? max_int ver)) then Raise AddrFormatError
  else if negb ((0 <=? prefixlen) && (prefixlen <=? width ver)) then Raise AddrFormatError
  else Ok {| nver := ver; nval := value; nplen := prefixlen |}.

(* ---- IPNetwork.ipv4 ---- *)
Definition net_ipv4 (ver v p : Z) : outcome net :=
  if ver =? 4 then
    (* klass('%s/%d' % (self.ip, self.prefixlen)) *)
    do addr <- ipv4_int_to_str v; net_of_text_v4 addr p
  else if ver =? 6 then
    if p <? 96 then Raise AddrConversionError
    else if (0 <=? v) && (v <=? max_int 4) then
      do addr <- ipv4_int_to_str v; net_of_text_v4 addr (p - 96)
    else if (0xffff00000000 <=? v) && (v <=? 0xffffffffffff) then
      do addr <- ipv4_int_to_str (v - 0xffff00000000); net_of_text_v4 addr (p - 96)
    else Raise AddrConversionError
  else Raise Unsupported.

(* ---- IPNetwork.ipv6(ipv4_compatible) ---- *)
Definition net_ipv6 (ver v p : Z) (ipv4_compatible : bool) : outcome net :=
  if ver =? 6 then
    if ipv4_compatible && ((0xffff00000000 <=? v) && (v <=? 0xffffffffffff))
    then net_of_tuple 6 (v - 0xffff00000000) p
    else net_of_tuple 6 v p
  else if ver =? 4 then
    if ipv4_compatible then net_of_tuple 6 v (p + 96)
    else net_of_tuple 6 (0xffff00000000 + v) (p + 96)
  else Raise Unsupported.

(* ---- compositions observed by the round-trip commands: x.ipv6(c).ipv4() ---- *)
Definition addr_v6_then_v4 (ver v : Z) (c : bool) : outcome (Z * Z) :=
  do y <- addr_ipv6 ver v c; addr_ipv4 (fst y) (snd y).
Definition net_v6_then_v4 (ver v p : Z) (c : bool) : outcome net :=
  do n <- net_ipv6 ver v p c; net_ipv4 (nver n) (nval n) (nplen n).
(* y.ipv4().ipv6(c) *)
Definition addr_v4_then_v6 (ver v : Z) (c : bool) : outcome (Z * Z) :=
  do y <- addr_ipv4 ver v; addr_ipv6 (fst y) (snd y) c.
Definition net_v4_then_v6 (ver v p : Z) (c : bool) : outcome net :=
  do n <- net_ipv4 ver v p; net_ipv6 (nver n) (nval n) (nplen n) c.
