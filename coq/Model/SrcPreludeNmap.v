(* Model/SrcPreludeNmap.v -- the symbols that the generated translation of netaddr/ip/nmap.py (Gen/pysrc_nmap_gen.v, written by
   harness/gen/pysrc.py, class FnB) uses besides those of SrcPreludeGlob.v: generators of IPAddress objects, and the calls into
   netaddr.ip that are not translated (the hand models of Model/Nmap.v). *)
From Coq Require Import ZArith List Bool String Ascii.
From NV Require Import Base.PyVal Base.PyStr Model.Ip Model.Glob Model.Nmap Model.SrcPreludeGlob.
Import ListNotations.
Open Scope Z_scope.

(* A generator, run to exhaustion, is the list of the OUTCOMES of its `yield`s in order: the first Raise in it is the exception
   that ends the generator (nothing after it is ever observed; Nmap.gen_of_outcomes reads such a list as items + final exception).
   The body of a generator function may raise before its first yield: that exception is what the first next() raises. *)
Definition py_gen_body {A} (b : outcome (list (outcome A))) : list (outcome A) :=
  match b with Ok l => l | Raise e => [Raise e] end.
(* next(g) on a generator nobody else holds: its first outcome.  An exhausted generator raises StopIteration, which is no member
   of PyVal.exn and is caught by no handler of the translated code: Unsupported (as Nmap.valid_nmap_range) *)
Definition py_gen_next {A} (g : list (outcome A)) : outcome A :=
  match g with o :: _ => o | [] => Raise Unsupported end.

(* `for ip in net` for an IPNetwork object (IPListMixin.__iter__, property C10; not translated): IPAddress(first) .. IPAddress(last) *)
Definition py_iter_net (n : net) : list (outcome (Z * Z)) :=
  map (fun x => Ok (nver n, x))
      (py_zrange (net_first (width (nver n)) (nval n) (nplen n)) (net_last (width (nver n)) (nval n) (nplen n) + 1)).
(* IPAddress(s, 4) on the canonical dotted quads nmap.py builds: Glob.ip_of_canon, as Nmap.quad_address *)
Definition py_ipaddress4_of_str (s : string) : outcome (Z * Z) := do v <- ip_of_canon s; Ok (4, v).
(* IPNetwork(s) for a str containing '/': Nmap.ipnetwork_of_str (inet_pton(AF_INET6) is the platform parameter pton6) *)
Definition py_ipnetwork_of_str (pton6 : string -> option Z) (s : string) : outcome net :=
  omap (fun t => {| nver := fst (fst t); nval := snd (fst t); nplen := snd t |}) (ipnetwork_of_str pton6 s).
