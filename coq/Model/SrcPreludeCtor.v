(* Model/SrcPreludeCtor.v — the symbols that the generated translation of the constructors, the pickled-state methods and the
   network parser of netaddr/ip/__init__.py (Gen/pysrc_ctor_gen.v, Gen/pysrc_parse_gen.v, written by harness/gen/pysrc.py +
   pysrc_ctor.py) uses besides those of SrcPrelude.v / SrcPreludeStr.v.  Each one is either a small definition that is right on
   inspection or the hand model of a callee that lives in ANOTHER source file and is not translated here (said at each symbol). *)
From Coq Require Import ZArith List Bool String Ascii.
From NV Require Import Base.PyVal Base.PyStr Model.Ip Model.AddrText.
Import ListNotations.
Open Scope Z_scope.

(* bare `except:` catches every Python exception; OutOfFuel and Unsupported are modelling devices, never caught *)
Definition py_catch_all (e : exn) : bool := match e with OutOfFuel | Unsupported => false | _ => true end.

(* module.str_to_int(addr, flags) for a strategy module represented by its version: the hand model of
   netaddr/strategy/ipv4.py / ipv6.py str_to_int (Model/AddrText.v), which are not translated here *)
Definition py_str_to_int (be : backend) (m : Z) (addr : string) (flags : Z) : outcome Z := str_to_int be m addr flags.
