(* Model/SrcPreludeCtor.v — the symbols that the generated translation of the constructors, the pickled-state methods and the
   network parser of netaddr/ip/__init__.py (Gen/pysrc_ctor_gen.v, Gen/pysrc_parse_gen.v, written by harness/gen/pysrc.py +
   pysrc_ctor.py) uses besides those of SrcPrelude.v / SrcPreludeStr.v.  Each one is either a small definition that is right on
   inspection or the hand model of a callee that lives in ANOTHER source file and is not translated here (said at each symbol). *)
From Coq Require Import ZArith List Bool String Ascii.
From NV Require Import Base.PyVal Base.PyStr Model.Ip Model.AddrText.
Import ListNotations.
Open Scope Z_scope.

(* bare `except:` catches every Python exception; OutOfFuel and Unsupported are modelling devices, never caught *)
Definition py_catch_all (e : exn) : bool := match e with OutOfFuel | Unsupported => false | _ => true end.

(* module.str_to_int(addr, flags) for a strategy module represented by its version: the hand model of
   netaddr/strategy/ipv4.py / ipv6.py str_to_int (Model/AddrText.v), which are not translated here *)
Definition py_str_to_int (be : backend) (m : Z) (addr : string) (flags : Z) : outcome Z := str_to_int be m addr flags.

(* module.int_to_str(v) (default dialect): the hand model of netaddr/strategy/ipv4.py / ipv6.py int_to_str (Model/AddrText.v) *)
Definition py_int_to_str (be : backend) (m : Z) (v : Z) : outcome string := int_to_str be m v None.

(* ---- the network parser ---- *)
From NV Require Model.NetText.

(* _ipv4.expand_partial_address(s): the hand model of that function of netaddr/strategy/ipv4.py (Model/NetText.v) *)
Definition py_expand_partial_address (s : string) : outcome string := NetText.expand_partial_address s.

(* module.<table>[k]: the four prefix <-> mask dictionaries of the strategy modules are module data; the hand model builds them
   with the source's comprehensions (Model/Ip.v prefix_to_netmask_tab / prefix_to_hostmask_tab, read through NetText.dict_get:
   KeyError for a missing key) and Proofs/GenOk.v prefix_tables_ok proves the dictionaries regenerated from the loaded modules equal
   to them *)
Definition py_prefix_to_netmask (m k : Z) : outcome Z := NetText.prefix_to_netmask (width m) k.
Definition py_netmask_to_prefix (m k : Z) : outcome Z := NetText.netmask_to_prefix (width m) k.
Definition py_prefix_to_hostmask (m k : Z) : outcome Z := NetText.dict_get k (prefix_to_hostmask_tab (width m)).
Definition py_hostmask_to_prefix (m k : Z) : outcome Z := NetText.hostmask_to_prefix (width m) k.

(* a, b = s.split(c, 1): unpacking the list needs exactly two parts (ValueError otherwise) *)
Definition py_split1_pair (c : ascii) (s : string) : outcome (string * string) :=
  match split1 c s with [a; b] => Ok (a, b) | _ => Raise ValueError end.

(* l[0]: IndexError for an empty list *)
Definition py_list_head {A} (l : list A) : outcome A := match l with x :: _ => Ok x | [] => Raise IndexError end.
