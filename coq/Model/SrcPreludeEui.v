(* Model/SrcPreludeEui.v — the constructor symbol that the generated translation of the EUI methods
   (Gen/pysrc_eui_gen.v, written by harness/gen/pysrc.py) uses for `self.__class__(value, version=ver)` with an int value and
   an int version: EUI.__init__ with an integer address, an explicit version and the default dialect (Model/Eui.v eui_init). *)
From Coq Require Import ZArith.
From NV Require Import Base.PyVal Model.Eui.
Open Scope Z_scope.

Definition mk_eui (ver value : Z) : outcome eui := eui_init (AInt value) (Some ver) DNone.
