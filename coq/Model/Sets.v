(* Model/Sets.v — netaddr/ip/sets.py (IPSet), as written after the F-05/F-06/F-07 fixes.
   The stored `_cidrs` dict is an insertion-ordered key list with Python dict semantics: keys are IPNetwork
   objects compared/hashed by key() = (version, first, last); assigning to an equal key keeps the old key
   object; popitem() is LIFO.  No proofs here (see Proofs/C06*.v, Proofs/C07*.v). *)
From Coq Require Import ZArith List Bool.
From NV Require Import Base.PyVal Model.Ip Model.Partition Model.Span Model.Merge.
Import ListNotations.
Open Scope Z_scope.

Definition nf (n : net) : Z := nfirst width n.
Definition nl (n : net) : Z := nlast width n.
Definition nsize (n : net) : Z := nl n - nf n + 1.
Definition ncidr (n : net) : net :=
  let c := net_cidr (width (nver n)) (nval n) (nplen n) in {| nver := nver n; nval := fst c; nplen := snd c |}.

(* IPNetwork.__eq__ / __hash__: key() = (version, first, last) *)
Definition key_eqb (a b : net) : bool := (nver a =? nver b) && (nf a =? nf b) && (nl a =? nl b).

(* ---- dict with IPNetwork keys ---- *)
Definition dict := list net.
Definition dmem (k : net) (d : dict) : bool := existsb (key_eqb k) d.
Definition dset (d : dict) (k : net) : dict := if dmem k d then d else d ++ [k].
Fixpoint ddel (d : dict) (k : net) : outcome dict :=
  match d with
  | [] => Raise KeyError
  | x :: r => if key_eqb k x then Ok r else do r' <- ddel r k; Ok (x :: r')
  end.
Definition dfromkeys (l : list net) : dict := fold_left dset l [].
Definition dupdate (d other : dict) : dict := fold_left dset other d.
(* dict == dict: same key set (values are all True) *)
Definition dict_eqb (a b : dict) : bool :=
  (Nat.eqb (length a) (length b)) && forallb (fun k => dmem k b) a.

(* ---- sorted(): IPNetwork.sort_key = (version, first, prefixlen - 1, host_bits), lexicographic ---- *)
Definition sort_key (n : net) : list Z := [nver n; nf n; nplen n - 1; nval n - nf n].
Fixpoint lex_leb (a b : list Z) : bool :=
  match a, b with
  | [], _ => true
  | _ :: _, [] => false
  | x :: a', y :: b' => if x <? y then true else if y <? x then false else lex_leb a' b'
  end.
Definition lex_ltb (a b : list Z) : bool := negb (lex_leb b a).
Definition net_ltb (a b : net) : bool := lex_ltb (sort_key a) (sort_key b).
Fixpoint ins_sorted (x : net) (l : list net) : list net :=
  match l with
  | [] => [x]
  | y :: r => if lex_ltb (sort_key x) (sort_key y) then x :: l else y :: ins_sorted x r
  end.
(* stable insertion sort: equal keys keep their input order *)
Definition sorted (l : list net) : list net := fold_left (fun acc x => ins_sorted x acc) l [].

(* ---- `x in net` for two IPNetwork objects (IPNetwork.__contains__, lines 1137-1155) ---- *)
Definition net_in_net (other self : net) : bool :=
  if negb (nver self =? nver other) then false
  else let shiftwidth := width (nver self) - nplen self in
       (Z.shiftr (nval other) shiftwidth =? Z.shiftr (nval self) shiftwidth) && (nplen self <=? nplen other).

(* ---- arguments accepted by the constructor / add / remove / update ---- *)
(* an element: int, address, network (host bits possible), range (IPRange or IPGlob) *)
Inductive elem := EInt (i : Z) | EAddr (ver v : Z) | ENet (n : net) | ERange (ver s e : Z).
(* a whole argument *)
Inductive sarg := ANone | ANet (n : net) | ARange (ver s e : Z) | ASet (d : dict) | AIter (l : list elem)
                | AElem (e : elem).

(* IPAddress(int) then IPNetwork(addr): version from magnitude, full-width prefix *)
Definition net_of_int (i : Z) : outcome net :=
  do a <- addr_of_int i; Ok (addr_net (fst a) (snd a)).

(* what cidr_merge sees for each element (it converts non-network, non-range items with IPNetwork(ip)) *)
Definition mitem_of_elem (e : elem) : outcome mitem :=
  match e with
  | EInt i => do n <- net_of_int i; Ok (MNet n)
  | EAddr ver v => Ok (MNet (addr_net ver v))
  | ENet n => Ok (MNet n)
  | ERange ver s e => Ok (MRange ver s e)
  end.
Fixpoint mitems_of (l : list elem) : outcome (list mitem) :=
  match l with
  | [] => Ok []
  | e :: r => do m <- mitem_of_elem e; do ms <- mitems_of r; Ok (m :: ms)
  end.

(* IPSet.__init__ (lines 93-122) *)
Definition set_init (a : sarg) : outcome dict :=
  match a with
  | ANone => Ok []
  | ANet n => Ok [ncidr n]
  | ARange ver s e => do cs <- iprange_to_cidrs (addr_net ver s) (addr_net ver e); Ok (dfromkeys cs)
  | ASet d => Ok (dfromkeys (sorted d))
  | AIter l => do ms <- mitems_of l; do cs <- cidr_merge ms; Ok (fold_left dset cs [])
  | AElem _ => Raise TypeError   (* a bare int / address is not iterable *)
  end.

(* __getstate__ / __setstate__ (lines 124-136): tuples restored verbatim through IPNetwork((value, prefixlen), version) *)
Definition set_getstate (d : dict) : list (Z * Z * Z) := map (fun n => (nval n, nplen n, nver n)) d.
Fixpoint set_setstate (st : list (Z * Z * Z)) : outcome dict :=
  match st with
  | [] => Ok []
  | (v, p, ver) :: r =>
      (* IPNetwork((value, prefixlen), version=version): an invalid version raises ValueError, then the tuple checks *)
      do n <- (if valid_ver ver then Span.net_of_tuple width ver v p else Raise ValueError);
      do d <- set_setstate r; Ok (dfromkeys (n :: d))
  end.

(* IPNetwork.supernet() with the default prefixlen=0: self.cidr re-prefixed from 0 up to prefixlen-1, each `.cidr` *)
Fixpoint supernets_from (fuel : nat) (n : net) (q : Z) : list net :=
  match fuel with
  | O => []
  | S f => if q =? nplen n then []
           else ncidr {| nver := nver n; nval := nval (ncidr n); nplen := q |} :: supernets_from f n (q + 1)
  end.
Definition supernets (n : net) : list net := supernets_from (Z.to_nat (nplen n) + 1) n 0.

(* IPNetwork.previous() / next() with step 1 (lines 1230-1252 through __isub__/__iadd__) *)
Definition net_previous (n : net) : outcome net :=
  let w := width (nver n) in
  let nv := net_network w (nval n) (nplen n) - net_size w (nval n) (nplen n) * 1 in
  if nv <? 0 then Raise IndexError
  else if nv + (net_size w (nval n) (nplen n) - 1) >? max_int_w w then Raise IndexError
  else Ok {| nver := nver n; nval := nv; nplen := nplen n |}.
Definition net_next (n : net) : outcome net :=
  let w := width (nver n) in
  let nv := net_network w (nval n) (nplen n) + net_size w (nval n) (nplen n) * 1 in
  if nv + (net_size w (nval n) (nplen n) - 1) >? max_int_w w then Raise IndexError
  else if nv <? 0 then Raise IndexError
  else Ok {| nver := nver n; nval := nv; nplen := nplen n |}.

(* the sibling-merge `while added_network.prefixlen != 0` loop of _compact_single_network *)
Fixpoint merge_up (fuel : nat) (d : dict) (added : net) (shift_width : Z) : outcome dict :=
  match fuel with
  | O => Raise OutOfFuel
  | S f =>
      if nplen added =? 0 then Ok d
      else
        let the_bit := Z.land (Z.shiftr (nval added) shift_width) 1 in
        do candidate <- (if the_bit =? 0 then net_next added else net_previous added);
        if negb (dmem candidate d) then Ok d
        else
          do d1 <- ddel d candidate;
          do d2 <- ddel d1 added;
          let shift_width' := shift_width + 1 in
          let added' := {| nver := nver added;
                           nval := Z.shiftl (Z.shiftr (nval added) shift_width') shift_width';
                           nplen := nplen added - 1 |} in
          merge_up f (dset d2 added') added' shift_width'
  end.

(* the scan `for cidr in self._cidrs` of the non-host branch: collects subnets to remove, or stops at a supernet *)
Fixpoint scan_subnets (d : list net) (added : net) (to_remove : list net) : (bool * list net) :=
  match d with
  | [] => (false, to_remove)
  | cidr :: r =>
      if negb (nver cidr =? nver added) || key_eqb cidr added then scan_subnets r added to_remove
      else if (nf cidr >=? nf added) && (nl cidr <=? nl added) then scan_subnets r added (to_remove ++ [cidr])
      else if (nf cidr <=? nf added) && (nl cidr >=? nl added) then (true, to_remove)
      else scan_subnets r added to_remove
  end.

Fixpoint ddel_all (d : dict) (ks : list net) : outcome dict :=
  match ks with [] => Ok d | k :: r => do d' <- ddel d k; ddel_all d' r end.

(* IPSet._compact_single_network (lines 138-210) *)
Definition compact_single (d : dict) (added : net) : outcome dict :=
  let w := width (nver added) in
  do d1 <- (if nplen added =? w then
              (if existsb (fun s => dmem s d) (supernets added)
               then do d' <- ddel d added; Ok (true, d') else Ok (false, d))
            else
              let '(found_super, to_remove) := scan_subnets d added [] in
              if found_super then do d' <- ddel d added; Ok (true, d')
              else do d' <- ddel_all d to_remove; Ok (false, d'));
  let '(finished, d2) := d1 in
  if finished then Ok d2
  else merge_up (Z.to_nat (nplen added) + 1) d2 added (w - nplen added).

(* IPSet.compact (lines 212-217): cidr_merge over the keys (all IPNetwork objects) *)
Definition set_compact (d : dict) : outcome dict :=
  do cs <- cidr_merge (map MNet d); Ok (dfromkeys cs).

(* IPSet.add (lines 256-296) *)
Definition set_add (d : dict) (e : elem) : outcome dict :=
  match e with
  | ERange ver s e' =>
      do cs <- iprange_to_cidrs (addr_net ver s) (addr_net ver e');
      set_compact (dupdate d (dfromkeys cs))
  | ENet n => let a := ncidr n in compact_single (dset d a) a
  | EInt i => do a <- net_of_int i; compact_single (dset d a) a
  | EAddr ver v => let a := ncidr (addr_net ver v) in compact_single (dset d a) a
  end.

(* `for cidr in self._cidrs: if addr in cidr: …; break` *)
Fixpoint find_container (d : list net) (addr : net) : option net :=
  match d with
  | [] => None
  | c :: r => if net_in_net addr c then Some c else find_container r addr
  end.

(* IPSet.remove of one non-range element (lines 316-352); addr is what `IPNetwork(addr)` / IPAddress(int) gives *)
Definition remove_one (d : dict) (addr : net) : outcome dict :=
  do d1 <- (let a := ncidr addr in compact_single (dset d a) a);
  match find_container d1 addr with
  | None => Ok d1
  | Some c =>
      do remainder <- cidr_exclude (width (nver c)) (cblk_of_net c) (cblk_of_net addr);
      do d2 <- ddel d1 c;
      Ok (fold_left dset (map (net_of_cblk (nver c)) remainder) d2)
  end.

Fixpoint remove_all (d : dict) (l : list net) : outcome dict :=
  match l with [] => Ok d | n :: r => do d' <- remove_one d n; remove_all d' r end.

Definition set_remove (d : dict) (e : elem) : outcome dict :=
  match e with
  | ERange ver s e' =>
      do cs <- iprange_to_cidrs (addr_net ver s) (addr_net ver e'); remove_all d cs
  | ENet n => remove_one d n
  | EInt i => do a <- net_of_int i; remove_one d a
  | EAddr ver v => remove_one d (addr_net ver v)
  end.

(* IPSet.pop (popitem: last inserted key) *)
Definition set_pop (d : dict) : outcome (dict * net) :=
  match rev d with
  | [] => Raise KeyError
  | k :: r => Ok (rev r, k)
  end.

(* IPSet.update (lines 380-413) *)
Definition set_update (d : dict) (a : sarg) : outcome dict :=
  match a with
  | ASet o => do cs <- cidr_merge (map MNet (d ++ o)); Ok (dfromkeys cs)
  | ANet n => set_add d (ENet n)
  | ARange ver s e => set_add d (ERange ver s e)
  | AIter l =>
      do ms <- mitems_of l;
      do cs <- cidr_merge (map MNet d ++ ms);
      set_compact (fold_left dset cs d)
  | ANone => Raise TypeError
  | AElem _ => Raise TypeError
  end.

(* ---- queries ---- *)
(* IPSet.__contains__ (lines 228-245): walk the supernets of the queried block *)
Fixpoint contains_walk (fuel : nat) (d : dict) (s : net) : bool :=
  if dmem s d then true
  else match fuel with
       | O => false
       | S f => if nplen s =? 0 then false
                else contains_walk f d {| nver := nver s; nval := nval s; nplen := nplen s - 1 |}
       end.
Definition set_contains (d : dict) (n : net) : bool := contains_walk (Z.to_nat (nplen n) + 1) d n.

Definition set_size (d : dict) : Z := fold_left (fun acc n => acc + nsize n) d 0.
Definition sys_maxint : Z := 2 ^ 63 - 1.
Definition set_len (d : dict) : outcome Z :=
  let s := set_size d in if s >? sys_maxint then Raise IndexError else Ok s.

Definition set_issubset (a b : dict) : bool := forallb (fun c => set_contains b c) a.
Definition set_issuperset (a b : dict) : bool := forallb (fun c => set_contains a c) b.
Definition set_lt (a b : dict) : bool := (set_size a <? set_size b) && set_issubset a b.
Definition set_gt (a b : dict) : bool := (set_size a >? set_size b) && set_issuperset a b.

(* ---- _subtract (lines 16-53): `subnets` is the suffix subnets[subnet_idx:]; returns the new suffix ---- *)
Definition rng := (Z * Z * Z)%type.   (* (version, first, last) *)

Fixpoint subtract_loop (supernet prev_subnet : net) (subnets : list net) (ranges : list rng)
  : list net * list rng * net :=
  match subnets with
  | [] => ([], ranges, prev_subnet)
  | cur :: r =>
      if negb (net_in_net cur supernet) then (subnets, ranges, prev_subnet)
      else
        let ranges' := if nl prev_subnet + 1 =? nf cur then ranges
                       else ranges ++ [(nver supernet, nl prev_subnet + 1, nf cur - 1)] in
        subtract_loop supernet cur r ranges'
  end.

Definition subtract (supernet : net) (subnets : list net) (ranges : list rng) : outcome (list net * list rng) :=
  match subnets with
  | [] => Raise IndexError
  | subnet :: r =>
      let ranges1 := if nf subnet >? nf supernet then ranges ++ [(nver supernet, nf supernet, nf subnet - 1)]
                     else ranges in
      let '(rest, ranges2, prev) := subtract_loop supernet subnet r ranges1 in
      let first := nl prev + 1 in
      let last := nl supernet in
      Ok (rest, if first <=? last then ranges2 ++ [(nver supernet, first, last)] else ranges2)
  end.

(* _iter_merged_ranges (lines 56-82) *)
Fixpoint merged_ranges_loop (cur : rng) (l : list rng) : list rng :=
  match l with
  | [] => [cur]
  | (nv, ns, ne) :: r =>
      let '(cv, cs, ce) := cur in
      if (ns =? ce + 1) && (nv =? cv) then merged_ranges_loop (cv, cs, ne) r
      else cur :: merged_ranges_loop (nv, ns, ne) r
  end.
Definition iter_merged_ranges (l : list rng) : list rng :=
  match l with [] => [] | x :: r => merged_ranges_loop x r end.

Fixpoint cidrs_of_ranges (l : list rng) : outcome (list net) :=
  match l with
  | [] => Ok []
  | (v, s, e) :: r =>
      do cs <- iprange_to_cidrs (addr_net v s) (addr_net v e);
      do rest <- cidrs_of_ranges r; Ok (cs ++ rest)
  end.

(* intersection (lines 511-546): two cursors over the sorted key lists *)
Fixpoint inter_loop (fuel : nat) (own other : list net) (res : dict) : outcome dict :=
  match fuel with
  | O => Raise OutOfFuel
  | S f =>
      match own, other with
      | oc :: own', tc :: other' =>
          if key_eqb oc tc then inter_loop f own' other' (dset res oc)
          else if net_in_net oc tc then inter_loop f own' other (dset res oc)
          else if net_in_net tc oc then inter_loop f own other' (dset res tc)
          else if net_ltb oc tc then inter_loop f own' other res
          else inter_loop f own other' res
      | _, _ => Ok res
      end
  end.
Definition set_intersection (a b : dict) : outcome dict :=
  inter_loop (length a + length b + 1) (sorted a) (sorted b) [].

Definition rng_of (n : net) : rng := (nver n, nf n, nl n).

(* symmetric_difference (lines 550-612) *)
Fixpoint symdiff_loop (fuel : nat) (own other : list net) (ranges : list rng) : outcome (list rng) :=
  match fuel with
  | O => Raise OutOfFuel
  | S f =>
      match own, other with
      | oc :: own', tc :: other' =>
          if key_eqb oc tc then symdiff_loop f own' other' ranges
          else if net_in_net oc tc then
            do r <- subtract tc own ranges; symdiff_loop f (fst r) other' (snd r)
          else if net_in_net tc oc then
            do r <- subtract oc other ranges; symdiff_loop f own' (fst r) (snd r)
          else if net_ltb oc tc then symdiff_loop f own' other (ranges ++ [rng_of oc])
          else symdiff_loop f own other' (ranges ++ [rng_of tc])
      | _, [] => Ok (ranges ++ map rng_of own)
      | [], _ => Ok (ranges ++ map rng_of other)
      end
  end.
Definition set_symdiff (a b : dict) : outcome dict :=
  do ranges <- symdiff_loop (length a + length b + 1) (sorted a) (sorted b) [];
  do cs <- cidrs_of_ranges (iter_merged_ranges ranges);
  Ok (fold_left dset cs []).

(* difference (lines 616-664) *)
Fixpoint diff_loop (fuel : nat) (own other : list net) (ranges : list rng) (res : dict)
  : outcome (list rng * dict) :=
  match fuel with
  | O => Raise OutOfFuel
  | S f =>
      match own, other with
      | oc :: own', tc :: other' =>
          if key_eqb oc tc then diff_loop f own' other' ranges res
          else if net_in_net oc tc then diff_loop f own' other ranges res
          else if net_in_net tc oc then
            do r <- subtract oc other ranges; diff_loop f own' (fst r) (snd r) res
          else if net_ltb oc tc then diff_loop f own' other ranges (dset res oc)
          else diff_loop f own other' ranges res
      | _, [] => Ok (ranges, fold_left dset own res)
      | [], _ => Ok (ranges, res)
      end
  end.
Definition set_difference (a b : dict) : outcome dict :=
  do r <- diff_loop (length a + length b + 1) (sorted a) (sorted b) [] [];
  do cs <- cidrs_of_ranges (iter_merged_ranges (fst r));
  Ok (fold_left dset cs (snd r)).

Definition set_union (a b : dict) : outcome dict := set_update (dupdate [] a) (ASet b).
Definition set_isdisjoint (a b : dict) : outcome bool :=
  do r <- set_intersection a b; Ok (match r with [] => true | _ => false end).

(* iscontiguous (as repaired), iprange, iter_ipranges (lines 704-748) *)
Fixpoint contiguous_loop (previous : net) (l : list net) : bool :=
  match l with
  | [] => true
  | c :: r => if negb (nver c =? nver previous) || negb (nf c =? nl previous + 1) then false
              else contiguous_loop c r
  end.
Definition set_iscontiguous (d : dict) : bool :=
  match sorted d with
  | c0 :: ((_ :: _) as r) => contiguous_loop c0 r
  | _ => true
  end.

(* iprange(): None for the empty set; IPRange(cidrs[0][0], cidrs[-1][-1]) — the IPRange constructor checks
   versions (second address parsed with the first one's version: AddrFormatError if its value does not fit)
   and start <= end *)
Definition set_iprange (d : dict) : outcome (option rng) :=
  if set_iscontiguous d then
    match sorted d with
    | [] => Ok None
    | c0 :: r => let cl := last r c0 in
                 if negb (nver c0 =? nver cl) then Raise ValueError
                 else if nf c0 >? nl cl then Raise AddrFormatError
                 else Ok (Some (nver c0, nf c0, nl cl))
    end
  else Raise ValueError.

Definition set_iter_ipranges (d : dict) : list rng := iter_merged_ranges (map rng_of (sorted d)).
