(* Model/SrcPrelude.v — the two constructor symbols that the generated source translation (Gen/pysrc_gen.v,
   written by harness/gen/pysrc.py) uses for constructor calls inside translated methods.  Nothing else lives here. *)
From Coq Require Import ZArith Bool.
From NV Require Import Base.PyVal Model.Ip.
Open Scope Z_scope.

(* IPAddress(e, version) / self.__class__(e, version) / klass(e, version) with an int e and an int version:
   IPAddress.__init__ lines 262-319, explicit-version integer branch (Ip.addr_of_int_ver); the object is (version, value) *)
Definition mk_addr (ver e : Z) : outcome (Z * Z) := addr_of_int_ver e ver.

(* IPNetwork((value, prefixlen), version=ver): IPNetwork.__init__ branches `version == 4` / `version == 6` /
   `version is not None -> ValueError`, then the tuple branch of parse_ip_network (two range checks) *)
Definition mk_net (ver value prefixlen : Z) : outcome net :=
  if valid_ver ver then
    if negb ((0 <=? value) && (value <=? max_int ver)) then Raise AddrFormatError
    else if negb ((0 <=? prefixlen) && (prefixlen <=? width ver)) then Raise AddrFormatError
    else Ok {| nver := ver; nval := value; nplen := prefixlen |}
  else Raise ValueError.

(* ---- added for functions with loops and lists (harness/gen/pysrc.py, second round) ---- *)
From Coq Require Import List.
Import ListNotations.

(* list.pop(): (the list without its last element, the last element); IndexError on an empty list.
   Same text as Merge.pop_last, repeated here so that the generated files do not depend on Model/Merge.v. *)
Fixpoint py_pop {A} (l : list A) : outcome (list A * A) :=
  match l with
  | [] => Raise IndexError
  | [x] => Ok ([], x)
  | x :: r => do p <- py_pop r; Ok (x :: fst p, snd p)
  end.

(* the operand of `x in y`, by its class: the three BaseIP kinds of Contains.ipobj (same fields, same order) plus
   "anything else" (a string, ...), for which the Python methods fall back to a parser (not translated). *)
Inductive operand :=
| OAddr (ver v : Z)          (* IPAddress: _module.version, _value *)
| ONet (ver v p : Z)         (* IPNetwork: version, _value (host bits kept), _prefixlen *)
| ORng (ver s e : Z)         (* IPRange / IPGlob: version, _start._value, _end._value *)
| OOther.                    (* no BaseIP object *)
