(* Model/SrcPrelude.v — the two constructor symbols that the generated source translation (Gen/pysrc_gen.v,
   written by harness/gen/pysrc.py) uses for constructor calls inside translated methods.  Nothing else lives here. *)
From Coq Require Import ZArith Bool.
From NV Require Import Base.PyVal Model.Ip.
Open Scope Z_scope.

(* IPAddress(e, version) / self.__class__(e, version) / klass(e, version) with an int e and an int version:
   IPAddress.__init__ lines 262-319, explicit-version integer branch (Ip.addr_of_int_ver); the object is (version, value) *)
Definition mk_addr (ver e : Z) : outcome (Z * Z) := addr_of_int_ver e ver.

(* IPNetwork((value, prefixlen), version=ver): IPNetwork.__init__ branches `version == 4` / `version == 6` /
   `version is not None -> ValueError`, then the tuple branch of parse_ip_network (two range checks) *)
Definition mk_net (ver value prefixlen : Z) : outcome net :=
  if valid_ver ver then
    if negb ((0 <=? value) && (value <=? max_int ver)) then Raise AddrFormatError
    else if negb ((0 <=? prefixlen) && (prefixlen <=? width ver)) then Raise AddrFormatError
    else Ok {| nver := ver; nval := value; nplen := prefixlen |}
  else Raise ValueError.
