(* Model/SrcPrelude.v — the two constructor symbols that the generated source translation (Gen/pysrc_gen.v,
   written by harness/gen/pysrc.py) uses for constructor calls inside translated methods.  Nothing else lives here. *)
From Coq Require Import ZArith Bool.
From NV Require Import Base.PyVal Model.Ip.
Open Scope Z_scope.

(* IPAddress(e, version) / self.__class__(e, version) / klass(e, version) with an int e and an int version:
   IPAddress.__init__ lines 262-319, explicit-version integer branch (Ip.addr_of_int_ver); the object is (version, value) *)
Definition mk_addr (ver e : Z) : outcome (Z * Z) := addr_of_int_ver e ver.

(* IPNetwork((value, prefixlen), version=ver): IPNetwork.__init__ branches `version == 4` / `version == 6` /
   `version is not None -> ValueError`, then the tuple branch of parse_ip_network (two range checks) *)
Definition mk_net (ver value prefixlen : Z) : outcome net :=
  if valid_ver ver then
    if negb ((0 <=? value) && (value <=? max_int ver)) then Raise AddrFormatError
    else if negb ((0 <=? prefixlen) && (prefixlen <=? width ver)) then Raise AddrFormatError
    else Ok {| nver := ver; nval := value; nplen := prefixlen |}
  else Raise ValueError.

(* ---- added for functions with loops and lists (harness/gen/pysrc.py, second round) ---- *)
From Coq Require Import List.
Import ListNotations.

(* list.pop(): (the list without its last element, the last element); IndexError on an empty list.
   Same text as Merge.pop_last, repeated here so that the generated files do not depend on Model/Merge.v. *)
Fixpoint py_pop {A} (l : list A) : outcome (list A * A) :=
  match l with
  | [] => Raise IndexError
  | [x] => Ok ([], x)
  | x :: r => do p <- py_pop r; Ok (x :: fst p, snd p)
  end.

(* the operand of `x in y`, by its class: the three BaseIP kinds of Contains.ipobj (same fields, same order) plus
   "anything else" (a string, ...), for which the Python methods fall back to a parser (not translated). *)
Inductive operand :=
| OAddr (ver v : Z)          (* IPAddress: _module.version, _value *)
| ONet (ver v p : Z)         (* IPNetwork: version, _value (host bits kept), _prefixlen *)
| ORng (ver s e : Z)         (* IPRange / IPGlob: version, _start._value, _end._value *)
| OOther.                    (* no BaseIP object *)

(* ---- added for netaddr/contrib/subnet_splitter.py (harness/gen/pysrc.py, third round) ---- *)

(* the truth value of a list: `if l:` / `if not l:` *)
Definition py_nonempty {A} (l : list A) : bool := match l with [] => false | _ :: _ => true end.

(* equality (and hashing) of IPNetwork objects as set elements: IPNetwork.__eq__ / __hash__ compare key() =
   (version, first, last) *)
Definition net_key_eqb (a b : net) : bool :=
  (nver a =? nver b)
  && (net_first (width (nver a)) (nval a) (nplen a) =? net_first (width (nver b)) (nval b) (nplen b))
  && (net_last (width (nver a)) (nval a) (nplen a) =? net_last (width (nver b)) (nval b) (nplen b)).

(* A Python set is represented by the list of its elements, without duplicates under `eqb`, in an order that stands
   for the (unspecified) iteration order; new elements go to the end.  s.remove(x): KeyError if no element equals x *)
Fixpoint py_set_remove {A} (eqb : A -> A -> bool) (s : list A) (x : A) : outcome (list A) :=
  match s with
  | [] => Raise KeyError
  | y :: r => if eqb x y then Ok r else do r' <- py_set_remove eqb r x; Ok (y :: r')
  end.
(* adding one element: an element equal to one already present is dropped (the one present stays) *)
Definition py_set_add {A} (eqb : A -> A -> bool) (s : list A) (x : A) : list A :=
  if existsb (eqb x) s then s else s ++ [x].
(* set(l) for a list l *)
Definition py_set_of_list {A} (eqb : A -> A -> bool) (l : list A) : list A := fold_left (py_set_add eqb) l [].
(* s.union(t): a new set, the elements of s first *)
Definition py_set_union {A} (eqb : A -> A -> bool) (s t : list A) : list A := fold_left (py_set_add eqb) t s.

(* sorted(xs, key=k, reverse=True): stable (elements with equal keys keep their relative order), descending by key;
   insertion sort from the right, an element goes in front of the first one whose key is not larger *)
Fixpoint py_ins_desc {A} (key : A -> Z) (x : A) (l : list A) : list A :=
  match l with
  | [] => [x]
  | y :: r => if key y <=? key x then x :: l else y :: py_ins_desc key x r
  end.
Definition py_sorted_desc {A} (key : A -> Z) (l : list A) : list A := fold_right (py_ins_desc key) [] l.

(* [y for x in xs for y in f(x)]: the lists f(x) one after the other; f(x) is evaluated in order, the first exception wins *)
Fixpoint py_flat_map_o {A B} (f : A -> outcome (list B)) (l : list A) : outcome (list B) :=
  match l with
  | [] => Ok []
  | x :: r => do here <- f x; do rest <- py_flat_map_o f r; Ok (here ++ rest)
  end.

(* ---- added for IPListMixin.__getitem__ (third round) ---- *)
(* try: <body> / except E1: raise E2(..): an exception of class E1 leaving the body is replaced by E2.  E1 is compared by
   class: none of the exception classes of Base/PyVal.v derives from another one (AddrFormatError, AddrConversionError and
   NotRegisteredError derive from Exception; OutOfFuel and Unsupported are modelling devices, never caught). *)
Definition py_except {A} (e1 e2 : exn) (o : outcome A) : outcome A :=
  match o with
  | Raise e => if exn_eqb e e1 then Raise e2 else Raise e
  | Ok a => Ok a
  end.

(* ---- added for the classification predicates (third round) ---- *)
(* the truth value of the result of a method that returns a bool on some paths and falls off its end (None) on the others *)
Definition py_truthy (o : option bool) : bool := match o with Some b => b | None => false end.
