(* Model/Iana.v — netaddr/ip/iana.py: `_within_bounds` (406-415) and `query` (418-445) over a table parameter
   that stands for the four IANA_INFO dictionaries (41-47) in dict order.  No proofs here.

   A dictionary key is an IPNetwork, an IPRange or an IPAddress (DictUpdater.update, 334-362, creates nothing
   else), so the last line of `_within_bounds` (`raise Exception`) is not reachable and has no counterpart.
   A row carries exactly what the three `__contains__` / `__eq__` implementations read from the key object. *)
From Coq Require Import ZArith List Bool.
From NV Require Import Base.PyVal Model.Ip.
Import ListNotations.
Open Scope Z_scope.

Inductive kind := KN (* IPNetwork: x = _value, y = _prefixlen *)
                | KG (* IPRange:   x = _start._value, y = _end._value *)
                | KA (* IPAddress: x = y = _value *).

Record irow := IRow { r_reg : Z; r_id : Z; r_kind : kind; r_ver : Z; r_x : Z; r_y : Z }.

(* registry tags: IANA_INFO['IPv4'], ['multicast'], ['IPv6'], ['IPv6_unicast'];
   the result keys of query() are 'IPv4', 'Multicast', 'IPv6', 'IPv6_unicast' in the same numbering *)
Definition REG_IPV4 : Z := 0.
Definition REG_MCAST : Z := 1.
Definition REG_IPV6 : Z := 2.
Definition REG_IPV6U : Z := 3.

(* IPNetwork.__contains__(IPAddress), ip/__init__.py 1130-1153 *)
Definition net_contains_addr (sver sval splen over oval : Z) : bool :=
  if negb (sver =? over) then false
  else
    let shiftwidth := width sver - splen in
    let self_net := Z.shiftr sval shiftwidth in
    let other_net := Z.shiftr oval shiftwidth in
    other_net =? self_net.

(* IPRange.__contains__(IPAddress), 1419-1425 *)
Definition range_contains_addr (sver sstart send over oval : Z) : bool :=
  if negb (sver =? over) then false
  else (sstart <=? oval) && (send >=? oval).

(* IPAddress.__eq__: key() tuples (version, value) are equal, 62-70 *)
Definition addr_eq (sver sval over oval : Z) : bool := (over =? sver) && (oval =? sval).

(* _within_bounds(ip, ip_range): hasattr 'first' -> `ip in ip_range`; hasattr 'value' -> `ip == ip_range` *)
Definition within_bounds (ver v : Z) (r : irow) : bool :=
  match r_kind r with
  | KN => net_contains_addr (r_ver r) (r_x r) (r_y r) ver v
  | KG => range_contains_addr (r_ver r) (r_x r) (r_y r) ver v
  | KA => addr_eq (r_ver r) (r_x r) ver v
  end.

(* IPAddress.is_multicast() for an IPv4 address: `self in IPV4_MULTICAST`, IPV4_MULTICAST = IPNetwork('224.0.0.0/4') *)
Definition IPV4_MULTICAST_value : Z := 3758096384.
Definition is_multicast4 (ver v : Z) : bool := net_contains_addr 4 IPV4_MULTICAST_value 4 ver v.

(* IANA_INFO[reg] *)
Definition sub_dict (tab : list irow) (reg : Z) : list irow := filter (fun r => r_reg r =? reg) tab.

(* for k, record in items(): if _within_bounds(ip, k): info.setdefault(name, []); info[name].append(record) *)
Definition scan (wb : irow -> bool) (d : list irow) (name : Z) (info : list (Z * list irow)) : list (Z * list irow) :=
  match filter wb d with
  | [] => info
  | hits => info ++ [(name, hits)]
  end.

(* the body of query() with the two tests it makes on the address abstracted (instantiated just below);
   `dict name` stands for IANA_INFO[name] *)
Definition query_gen (wb : irow -> bool) (mc : bool) (dict : Z -> list irow) (ver : Z) : list (Z * list irow) :=
  if ver =? 4 then
    let info := scan wb (dict REG_IPV4) REG_IPV4 [] in
    if mc then scan wb (dict REG_MCAST) REG_MCAST info else info
  else if ver =? 6 then
    let info := scan wb (dict REG_IPV6) REG_IPV6 [] in
    scan wb (dict REG_IPV6U) REG_IPV6U info
  else [].

Definition query (tab : list irow) (ver v : Z) : list (Z * list irow) :=
  query_gen (within_bounds ver v) (is_multicast4 ver v) (sub_dict tab) ver.

(* the records returned under one result key, as record ids *)
Fixpoint lookup_reg (reg : Z) (info : list (Z * list irow)) : list irow :=
  match info with
  | [] => []
  | (k, l) :: t => if k =? reg then l else lookup_reg reg t
  end.
Definition query_ids (tab : list irow) (ver v reg : Z) : list Z := map r_id (lookup_reg reg (query tab ver v)).

(* what the key object reports as .first / .last (IPAddress keys: the value) *)
Definition row_first (r : irow) : Z :=
  match r_kind r with KN => net_first (width (r_ver r)) (r_x r) (r_y r) | KG => r_x r | KA => r_x r end.
Definition row_last (r : irow) : Z :=
  match r_kind r with KN => net_last (width (r_ver r)) (r_x r) (r_y r) | KG => r_y r | KA => r_x r end.
