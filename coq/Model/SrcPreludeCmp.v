(* Model/SrcPreludeCmp.v -- builtins used by the generated translation of BaseIP's rich comparisons and of IPRange.sort_key
   (harness/gen/pysrc.py, block SRCE), as named symbols.  Each symbol IS the hand model's definition (Model/Order.v):
   * py_num_bits = core.num_bits = int.bit_length (Order.num_bits: the documented loop `while int_val: numbits += 1;
     int_val >>= 1`, one constructor of the binary numeral per iteration); the translator checks that netaddr/core.py still
     defines num_bits as `return int_val.bit_length()`;
   * py_tuple_<op> = Python's rich comparison of two tuples of ints (Order.tuple_cmp: CPython tuplerichcompare -- the first
     index where the items differ decides, else the lengths).
   The hash of a tuple is not a symbol at all: the generated __hash__ takes it as a parameter (any function). *)
From Coq Require Import ZArith List Bool.
From NV Require Import Base.PyVal Model.Ip.
From NV Require Model.Order.
Open Scope Z_scope.

Definition py_num_bits (int_val : Z) : Z := Order.num_bits int_val.
Definition py_tuple_eq (a b : list Z) : bool := Order.tuple_cmp Order.OpEq a b.
Definition py_tuple_ne (a b : list Z) : bool := Order.tuple_cmp Order.OpNe a b.
Definition py_tuple_lt (a b : list Z) : bool := Order.tuple_cmp Order.OpLt a b.
Definition py_tuple_le (a b : list Z) : bool := Order.tuple_cmp Order.OpLe a b.
Definition py_tuple_gt (a b : list Z) : bool := Order.tuple_cmp Order.OpGt a b.
Definition py_tuple_ge (a b : list Z) : bool := Order.tuple_cmp Order.OpGe a b.
