(* Model/SrcPreludeMerge.v -- the one callee of cidr_merge that harness/gen/pysrc.py (block SRCE) does NOT translate:
   `ranges.sort()` on the list of tuples (version, last, first, original object).  The symbol IS the hand model's sort
   (Model/Merge.v rt_sort: lexicographic on the three ints; CPython compares the 4th components -- IP objects, through
   BaseIP.__lt__ -- only between tuples whose three ints agree, and the backward scan of cidr_merge merges such tuples
   whatever their relative order, as the comment of Merge.rt_leb explains).  list.sort itself stays tied by differential
   execution (check C05). *)
From Coq Require Import ZArith List Bool.
From NV Require Import Base.PyVal Model.Ip Model.Merge.
Import ListNotations.
Open Scope Z_scope.

Definition py_sort_ranges (l : list rtuple) : list rtuple := rt_sort l.
