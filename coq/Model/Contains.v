(* Model/Contains.v — `x in y` for IPNetwork / IPRange (IPGlob) / IPListMixin containers and the three
   CIDR matching helpers of netaddr/ip/__init__.py.  Each definition mirrors the Python method named in
   its comment, with its own spelling.  No proofs here.

   W : Z -> Z is `_module.width` as a function of `_module.version` (instantiated with Ip.width by the
   command table; the theorems hold for any W). *)
From Coq Require Import ZArith List Bool.
From NV Require Import Base.PyVal Model.Ip.
Import ListNotations.
Open Scope Z_scope.

(* the three kinds of BaseIP operand; IPGlob is a subclass of IPRange with the same __contains__ *)
Inductive ipobj :=
| Addr (ver v : Z)          (* IPAddress: _module.version, _value *)
| Net (ver v p : Z)         (* IPNetwork: version, _value (host bits kept), _prefixlen *)
| Rng (ver s e : Z).        (* IPRange / IPGlob: version, _start._value, _end._value *)

Definition over (o : ipobj) : Z := match o with Addr ver _ | Net ver _ _ | Rng ver _ _ => ver end.

(* Python's >> and << raise ValueError("negative shift count") for a negative right operand *)
Definition py_shiftr (a n : Z) : outcome Z := if n <? 0 then Raise ValueError else Ok (Z.shiftr a n).
Definition py_shiftl (a n : Z) : outcome Z := if n <? 0 then Raise ValueError else Ok (Z.shiftl a n).

(* ---- IPNetwork.__contains__ (lines 1130-1158), self = (sver, sv, sp), other a BaseIP ---- *)
Definition net_contains (W : Z -> Z) (sver sv sp : Z) (other : ipobj) : outcome bool :=
  if negb (sver =? over other) then Ok false
  else
    let shiftwidth := W sver - sp in
    do self_net <- py_shiftr sv shiftwidth;
    match other with
    | Rng _ s e =>
        do lo <- py_shiftl self_net shiftwidth;
        if lo <=? s then (do nxt <- py_shiftl (self_net + 1) shiftwidth; Ok (nxt >? e)) else Ok false
    | Addr _ v =>
        do other_net <- py_shiftr v shiftwidth; Ok (other_net =? self_net)
    | Net _ v p =>
        do other_net <- py_shiftr v shiftwidth; Ok ((self_net =? other_net) && (sp <=? p))
    end.

(* ---- IPRange.__contains__ (lines 1419-1439), self = (sver, ss, se) ---- *)
Definition range_contains (W : Z -> Z) (sver ss se : Z) (other : ipobj) : outcome bool :=
  if negb (sver =? over other) then Ok false
  else
    match other with
    | Addr _ v => Ok ((ss <=? v) && (se >=? v))
    | Rng _ s e => Ok ((ss <=? s) && (se >=? e))
    | Net ver v p =>
        let shiftwidth := W ver - p in
        do hi <- py_shiftr v shiftwidth;
        do other_start <- py_shiftl hi shiftwidth;
        do one <- py_shiftl 1 shiftwidth;
        let other_next_start := other_start + one in
        Ok ((ss <=? other_start) && (se >=? other_next_start - 1))
    end.

(* .first / .last of a ranged object (IPNetwork.first/.last lines 1027-1041 are Ip.net_first/net_last;
   IPRange.first/.last are int(_start), int(_end)) *)
Definition obj_first (W : Z -> Z) (o : ipobj) : Z :=
  match o with Addr _ v => v | Net ver v p => net_first (W ver) v p | Rng _ s _ => s end.
Definition obj_last (W : Z -> Z) (o : ipobj) : Z :=
  match o with Addr _ v => v | Net ver v p => net_last (W ver) v p | Rng _ _ e => e end.

(* ---- IPListMixin.__contains__ (lines 744-760); self is any ranged object providing
   _module.version, .first, .last (reachable only from user subclasses) ---- *)
Definition mixin_contains (W : Z -> Z) (self other : ipobj) : outcome bool :=
  if negb (over self =? over other) then Ok false
  else
    match other with
    | Addr _ v => Ok ((v >=? obj_first W self) && (v <=? obj_last W self))
    | _ => Ok ((obj_first W other >=? obj_first W self) && (obj_last W other <=? obj_last W self))
    end.

(* dispatch on the container's class *)
Definition contains (W : Z -> Z) (y x : ipobj) : outcome bool :=
  match y with
  | Net ver v p => net_contains W ver v p x
  | Rng ver s e => range_contains W ver s e x
  | Addr _ _ => Raise TypeError            (* IPAddress has no __contains__ *)
  end.

(* operands that are not BaseIP objects (strings): `IPNetwork(other) in self` for network containers,
   `IPAddress(other) in self` for IPRange / IPListMixin containers.  The constructor's result is an input
   here (parsing is C01/C03's business); a raising constructor propagates. *)
Definition net_contains_other (W : Z -> Z) (sver sv sp : Z) (parsed : outcome net) : outcome bool :=
  do n <- parsed; net_contains W sver sv sp (Net (nver n) (nval n) (nplen n)).
Definition range_contains_other (W : Z -> Z) (sver ss se : Z) (parsed : outcome (Z * Z)) : outcome bool :=
  do a <- parsed; range_contains W sver ss se (Addr (fst a) (snd a)).
Definition mixin_contains_other (W : Z -> Z) (self : ipobj) (parsed : outcome (Z * Z)) : outcome bool :=
  do a <- parsed; mixin_contains W self (Addr (fst a) (snd a)).

(* ---- IPNetwork.sort_key (lines 1166-1173) ---- *)
Definition sort_key (W : Z -> Z) (n : net) : Z * Z * Z * Z :=
  let w := W (nver n) in
  let net_size_bits := nplen n - 1 in
  let first := Z.land (nval n) (Z.lxor (max_int_w w) (hostmask_int w (nplen n))) in
  let host_bits := nval n - first in
  (nver n, first, net_size_bits, host_bits).

(* Python's `<` on 4-tuples of ints: first differing position decides *)
Definition key_lt (a b : Z * Z * Z * Z) : bool :=
  let '(a1, a2, a3, a4) := a in
  let '(b1, b2, b3, b4) := b in
  if negb (a1 =? b1) then a1 <? b1
  else if negb (a2 =? b2) then a2 <? b2
  else if negb (a3 =? b3) then a3 <? b3
  else a4 <? b4.

(* BaseIP.__lt__ (lines 86-96) *)
Definition net_lt (W : Z -> Z) (a b : net) : bool := key_lt (sort_key W a) (sort_key W b).

(* sorted(list): stable sort using only `<`; modelled as insertion sort (x goes before the first
   element that is not smaller than it, so earlier equal elements stay first) *)
Fixpoint insert_sorted (W : Z -> Z) (x : net) (l : list net) : list net :=
  match l with
  | [] => [x]
  | y :: t => if net_lt W y x then y :: insert_sorted W x t else x :: y :: t
  end.
Fixpoint py_sorted (W : Z -> Z) (l : list net) : list net :=
  match l with [] => [] | x :: t => insert_sorted W x (py_sorted W t) end.

Definition as_obj (n : net) : ipobj := Net (nver n) (nval n) (nplen n).
(* `ip in cidr` *)
Definition ip_in (W : Z -> Z) (ipver ipv : Z) (c : net) : outcome bool :=
  net_contains W (nver c) (nval c) (nplen c) (Addr ipver ipv).
(* `cidr.network` (lines 1006-1009) : IPAddress(_value & _netmask_int, version) *)
Definition network_of (W : Z -> Z) (c : net) : ipobj :=
  Addr (nver c) (net_network (W (nver c)) (nval c) (nplen c)).

(* matches[-1] when `matches` is non-empty *)
Fixpoint last_opt {A} (l : list A) : option A :=
  match l with [] => None | [x] => Some x | _ :: t => last_opt t end.

(* ---- all_matching_cidrs loop (lines 1906-1911) ---- *)
Fixpoint scan_all (W : Z -> Z) (ipver ipv : Z) (l : list net) (matches : list net) : outcome (list net) :=
  match l with
  | [] => Ok matches
  | cidr :: t =>
      do b <- ip_in W ipver ipv cidr;
      if b then scan_all W ipver ipv t (matches ++ [cidr])
      else match last_opt matches with
           | None => scan_all W ipver ipv t matches                       (* `matches` is falsy *)
           | Some m =>
               do inside <- net_contains W (nver m) (nval m) (nplen m) (network_of W cidr);
               if negb inside then Ok matches                              (* break *)
               else scan_all W ipver ipv t matches
           end
  end.
Definition all_matching_cidrs (W : Z -> Z) (ipver ipv : Z) (cidrs : list net) : outcome (list net) :=
  scan_all W ipver ipv (py_sorted W cidrs) [].

(* ---- smallest_matching_cidr loop (lines 1851-1858) ---- *)
Fixpoint scan_smallest (W : Z -> Z) (ipver ipv : Z) (l : list net) (mat : option net) : outcome (option net) :=
  match l with
  | [] => Ok mat
  | cidr :: t =>
      do b <- ip_in W ipver ipv cidr;
      if b then scan_smallest W ipver ipv t (Some cidr)
      else match mat with
           | None => scan_smallest W ipver ipv t mat
           | Some m =>
               do inside <- net_contains W (nver m) (nval m) (nplen m) (network_of W cidr);
               if negb inside then Ok mat                                  (* break *)
               else scan_smallest W ipver ipv t mat
           end
  end.
Definition smallest_matching_cidr (W : Z -> Z) (ipver ipv : Z) (cidrs : list net) : outcome (option net) :=
  scan_smallest W ipver ipv (py_sorted W cidrs) None.

(* ---- largest_matching_cidr loop (lines 1879-1884) ---- *)
Fixpoint scan_largest (W : Z -> Z) (ipver ipv : Z) (l : list net) : outcome (option net) :=
  match l with
  | [] => Ok None
  | cidr :: t =>
      do b <- ip_in W ipver ipv cidr;
      if b then Ok (Some cidr)                                             (* match = cidr; break *)
      else scan_largest W ipver ipv t
  end.
Definition largest_matching_cidr (W : Z -> Z) (ipver ipv : Z) (cidrs : list net) : outcome (option net) :=
  scan_largest W ipver ipv (py_sorted W cidrs).
