(* Model/AddrText.v — address text <-> integer: netaddr/strategy/ipv4.py, netaddr/strategy/ipv6.py (valid_str,
   str_to_int, int_to_str, the three IPv6 dialect classes, back-end selection) and the string branch of
   IPAddress.__init__ (netaddr/ip/__init__.py), as written after the fix commit F-03 (ZEROFILL rewrite inside the
   `try`).

   ===== INTERFACE (used by C01 and by C03's network parser) =====================================================
     backend            Platform (socket functions = Std4/Std6 oracles of Model/IpText.v) | Fallback (Model/FbSocket.v)
     INET_PTON, ZEROFILL   flag bits 1, 2 (netaddr/core.py); flags are a Z tested with `Z.land`
     dialect            ipv6_compact | ipv6_full | ipv6_verbose  (record: pad4 = '%.4x' instead of '%x'; compact)
     str_to_int  be ver addr flags : outcome Z        module.str_to_int(addr, flags), ver in {4, 6}
     valid_str   be ver addr flags : outcome bool     module.valid_str(addr, flags)  (= valid_ipv4 / valid_ipv6)
     int_to_str  be ver v dialect  : outcome string   module.int_to_str(v, dialect); dialect = None is `None`
     init_str    be addr version flags : outcome (Z * Z)
                                                     IPAddress(addr, version, flags) for a `str` addr; result (version, value)
     addr_str be ver v = int_to_str be ver v None     str(IPAddress)
   Exceptions are the classes the Python code raises in the same branch.  The platform functions raise OSError (or
   ValueError for an embedded NUL), which is not in the `exn` enum; every call site catches `Exception` at once, so
   the platform failure is rendered as `Raise ValueError` and never escapes.
   ================================================================================================================ *)
From Coq Require Import ZArith List Bool String Ascii.
From NV Require Import Base.PyStr Base.PyVal Model.IpText Model.FbSocket.
Import ListNotations.
Open Scope string_scope.
Open Scope list_scope.
Open Scope Z_scope.

Inductive backend := Platform | Fallback.

Definition INET_PTON : Z := 1.
Definition ZEROFILL : Z := 2.
Definition has_flag (flags f : Z) : bool := negb (Z.land flags f =? 0).

Definition of_option {A} (o : option A) : outcome A :=
  match o with Some a => Ok a | None => Raise ValueError (* OSError/ValueError of the socket module; always caught *) end.

(* ---- back-end selection (strategy/ipv4.py:11-19, strategy/ipv6.py:13-26) ---- *)
Definition inet_pton4 (be : backend) (s : string) : outcome (list Z) :=
  match be with Platform => of_option (Std4.pton4 s) | Fallback => Fb.inet_pton4 s end.
Definition inet_pton6 (be : backend) (s : string) : outcome (list Z) :=
  match be with Platform => of_option (Std6.pton6 s) | Fallback => Fb.inet_pton6 s end.
Definition inet_ntop6 (be : backend) (ws : list Z) : outcome string :=
  match be with Platform => Ok (Std6.ntop6 ws) | Fallback => Fb.inet_ntop6 ws end.

(* struct.unpack('>I', packed)[0] on 4 octets *)
Definition unpack_I (o : list Z) : outcome Z :=
  match o with [a; b; c; d] => Ok (((a * 256 + b) * 256 + c) * 256 + d) | _ => Raise StructError end.

(* ================================================================ strategy/ipv4.py *)
(* '.'.join(['%d' % int(i) for i in addr.split('.')]) *)
Definition zerofill_rewrite (addr : string) : outcome string :=
  do toks <- Fb.map_out (fun i => match py_int 10 i with Some n => Ok (fmt_d n) | None => Raise ValueError end)
                        (split "." addr);
  Ok (join "." toks).

(* the body of the `try` shared by valid_str and str_to_int *)
Definition v4_parse (be : backend) (addr : string) (flags : Z) : outcome Z :=
  do addr' <- (if has_flag flags ZEROFILL then zerofill_rewrite addr else Ok addr);
  if has_flag flags INET_PTON
  then do p <- inet_pton4 be addr'; unpack_I p
  else of_option (Std4.aton addr').       (* struct.unpack('>I', socket.inet_aton(addr))[0]: both back-ends *)

Definition v4_valid_str (be : backend) (addr : string) (flags : Z) : outcome bool :=
  if String.eqb addr "" then Raise AddrFormatError
  else match v4_parse be addr flags with Ok _ => Ok true | Raise _ => Ok false end.   (* except Exception *)

Definition v4_str_to_int (be : backend) (addr : string) (flags : Z) : outcome Z :=
  match v4_parse be addr flags with Ok v => Ok v | Raise _ => Raise AddrFormatError end.   (* except Exception *)

Definition v4_int_to_str (int_val : Z) : outcome string :=
  if (0 <=? int_val) && (int_val <=? 4294967295)
  then Ok (fmt_d (Z.shiftr int_val 24) ++ "." ++ fmt_d (Z.land (Z.shiftr int_val 16) 255) ++ "." ++
           fmt_d (Z.land (Z.shiftr int_val 8) 255) ++ "." ++ fmt_d (Z.land int_val 255))%string
  else Raise ValueError.

(* ================================================================ strategy/__init__.py, strategy/ipv6.py *)
Record dialect := { pad4 : bool; compact : bool }.
Definition ipv6_compact := {| pad4 := false; compact := true |}.
Definition ipv6_full := {| pad4 := false; compact := false |}.
Definition ipv6_verbose := {| pad4 := true; compact := false |}.

(* strategy.int_to_words: words are collected least significant first, then reversed *)
Fixpoint int_to_words_loop (n : nat) (int_val max_word word_size : Z) (words : list Z) : list Z :=
  match n with
  | O => words
  | S k => int_to_words_loop k (Z.shiftr int_val word_size) max_word word_size (words ++ [Z.land int_val max_word])
  end.
Definition int_to_words (int_val word_size : Z) (num_words : nat) : outcome (list Z) :=
  let max_int := 2 ^ (Z.of_nat num_words * word_size) - 1 in
  if negb ((0 <=? int_val) && (int_val <=? max_int)) then Raise IndexError
  else Ok (rev (int_to_words_loop num_words int_val (2 ^ word_size - 1) word_size [])).

(* struct.pack('>4I', *words) as 8 sixteen-bit words *)
Definition pack_4I (words : list Z) : outcome (list Z) :=
  match words with
  | [a; b; c; d] =>
      if forallb (fun w => (0 <=? w) && (w <=? 4294967295)) words
      then Ok [a / 65536; a mod 65536; b / 65536; b mod 65536; c / 65536; c mod 65536; d / 65536; d mod 65536]
      else Raise StructError
  | _ => Raise StructError
  end.
(* struct.unpack('>4I', packed) *)
Definition unpack_4I (p : list Z) : outcome (list Z) :=
  match p with
  | [a; b; c; d; e; f; g; h] => Ok [a * 65536 + b; c * 65536 + d; e * 65536 + f; g * 65536 + h]
  | _ => Raise StructError
  end.

Definition int_to_packed (int_val : Z) : outcome (list Z) :=
  do words <- int_to_words int_val 32 4; pack_4I words.

Definition packed_to_int (p : list Z) : outcome Z :=
  do words <- unpack_4I p; Ok (Fb.or_words 32 (rev words) 0 0).

Definition v6_valid_str (be : backend) (addr : string) (flags : Z) : outcome bool :=
  if String.eqb addr "" then Raise AddrFormatError
  else match inet_pton6 be addr with Ok _ => Ok true | Raise _ => Ok false end.

Definition v6_str_to_int (be : backend) (addr : string) (flags : Z) : outcome Z :=
  match (do p <- inet_pton6 be addr; packed_to_int p) with
  | Ok v => Ok v
  | Raise _ => Raise AddrFormatError
  end.

Definition v6_int_to_str (be : backend) (int_val : Z) (d : option dialect) : outcome string :=
  let d := match d with Some d => d | None => ipv6_compact end in
  match (do packed <- int_to_packed int_val;
         if compact d then inet_ntop6 be packed
         else Ok (join ":" (map (fun w => if pad4 d then fmt_x_pad 4 w else fmt_x w) packed)))
  with
  | Ok s => Ok s
  | Raise _ => Raise ValueError
  end.

(* ================================================================ dispatch on the module *)
Definition str_to_int (be : backend) (ver : Z) (addr : string) (flags : Z) : outcome Z :=
  if ver =? 4 then v4_str_to_int be addr flags else v6_str_to_int be addr flags.
Definition valid_str (be : backend) (ver : Z) (addr : string) (flags : Z) : outcome bool :=
  if ver =? 4 then v4_valid_str be addr flags else v6_valid_str be addr flags.
Definition int_to_str (be : backend) (ver : Z) (v : Z) (d : option dialect) : outcome string :=
  if ver =? 4 then v4_int_to_str v else v6_int_to_str be v d.
Definition addr_str (be : backend) (ver v : Z) : outcome string := int_to_str be ver v None.

(* ================================================================ IPAddress.__init__, `str` argument *)
Definition init_str (be : backend) (addr : string) (version : option Z) (flags : Z) : outcome (Z * Z) :=
  do module <- (match version with
                | None => Ok None
                | Some v => if v =? 4 then Ok (Some 4) else if v =? 6 then Ok (Some 6)
                            else Raise ValueError           (* '%r is an invalid IP version!' *)
                end);
  if contains_char "/" addr then Raise ValueError            (* 'does not support netmasks or subnet prefixes!' *)
  else
    match module with
    | None =>                                               (* for module in _ipv4, _ipv6: try ... except: continue *)
        match str_to_int be 4 addr flags with
        | Ok v => Ok (4, v)
        | Raise _ =>
            match str_to_int be 6 addr flags with
            | Ok v => Ok (6, v)
            | Raise _ => Raise AddrFormatError               (* 'failed to detect a valid IP address from %r' *)
            end
        end
    | Some m =>
        match str_to_int be m addr flags with
        | Ok v => Ok (m, v)
        | Raise AddrFormatError => Raise AddrFormatError     (* 'base address %r is not IPv%d' *)
        | Raise e => Raise e                                 (* anything else would propagate *)
        end
    end.
