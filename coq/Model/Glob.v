(* Model/Glob.v — netaddr/ip/glob.py (after the F-16 repair): valid_glob, glob_to_iptuple, glob_to_iprange,
   iprange_to_globs (+ inner _iprange_to_glob), glob_to_cidrs, cidr_to_glob, IPGlob.
   Each definition mirrors the Python function named in its comment, with its own case analysis. *)
From Coq Require Import ZArith List Bool String Ascii.
From NV Require Import Base.PyVal Base.PyStr Model.Ip.
Import ListNotations.
Open Scope string_scope.
Open Scope Z_scope.

Definition ch_dot : ascii := "."%char.
Definition ch_hyphen : ascii := "-"%char.

Fixpoint map_outcome {A B} (f : A -> outcome B) (l : list A) : outcome (list B) :=
  match l with
  | [] => Ok []
  | a :: r => do b <- f a; do bs <- map_outcome f r; Ok (b :: bs)
  end.

Definition is_empty (s : string) : bool := match s with EmptyString => true | _ => false end.
Definition len {A} (l : list A) : Z := Z.of_nat (List.length l).

(* a canonical ASCII decimal: non-empty, digits only, no leading zero unless it is "0"; None otherwise.
   (int() is applied to a string the check has accepted.) *)
Definition canon_dec (token : string) : option Z :=
  if is_empty token
     || existsb (fun c => negb (is_digit c)) (chars token)
     || (match token with String c _ => ascii_eqb c ch_0 && negb (String.eqb token "0") | EmptyString => false end)
  then None
  else py_int 10 token.

(* _octet_value(token): ValueError (None) unless canonical *)
Definition octet_value (token : string) : option Z := canon_dec token.

(* ---- valid_glob: the `for octet in octets` loop with its two flags ---- *)
Fixpoint valid_glob_loop (octets : list string) (seen_hyphen seen_asterisk : bool) : bool :=
  match octets with
  | [] => true
  | octet :: rest =>
      if contains_char ch_hyphen octet then
        if seen_hyphen then false
        else (* seen_hyphen = True *)
          if seen_asterisk then false
          else match map octet_value (split ch_hyphen octet) with
               | [Some octet1; Some octet2] =>
                   if octet1 >=? octet2 then false
                   else if negb ((0 <=? octet1) && (octet1 <=? 254)) then false
                   else if negb ((1 <=? octet2) && (octet2 <=? 255)) then false
                   else valid_glob_loop rest true seen_asterisk
               | _ => false          (* ValueError: a bad numeral, or not exactly two parts to unpack *)
               end
      else if String.eqb octet "*" then valid_glob_loop rest seen_hyphen true
      else if seen_hyphen then false
      else if seen_asterisk then false
      else match octet_value octet with
           | Some v => if negb ((0 <=? v) && (v <=? 255)) then false
                       else valid_glob_loop rest seen_hyphen seen_asterisk
           | None => false
           end
  end.

Definition valid_glob (ipglob : string) : bool :=
  let octets := split ch_dot ipglob in
  if negb (len octets =? 4) then false else valid_glob_loop octets false false.

(* ---- the platform parser on the strings this module hands to IPAddress()/IPRange() ----
   inet_pton(AF_INET) accepts exactly the canonical dotted quads (four canonical decimals <= 255).
   inet_aton (default flags) accepts more, but agrees with inet_pton on canonical quads; strings outside
   that set are not modelled here (general address parsing is property C01): Unsupported, proved unreachable. *)
Definition of_octets (l : list Z) : Z := fold_left (fun acc o => acc * 256 + o) l 0.

Definition pton4 (s : string) : option Z :=
  match map canon_dec (split ch_dot s) with
  | [Some a; Some b; Some c; Some d] =>
      if (a <=? 255) && (b <=? 255) && (c <=? 255) && (d <=? 255) then Some (of_octets [a; b; c; d]) else None
  | _ => None
  end.

Definition ip_of_canon (s : string) : outcome Z :=
  match pton4 s with Some v => Ok v | None => Raise Unsupported end.

(* ---- glob_to_iptuple / glob_to_iprange: the token loop ---- *)
Fixpoint glob_tokens (octets : list string) : outcome (list string * list string) :=
  match octets with
  | [] => Ok ([], [])
  | octet :: rest =>
      do st <- (if contains_char ch_hyphen octet then
                  match split ch_hyphen octet with
                  | t0 :: t1 :: _ => Ok (t0, t1)
                  | _ => Raise IndexError
                  end
                else if String.eqb octet "*" then Ok ("0", "255")
                else Ok (octet, octet));
      do r <- glob_tokens rest;
      Ok (fst st :: fst r, snd st :: snd r)
  end.

(* returns the values of the two IPv4 IPAddress objects *)
Definition glob_to_iptuple (ipglob : string) : outcome (Z * Z) :=
  if negb (valid_glob ipglob) then Raise AddrFormatError
  else
    do tk <- glob_tokens (split ch_dot ipglob);
    do a <- ip_of_canon (join "." (fst tk));
    do b <- ip_of_canon (join "." (snd tk));
    Ok (a, b).

(* IPRange(start, end): both addresses parsed, then the ordering check of IPRange.__init__ *)
Definition glob_to_iprange (ipglob : string) : outcome (Z * Z) :=
  if negb (valid_glob ipglob) then Raise AddrFormatError
  else
    do tk <- glob_tokens (split ch_dot ipglob);
    do a <- ip_of_canon (join "." (fst tk));
    do b <- ip_of_canon (join "." (snd tk));
    if a >? b then Raise AddrFormatError else Ok (a, b).

(* ---- iprange_to_globs ---- *)
(* strategy/ipv4.int_to_str: '%d.%d.%d.%d' % (v >> 24, (v >> 16) & 0xff, (v >> 8) & 0xff, v & 0xff) *)
Definition int_to_str4 (v : Z) : outcome string :=
  if (0 <=? v) && (v <=? max_int 4)
  then Ok (join "." [fmt_d (Z.shiftr v 24); fmt_d (Z.land (Z.shiftr v 16) 255);
                     fmt_d (Z.land (Z.shiftr v 8) 255); fmt_d (Z.land v 255)])
  else Raise ValueError.

(* [int(_) for _ in str(lb).split('.')] *)
Definition ints_of_str (s : string) : outcome (list Z) :=
  map_outcome (fun t => match py_int 10 t with Some v => Ok v | None => Raise ValueError end) (split ch_dot s).

(* the `for i in range(4)` loop of _iprange_to_glob; t1[i] / t2[i] raise IndexError on short lists *)
Fixpoint i2g_loop (n : nat) (t1 t2 : list Z) (seen_hyphen seen_asterisk : bool) : outcome (list string) :=
  match n with
  | O => Ok []
  | S n' =>
      match t1, t2 with
      | a :: r1, b :: r2 =>
          if a =? b then
            do r <- i2g_loop n' r1 r2 seen_hyphen seen_asterisk; Ok (fmt_d a :: r)
          else if (a =? 0) && (b =? 255) then
            do r <- i2g_loop n' r1 r2 seen_hyphen true; Ok ("*" :: r)
          else if negb seen_asterisk then
            if negb seen_hyphen then
              do r <- i2g_loop n' r1 r2 true seen_asterisk; Ok ((fmt_d a ++ "-" ++ fmt_d b)%string :: r)
            else Raise AddrConversionError
          else Raise AddrConversionError
      | _, _ => Raise IndexError
      end
  end.

(* _iprange_to_glob(lb, ub) on IPv4 address values *)
Definition iprange_to_glob1 (lb ub : Z) : outcome string :=
  do s1 <- int_to_str4 lb;
  do t1 <- ints_of_str s1;
  do s2 <- int_to_str4 ub;
  do t2 <- ints_of_str s2;
  do tokens <- i2g_loop 4 t1 t2 false false;
  Ok (join "." tokens).

Section WithCidrs.
(* iprange_to_cidrs(start, end) on two IPv4 address values: list of (network value, prefixlen).
   Property C05 is about this function; here it is a parameter. *)
Variable to_cidrs : Z -> Z -> outcome (list (Z * Z)).

(* start, end: (version, value) of IPAddress(start), IPAddress(end) *)
Definition iprange_to_globs (start end_ : Z * Z) : outcome (list string) :=
  let '(sver, s) := start in
  let '(ever, e) := end_ in
  if negb (sver =? 4) && negb (ever =? 4) then Raise AddrConversionError
  else if negb ((sver =? 4) && (ever =? 4)) then Raise Unsupported   (* mixed versions: str() of an IPv6 address; not modelled *)
  else
    let attempt := (do ipglob <- iprange_to_glob1 s e;
                    if negb (valid_glob ipglob) then Raise AddrConversionError else Ok [ipglob]) in
    match attempt with
    | Ok globs => Ok globs
    | Raise AddrConversionError =>
        do cidrs <- to_cidrs s e;
        (* cidr[0], cidr[-1] are IPAddress(first), IPAddress(last) *)
        map_outcome (fun c => iprange_to_glob1 (net_first 32 (fst c) (snd c)) (net_last 32 (fst c) (snd c))) cidrs
    | Raise ex => Raise ex
    end.

(* glob_to_cidrs *)
Definition glob_to_cidrs (ipglob : string) : outcome (list (Z * Z)) :=
  do t <- glob_to_iptuple ipglob; to_cidrs (fst t) (snd t).

(* cidr_to_glob(IPNetwork object (ver, v, p)) *)
Definition cidr_to_glob (ver v p : Z) : outcome string :=
  let w := width ver in
  do globs <- iprange_to_globs (ver, net_first w v p) (ver, net_last w v p);
  match globs with
  | [g] => Ok g
  | _ => Raise AddrConversionError
  end.

(* ---- IPGlob ---- *)
Record ipglob := { g_start : Z; g_end : Z; g_glob : option string }.   (* _glob unset = None *)

Definition first_of (l : list string) : outcome string :=
  match l with g :: _ => Ok g | [] => Raise IndexError end.

(* _set_glob: (self._start, self._end) = glob_to_iptuple(ipglob) happens before the second statement, which may raise *)
Definition set_glob (o : ipglob) (s : string) : ipglob * option exn :=
  match glob_to_iptuple s with
  | Raise e => (o, Some e)
  | Ok (a, b) =>
      let o1 := {| g_start := a; g_end := b; g_glob := g_glob o |} in
      match (do gl <- iprange_to_globs (4, a) (4, b); first_of gl) with
      | Ok g => ({| g_start := a; g_end := b; g_glob := Some g |}, None)
      | Raise e => (o1, Some e)
      end
  end.

(* IPGlob(ipglob) *)
Definition ipglob_new (s : string) : outcome ipglob :=
  do t <- glob_to_iptuple s;
  let '(a, b) := t in
  if a >? b then Raise AddrFormatError            (* IPRange.__init__ *)
  else
    let o := {| g_start := a; g_end := b; g_glob := None |} in
    do g <- (do gl <- iprange_to_globs (4, a) (4, b); first_of gl);
    match set_glob o g with
    | (o', None) => Ok o'
    | (_, Some e) => Raise e
    end.

(* __getstate__ *)
Definition ipglob_getstate (o : ipglob) : Z * Z * Z := (g_start o, g_end o, 4).

(* __setstate__((start, end, version)) on a fresh object *)
Definition ipglob_setstate (st : Z * Z * Z) : outcome ipglob :=
  let '(s, e, ver) := st in
  do a <- addr_of_int_ver s ver;
  do b <- addr_of_int_ver e ver;
  let o := {| g_start := snd a; g_end := snd b; g_glob := None |} in
  do g <- (do gl <- iprange_to_globs a b; first_of gl);
  match set_glob o g with
  | (o', None) => Ok o'
  | (_, Some e) => Raise e
  end.

(* __str__ *)
Definition ipglob_str (o : ipglob) : outcome string :=
  match g_glob o with Some g => Ok g | None => Raise AttributeError end.
End WithCidrs.

(* ---- an executable IPv4 decomposition used for the correspondence commands: the aligned blocks of the binary
   trie that lie inside [lo, hi], maximal ones only, left to right.  Compared against the real iprange_to_cidrs on
   every run; proved to meet the specification assumed of iprange_to_cidrs in Proofs/C17.v (cover_spec). ---- *)
Fixpoint cover (n : nat) (base lo hi : Z) : list (Z * Z) :=
  let size := 2 ^ Z.of_nat n in
  if (hi <? base) || (base + size - 1 <? lo) then []
  else if (lo <=? base) && (base + size - 1 <=? hi) then [(base, 32 - Z.of_nat n)]
  else match n with
       | O => []
       | S k => cover k base lo hi ++ cover k (base + 2 ^ Z.of_nat k) lo hi
       end.

Definition to_cidrs_exec (lo hi : Z) : outcome (list (Z * Z)) := Ok (cover 32 0 lo hi).
