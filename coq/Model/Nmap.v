(* Model/Nmap.v — netaddr/ip/nmap.py: _nmap_octet_target_values, _generate_nmap_octet_ranges,
   _parse_nmap_target_spec, valid_nmap_range, iter_nmap_range; plus the pieces of IPNetwork(str) they reach
   (parse_ip_network, expand_partial_address). *)
From Coq Require Import ZArith List Bool String Ascii.
From NV Require Import Base.PyVal Base.PyStr Model.Ip Model.Glob.
Import ListNotations.
Open Scope string_scope.
Open Scope Z_scope.

Definition ch_comma : ascii := ","%char.
Definition ch_slash : ascii := "/"%char.
Definition ch_colon : ascii := ":"%char.

(* range(lo, lo + n) *)
Fixpoint zseq (lo : Z) (n : nat) : list Z :=
  match n with O => [] | S k => lo :: zseq (lo + 1) k end.
Definition py_range (lo hi : Z) : list Z := zseq lo (Z.to_nat (hi - lo)).

(* a Python set of ints, represented by its sorted duplicate-free list; `values.add(x)` *)
Fixpoint set_add (x : Z) (l : list Z) : list Z :=
  match l with
  | [] => [x]
  | y :: r => if x <? y then x :: l else if x =? y then l else y :: set_add x r
  end.

Definition int_of (s : string) : outcome Z :=
  match py_int 10 s with Some v => Ok v | None => Raise ValueError end.

(* one `element` of the comma list: the values it adds, in order *)
Definition nmap_element (element : string) : outcome (list Z) :=
  if contains_char ch_hyphen element then
    match split1 ch_hyphen element with
    | [left_; right_] =>
        (* if not left: left = 0 / if not right: right = 255; int(0) = 0, int(255) = 255 *)
        do low <- (if is_empty left_ then Ok 0 else int_of left_);
        do high <- (if is_empty right_ then Ok 255 else int_of right_);
        if negb (((0 <=? low) && (low <=? 255)) && ((0 <=? high) && (high <=? 255))) then Raise ValueError
        else if low >? high then Raise ValueError
        else Ok (py_range low (high + 1))
    | _ => Raise ValueError       (* unpacking; not reachable when '-' is in element *)
    end
  else
    do octet <- int_of element;
    if negb ((0 <=? octet) && (octet <=? 255)) then Raise ValueError else Ok [octet].

Fixpoint nmap_values_loop (elements : list string) (values : list Z) : outcome (list Z) :=
  match elements with
  | [] => Ok values
  | element :: rest =>
      do new <- nmap_element element;
      nmap_values_loop rest (fold_left (fun s x => set_add x s) new values)
  end.

(* _nmap_octet_target_values(spec): sorted(values) of a set kept sorted is the list itself *)
Definition nmap_octet_target_values (spec : string) : outcome (list Z) :=
  nmap_values_loop (split ch_comma spec) [].

(* _generate_nmap_octet_ranges (str argument) *)
Definition generate_nmap_octet_ranges (spec : string) : outcome (list Z * list Z * list Z * list Z) :=
  if is_empty spec then Raise ValueError
  else
    match split ch_dot spec with
    | [t0; t1; t2; t3] =>
        do a <- nmap_octet_target_values t0;
        do b <- nmap_octet_target_values t1;
        do c <- nmap_octet_target_values t2;
        do d <- nmap_octet_target_values t3;
        Ok (a, b, c, d)
    | _ => Raise AddrFormatError
    end.

(* ---- strategy/ipv4.expand_partial_address (str argument) ---- *)
Definition expand_partial_address (addr : string) : outcome string :=
  if contains_char ch_colon addr then Raise AddrFormatError
  else
    match map_outcome (fun o => match py_int 10 o with Some v => Ok (fmt_d v) | None => Raise AddrFormatError end)
                      (if contains_char ch_dot addr then split ch_dot addr else [addr]) with
    | Raise e => Raise e
    | Ok tokens =>
        if (1 <=? len tokens) && (len tokens <=? 4)
        then Ok (join "." (tokens ++ repeat "0" (4 - List.length tokens))%list)
        else Raise AddrFormatError
    end.

Section WithPlatform.
(* inet_pton(AF_INET6, s): Some value / None = rejected.  (Platform function; property C01.) *)
Variable pton6 : string -> option Z.
(* IPAddress(s) with default flags and implicit version: (version, value).  (Property C01.) *)
Variable ip_address : string -> outcome (Z * Z).

(* IPAddress(s, 4, flags=INET_PTON) *)
Definition ipaddress4_pton (s : string) : outcome Z :=
  match pton4 s with Some v => Ok v | None => Raise AddrFormatError end.

(* parse_ip_network(module, addr) for a str `addr` containing '/', flags = 0, implicit_prefix = False.
   The netmask/hostmask form of the prefix (int(val2) fails) is not modelled: Unsupported, unreachable from nmap
   (which has already applied int() to the same text). *)
Definition parse_ip_network (ver : Z) (addr : string) : outcome (Z * Z) :=
  match split1 ch_slash addr with
  | [val1; val2] =>
      do value <- (if ver =? 4 then
                     match ipaddress4_pton val1 with
                     | Ok v => Ok v
                     | Raise AddrFormatError =>
                         do expanded_addr <- expand_partial_address val1;
                         ipaddress4_pton expanded_addr
                     | Raise e => Raise e
                     end
                   else
                     match pton6 val1 with Some v => Ok v | None => Raise AddrFormatError end);
      match py_int 10 val2 with
      | None => Raise Unsupported
      | Some prefixlen =>
          if negb ((0 <=? prefixlen) && (prefixlen <=? width ver)) then Raise AddrFormatError
          else Ok (value, prefixlen)
      end
  | _ => Raise Unsupported
  end.

(* IPNetwork(addr) for such a str: IPv4 first, then IPv6.  Returns (version, value, prefixlen). *)
Definition ipnetwork_of_str (addr : string) : outcome (Z * Z * Z) :=
  match parse_ip_network 4 addr with
  | Ok (v, p) => Ok (4, v, p)
  | Raise AddrFormatError =>
      match parse_ip_network 6 addr with
      | Ok (v, p) => Ok (6, v, p)
      | Raise AddrFormatError => Raise AddrFormatError      (* value is None *)
      | Raise e => Raise e
      end
  | Raise e => Raise e
  end.

(* a generator run to exhaustion: the items yielded and the exception that ended it, if any *)
Definition gen (A : Type) : Type := list A * option exn.

Fixpoint gen_of_outcomes {A} (l : list (outcome A)) : gen A :=
  match l with
  | [] => ([], None)
  | Ok a :: r => let '(xs, e) := gen_of_outcomes r in (a :: xs, e)
  | Raise e :: _ => ([], Some e)
  end.

(* IPAddress("%d.%d.%d.%d" % (w, x, y, z), 4) *)
Definition quad_address (w x y z : Z) : outcome (Z * Z) :=
  do v <- ip_of_canon (join "." [fmt_d w; fmt_d x; fmt_d y; fmt_d z]); Ok (4, v).

(* _parse_nmap_target_spec(target_spec) for a str *)
Definition parse_nmap_target_spec (target_spec : string) : gen (Z * Z) :=
  if contains_char ch_slash target_spec then
    match split1 ch_slash target_spec with
    | [_; prefix] =>
        match py_int 10 prefix with
        | None => ([], Some ValueError)
        | Some p =>
            if negb ((0 <? p) && (p <? 33)) then ([], Some AddrFormatError)
            else match ipnetwork_of_str target_spec with
                 | Raise e => ([], Some e)
                 | Ok (ver, v, pl) =>
                     if negb (ver =? 4) then ([], Some AddrFormatError)
                     else (* for ip in net: IPAddress(first) .. IPAddress(last), ascending (IPListMixin.__iter__, property C10) *)
                       (map (fun x => (4, x)) (py_range (net_first 32 v pl) (net_last 32 v pl + 1)), None)
                 end
        end
    | _ => ([], Some ValueError)
    end
  else if contains_char ch_colon target_spec then
    match ip_address target_spec with
    | Ok a => ([a], None)
    | Raise e => ([], Some e)
    end
  else
    match generate_nmap_octet_ranges target_spec with
    | Raise e => ([], Some e)
    | Ok (r0, r1, r2, r3) =>
        gen_of_outcomes
          (flat_map (fun w => flat_map (fun x => flat_map (fun y => map (fun z => quad_address w x y z) r3) r2) r1) r0)
    end.

(* The '/' branch of _parse_nmap_target_spec up to the bounds of the block, and a probe that observes a CIDR target of any
   size without running the generator to exhaustion: the validity flag and the first three addresses (islice) *)
Definition parse_cidr_spec (target_spec : string) : outcome (Z * Z) :=
  match split1 ch_slash target_spec with
  | [_; prefix] =>
      match py_int 10 prefix with
      | None => Raise ValueError
      | Some p =>
          if negb ((0 <? p) && (p <? 33)) then Raise AddrFormatError
          else match ipnetwork_of_str target_spec with
               | Raise e => Raise e
               | Ok (ver, v, pl) =>
                   if negb (ver =? 4) then Raise AddrFormatError else Ok (net_first 32 v pl, net_last 32 v pl)
               end
      end
  | _ => Raise ValueError
  end.

Definition cidr_probe (target_spec : string) : gen (Z * Z) :=
  match parse_cidr_spec target_spec with
  | Ok (f, l) => (map (fun x => (4, x)) (py_range f (Z.min (f + 3) (l + 1))), None)
  | Raise e => ([], Some e)
  end.

Definition valid_of_gen (g : gen (Z * Z)) : outcome bool :=
  match g with
  | (_ :: _, _) => Ok true
  | ([], Some TypeError) | ([], Some ValueError) | ([], Some AddrFormatError) => Ok false
  | ([], Some e) => Raise e
  | ([], None) => Raise Unsupported
  end.

(* valid_nmap_range(target_spec): one next() on the generator *)
Definition valid_nmap_range (target_spec : string) : outcome bool :=
  match parse_nmap_target_spec target_spec with
  | (_ :: _, _) => Ok true
  | ([], Some TypeError) | ([], Some ValueError) | ([], Some AddrFormatError) => Ok false
  | ([], Some e) => Raise e
  | ([], None) => Raise Unsupported          (* StopIteration from next(); proved unreachable *)
  end.

(* iter_nmap_range( *specs ) *)
Fixpoint iter_nmap_range (specs : list string) : gen (Z * Z) :=
  match specs with
  | [] => ([], None)
  | s :: rest =>
      match parse_nmap_target_spec s with
      | (xs, Some e) => (xs, Some e)
      | (xs, None) => let '(ys, e) := iter_nmap_range rest in ((xs ++ ys)%list, e)
      end
  end.
End WithPlatform.
