(* Model/SrcPreludeSRCE.v -- symbols of the generated source translation (harness/gen/pysrc.py, block SRCE) for the
   non-constructor functions of netaddr/ip/__init__.py: list indexing by a computed index, item assignment, `del`,
   the copy constructors, the text round trip `Class('%s/%d' % (address, prefixlen), version)`, and the consumer of a
   generator.  Executable, small definitions; nothing here refers to a hand model except where said. *)
From Coq Require Import ZArith List Bool.
From NV Require Import Base.PyVal Model.Ip Model.SrcPrelude.
Import ListNotations.
Open Scope Z_scope.

(* ---- lists: l[i], l[i] = x, del l[i] for a computed int i (CPython list semantics: a negative index counts from the
   end, anything outside [-len, len) is IndexError) ---- *)
Definition py_norm_index {A} (l : list A) (i : Z) : option nat :=
  let n := Z.of_nat (length l) in
  if (0 <=? i) && (i <? n) then Some (Z.to_nat i)
  else if (- n <=? i) && (i <? 0) then Some (Z.to_nat (n + i))
  else None.

Fixpoint nth_o {A} (l : list A) (k : nat) : outcome A :=
  match l, k with
  | [], _ => Raise IndexError
  | x :: _, O => Ok x
  | _ :: r, S k' => nth_o r k'
  end.
Fixpoint set_nth {A} (l : list A) (k : nat) (x : A) : list A :=
  match l, k with
  | [], _ => []
  | _ :: r, O => x :: r
  | y :: r, S k' => y :: set_nth r k' x
  end.
Fixpoint del_nth {A} (l : list A) (k : nat) : list A :=
  match l, k with
  | [], _ => []
  | _ :: r, O => r
  | y :: r, S k' => y :: del_nth r k'
  end.

Definition py_index {A} (l : list A) (i : Z) : outcome A :=
  match py_norm_index l i with Some k => nth_o l k | None => Raise IndexError end.
Definition py_setitem {A} (l : list A) (i : Z) (x : A) : outcome (list A) :=
  match py_norm_index l i with Some k => Ok (set_nth l k x) | None => Raise IndexError end.
Definition py_delitem {A} (l : list A) (i : Z) : outcome (list A) :=
  match py_norm_index l i with Some k => Ok (del_nth l k) | None => Raise IndexError end.

(* ---- copy constructors ---- *)
(* IPNetwork(x) for an IPAddress object x (IPNetwork.__init__, branch `hasattr(addr, '_value')`, default flags): the
   host network of x, prefixlen = module.width; the object is (version, value) *)
Definition py_net_of_addr (a : Z * Z) : net := {| nver := fst a; nval := snd a; nplen := width (fst a) |}.

(* Class('%s/%d' % (a, prefixlen), version) where `a` is an IPAddress object or `module.int_to_str(value)`: the text of
   the address `value` of family `version` followed by "/<prefixlen>", parsed again by the IPNetwork constructor.  NOT
   translated: this symbol is the hand model of that round trip (Model/Subnet.v net_of_cidr_str: int_to_str / str_to_int
   are inverse on in-range values -- properties C01 / C03 --, parse_ip_network re-checks the prefix), on net records. *)
Definition py_net_of_cidr_text (ver value prefixlen : Z) : outcome net :=
  if negb ((0 <=? prefixlen) && (prefixlen <=? width ver)) then Raise AddrFormatError
  else Ok {| nver := ver; nval := value; nplen := prefixlen |}.

(* ---- generators.  A generator function `def g(..): <prologue>; while c: <body>; yield e` is translated into
   g_start : arguments -> outcome (option St)     the prologue (it runs at the first next()); Ok None = a bare `return`
   g_next  : St -> outcome (option (A * St))      one resumption: Ok None = the loop ended (StopIteration),
                                                  Ok (Some (e, st)) = `yield e`, Raise = the body raised
   where St is the tuple of the local variables the loop reads.  py_gen_take is list(itertools.islice(gen, n)) for a
   generator already past its prologue. *)
Section Gen.
Context {St A : Type}.
Variable next : St -> outcome (option (A * St)).
Fixpoint py_gen_take (n : nat) (s : St) : outcome (list A) :=
  match n with
  | O => Ok []
  | S n' =>
      do r <- next s;
      match r with
      | None => Ok []
      | Some (a, s') => do rest <- py_gen_take n' s'; Ok (a :: rest)
      end
  end.
End Gen.
