(* Model/IeeeIndex.v -- netaddr/eui/ieee.py load_index (271-279) over the rows csv.reader yields: a hand model (tag SRCG; there was
   none: the index was only observed through the loaded dictionaries).  An index dict is the list of its items in insertion
   order (SrcPreludeG.eindex).  No proofs here. *)
From Coq Require Import ZArith List Bool String.
From NV Require Import Base.PyVal Base.PyStr Model.SrcPreludeG.
Import ListNotations.
Open Scope Z_scope.

(* index.setdefault(key, []); index[key].append((offset, size)) *)
Fixpoint index_add (index : eindex) (key : Z) (row : Z * Z) : eindex :=
  match index with
  | [] => [(key, [row])]
  | (k, l) :: t => if k =? key then (k, l ++ [row]) :: t else (k, l) :: index_add t key row
  end.

(* int(field) for every field, left to right; (key, offset, size) = the three numbers (ValueError otherwise) *)
Fixpoint ints_of (row : list string) : outcome (list Z) :=
  match row with
  | [] => Ok []
  | s :: t => match py_int 10 s with
              | Some v => do vs <- ints_of t; Ok (v :: vs)
              | None => Raise ValueError
              end
  end.

Fixpoint load_rows (index : eindex) (rows : list (list string)) : outcome eindex :=
  match rows with
  | [] => Ok index
  | row :: t =>
      do vs <- ints_of row;
      match vs with
      | [key; offset; size] => load_rows (index_add index key (offset, size)) t
      | _ => Raise ValueError
      end
  end.

(* an index without an empty entry: what the constructors' tie (C19_source_tie_g_eui) asks for *)
Definition no_empty (index : eindex) : Prop := forall k, py_eidx_find index k <> Some [].
