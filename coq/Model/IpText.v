(* Model/IpText.v — the platform text<->binary conversions (glibc 2.36 inet_aton / inet_pton / inet_ntop as reached
   through CPython's `socket`), as named executable oracles.  They double as the "standard grammar" of property
   C01 (strict dotted quad, RFC 4291 text forms, BSD inet_aton shorthand).

   MODELLED, NOT VERIFIED: these functions live outside the repository.  They are validated on every C01 run
   against the real `socket.inet_aton/inet_pton/inet_ntop` AND against Python's independent `ipaddress` parser
   (commands std_* of Extract/Cmd_C01.v, harness/props/c01.py).

   Representation of packed byte strings: a 4-byte string is the list of its 4 octets, a 16-byte string the list of
   its 8 big-endian 16-bit words.  ASCII input only. *)
From Coq Require Import ZArith List Bool String Ascii.
From NV Require Import Base.PyStr.
Import ListNotations.
Open Scope Z_scope.

Definition ch_dot : ascii := "."%char.
Definition ch_colon : ascii := ":"%char.
Definition ch_x : ascii := "x"%char.
Definition ch_X : ascii := "X"%char.
Definition ch_nul : ascii := "000"%char.

(* ---- digit tables (explicit matches: cheap to sweep, easy to read) ---- *)
Definition dec_digit (c : ascii) : option Z :=
  match c with
  | "0" => Some 0 | "1" => Some 1 | "2" => Some 2 | "3" => Some 3 | "4" => Some 4
  | "5" => Some 5 | "6" => Some 6 | "7" => Some 7 | "8" => Some 8 | "9" => Some 9
  | _ => None
  end%char.

Definition hex_digit (c : ascii) : option Z :=
  match c with
  | "0" => Some 0 | "1" => Some 1 | "2" => Some 2 | "3" => Some 3 | "4" => Some 4
  | "5" => Some 5 | "6" => Some 6 | "7" => Some 7 | "8" => Some 8 | "9" => Some 9
  | "a" => Some 10 | "b" => Some 11 | "c" => Some 12 | "d" => Some 13 | "e" => Some 14 | "f" => Some 15
  | "A" => Some 10 | "B" => Some 11 | "C" => Some 12 | "D" => Some 13 | "E" => Some 14 | "F" => Some 15
  | _ => None
  end%char.

Definition oct_digit (c : ascii) : option Z :=
  match c with
  | "0" => Some 0 | "1" => Some 1 | "2" => Some 2 | "3" => Some 3 | "4" => Some 4
  | "5" => Some 5 | "6" => Some 6 | "7" => Some 7
  | _ => None
  end%char.

Definition is_some {A} (o : option A) : bool := match o with Some _ => true | None => false end.
Definition is_dec (c : ascii) : bool := is_some (dec_digit c).
Definition is_hex (c : ascii) : bool := is_some (hex_digit c).

(* value of a digit string in a base given by its digit table (non-digits count 0; callers check first) *)
Definition digits_value (tab : ascii -> option Z) (base : Z) (l : list ascii) : Z :=
  fold_left (fun a c => a * base + match tab c with Some d => d | None => 0 end) l 0.

Fixpoint map_opt {A B} (f : A -> option B) (l : list A) : option (list B) :=
  match l with
  | [] => Some []
  | x :: r => match f x, map_opt f r with Some y, Some ys => Some (y :: ys) | _, _ => None end
  end.

Definition is_nil {A} (l : list A) : bool := match l with [] => true | _ => false end.

(* ---- "::" handling: s.split('::') and '::' in s (left to right, non-overlapping) ---- *)
Fixpoint split_dc_chars (l : list ascii) (cur : list ascii) : list (list ascii) :=
  match l with
  | [] => [rev cur]
  | c :: r =>
      match r with
      | d :: r' => if ascii_eqb c ch_colon && ascii_eqb d ch_colon
                   then rev cur :: split_dc_chars r' []
                   else split_dc_chars r (c :: cur)
      | [] => [rev (c :: cur)]
      end
  end.

Fixpoint contains_dc_chars (l : list ascii) : bool :=
  match l with
  | c :: r => match r with
              | d :: _ => (ascii_eqb c ch_colon && ascii_eqb d ch_colon) || contains_dc_chars r
              | [] => false
              end
  | [] => false
  end.

(* ':'-separated tokens of a side of "::"; the empty side has no tokens *)
Definition colon_toks (l : list ascii) : list (list ascii) :=
  if is_nil l then [] else split_chars ch_colon l [].

(* ================================================================ IPv4 *)
Module Std4.

(* one field of a strict dotted quad: 1-3 decimal digits, no leading zero unless the field is "0", value <= 255
   (glibc 2.36 inet_pton4: measured, '01.2.3.4' and '00.0.0.0' are rejected) *)
Definition octet (t : list ascii) : option Z :=
  match t with
  | [] => None
  | c :: r =>
      if forallb is_dec t && Nat.leb (List.length t) 3 && negb (ascii_eqb c ch_0 && negb (is_nil r))
      then let v := digits_value dec_digit 10 t in if v <=? 255 then Some v else None
      else None
  end.

(* inet_pton(AF_INET, s): exactly four '.'-separated strict fields *)
Definition pton4_chars (l : list ascii) : option (list Z) :=
  let toks := split_chars ch_dot l [] in
  if Nat.eqb (List.length toks) 4 then map_opt octet toks else None.
Definition pton4 (s : string) : option (list Z) := pton4_chars (chars s).

(* ---- inet_aton ---- *)
(* consume digits of the given table/base *)
Fixpoint scan_base (tab : ascii -> option Z) (base : Z) (l : list ascii) (acc : Z) : Z * list ascii :=
  match l with
  | c :: r => match tab c with Some d => scan_base tab base r (acc * base + d) | None => (acc, l) end
  | [] => (acc, [])
  end.

(* strtoul(cp, &end, 0) on text that starts with a decimal digit: "0x"/"0X" followed by a hex digit selects
   base 16, another leading "0" base 8 (the scan stops at '8', '9', 'x'), anything else base 10 *)
Definition strtoul0 (l : list ascii) : Z * list ascii :=
  match l with
  | z :: x :: h :: r =>
      if ascii_eqb z ch_0 && (ascii_eqb x ch_x || ascii_eqb x ch_X) && is_hex h
      then scan_base hex_digit 16 (h :: r) 0
      else if ascii_eqb z ch_0 then scan_base oct_digit 8 l 0 else scan_base dec_digit 10 l 0
  | z :: _ => if ascii_eqb z ch_0 then scan_base oct_digit 8 l 0 else scan_base dec_digit 10 l 0
  | [] => (0, [])
  end.

(* isascii(c) && isspace(c) in the C locale *)
Definition is_c_space (c : ascii) : bool := let n := code c in ((9 <=? n) && (n <=? 13)) || (n =? 32).

(* upper limit of the last part when `n` parts precede it *)
Definition last_max (n : nat) : Z :=
  match n with O => 4294967295 | 1%nat => 16777215 | 2%nat => 65535 | _ => 255 end.

(* the glibc loop; `parts` = leading one-byte parts read so far (at most 3).  Fuel 4 is never exhausted:
   a 4th '.' fails.  Result: leading parts and the value of the last part. *)
Fixpoint aton_loop (fuel : nat) (l : list ascii) (parts : list Z) : option (list Z * Z) :=
  match fuel with
  | O => None
  | S f =>
      match l with
      | [] => None
      | c :: _ =>
          if negb (is_dec c) then None
          else
            let '(val, rest) := strtoul0 l in
            if 4294967295 <? val then None
            else match rest with
                 | d :: rest' =>
                     if ascii_eqb d ch_dot then
                       (if Nat.ltb 2 (List.length parts) then None
                        else if 255 <? val then None
                        else aton_loop f rest' (parts ++ [val]))
                     else if is_c_space d then
                       (if val <=? last_max (List.length parts) then Some (parts, val) else None)
                     else None
                 | [] => if val <=? last_max (List.length parts) then Some (parts, val) else None
                 end
      end
  end.

(* big-endian value of leading one-byte parts placed from the top byte down *)
Fixpoint parts_value (parts : list Z) (shift : Z) : Z :=
  match parts with
  | [] => 0
  | p :: r => p * 2 ^ shift + parts_value r (shift - 8)
  end.

(* socket.inet_aton(s) as the 32-bit value; CPython refuses an embedded NUL before calling glibc *)
Definition aton_chars (l : list ascii) : option Z :=
  if existsb (ascii_eqb ch_nul) l then None
  else match aton_loop 4 l [] with
       | Some (parts, val) => Some (parts_value parts 24 + val)
       | None => None
       end.
Definition aton (s : string) : option Z := aton_chars (chars s).

Definition octets_of (v : Z) : list Z := [v / 16777216; (v / 65536) mod 256; (v / 256) mod 256; v mod 256].

(* inet_ntoa / inet_ntop(AF_INET) of four octets *)
Definition ntoa_chars (o : list Z) : list ascii := join_chars [ch_dot] (map (fun x => chars (fmt_d x)) o).
Definition ntoa (o : list Z) : string := str_of (ntoa_chars o).

End Std4.

(* ================================================================ IPv6 *)
Module Std6.

(* an RFC 4291 group: 1 to 4 hexadecimal digits *)
Definition hextet (t : list ascii) : option Z :=
  if Nat.leb 1 (List.length t) && Nat.leb (List.length t) 4 && forallb is_hex t
  then Some (digits_value hex_digit 16 t) else None.

(* groups of a ':'-separated token list whose LAST token may be a strict dotted quad (worth two groups) *)
Fixpoint groups_tail (toks : list (list ascii)) : option (list Z) :=
  match toks with
  | [] => Some []
  | t :: r =>
      match r with
      | [] =>
          if existsb (ascii_eqb ch_dot) t
          then match Std4.pton4_chars t with
               | Some [a; b; c; d] => Some [a * 256 + b; c * 256 + d]
               | _ => None
               end
          else match hextet t with Some h => Some [h] | None => None end
      | _ :: _ =>
          match hextet t, groups_tail r with Some h, Some g => Some (h :: g) | _, _ => None end
      end
  end.

Fixpoint zeros (n : nat) : list Z := match n with O => [] | S k => 0 :: zeros k end.

(* inet_pton(AF_INET6, s): either 8 groups (the last two possibly written as a dotted quad), or exactly one
   "::" standing for one or more zero groups, with at most 7 groups written; groups before "::" are plain *)
Definition pton6_chars (l : list ascii) : option (list Z) :=
  match split_dc_chars l [] with
  | [whole] =>
      match groups_tail (split_chars ch_colon whole []) with
      | Some g => if Nat.eqb (List.length g) 8 then Some g else None
      | None => None
      end
  | [p; q] =>
      match map_opt hextet (colon_toks p), groups_tail (colon_toks q) with
      | Some gp, Some gq =>
          let n := (List.length gp + List.length gq)%nat in
          if Nat.leb n 7 then Some (gp ++ zeros (8 - n) ++ gq) else None
      | _, _ => None
      end
  | _ => None
  end.
Definition pton6 (s : string) : option (list Z) := pton6_chars (chars s).

(* ---- inet_ntop(AF_INET6) ---- *)
(* glibc's scan for the left-most longest run of zero words; runs are (base, len) *)
Definition upd_best (cur best : option (nat * nat)) : option (nat * nat) :=
  match cur with
  | None => best
  | Some (_, cl) => match best with
                    | None => cur
                    | Some (_, bl) => if Nat.ltb bl cl then cur else best
                    end
  end.

Fixpoint run_scan (pat : list bool) (i : nat) (cur best : option (nat * nat)) : option (nat * nat) :=
  match pat with
  | [] => upd_best cur best
  | z :: r =>
      if z then run_scan r (S i) (match cur with None => Some (i, 1%nat) | Some (b, n) => Some (b, S n) end) best
      else run_scan r (S i) None (upd_best cur best)
  end.

Definition best_run (pat : list bool) : option (nat * nat) :=
  match run_scan pat 0 None None with
  | Some (b, n) => if Nat.ltb n 2 then None else Some (b, n)
  | None => None
  end.

Definition words_value (ws : list Z) : Z := fold_left (fun a w => a * 65536 + w) ws 0.
Definition zero_pattern (ws : list Z) : list bool := map (Z.eqb 0) ws.

Definition dcolon : list ascii := [ch_colon; ch_colon].
Definition join_colon (toks : list (list ascii)) : list ascii := join_chars [ch_colon] toks.

(* dotted tail exactly for ::a.b.c.d with value > 0xffff (IPv4-compatible) and ::ffff:a.b.c.d (IPv4-mapped) *)
Definition dotted_form (ws : list Z) : bool :=
  let v := words_value ws in
  ((65535 <? v) && (v <=? 4294967295)) || (v / 4294967296 =? 65535).

Definition tail_octets (ws : list Z) : list Z :=
  match skipn 6 ws with
  | [a; b] => [a / 256; a mod 256; b / 256; b mod 256]
  | _ => []
  end.

Definition ntop6_chars (ws : list Z) : list ascii :=
  let toks := if dotted_form ws
              then map (fun w => chars (fmt_x w)) (firstn 6 ws) ++ [Std4.ntoa_chars (tail_octets ws)]
              else map (fun w => chars (fmt_x w)) ws in
  match best_run (zero_pattern ws) with
  | Some (b, n) => join_colon (firstn b toks) ++ dcolon ++ join_colon (skipn (b + n) toks)
  | None => join_colon toks
  end.
Definition ntop6 (ws : list Z) : string := str_of (ntop6_chars ws).

End Std6.
