(* Model/AddrOps.v — object-level behaviour of IPAddress operators (netaddr/ip/__init__.py 240-319, 387-459,
   474-500, 610-661).  An address object is (version, value).  The width-level functions of Model/Ip.v
   (addr_iadd ... addr_rshift, addr_of_int, addr_of_int_ver) are reused; what is added here is the part of the
   code that decides the *version* of the result (every non-in-place operator rebuilds the result through
   `self.__class__(new_value, self._module.version)`), `int(other)` for address operands, the copy constructor,
   the in-place forms with the receiver's post-state, and the views __int__/__index__/__hex__/__bool__. *)
From Coq Require Import ZArith List Bool String Ascii.
From NV Require Import Base.PyVal Model.Ip.
Import ListNotations.
Open Scope Z_scope.

(* ---- IPAddress.__init__, non-string branches ---- *)
(* IPAddress(i, version): version is None or an int *)
Definition ctor_int (i : Z) (version : option Z) : outcome (Z * Z) :=
  match version with
  | None => addr_of_int i
  | Some ver => addr_of_int_ver i ver
  end.

(* copy constructor IPAddress(IPAddress(v, ver), version)  (lines 262-268) *)
Definition ctor_copy (ver v : Z) (version : option Z) : outcome (Z * Z) :=
  match version with
  | None => Ok (ver, v)
  | Some ver' => if negb (ver' =? ver) then Raise ValueError else Ok (ver, v)
  end.

(* self.__class__(new_value, self._module.version) *)
Definition obj_new (new_value ver : Z) : outcome (Z * Z) := addr_of_int_ver new_value ver.

(* ---- views (lines 474-500, 655-661) ---- *)
Definition view_int (v : Z) : Z := v.                    (* __int__ *)
Definition view_index (v : Z) : Z := v.                  (* __index__ *)
Definition view_bool (v : Z) : bool := negb (v =? 0).    (* __nonzero__ / __bool__ : bool(self._value) *)

(* '%x' % v : hexadecimal digits, most significant first *)
Definition hex_digit (d : Z) : ascii :=
  match d with
  | 0 => "0" | 1 => "1" | 2 => "2" | 3 => "3" | 4 => "4" | 5 => "5" | 6 => "6" | 7 => "7"
  | 8 => "8" | 9 => "9" | 10 => "a" | 11 => "b" | 12 => "c" | 13 => "d" | 14 => "e" | 15 => "f"
  | _ => "?"
  end%char.

Fixpoint hex_loop (fuel : nat) (v : Z) (acc : list Z) : option (list Z) :=
  match fuel with
  | O => None
  | S f => let acc' := (v mod 16) :: acc in
           if v / 16 =? 0 then Some acc' else hex_loop f (v / 16) acc'
  end.

(* digits of v >= 0 ([0] for 0) *)
Definition hex_digits (v : Z) : option (list Z) := hex_loop (Z.to_nat (Z.log2 v) + 1) v [].

Definition fmt_x (v : Z) : outcome string :=
  if v <? 0 then
    match hex_digits (- v) with
    | Some ds => Ok (String "-" (string_of_list_ascii (map hex_digit ds)))
    | None => Raise OutOfFuel
    end
  else
    match hex_digits v with
    | Some ds => Ok (string_of_list_ascii (map hex_digit ds))
    | None => Raise OutOfFuel
    end.

(* __hex__ : '0x%x' % self._value ; on Python 3 hex(ip) is hex(ip.__index__()), the same text for v >= 0 *)
Definition view_hex (v : Z) : outcome string :=
  do s <- fmt_x v; Ok (String "0" (String "x" s)).

(* ---- operands of the bitwise forms: an int or another IPAddress (int(other) -> other.__int__()) ---- *)
Inductive operand := OInt (n : Z) | OAddr (ver v : Z).
Definition operand_int (o : operand) : Z :=
  match o with OInt n => n | OAddr _ v => view_int v end.

(* ---- arithmetic returning a new object (lines 416-459) ---- *)
Definition obj_add (ver v n : Z) : outcome (Z * Z) := do nv <- addr_add (width ver) v n; obj_new nv ver.
Definition obj_radd (ver v n : Z) : outcome (Z * Z) := do nv <- addr_radd (width ver) v n; obj_new nv ver.
Definition obj_sub (ver v n : Z) : outcome (Z * Z) := do nv <- addr_sub (width ver) v n; obj_new nv ver.
Definition obj_rsub (ver v n : Z) : outcome (Z * Z) := do nv <- addr_rsub (width ver) v n; obj_new nv ver.

(* ---- in-place arithmetic (lines 387-414): (value bound to the name afterwards | exception, receiver afterwards) ---- *)
Definition inplace (ver v : Z) (r : outcome Z) : outcome (Z * Z) * (Z * Z) :=
  match r with
  | Ok nv => (Ok (ver, nv), (ver, nv))       (* self._value = new_value; return self *)
  | Raise e => (Raise e, (ver, v))
  end.
Definition obj_iadd (ver v n : Z) := inplace ver v (addr_iadd (width ver) v n).
Definition obj_isub (ver v n : Z) := inplace ver v (addr_isub (width ver) v n).

(* ---- bitwise (lines 610-653) ---- *)
Definition obj_or (ver v : Z) (o : operand) : outcome (Z * Z) := obj_new (Z.lor v (operand_int o)) ver.
Definition obj_and (ver v : Z) (o : operand) : outcome (Z * Z) := obj_new (Z.land v (operand_int o)) ver.
Definition obj_xor (ver v : Z) (o : operand) : outcome (Z * Z) := obj_new (Z.lxor v (operand_int o)) ver.
(* int << negative raises ValueError before the constructor is reached *)
Definition obj_lshift (ver v n : Z) : outcome (Z * Z) :=
  if n <? 0 then Raise ValueError else obj_new (Z.shiftl v n) ver.
Definition obj_rshift (ver v n : Z) : outcome (Z * Z) :=
  if n <? 0 then Raise ValueError else obj_new (Z.shiftr v n) ver.
