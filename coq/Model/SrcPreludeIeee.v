(* Model/SrcPreludeIeee.v — symbols that the generated translation of netaddr/eui/ieee.py (Gen/pysrc_ieee_gen.v, written by
   harness/gen/pysrc.py, block SRCF) uses.  Every text value of that file is a bytes object (the registry is opened in binary
   mode); the bytes methods are the hand models of Model/Ieee.v (named below).  No proofs here. *)
From Coq Require Import ZArith List Bool String Ascii.
From NV Require Import Base.PyVal Base.PyStr Model.Ieee.
Import ListNotations.
Open Scope Z_scope.

(* fh.readline() on a file opened in binary mode = the list of its remaining lines (terminator included) and the number of
   bytes read so far, which is what fh.tell() answers: (the line | b'' at the end, the remaining lines, the new position) *)
Definition py_readline (lines : list string) (tell : Z) : string * list string * Z :=
  match lines with
  | [] => (EmptyString, [], tell)
  | l :: r => (l, r, tell + Ieee.blen l)
  end.

(* needle in hay, for bytes: Ieee.contains *)
Definition py_bytes_in (needle hay : string) : bool := Ieee.contains needle hay.

(* b.split()[0]: the first whitespace-separated token (Ieee.first_token), IndexError when there is none *)
Definition py_bytes_split0 (s : string) : outcome string :=
  match Ieee.first_token s with Some t => Ok t | None => Raise IndexError end.

(* b.split(sep)[0] for a one-byte separator: everything before its first occurrence (Ieee.before_hyphen for b'-') *)
Fixpoint before_byte (c : ascii) (s : string) : string :=
  match s with
  | EmptyString => EmptyString
  | String a t => if Ascii.eqb a c then EmptyString else String a (before_byte c t)
  end.
Definition py_bytes_split_sep0 (sep s : string) : outcome string :=
  match sep with String c EmptyString => Ok (before_byte c s) | _ => Raise Unsupported end.

(* int(b, 16) for a bytes object: Ieee.int16 *)
Definition py_int16_bytes (s : string) : outcome Z := Ieee.int16 s.

(* truth of a bytes object *)
Definition py_bytes_truthy (s : string) : bool := negb (String.eqb s EmptyString).

(* a Python value that is a bytes object or an int (the elements of the record list of IABIndexParser.parse) *)
Inductive bi := BiB (s : string) | BiI (z : Z).
(* x.replace(old, new) when x may be an int: AttributeError *)
Definition bi_bytes (x : bi) : outcome string := match x with BiB s => Ok s | BiI _ => Raise AttributeError end.

(* l[k] and l[k] = x on a list (the same definitions as in Model/SrcPreludeEui2.v, repeated here so that the generated file of
   this unit does not import the EUI models): negative index from the end, IndexError outside *)
From NV Require Model.Eui.
Definition py_getitem_o {A} (l : list A) (idx : Z) : outcome A :=
  match NV.Model.Eui.py_index l idx with Some x => Ok x | None => Raise IndexError end.
Definition py_setitem_o {A} (l : list A) (idx : Z) (x : A) : outcome (list A) :=
  let n := Z.of_nat (List.length l) in
  let i := if idx <? 0 then idx + n else idx in
  if (0 <=? i) && (i <? n) then Ok (NV.Model.Eui.list_set l (Z.to_nat i) x) else Raise IndexError.

(* ---- text methods used by OUI._parse_data / IAB._parse_data (netaddr/eui/__init__.py): the hand models of Model/Ieee.v,
   which act on the UTF-8 bytes of the decoded text (see the comment there for the whitespace they know) ---- *)
(* s.split("\n") *)
Definition py_str_split_nl (s : string) : list string := Ieee.split_nl s.
(* s.strip() *)
Definition py_str_strip (s : string) : string := Ieee.strip s.
(* s.split(None, 2)[2]: the rest of the line after its first two fields, IndexError when there are fewer than three *)
Definition py_str_field3 (s : string) : outcome string :=
  match Ieee.third_field s with Some t => Ok t | None => Raise IndexError end.
