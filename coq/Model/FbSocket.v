(* Model/FbSocket.v — netaddr/fbsocket.py (pure-Python fallback for socket.inet_ntoa/inet_ntop/inet_pton), as written
   AFTER the fix commits F-01 (`_is_hextet`, any six groups before a dotted quad) and F-02 (octets are 1-3 ASCII
   digits).  The pre-fix fragments are kept in History/C01_refuted.v.

   Packed byte strings: 4 bytes = list of 4 octets, 16 bytes = list of 8 big-endian 16-bit words
   (`_pack('>H', w)` = one word, `_bytes_join` = the list, `_unpack('>8H', p)` = the list itself,
   `_pack('>2H', a, b)` read back with `_unpack('4B', .)` = the four octets of a, b).  struct.pack raises
   struct.error for an out-of-range item: `Raise StructError`.  Only `str` arguments are modelled. *)
From Coq Require Import ZArith List Bool String Ascii.
From NV Require Import Base.PyStr Base.PyVal Model.IpText.
Import ListNotations.
Open Scope string_scope.
Open Scope list_scope.
Open Scope Z_scope.

Module Fb.

Definition map_out {A B} (f : A -> outcome B) : list A -> outcome (list B) :=
  fix go (l : list A) : outcome (list B) :=
    match l with
    | [] => Ok []
    | x :: r => do y <- f x; do ys <- go r; Ok (y :: ys)
    end.

(* inet_ntoa(packed_ip): '%d.%d.%d.%d' % _unpack('4B', packed_ip) *)
Definition inet_ntoa (o : list Z) : outcome string :=
  match o with
  | [a; b; c; d] => Ok (fmt_d a ++ "." ++ fmt_d b ++ "." ++ fmt_d c ++ "." ++ fmt_d d)%string
  | _ => Raise ValueError      (* len(packed_ip) != 4 *)
  end.

(* ---- _compact_ipv6_tokens ---- *)
(* The discovery loop inspects tokens only through `token == '0'`; it is modelled on that boolean pattern.
   State: idx, start_index (None/Some), num_tokens, positions [(num_tokens, start_index)]. *)
Definition push_run (num : nat) (start : option nat) (pos : list (nat * nat)) : list (nat * nat) :=
  if Nat.ltb 1 num
  then match start with Some s => pos ++ [(num, s)] | None => pos (* unreachable: num > 1 implies a start *) end
  else pos.

Fixpoint zero_runs (pat : list bool) (idx : nat) (start : option nat) (num : nat) (pos : list (nat * nat))
  : list (nat * nat) :=
  match pat with
  | [] => push_run num start pos                    (* "Store any position not saved before loop exit." *)
  | z :: r =>
      if z then zero_runs r (S idx) (match start with None => Some idx | Some s => Some s end) (S num) pos
      else zero_runs r (S idx) None 0 (push_run num start pos)
  end.

(* positions.sort(key=lambda x: x[1]) — stable insertion sort on the start index *)
Fixpoint insert_by_start (p : nat * nat) (l : list (nat * nat)) : list (nat * nat) :=
  match l with
  | [] => [p]
  | q :: r => if Nat.ltb (snd p) (snd q) then p :: l else q :: insert_by_start p r
  end.
Definition sort_by_start (l : list (nat * nat)) : list (nat * nat) := fold_left (fun acc p => insert_by_start p acc) l [].

(* best_position = positions[0]; for position in positions: if position[0] > best_position[0]: best = position *)
Definition pick_best (pos : list (nat * nat)) : option (nat * nat) :=
  match pos with
  | [] => None
  | p0 :: _ => Some (fold_left (fun best p => if Nat.ltb (fst best) (fst p) then p else best) pos p0)
  end.

Definition chosen_run (pat : list bool) : option (nat * nat) :=   (* (length, start_idx) *)
  pick_best (sort_by_start (zero_runs pat 0 None 0 [])).

Definition starts_blank (l : list string) : bool := match l with t :: _ => String.eqb t "" | [] => false end.
Definition ends_blank (l : list string) : bool := match rev l with t :: _ => String.eqb t "" | [] => false end.

Definition compact_ipv6_tokens (tokens : list string) : list string :=
  match chosen_run (map (fun t => String.eqb t "0") tokens) with
  | None => tokens
  | Some (len, start_idx) =>
      let t1 := firstn start_idx tokens ++ [""] ++ skipn (start_idx + len) tokens in
      let t2 := if starts_blank t1 then "" :: t1 else t1 in     (* new_tokens.insert(0, '') *)
      if ends_blank t2 then t2 ++ [""] else t2                  (* new_tokens.append('') *)
  end.

(* ---- inet_ntop(AF_INET6, packed_ip) ---- *)
(* int_val = 0; for i, num in enumerate(reversed(words)): int_val = int_val | (num << 16 * i) *)
Fixpoint or_words (bits : Z) (rev_words : list Z) (i : Z) (acc : Z) : Z :=
  match rev_words with
  | [] => acc
  | w :: r => or_words bits r (i + 1) (Z.lor acc (Z.shiftl w (bits * i)))
  end.

Definition pack_H (v : Z) : outcome Z := if (0 <=? v) && (v <=? 65535) then Ok v else Raise StructError.

Definition inet_ntop6 (ws : list Z) : outcome string :=
  if negb (Nat.eqb (List.length ws) 8) then Raise ValueError
  else
    let tokens := map fmt_x ws in
    let int_val := or_words 16 (rev ws) 0 0 in
    do tokens' <-
      (if ((65535 <? int_val) && (int_val <=? 4294967295)) || (Z.shiftr int_val 32 =? 65535)
       then (* packed_ipv4 = _pack('>2H', *[int(i, 16) for i in tokens[-2:]]); inet_ntoa(packed_ipv4) *)
         match skipn 6 tokens with
         | [ta; tb] =>
             match py_int 16 ta, py_int 16 tb with
             | Some a, Some b =>
                 do a' <- pack_H a; do b' <- pack_H b;
                 do s4 <- inet_ntoa [a' / 256; a' mod 256; b' / 256; b' mod 256];
                 Ok (firstn 6 tokens ++ [s4])
             | _, _ => Raise ValueError
             end
         | _ => Raise ValueError
         end
       else Ok tokens);
    Ok (join ":" (compact_ipv6_tokens tokens')).

(* ---- _inet_pton_af_inet (repaired, F-02) ---- *)
Definition dec_chars : string := "0123456789".
Definition hex_chars : string := "0123456789abcdefABCDEF".

Definition pton4_octet (token : string) : outcome Z :=
  if starts_with "0x" token || (starts_with "0" token && (1 <? str_len token)) then Raise ValueError
  else if negb ((1 <=? str_len token) && (str_len token <=? 3)) then Raise ValueError
  else if negb (forallb (fun c => contains_char c dec_chars) (chars token)) then Raise ValueError
  else match py_int 10 token with
       | None => Raise ValueError                               (* int(token) failed *)
       | Some octet => if Z.shiftr octet 8 =? 0 then Ok octet   (* _pack('B', octet): in range here *)
                       else Raise ValueError
       end.

Definition inet_pton4 (ip_string : string) : outcome (list Z) :=
  let tokens := split "." ip_string in
  if Nat.eqb (List.length tokens) 4 then map_out pton4_octet tokens else Raise ValueError.

(* ---- inet_pton(AF_INET6, .) (repaired, F-01) ---- *)
Definition is_hextet (token : string) : bool :=
  (1 <=? str_len token) && (str_len token <=? 4) && forallb (fun c => contains_char c hex_chars) (chars token).

(* l.pop() on a non-empty list: (remaining, popped) *)
Fixpoint pop_last {A} (l : list A) : option (list A * A) :=
  match l with
  | [] => None
  | [x] => Some ([], x)
  | x :: r => match pop_last r with Some (i, y) => Some (x :: i, y) | None => None end
  end.

(* tokens.pop() parsed as a dotted quad, replaced by its two '%x' words *)
Definition expand_quad (init : list string) (quad : string) : outcome (list string) :=
  do o <- inet_pton4 quad;
  match o with
  | [a; b; c; d] => Ok (init ++ [fmt_x (a * 256 + b); fmt_x (c * 256 + d)])   (* _unpack('>H', ipv4_str[0:2]) ... *)
  | _ => Raise ValueError
  end.

(* _pack('>H', int(i, 16)) *)
Definition pack_hex (token : string) : outcome Z :=
  match py_int 16 token with None => Raise ValueError | Some v => pack_H v end.

(* try: for token in ...: word = int(token, 16); if not 0 <= word <= 0xffff: raise invalid_addr / except ValueError *)
Definition check_word (token : string) : outcome Z :=
  match py_int 16 token with
  | None => Raise ValueError
  | Some v => if (0 <=? v) && (v <=? 65535) then Ok v else Raise ValueError
  end.

Definition str_nonempty (s : string) : bool := negb (String.eqb s "").

Definition inet_pton6 (ip_string : string) : outcome (list Z) :=
  if contains_char ch_x ip_string then Raise ValueError        (* "Don't accept hextets with the 0x prefix." *)
  else if contains_dc_chars (chars ip_string) then
    if String.eqb ip_string "::" then Ok (Std6.zeros 8)
    else
      match map str_of (split_dc_chars (chars ip_string) []) with
      | [prefix; suffix] =>
          let l_prefix := if str_nonempty prefix then split ":" prefix else [] in
          let l_suffix0 := if str_nonempty suffix then split ":" suffix else [] in
          do l_suffix <-
            (match pop_last l_suffix0 with
             | Some (init, last) => if contains_char ch_dot last then expand_quad init last else Ok l_suffix0
             | None => Ok l_suffix0
             end);
          let token_count := (List.length l_prefix + List.length l_suffix)%nat in
          if negb (Nat.leb token_count 7) then Raise ValueError
          else if negb (forallb is_hextet (l_prefix ++ l_suffix)) then Raise ValueError
          else
            let gap_size := (8 - token_count)%nat in
            do vp <- map_out pack_hex l_prefix;
            do vs <- map_out pack_hex l_suffix;
            do _chk <- map_out check_word (l_prefix ++ l_suffix);
            Ok (vp ++ Std6.zeros gap_size ++ vs)
      | _ => Raise ValueError                                 (* prefix, suffix = ip_string.split('::') *)
      end
  else if contains_char ch_colon ip_string then
    let tokens0 := split ":" ip_string in
    do tokens <-
      (if contains_char ch_dot ip_string then
         if negb (Nat.eqb (List.length tokens0) 7) then Raise ValueError
         else match pop_last tokens0 with
              | Some (init, last) => expand_quad init last
              | None => Raise ValueError
              end
       else if negb (Nat.eqb (List.length tokens0) 8) then Raise ValueError else Ok tokens0);
    if negb (forallb is_hextet tokens) then Raise ValueError
    else
      do words <- map_out check_word tokens;
      map_out pack_H words
  else Raise ValueError.

End Fb.
