(* Model/ClassifyGen.v — the classification tables record instantiated with the literals that
   harness/gen/classify.py re-generates from the working tree on every run (coq/Gen/classify_gen.v).
   Shared by Extract/Cmd_C18.v (what the correspondence runs) and Proofs/GenOk_C18.v (what is proved),
   so both talk about the same tables. *)
From Coq Require Import ZArith List.
From NV Require Import Model.Classify.
From NV Require Gen.classify_gen.

Definition gen_tables : tables := {|
  t_loopback4 := classify_gen.IPV4_LOOPBACK;     t_private4 := classify_gen.IPV4_PRIVATE;
  t_link_local4 := classify_gen.IPV4_LINK_LOCAL; t_multicast4 := classify_gen.IPV4_MULTICAST;
  t_reserved4 := classify_gen.IPV4_RESERVED;
  t_loopback6 := classify_gen.IPV6_LOOPBACK;     t_private6 := classify_gen.IPV6_PRIVATE;
  t_link_local6 := classify_gen.IPV6_LINK_LOCAL; t_multicast6 := classify_gen.IPV6_MULTICAST;
  t_reserved6 := classify_gen.IPV6_RESERVED
|}.
