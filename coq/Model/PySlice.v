(* Model/PySlice.v — the two CPython builtins used by IPListMixin.__getitem__ (repaired code):
   slice(start, stop, step).indices(length)   (Objects/sliceobject.c: slice_indices / _PySlice_GetLongIndices)
   len(range(start, stop, step))              (Objects/rangeobject.c: compute_range_length + range_length)
   Hand models; validated against CPython on every C10 run (commands c10_slice_indices, c10_range_len). *)
From Coq Require Import ZArith List Bool.
From NV Require Import Base.PyVal.
Import ListNotations.
Open Scope Z_scope.

(* sys.maxsize = PY_SSIZE_T_MAX on the 64-bit platform the check runs on *)
Definition ssize_max : Z := 2 ^ 63 - 1.

(* one of start/stop: None takes the default, otherwise add length to negatives and clamp to [lower, upper] *)
Definition slice_clamp (o : option Z) (dflt lower upper length : Z) : Z :=
  match o with
  | None => dflt
  | Some v =>
      if v <? 0 then (let v' := v + length in if v' <? lower then lower else v')
      else (if v >? upper then upper else v)
  end.

(* slice(start, stop, step).indices(length); each component is None or an int *)
Definition py_slice_indices (start stop step : option Z) (length : Z) : outcome (Z * Z * Z) :=
  if length <? 0 then Raise ValueError                       (* "length should not be negative" *)
  else
    let step' := match step with None => 1 | Some s => s end in
    if step' =? 0 then Raise ValueError                      (* "slice step cannot be zero" *)
    else
      let step_is_negative := step' <? 0 in
      let lower := if step_is_negative then -1 else 0 in
      let upper := if step_is_negative then length + -1 else length in
      let start' := slice_clamp start (if step_is_negative then upper else lower) lower upper length in
      let stop' := slice_clamp stop (if step_is_negative then lower else upper) lower upper length in
      Ok (start', stop', step').

(* compute_range_length: number of elements of range(a, b, c), c <> 0 *)
Definition range_len (a b c : Z) : Z :=
  if 0 <? c then (if a <? b then (b - a - 1) / c + 1 else 0)
  else if c <? 0 then (if b <? a then (a - b - 1) / (- c) + 1 else 0)
  else 0.

(* len(range(a, b, c)): range() itself rejects step 0; len() of more than sys.maxsize elements overflows *)
Definition py_range_len (a b c : Z) : outcome Z :=
  if c =? 0 then Raise ValueError
  else let n := range_len a b c in
       if n >? ssize_max then Raise OverflowError else Ok n.

(* ---- Python list indexing and slicing themselves (Objects/listobject.c: list_subscript), generic in the
   element type; used to STATE the property ("x[...] is what list(x)[...] would be"), validated against CPython
   lists by the commands c10_list_index / c10_list_slice. ---- *)

(* the copy loop of list_subscript: n elements, src[cur], cur += step.  The two `None` outcomes (negative or
   too large cur) cannot occur for triples produced by slice.indices (Proofs/C10.v: list_pick_length). *)
Fixpoint list_pick {A} (l : list A) (n : nat) (cur step : Z) : list A :=
  match n with
  | O => []
  | S m => match (if cur <? 0 then None else nth_error l (Z.to_nat cur)) with
           | Some x => x :: list_pick l m (cur + step) step
           | None => []
           end
  end.

(* l[a:b:c] *)
Definition py_list_slice {A} (l : list A) (a b c : option Z) : outcome (list A) :=
  do ind <- py_slice_indices a b c (Z.of_nat (length l));
  let '(start, stop, step) := ind in
  Ok (list_pick l (Z.to_nat (range_len start stop step)) start step).

(* l[i] for an int i *)
Definition py_list_index {A} (l : list A) (i : Z) : outcome A :=
  let n := Z.of_nat (length l) in
  let i' := if i <? 0 then i + n else i in
  if (i' <? 0) || (n <=? i') then Raise IndexError
  else match nth_error l (Z.to_nat i') with Some x => Ok x | None => Raise IndexError end.
