(* Model/Order.v — equality, hashing, ordering and pickled state of the IP objects
   (netaddr/ip/__init__.py BaseIP 43-132, IPAddress 321-340 / 461-472, IPNetwork 959-984 / 1160-1173,
   IPRange 1405-1417 / 1451-1462, netaddr/core.py num_bits, ip/sets.py 124-136, eui/__init__.py 394-415).
   Each definition mirrors the Python method named in its comment, with its own spelling. *)
From Coq Require Import ZArith List Bool.
From NV Require Import Base.PyVal Model.Ip.
Import ListNotations.
Open Scope Z_scope.

(* an IP object: IPAddress(_module.version, _value), IPNetwork(_module.version, _value, _prefixlen),
   IPRange(_module.version, _start._value, _end._value).  IPGlob inherits key/sort_key/state from IPRange. *)
Inductive obj := Addr (ver v : Z) | Net (ver v p : Z) | Range (ver s e : Z).

(* ---- core.num_bits: `int_val.bit_length()` on every supported Python; its documented meaning is the loop
   `numbits = 0; while int_val: numbits += 1; int_val >>= 1` of the fallback definition, which is what is
   written here (one `>>= 1` = one constructor of the binary numeral; bit_length of a negative int is that of
   its absolute value). *)
Fixpoint pos_bits (int_val : positive) (numbits : Z) : Z :=
  match int_val with
  | xH => numbits + 1
  | xO q | xI q => pos_bits q (numbits + 1)
  end.
Definition num_bits (int_val : Z) : Z :=
  match int_val with Z0 => 0 | Zpos p => pos_bits p 0 | Zneg p => pos_bits p 0 end.

(* ---- key() ---- *)
Definition range_first (s e : Z) : Z := s.     (* int(self._start) *)
Definition range_last (s e : Z) : Z := e.      (* int(self._end) *)
Definition range_size (s e : Z) : Z := range_last s e - range_first s e + 1.   (* IPListMixin.size *)

Definition key (x : obj) : list Z :=
  match x with
  | Addr ver v => [ver; v]                                                           (* 461-468 *)
  | Net ver v p => [ver; net_first (width ver) v p; net_last (width ver) v p]        (* 1160-1164 *)
  | Range ver s e => [ver; range_first s e; range_last s e]                          (* 1451-1455 *)
  end.

(* ---- sort_key() ---- *)
Definition sort_key (x : obj) : list Z :=
  match x with
  | Addr ver v => [ver; v; width ver]                                                (* 470-472 *)
  | Net ver v p =>                                                                   (* 1166-1173 *)
      let net_size_bits := p - 1 in
      let first := Z.land v (Z.lxor (max_int ver) (hostmask_int (width ver) p)) in
      let host_bits := v - first in
      [ver; first; net_size_bits; host_bits]
  | Range ver s e =>                                                                 (* 1457-1462 *)
      let skey := width ver - num_bits (range_size s e) in
      [ver; s; skey]
  end.

(* ---- Python tuple rich comparison (CPython tuplerichcompare): find the first index where the items differ;
   if there is none within the common length compare the lengths with the operator; otherwise == is False,
   != is True, and the ordering operators compare the two differing items. *)
Inductive cmpop := OpEq | OpNe | OpLt | OpLe | OpGt | OpGe.

Definition z_cmp (op : cmpop) (x y : Z) : bool :=
  match op with
  | OpEq => x =? y | OpNe => negb (x =? y)
  | OpLt => x <? y | OpLe => x <=? y | OpGt => y <? x | OpGe => y <=? x
  end.

Fixpoint tuple_cmp (op : cmpop) (a b : list Z) : bool :=
  match a, b with
  | x :: a', y :: b' => if x =? y then tuple_cmp op a' b' else z_cmp op x y
  | _, _ => z_cmp op (Z.of_nat (length a)) (Z.of_nat (length b))
  end.

(* ---- BaseIP rich comparisons (43-132): == and != on key(), the four orderings on sort_key() ---- *)
Definition py_eq (a b : obj) : bool := tuple_cmp OpEq (key a) (key b).
Definition py_ne (a b : obj) : bool := tuple_cmp OpNe (key a) (key b).
Definition py_lt (a b : obj) : bool := tuple_cmp OpLt (sort_key a) (sort_key b).
Definition py_le (a b : obj) : bool := tuple_cmp OpLe (sort_key a) (sort_key b).
Definition py_gt (a b : obj) : bool := tuple_cmp OpGt (sort_key a) (sort_key b).
Definition py_ge (a b : obj) : bool := tuple_cmp OpGe (sort_key a) (sort_key b).

(* ---- BaseIP.__hash__ = hash(self.key()); `hash` on tuples of ints is CPython's: an arbitrary function here *)
Section Hash.
Variable H : list Z -> Z.
Definition py_hash (x : obj) : Z := H (key x).
End Hash.

(* ---- sorted(): stable, uses only `<`.  Insertion from the right: x precedes everything of the tail in the
   input, so it is placed before the first element that is not strictly smaller. *)
Fixpoint insert_obj (x : obj) (l : list obj) : list obj :=
  match l with
  | [] => [x]
  | y :: t => if py_lt y x then y :: insert_obj x t else x :: y :: t
  end.
Definition sorted (l : list obj) : list obj := fold_right insert_obj [] l.

(* ---- __getstate__ / __setstate__ ; a state is the pickled tuple of ints; unpacking a tuple of the wrong
   length raises ValueError ---- *)
Inductive cls := CAddr | CNet | CRange.
Definition cls_of (x : obj) : cls := match x with Addr _ _ => CAddr | Net _ _ _ => CNet | Range _ _ _ => CRange end.

Definition getstate (x : obj) : list Z :=
  match x with
  | Addr ver v => [v; ver]            (* 321-323 *)
  | Net ver v p => [v; p; ver]        (* 959-961 *)
  | Range ver s e => [s; e; ver]      (* 1405-1407 *)
  end.

(* IPAddress.__setstate__ (325-340) *)
Definition addr_setstate (state : list Z) : outcome obj :=
  match state with
  | [value; version] =>
      if version =? 4 then Ok (Addr 4 value)
      else if version =? 6 then Ok (Addr 6 value)
      else Raise ValueError
  | _ => Raise ValueError
  end.

(* IPNetwork.__setstate__ (963-984) *)
Definition net_setstate (state : list Z) : outcome obj :=
  match state with
  | [value; prefixlen; version] =>
      do module_ver <- (if version =? 4 then Ok 4 else if version =? 6 then Ok 6 else Raise ValueError);
      if (0 <=? prefixlen) && (prefixlen <=? width module_ver) then Ok (Net module_ver value prefixlen)
      else Raise ValueError
  | _ => Raise ValueError
  end.

(* IPRange.__setstate__ (1409-1417): both ends through the IPAddress(int, version) constructor *)
Definition range_setstate (state : list Z) : outcome obj :=
  match state with
  | [start; end_; version] =>
      do s <- addr_of_int_ver start version;
      let module_ver := fst s in
      do e <- addr_of_int_ver end_ version;
      Ok (Range module_ver (snd s) (snd e))
  | _ => Raise ValueError
  end.

Definition setstate (c : cls) (state : list Z) : outcome obj :=
  match c with CAddr => addr_setstate state | CNet => net_setstate state | CRange => range_setstate state end.

(* ---- IPSet state (sets.py 124-136): the tuple of the states of the CIDRs in dict order; __setstate__ rebuilds
   every CIDR with IPNetwork((value, prefixlen), version=version) and dict.fromkeys keeps the first of equal keys *)
Definition ipset_getstate (cidrs : list obj) : list (list Z) := map getstate cidrs.

(* IPNetwork((value, prefixlen), version=version): constructor 929-953 + parse_ip_network tuple branch 773-785 *)
Definition parse_ip_network_tuple (module_ver value prefixlen : Z) : outcome (Z * Z) :=
  if negb ((0 <=? value) && (value <=? max_int module_ver)) then Raise AddrFormatError
  else if negb ((0 <=? prefixlen) && (prefixlen <=? width module_ver)) then Raise AddrFormatError
  else Ok (value, prefixlen).

Definition net_of_tuple (value prefixlen version : Z) : outcome obj :=
  if version =? 4 then
    do vp <- parse_ip_network_tuple 4 value prefixlen; Ok (Net 4 (fst vp) (snd vp))
  else if version =? 6 then
    do vp <- parse_ip_network_tuple 6 value prefixlen; Ok (Net 6 (fst vp) (snd vp))
  else Raise ValueError.

Fixpoint fromkeys (acc : list obj) (l : list obj) : list obj :=
  match l with
  | [] => acc
  | x :: t => if existsb (fun y => py_eq y x) acc then fromkeys acc t else fromkeys (acc ++ [x]) t
  end.

Fixpoint ipset_build (state : list (list Z)) : outcome (list obj) :=
  match state with
  | [] => Ok []
  | [value; prefixlen; version] :: t =>
      do n <- net_of_tuple value prefixlen version;
      do r <- ipset_build t;
      Ok (n :: r)
  | _ :: _ => Raise ValueError
  end.

Definition ipset_setstate (state : list (list Z)) : outcome (list obj) :=
  omap (fromkeys []) (ipset_build state).

(* IPSet.__reduce__ (sets.py): `return self.__class__, (), self.__getstate__()`.  pickle and copy (CPython,
   modelled) rebuild with cls() - the empty set - and then always call __setstate__(state), at every protocol. *)
Definition ipset_restore (cidrs : list obj) : outcome (list obj) :=
  let state := ipset_getstate cidrs in      (* second and third item of __reduce__: (), state *)
  let fresh : list obj := [] in             (* IPSet(): self._cidrs = {} *)
  ipset_setstate state.                     (* __setstate__ replaces _cidrs *)

(* ---- EUI state (eui/__init__.py 394-415): (value, version, dialect); the dialect is a class object, an opaque
   token here (always a valid dialect: it comes out of a live object) *)
Definition eui_getstate (ver v dialect : Z) : list Z := [v; ver; dialect].
Definition eui_setstate (state : list Z) : outcome (Z * Z * Z) :=
  match state with
  | [value; version; dialect] =>
      if version =? 48 then Ok (48, value, dialect)
      else if version =? 64 then Ok (64, value, dialect)
      else Raise ValueError
  | _ => Raise ValueError
  end.
