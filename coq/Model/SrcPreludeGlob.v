(* Model/SrcPreludeGlob.v -- the symbols that the generated translation of netaddr/ip/glob.py, netaddr/ip/nmap.py and
   netaddr/ip/rfc1924.py (Gen/pysrc_glob_gen.v, pysrc_nmap_gen.v, pysrc_rfc1924_gen.v, written by harness/gen/pysrc.py, class FnB)
   uses for Python builtins on text and lists, and for the calls into netaddr.ip that are not translated.
   Text is a Coq string; `s.split(c)`, `s.split(c, 1)`, `sep.join(l)`, `c in s`, `'%d' % n` / str(n), int(s) are the
   CPython-validated models of Base/PyStr.v (split, split1, join, contains_char, fmt_d, py_int), printed directly by the
   translator.  Everything else is here: each symbol is a small definition, or the hand model of an untranslated callee. *)
From Coq Require Import ZArith List Bool String Ascii.
From NV Require Import Base.PyVal Base.PyStr Model.Ip Model.SrcPrelude Model.SrcPreludeStr Model.Glob.
Import ListNotations.
Open Scope Z_scope.

(* ---- builtins on lists ---- *)
(* l[i] for an int i: negative indices count from the end, IndexError outside -len .. len-1 *)
Definition py_index {A} (l : list A) (i : Z) : outcome A :=
  let n := Z.of_nat (List.length l) in
  let j := if i <? 0 then i + n else i in
  if (j <? 0) || (n <=? j) then Raise IndexError
  else match nth_error l (Z.to_nat j) with Some x => Ok x | None => Raise IndexError end.

(* (a, b) = l for a list l: ValueError unless it has exactly two elements *)
Definition py_unpack2 {A} (l : list A) : outcome (A * A) :=
  match l with [a; b] => Ok (a, b) | _ => Raise ValueError end.

(* [f(x) for x in l]: f(x) is evaluated in order, the first exception wins *)
Fixpoint py_map_o {A B} (f : A -> outcome B) (l : list A) : outcome (list B) :=
  match l with
  | [] => Ok []
  | x :: r => do y <- f x; do ys <- py_map_o f r; Ok (y :: ys)
  end.

(* range(lo, hi) consumed at once: lo, lo+1, .., hi-1 (empty when hi <= lo) *)
Fixpoint py_zseq (lo : Z) (n : nat) : list Z :=
  match n with O => [] | S k => lo :: py_zseq (lo + 1) k end.
Definition py_zrange (lo hi : Z) : list Z := py_zseq lo (Z.to_nat (hi - lo)).

(* sorted(s) for a set / list of ints: ascending insertion sort *)
Fixpoint py_ins_asc (x : Z) (l : list Z) : list Z :=
  match l with
  | [] => [x]
  | y :: r => if x <=? y then x :: l else y :: py_ins_asc x r
  end.
Definition py_sorted_asc (l : list Z) : list Z := fold_right py_ins_asc [] l.

(* ---- builtins on text ---- *)
(* the truth value of a str: `if s` / `not s` *)
Definition py_str_nonempty (s : string) : bool := match s with EmptyString => false | String _ _ => true end.
(* s[0] == c, used only where s is known to be non-empty (an earlier operand `not s` of the same `or`); false on "" *)
Definition py_str_head_is (c : ascii) (s : string) : bool :=
  match s with String c' _ => ascii_eqb c' c | EmptyString => false end.
(* n * "c" for a one-character string: n copies (none for n <= 0) *)
Definition py_str_times (n : Z) (c : ascii) : string := str_of (repeat_char c (Z.to_nat n)).
(* list(s): the one-character strings of s *)
Definition py_str_list (s : string) : list string := map (fun c => String c EmptyString) (chars s).

(* ---- try: body / except (E1, ..): handler.  An exception of one of the listed classes leaving the body runs the
   handler (which sees the variables as they were at the try: the translator checks that the body cannot raise after
   assigning a variable the handler reads); classes are compared by name (see SrcPrelude.py_except). ---- *)
Definition py_try {A} (es : list exn) (body handler : outcome A) : outcome A :=
  match body with
  | Raise x => if existsb (exn_eqb x) es then handler else Raise x
  | Ok a => Ok a
  end.

(* ---- calls into netaddr.ip that are NOT translated: the hand models used by Model/Glob.v ---- *)
(* IPAddress(s) for a str s: the address parser is property C01; on the strings this module builds (canonical dotted
   quads) it is Glob.ip_of_canon = inet_pton; an IPAddress object is (version, value) *)
Definition py_ipaddress_of_str (s : string) : outcome (Z * Z) := do v <- ip_of_canon s; Ok (4, v).
(* IPRange(s1, s2) for two such strings: both parsed, then the ordering check of IPRange.__init__;
   an IPRange object is (version, start value, end value) *)
Definition py_iprange_of_strs (s1 s2 : string) : outcome (Z * Z * Z) :=
  do a <- ip_of_canon s1; do b <- ip_of_canon s2;
  if a >? b then Raise AddrFormatError else Ok (4, a, b).
(* str(ip) for an IPAddress object: strategy/ipv4.int_to_str (Glob.int_to_str4); IPv6 text is not modelled here *)
Definition py_addr_str (a : Z * Z) : outcome string :=
  if fst a =? 4 then int_to_str4 (snd a) else Raise Unsupported.
(* IPNetwork(ip) for an IPAddress object ip (what iprange_to_cidrs does with its arguments): the host network /width *)
Definition py_net_of_addr (a : Z * Z) : net := {| nver := fst a; nval := snd a; nplen := width (fst a) |}.

(* ---- the IPGlob class: slots, and the IPRange methods reached through super() (NOT translated: hand models) ---- *)
(* reading a slot that may be unset: AttributeError *)
Definition py_attr_get {A} (o : option A) : outcome A := match o with Some x => Ok x | None => Raise AttributeError end.
(* IPRange.__init__(start, end) for two IPAddress objects: _start = IPAddress(start) (copy), _end = IPAddress(end, version of
   start) (ValueError: the copy constructor cannot switch versions), then the ordering check; the new (_start, _end) *)
Definition py_iprange_init (s e : Z * Z) : outcome ((Z * Z) * (Z * Z)) :=
  if negb (fst e =? fst s) then Raise ValueError
  else if snd s >? snd e then Raise AddrFormatError else Ok (s, e).
(* IPRange.__getstate__(): (_start.value, _end.value, _module.version) *)
Definition py_iprange_getstate (s e : Z * Z) : Z * Z * Z := (snd s, snd e, fst s).
(* IPRange.__setstate__((start, end, version)): _start = IPAddress(start, version), _end = IPAddress(end, version) *)
Definition py_iprange_setstate (st : Z * Z * Z) : outcome ((Z * Z) * (Z * Z)) :=
  let '(s, e, ver) := st in
  do a <- addr_of_int_ver s ver; do b <- addr_of_int_ver e ver; Ok (a, b).
