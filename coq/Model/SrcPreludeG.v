(* Model/SrcPreludeG.v -- symbols of the units SRCG_UNITS of harness/gen/pysrc.py (tag SRCG).  Small executable definitions;
   no proofs here.
   netaddr/ip/iana.py (query, _within_bounds): a row of an IANA_INFO dictionary is Model/Iana.v's irow (key object + record);
   the result of query() is a dict from result names to lists of records = an insertion-ordered association list. *)
From Coq Require Import ZArith List Bool String Ascii.
From NV Require Import Base.PyVal Base.PyStr Model.Ip Model.SrcPrelude Model.Iana.
Import ListNotations.
Open Scope Z_scope.

(* the key object of a row as Python sees it: an IPNetwork (Ip.net), an IPRange (version, start, end) or an IPAddress (version, value) *)
Inductive ikeyview := IKNet (n : net) | IKRange (ver s e : Z) | IKAddr (a : Z * Z).
Definition py_ikey_view (r : irow) : ikeyview :=
  match r_kind r with
  | KN => IKNet {| nver := r_ver r; nval := r_x r; nplen := r_y r |}
  | KG => IKRange (r_ver r) (r_x r) (r_y r)
  | KA => IKAddr (r_ver r, r_x r)
  end.

(* info = {} ; info.setdefault(k, []) ; info[k].append(x) *)
Definition sdict := list (string * list irow).
Definition py_sd_new : sdict := [].
Fixpoint py_sd_mem (d : sdict) (k : string) : bool :=
  match d with [] => false | (k', _) :: t => if String.eqb k' k then true else py_sd_mem t k end.
Definition py_sd_setdefault (d : sdict) (k : string) : sdict := if py_sd_mem d k then d else (d ++ [(k, [])])%list.
Fixpoint py_sd_append (d : sdict) (k : string) (x : irow) : outcome sdict :=
  match d with
  | [] => Raise KeyError
  | (k', l) :: t => if String.eqb k' k then Ok ((k', (l ++ [x])%list) :: t) else do t' <- py_sd_append t k x; Ok ((k', l) :: t')
  end.

(* names: IANA_INFO keys -> the registry tags of Model/Iana.v; registry tags -> the keys of the result of query() *)
Definition iana_dict_reg (k : string) : Z :=
  if String.eqb k "IPv4" then REG_IPV4 else if String.eqb k "multicast" then REG_MCAST
  else if String.eqb k "IPv6" then REG_IPV6 else if String.eqb k "IPv6_unicast" then REG_IPV6U else (-1).
Definition iana_result_name (reg : Z) : string :=
  if reg =? REG_IPV4 then "IPv4" else if reg =? REG_MCAST then "Multicast"
  else if reg =? REG_IPV6 then "IPv6" else if reg =? REG_IPV6U then "IPv6_unicast" else "".
Definition iana_table (tab : list irow) (k : string) : list irow := sub_dict tab (iana_dict_reg k).
Definition iana_named (info : list (Z * list irow)) : sdict := map (fun kl => (iana_result_name (fst kl), snd kl)) info.

(* ---- netaddr/eui/__init__.py: the identifier classes (unit pysrc_euig_gen.v) ---- *)
(* ieee.OUI_INDEX / ieee.IAB_INDEX: a dict identifier -> list of (offset, size), as its items in insertion order *)
Definition eindex := list (Z * list (Z * Z)).
Fixpoint py_eidx_find (d : eindex) (k : Z) : option (list (Z * Z)) :=
  match d with [] => None | (k', l) :: t => if k' =? k then Some l else py_eidx_find t k end.
Definition py_eidx_mem (d : eindex) (k : Z) : bool := match py_eidx_find d k with Some _ => true | None => false end.
Definition py_eidx_get (d : eindex) (k : Z) : outcome (list (Z * Z)) :=
  match py_eidx_find d k with Some l => Ok l | None => Raise KeyError end.
(* a, b = <sequence>: ValueError unless it has exactly two items *)
Definition py_pair_of_list (l : list Z) : outcome (Z * Z) := match l with [a; b] => Ok (a, b) | _ => Raise ValueError end.
(* record['offset'] = e / record['size'] = e on the six-field record (fields 4 and 5; the other fields are not ints) *)
Definition orec := (Z * string * string * list string * Z * Z)%type.
Definition py_rec_set (r : orec) (field : Z) (e : Z) : orec :=
  let '(idx, id, org, address, offset, size) := r in
  if field =? 0 then (e, id, org, address, offset, size) else if field =? 4 then (idx, id, org, address, e, size)
  else if field =? 5 then (idx, id, org, address, offset, e) else r.
(* '<text>%o' % e *)
Definition py_fmt_oct (text : string) (e : Z) : string :=
  String.append text (if e <? 0 then String "-" (PyStr.str_of (PyStr.fmt_nat 8 false (- e))) else PyStr.str_of (PyStr.fmt_nat 8 false e)).

(* ---- netaddr/eui/ieee.py load_index (unit pysrc_ieeeg_gen.v) ---- *)
(* index.setdefault(k, []) ; index[k].append(x) on an index dict *)
Definition py_eidx_setdefault (d : eindex) (k : Z) : eindex := if py_eidx_mem d k then d else (d ++ [(k, [])])%list.
Fixpoint py_eidx_append (d : eindex) (k : Z) (x : Z * Z) : outcome eindex :=
  match d with
  | [] => Raise KeyError
  | (k', l) :: t => if k' =? k then Ok ((k', (l ++ [x])%list) :: t) else do t' <- py_eidx_append t k x; Ok ((k', l) :: t')
  end.
(* [f(x) for x in xs] where f can raise: left to right, the first exception wins *)
Fixpoint py_map_og {A B} (f : A -> outcome B) (l : list A) : outcome (list B) :=
  match l with [] => Ok [] | x :: r => do y <- f x; do ys <- py_map_og f r; Ok (y :: ys) end.
(* a, b, c = <sequence>: ValueError unless it has exactly three items *)
Definition py_triple_of_list (l : list Z) : outcome (Z * Z * Z) := match l with [a; b; c] => Ok (a, b, c) | _ => Raise ValueError end.

(* ---- iter_unique_ips (unit pysrc_uniq_gen.v) ---- *)
(* `for ip in cidr` for an IPNetwork object (IPListMixin.__iter__, property C10; not translated here): IPAddress(first) .. IPAddress(last),
   as (version, value) pairs; `for x in l: for y in x: yield y` = these lists one after the other *)
Definition py_net_addrs (n : net) : list (Z * Z) :=
  let first := net_first (width (nver n)) (nval n) (nplen n) in
  let last := net_last (width (nver n)) (nval n) (nplen n) in
  map (fun i => (nver n, first + Z.of_nat i)) (seq 0 (Z.to_nat (last - first + 1))).
Definition py_flat_addrs (l : list net) : list (Z * Z) := flat_map py_net_addrs l.

(* ---- IPAddress.format (unit pysrc_ipg_gen.v) ---- *)
(* the `dialect` argument: None | a dialect class with a word_fmt attribute, as the pair (word_fmt, compact) | any other object *)
Inductive darg6 := D6None | D6Class (c : string * bool) | D6Other.

(* ---- netaddr/ip/iana.py, filling the dictionaries (unit pysrc_ianab_gen.v) ---- *)
(* s.strip() (Base/PyStr.v strip: str.isspace on latin-1) ; a, b = <list> (ValueError unless two items) ; d[k] on a dict of text (KeyError) *)
Definition py_strip (s : string) : string := PyStr.strip s.
Definition py_unpack2g {A} (l : list A) : outcome (A * A) := match l with [a; b] => Ok (a, b) | _ => Raise ValueError end.
Fixpoint py_srec_get (d : list (string * string)) (k : string) : outcome string :=
  match d with [] => Raise KeyError | (k', v) :: t => if String.eqb k' k then Ok v else py_srec_get t k end.

(* ---- the IPSet leftovers (unit pysrc_sets_g_gen.v) ---- *)
(* repr() of a list of str: each item in single quotes, joined by ', ', in brackets.  Faithful for items made of printable ASCII
   characters other than the quote and the backslash (Python then writes the text unchanged between single quotes); any other item
   is Unsupported (it would be escaped, or quoted differently). *)
Definition py_repr_plain (c : ascii) : bool :=
  let n := Z.of_nat (nat_of_ascii c) in (32 <=? n) && (n <? 127) && negb (n =? 39) && negb (n =? 92).
Definition py_repr_str (s : string) : outcome string :=
  if forallb py_repr_plain (PyStr.chars s) then Ok (String.append "'" (String.append s "'")) else Raise Unsupported.
Definition py_repr_strlist (l : list string) : outcome string :=
  do items <- py_map_og py_repr_str l; Ok (String.append "[" (String.append (PyStr.join ", " items) "]")).
