(* Model/Splitter.v — netaddr/contrib/subnet_splitter.py (SubnetSplitter), as repaired (every merged block of the
   extraction is excluded).  State: the `_subnets` set as a list of networks of one family (the base's).
   Python's set iteration order is not modelled: `available_subnets` is a stable sort by descending prefix length of
   whatever order the list has; Proofs/C20.v shows that available blocks always have pairwise distinct prefix
   lengths, so the sort has a unique answer and `extract_subnet` is deterministic. *)
From Coq Require Import ZArith List Bool.
From NV Require Import Base.PyVal Model.Ip Model.Partition Model.Span Model.Merge Model.Subnet.
Import ListNotations.
Open Scope Z_scope.

Definition sp_state := list cblk.      (* (value, prefixlen) of the base family *)

(* sorted(self._subnets, key=lambda x: x.prefixlen, reverse=True): stable insertion sort, descending prefix *)
Fixpoint ins_desc (x : cblk) (l : list cblk) : list cblk :=
  match l with
  | [] => [x]
  | y :: r => if snd y <? snd x then x :: l else y :: ins_desc x r
  end.
Definition available_subnets (st : sp_state) : list cblk := fold_right ins_desc [] st.

(* set.remove: KeyError if absent; IPNetwork equality = same first and last (same family) *)
Definition blk_eqb (w : Z) (a b : cblk) : bool :=
  (net_first w (fst a) (snd a) =? net_first w (fst b) (snd b)) && (net_last w (fst a) (snd a) =? net_last w (fst b) (snd b)).
Fixpoint remove_blk (w : Z) (st : sp_state) (k : cblk) : outcome sp_state :=
  match st with
  | [] => Raise KeyError
  | x :: r => if blk_eqb w k x then Ok r else do r' <- remove_blk w r k; Ok (x :: r')
  end.
Definition remove_subnet := remove_blk.

(* set union with a list: add what is not already present *)
Definition add_blk (w : Z) (st : sp_state) (k : cblk) : sp_state :=
  if existsb (blk_eqb w k) st then st else st ++ [k].

(* `for extracted in cidr_merge(subnets): remaining = [left for block in remaining for left in cidr_exclude(block, extracted)]` *)
Fixpoint exclude_from_all (w : Z) (remaining : list cblk) (extracted : cblk) : outcome (list cblk) :=
  match remaining with
  | [] => Ok []
  | b :: r => do here <- cidr_exclude w b extracted; do rest <- exclude_from_all w r extracted; Ok (here ++ rest)
  end.
Fixpoint exclude_each (w : Z) (remaining : list cblk) (merged : list cblk) : outcome (list cblk) :=
  match merged with
  | [] => Ok remaining
  | m :: r => do rem' <- exclude_from_all w remaining m; exclude_each w rem' r
  end.

(* list(cidr.subnet(prefix, count=count)) *)
Definition subnet_list (w : Z) (cidr : cblk) (prefix : Z) (count : option Z) : outcome (list cblk) :=
  do og <- subnet_start w cidr prefix count;
  match og with
  | None => Ok []
  | Some g => gen_take (subnet_next w) (Z.to_nat (sg_count g)) g
  end.

(* the `for cidr in self.available_subnets()` loop of extract_subnet *)
Fixpoint extract_loop (ver : Z) (st : sp_state) (cands : list cblk) (prefix : Z) (count : option Z)
  : outcome (sp_state * list cblk) :=
  let w := width ver in
  match cands with
  | [] => Ok (st, [])
  | cidr :: r =>
      do subnets <- subnet_list w cidr prefix count;
      match subnets with
      | [] => extract_loop ver st r prefix count
      | _ =>
          do st1 <- remove_subnet w st cidr;
          do merged <- cidr_merge (map (fun b => MNet (net_of_cblk ver b)) subnets);
          do remaining <- exclude_each w [cidr] (map cblk_of_net merged);
          Ok (fold_left (add_blk w) remaining st1, subnets)
      end
  end.

Definition extract_subnet (ver : Z) (st : sp_state) (prefix : Z) (count : option Z) : outcome (sp_state * list cblk) :=
  extract_loop ver st (available_subnets st) prefix count.

Inductive sp_op := SpExtract (prefix : Z) (count : option Z) | SpRemove (k : cblk).

(* one API call; a raising call leaves the state as it was *)
Definition sp_step (ver : Z) (st : sp_state) (o : sp_op) : sp_state * outcome (list cblk) :=
  match o with
  | SpExtract prefix count =>
      match extract_subnet ver st prefix count with
      | Ok (st', subnets) => (st', Ok subnets)
      | Raise e => (st, Raise e)
      end
  | SpRemove k =>
      match remove_subnet (width ver) st k with
      | Ok st' => (st', Ok [])
      | Raise e => (st, Raise e)
      end
  end.
