(* Model/Codec.v — binary / bit / word / packed / DNS / base-85 codecs of netaddr (property C15).
   Mirrors, with their own spelling, netaddr/strategy/__init__.py (all of it), the per-family
   int_to_packed / packed_to_int / int_to_arpa / int_to_words / words_to_int of strategy/{ipv4,ipv6,eui48,eui64}.py,
   netaddr/ip/rfc1924.py and the object accessors of ip/__init__.py 502-543 and eui/__init__.py 631-657,
   AFTER the repair of defect F-14 (valid_bits / valid_bin check the characters; only the leading '0b' is stripped).
   The pre-fix fragment is kept in History/C15_refuted.v.  No proofs here; the Spec section at the end holds the
   independent definitions the theorems compare against. *)
From Coq Require Import String Ascii.
From NV Require Import Base.Tac Base.PyVal Base.PyStr Model.Ip Gen.codec_gen.
Open Scope string_scope.
Open Scope Z_scope.

(* ------------------------------------------------------------------------------------------------ *)
(* dialect parameters: taken from the generated table (module constants and built-in dialect classes) *)
Record dialect := { d_width : Z; d_ws : Z; d_nw : Z; d_sep : string }.

Definition dialect_of_row (r : string * string * (Z * Z * Z) * string * (Z * Z)) : dialect :=
  let '(_, _, (w, ws, nw), sep, _) := r in {| d_width := w; d_ws := ws; d_nw := nw; d_sep := sep |}.

Fixpoint find_row (fam name : string) (t : list (string * string * (Z * Z * Z) * string * (Z * Z)))
  : option dialect :=
  match t with
  | [] => None
  | r :: rest => let '(f, n, _, _, _) := r in
                 if String.eqb f fam && String.eqb n name then Some (dialect_of_row r) else find_row fam name rest
  end.
Definition find_dialect (fam name : string) : option dialect := find_row fam name gen_dialects.
Definition all_dialects : list dialect := map dialect_of_row gen_dialects.

(* DEFAULT_DIALECT / DEFAULT_EUI64_DIALECT of the EUI modules ('' = the module constants of the IP modules) *)
Definition default_name (fam : string) : string :=
  if String.eqb fam "eui48" then gen_default_eui48 else if String.eqb fam "eui64" then gen_default_eui64 else "".

(* ------------------------------------------------------------------------------------------------ *)
(* strategy/__init__.py *)

(* bytes_to_bits(): entry `num` of the 256-element table.  bits[i] = '01'[num & 1]; num >>= 1 for i = 7 .. 0 *)
Fixpoint byte_bits_loop (n : nat) (num : Z) (bits : list ascii) : list ascii :=
  match n with
  | O => bits
  | S k => byte_bits_loop k (Z.shiftr num 1) ((if Z.land num 1 =? 0 then "0"%char else "1"%char) :: bits)
  end.
Definition byte_bits (num : Z) : list ascii := byte_bits_loop 8 num [].
(* BYTES_TO_BITS = [byte_bits num for num in range(256)]; `BYTES_TO_BITS[word & 255]` is modelled as
   `byte_bits (Z.land word 255)` (index always in 0..255); Proofs/GenOk_C15.v checks the dumped table. *)

Definition valid_words (words : list Z) (word_size num_words : Z) : bool :=
  if negb (Z.of_nat (List.length words) =? num_words) then false
  else let max_word := 2 ^ word_size - 1 in
       forallb (fun i => (0 <=? i) && (i <=? max_word)) words.

(* the list `words` in append order (least significant word first) *)
Fixpoint words_loop (n : nat) (int_val max_word word_size : Z) : list Z :=
  match n with
  | O => []
  | S k => Z.land int_val max_word :: words_loop k (Z.shiftr int_val word_size) max_word word_size
  end.

Definition int_to_words (int_val word_size num_words : Z) : outcome (list Z) :=
  let max_int := 2 ^ (num_words * word_size) - 1 in
  if negb ((0 <=? int_val) && (int_val <=? max_int)) then Raise IndexError
  else let max_word := 2 ^ word_size - 1 in
       Ok (rev (words_loop (Z.to_nat num_words) int_val max_word word_size)).

(* for i, num in enumerate(reversed(words)): int_val |= num << word_size * i *)
Fixpoint lor_words (rwords : list Z) (i word_size int_val : Z) : Z :=
  match rwords with
  | [] => int_val
  | num :: r => lor_words r (i + 1) word_size (Z.lor int_val (Z.shiftl num (word_size * i)))
  end.

Definition words_to_int (words : list Z) (word_size num_words : Z) : outcome Z :=
  if negb (valid_words words word_size num_words) then Raise ValueError
  else Ok (lor_words (rev words) 0 word_size 0).

Definition is_bin_digit (c : ascii) : bool := ascii_eqb c "0"%char || ascii_eqb c "1"%char.
(* BIN_DIGITS.issuperset(s) for a str *)
Definition all_bin_digits (s : string) : bool := forallb is_bin_digit (chars s).

Definition strip_sep (word_sep bits : string) : string :=
  if String.eqb word_sep "" then bits else replace word_sep "" bits.

(* int(s, 2) inside try/except ValueError, followed by the range test *)
Definition int2_in_range (s : string) (width : Z) : bool :=
  match py_int 2 s with
  | Some v => (0 <=? v) && (v <=? 2 ^ width - 1)
  | None => false
  end.

Definition valid_bits (bits : string) (width : Z) (word_sep : string) : bool :=
  let bits := strip_sep word_sep bits in
  if negb (str_len bits =? width) then false
  else if negb (all_bin_digits bits) then false
  else int2_in_range bits width.

Definition bits_to_int (bits : string) (width : Z) (word_sep : string) : outcome Z :=
  if negb (valid_bits bits width word_sep) then Raise ValueError
  else match py_int 2 (strip_sep word_sep bits) with
       | Some v => Ok v
       | None => Raise ValueError
       end.

(* while word: bits.append(BYTES_TO_BITS[word & 255]); word >>= 8 *)
Fixpoint word_bytes_loop (fuel : nat) (word : Z) (bits : list (list ascii)) : outcome (list (list ascii)) :=
  if word =? 0 then Ok bits
  else match fuel with
       | O => Raise OutOfFuel
       | S f => word_bytes_loop f (Z.shiftr word 8) (bits ++ [byte_bits (Z.land word 255)])%list
       end.

(* s[-n:] *)
Definition last_n (n : nat) (l : list ascii) : list ascii :=
  match n with O => l | _ => skipn (List.length l - n) l end.

Definition word_bits (word_size word : Z) : outcome (list ascii) :=
  do bits <- word_bytes_loop (Z.to_nat word_size + 1) word [];
  let joined := concat (rev bits) in
  let zeros := repeat_char "0"%char (Z.to_nat word_size) in
  let bit_str := match joined with [] => zeros | _ => joined end in
  Ok (last_n (Z.to_nat word_size) (zeros ++ bit_str)%list).

Fixpoint map_outcome {A B} (f : A -> outcome B) (l : list A) : outcome (list B) :=
  match l with
  | [] => Ok []
  | x :: r => do y <- f x; do ys <- map_outcome f r; Ok (y :: ys)
  end.

Definition int_to_bits (int_val word_size num_words : Z) (word_sep : string) : outcome string :=
  do words <- int_to_words int_val word_size num_words;
  do bit_words <- map_outcome (word_bits word_size) words;
  Ok (join word_sep (map str_of bit_words)).

(* s[2:] *)
Definition drop2 (s : string) : string := str_of (skipn 2 (chars s)).

Definition valid_bin (bin_val : string) (width : Z) : bool :=
  if negb (starts_with "0b" bin_val) then false
  else let bin_val := drop2 bin_val in
       if str_len bin_val >? width then false
       else if negb (all_bin_digits bin_val) then false
       else int2_in_range bin_val width.

(* bin(v) *)
Definition py_bin (v : Z) : string :=
  if v <? 0 then "-0b" ++ str_of (fmt_nat 2 false (- v)) else "0b" ++ str_of (fmt_nat 2 false v).

Definition int_to_bin (int_val width : Z) : outcome string :=
  let bin_val := py_bin int_val in
  if str_len (drop2 bin_val) >? width then Raise IndexError else Ok bin_val.

Definition bin_to_int (bin_val : string) (width : Z) : outcome Z :=
  if negb (valid_bin bin_val width) then Raise ValueError
  else match py_int 2 (replace "0b" "" bin_val) with
       | Some v => Ok v
       | None => Raise ValueError
       end.

(* ------------------------------------------------------------------------------------------------ *)
(* struct.pack / struct.unpack for big-endian (or single-byte) unsigned fields: `sizes` lists the byte width of
   every field ('>I' = [4], '>4I' = [4;4;4;4], '>HI' = [2;4], '>6B' = six 1s, '>8H' = eight 2s, '4B' = four 1s).
   A value out of the field's range, a wrong argument count or a wrong buffer length raise struct.error. *)
Fixpoint be_bytes (n : nat) (v : Z) : list Z :=
  match n with O => [] | S k => (be_bytes k (v / 256) ++ [v mod 256])%list end.

Fixpoint struct_pack (sizes : list nat) (vals : list Z) : outcome (list Z) :=
  match sizes, vals with
  | [], [] => Ok []
  | n :: ss, v :: vs =>
      if (0 <=? v) && (v <? 256 ^ Z.of_nat n)
      then (do r <- struct_pack ss vs; Ok (be_bytes n v ++ r)%list)
      else Raise StructError
  | _, _ => Raise StructError
  end.

Fixpoint from_be (l : list Z) (acc : Z) : Z :=
  match l with [] => acc | b :: r => from_be r (acc * 256 + b) end.

Fixpoint split_fields (sizes : list nat) (l : list Z) : list Z :=
  match sizes with
  | [] => []
  | n :: ss => from_be (firstn n l) 0 :: split_fields ss (skipn n l)
  end.

Definition struct_unpack (sizes : list nat) (buf : list Z) : outcome (list Z) :=
  if Nat.eqb (List.length buf) (fold_right Nat.add O sizes) then Ok (split_fields sizes buf)
  else Raise StructError.

(* bytes <-> latin-1 strings of the wire *)
Definition bytes_of_str (s : string) : list Z := map code (chars s).
Definition str_of_bytes (l : list Z) : string := str_of (map chr l).

(* int.to_bytes(n, 'big') *)
Definition int_to_bytes (n : nat) (v : Z) : outcome (list Z) :=
  if (0 <=? v) && (v <? 256 ^ Z.of_nat n) then Ok (be_bytes n v) else Raise OverflowError.

(* ------------------------------------------------------------------------------------------------ *)
(* strategy/ipv4.py *)
Definition ipv4_int_to_packed (int_val : Z) : outcome (list Z) := struct_pack [4%nat] [int_val].

Definition ipv4_packed_to_int (packed : list Z) : outcome Z :=
  do l <- struct_unpack [4%nat] packed;
  match l with x :: _ => Ok x | [] => Raise IndexError end.

Definition ipv4_int_to_words (int_val : Z) : outcome (list Z) :=
  if negb ((0 <=? int_val) && (int_val <=? 2 ^ 32 - 1)) then Raise ValueError
  else Ok [Z.shiftr int_val 24; Z.land (Z.shiftr int_val 16) 255; Z.land (Z.shiftr int_val 8) 255;
           Z.land int_val 255].

Definition ipv4_words_to_int (d : dialect) (words : list Z) : outcome Z :=
  if negb (valid_words words (d_ws d) (d_nw d)) then Raise ValueError
  else do p <- struct_pack [1%nat; 1%nat; 1%nat; 1%nat] words;
       do l <- struct_unpack [4%nat] p;
       match l with x :: _ => Ok x | [] => Raise IndexError end.

Definition ipv4_int_to_arpa (int_val : Z) : outcome string :=
  do ws <- ipv4_int_to_words int_val;
  let words := map fmt_d ws in
  Ok (join "." (rev words ++ ["in-addr"; "arpa"; ""])%list).

(* ------------------------------------------------------------------------------------------------ *)
(* strategy/ipv6.py *)
Definition ipv6_int_to_packed (int_val : Z) : outcome (list Z) :=
  do words <- int_to_words int_val 32 4;
  struct_pack [4%nat; 4%nat; 4%nat; 4%nat] words.

Definition ipv6_packed_to_int (packed : list Z) : outcome Z :=
  do words <- struct_unpack [4%nat; 4%nat; 4%nat; 4%nat] packed;
  Ok (lor_words (rev words) 0 32 0).

Definition on_exception {A} (e : exn) (o : outcome A) : outcome A :=
  match o with Ok a => Ok a | Raise _ => Raise e end.

(* int_to_str(int_val, ipv6_verbose): the non-compact branch, word_fmt '%.4x', module word_sep *)
Definition ipv6_int_to_str_verbose (d : dialect) (int_val : Z) : outcome string :=
  on_exception ValueError
    (do packed <- ipv6_int_to_packed int_val;
     do words <- struct_unpack [2%nat; 2%nat; 2%nat; 2%nat; 2%nat; 2%nat; 2%nat; 2%nat] packed;
     Ok (join (d_sep d) (map (fmt_x_pad 4) words))).

Definition char_str (c : ascii) : string := String c EmptyString.

Definition ipv6_int_to_arpa (d : dialect) (int_val : Z) : outcome string :=
  do addr <- ipv6_int_to_str_verbose d int_val;
  let tokens := map char_str (chars (replace ":" "" addr)) in
  Ok (join "." (rev tokens ++ ["ip6"; "arpa"; ""])%list).

(* ------------------------------------------------------------------------------------------------ *)
(* strategy/eui48.py, strategy/eui64.py *)
Definition eui48_int_to_packed (int_val : Z) : outcome (list Z) :=
  struct_pack [2%nat; 4%nat] [Z.shiftr int_val 32; Z.land int_val 4294967295].

Definition eui48_packed_to_int (packed : list Z) : outcome Z :=
  do words <- struct_unpack [1%nat; 1%nat; 1%nat; 1%nat; 1%nat; 1%nat] packed;
  Ok (lor_words (rev words) 0 8 0).

(* int_to_words(int_val) with the module's default dialect `dflt` *)
Definition eui64_int_to_packed (dflt : dialect) (int_val : Z) : outcome (list Z) :=
  do words <- int_to_words int_val (d_ws dflt) (d_nw dflt);
  struct_pack [1%nat; 1%nat; 1%nat; 1%nat; 1%nat; 1%nat; 1%nat; 1%nat] words.

Definition eui64_packed_to_int (packed : list Z) : outcome Z :=
  do words <- struct_unpack [1%nat; 1%nat; 1%nat; 1%nat; 1%nat; 1%nat; 1%nat; 1%nat] packed;
  Ok (lor_words (rev words) 0 8 0).

(* ------------------------------------------------------------------------------------------------ *)
(* the module-level wrappers, by family name ("ipv4" | "ipv6" | "eui48" | "eui64") and dialect *)
Definition m_int_to_words (fam : string) (d : dialect) (v : Z) : outcome (list Z) :=
  if String.eqb fam "ipv4" then ipv4_int_to_words v else int_to_words v (d_ws d) (d_nw d).
Definition m_words_to_int (fam : string) (d : dialect) (words : list Z) : outcome Z :=
  if String.eqb fam "ipv4" then ipv4_words_to_int d words else words_to_int words (d_ws d) (d_nw d).
Definition m_int_to_bits (d : dialect) (v : Z) : outcome string := int_to_bits v (d_ws d) (d_nw d) (d_sep d).
Definition m_valid_bits (d : dialect) (s : string) : bool := valid_bits s (d_width d) (d_sep d).
Definition m_bits_to_int (d : dialect) (s : string) : outcome Z := bits_to_int s (d_width d) (d_sep d).
Definition m_int_to_bin (d : dialect) (v : Z) : outcome string := int_to_bin v (d_width d).
Definition m_valid_bin (d : dialect) (s : string) : bool := valid_bin s (d_width d).
Definition m_bin_to_int (d : dialect) (s : string) : outcome Z := bin_to_int s (d_width d).
Definition m_int_to_packed (fam : string) (dflt : dialect) (v : Z) : outcome (list Z) :=
  if String.eqb fam "ipv4" then ipv4_int_to_packed v
  else if String.eqb fam "ipv6" then ipv6_int_to_packed v
  else if String.eqb fam "eui48" then eui48_int_to_packed v
  else eui64_int_to_packed dflt v.
Definition m_packed_to_int (fam : string) (p : list Z) : outcome Z :=
  if String.eqb fam "ipv4" then ipv4_packed_to_int p
  else if String.eqb fam "ipv6" then ipv6_packed_to_int p
  else if String.eqb fam "eui48" then eui48_packed_to_int p
  else eui64_packed_to_int p.

(* IPAddress accessors (ip/__init__.py 502-543); `d` is the module's row of the table *)
Definition ip_bits (d : dialect) (v : Z) (word_sep : option string) : outcome string :=
  int_to_bits v (d_ws d) (d_nw d) (match word_sep with None => d_sep d | Some s => s end).
Definition ip_bytes (d : dialect) (v : Z) : outcome (list Z) := int_to_bytes (Z.to_nat (d_width d / 8)) v.
Definition ip_reverse_dns (fam : string) (d : dialect) (v : Z) : outcome string :=
  if String.eqb fam "ipv4" then ipv4_int_to_arpa v else ipv6_int_to_arpa d v.

(* ------------------------------------------------------------------------------------------------ *)
(* ip/rfc1924.py *)
Definition BASE_85 : list ascii := chars gen_base85.

(* BASE_85_DICT = dict(zip(BASE_85, range(0, 86))): a later duplicate key would win *)
Fixpoint b85_dict_get (tab : list ascii) (i : Z) (c : ascii) (found : option Z) : option Z :=
  match tab with
  | [] => found
  | k :: r => if 86 <=? i then found
              else b85_dict_get r (i + 1) c (if ascii_eqb k c then Some i else found)
  end.
Definition BASE_85_DICT (c : ascii) : option Z := b85_dict_get BASE_85 0 c None.

(* while int_val > 0: remainder.append(int_val % 85); int_val //= 85 *)
Fixpoint b85_loop (fuel : nat) (int_val : Z) : outcome (list Z) :=
  if int_val >? 0 then
    match fuel with
    | O => Raise OutOfFuel
    | S f => do r <- b85_loop f (int_val / 85); Ok (int_val mod 85 :: r)
    end
  else Ok [].

Definition b85_char (w : Z) : outcome ascii :=
  if w <? 0 then Raise Unsupported   (* negative index: never produced by `% 85` *)
  else match nth_error BASE_85 (Z.to_nat w) with Some c => Ok c | None => Raise IndexError end.

(* ipv6_to_base85(addr) for an int (or IPAddress) argument: IPAddress(addr) then int(ip) *)
Definition ipv6_to_base85 (addr : Z) : outcome string :=
  do a <- addr_of_int addr;
  let int_val := snd a in
  do remainder <- b85_loop 20 int_val;
  do encoded <- map_outcome b85_char (rev remainder);
  let leading_zeroes := repeat_char "0"%char (20 - List.length encoded) in
  Ok (str_of (leading_zeroes ++ encoded)%list).

(* result += num * 85 ** i over enumerate(reversed(tokens)) *)
Fixpoint b85_sum (rtokens : list ascii) (i : Z) (result : Z) : outcome Z :=
  match rtokens with
  | [] => Ok result
  | c :: r => match BASE_85_DICT c with
              | Some num => b85_sum r (i + 1) (result + num * 85 ^ i)
              | None => Raise KeyError
              end
  end.

(* base85_to_ipv6(addr): the integer handed to IPAddress(result, 6); the final str(ip) is C01's formatter *)
Definition base85_to_int (addr : string) : outcome Z :=
  let tokens := chars addr in
  if negb (Nat.eqb (List.length tokens) 20) then Raise AddrFormatError
  else do result <- b85_sum (rev tokens) 0 0;
       do a <- addr_of_int_ver result 6;
       Ok (snd a).

(* ================================================================================================ *)
(* Spec: independent definitions of the encodings (plain positional arithmetic) *)
Section Spec.

(* the n most-significant-first digits of v in base b: digit i is v / b^(n-1-i) mod b *)
Definition digits_be (b : Z) (n : nat) (v : Z) : list Z :=
  map (fun i => (v / b ^ (Z.of_nat n - 1 - Z.of_nat i)) mod b) (seq 0 n).

(* value of a most-significant-first digit list *)
Definition undigits (b : Z) (l : list Z) : Z := fold_left (fun acc d => acc * b + d) l 0.

Definition spec_packed (w v : Z) : list Z := digits_be 256 (Z.to_nat (w / 8)) v.
Definition spec_words (ws nw v : Z) : list Z := digits_be (2 ^ ws) (Z.to_nat nw) v.

Definition bit_char (d : Z) : ascii := if d =? 0 then "0"%char else "1"%char.
(* fixed-width binary numeral *)
Definition spec_bin_fixed (n : nat) (v : Z) : list ascii := map bit_char (digits_be 2 n v).
Definition spec_bits (ws nw : Z) (sep : string) (v : Z) : string :=
  join sep (map (fun x => str_of (spec_bin_fixed (Z.to_nat ws) x)) (spec_words ws nw v)).
(* '0b' numeral without leading zeros *)
Definition spec_bin (v : Z) : string :=
  "0b" ++ (if v =? 0 then "0" else str_of (spec_bin_fixed (Z.to_nat (Z.log2 v + 1)) v)).

(* value of a binary digit character *)
Definition bit_val (c : ascii) : Z := if ascii_eqb c "1"%char then 1 else 0.

(* d.c.b.a.in-addr.arpa. *)
Definition spec_arpa4 (v : Z) : string :=
  fmt_d (v mod 256) ++ "." ++ fmt_d (v / 256 mod 256) ++ "." ++ fmt_d (v / 256 ^ 2 mod 256) ++ "."
  ++ fmt_d (v / 256 ^ 3 mod 256) ++ ".in-addr.arpa.".

Definition hex_char (d : Z) : ascii := digit_char d.
(* the 32 nibbles, least significant first, each followed by a dot, then ip6.arpa. *)
Definition spec_arpa6 (v : Z) : string :=
  str_of (flat_map (fun i => [hex_char (v / 16 ^ Z.of_nat i mod 16); "."%char]) (seq 0 32)) ++ "ip6.arpa.".

(* RFC 1924 section 4.2 alphabet *)
Definition rfc1924_alphabet : string :=
  "0123456789ABCDEFGHIJKLMNOPQRSTUVWXYZabcdefghijklmnopqrstuvwxyz!#$%&()*+-;<=>?@^_`{|}~".
Definition spec_b85_char (d : Z) : ascii := nth (Z.to_nat d) (chars rfc1924_alphabet) "?"%char.
Definition spec_base85 (v : Z) : string := str_of (map spec_b85_char (digits_be 85 20 v)).

End Spec.
