(* Model/SrcPreludeSplitter.v — the two callees of SubnetSplitter.extract_subnet that harness/gen/pysrc.py does NOT
   translate (IPNetwork.subnet is a generator; cidr_merge sorts tuples and scans them by index), as symbols for the
   generated file Gen/pysrc_splitter_gen.v.  Each symbol IS the hand model of the callee (Model/Subnet.v through
   Splitter.subnet_list, Model/Merge.v) on IPNetwork objects, so the source tie of C20 covers the text of
   subnet_splitter.py itself, and these two callees stay tied by differential execution (checks C11 and C05). *)
From Coq Require Import ZArith List Bool.
From NV Require Import Base.PyVal Model.Ip Model.Partition Model.Merge Model.Subnet Model.Splitter.
Import ListNotations.
Open Scope Z_scope.

(* list(cidr.subnet(prefix, count=count)) for an IPNetwork object cidr: the subnets are IPNetwork objects of cidr's version *)
Definition py_list_subnet (cidr : net) (prefix : Z) (count : option Z) : outcome (list net) :=
  omap (map (net_of_cblk (nver cidr))) (subnet_list (width (nver cidr)) (cblk_of_net cidr) prefix count).

(* cidr_merge(l) for a list of IPNetwork objects *)
Definition py_cidr_merge (l : list net) : outcome (list net) := cidr_merge (map MNet l).
