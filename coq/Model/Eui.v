(* Model/Eui.v — netaddr/eui/__init__.py (class EUI, IAB.split_iab_mac), netaddr/strategy/eui48.py, eui64.py and the
   word helpers of netaddr/strategy/__init__.py, as repaired by the fix: commits for F-08..F-11.
   Each definition mirrors the Python function named in its comment.  No proofs here. *)
From Coq Require Import ZArith List Bool String Ascii.
From NV Require Import Base.PyVal Base.PyStr Model.Ip.
Import ListNotations.
Open Scope Z_scope.

(* ------------------------------------------------------------------ dialect classes *)
(* class attributes used by the code: word_size, num_words, word_sep, word_fmt (word_base, max_word are never read
   after the F-09 repair) *)
Record dialect := { word_size : Z; num_words : Z; word_sep : string; word_fmt : string }.

Definition mac_eui48 := {| word_size := 8; num_words := 6; word_sep := "-"; word_fmt := "%.2X" |}.
Definition mac_unix := {| word_size := 8; num_words := 6; word_sep := ":"; word_fmt := "%x" |}.
Definition mac_unix_expanded := {| word_size := 8; num_words := 6; word_sep := ":"; word_fmt := "%.2x" |}.
Definition mac_cisco := {| word_size := 16; num_words := 3; word_sep := "."; word_fmt := "%.4x" |}.
Definition mac_bare := {| word_size := 48; num_words := 1; word_sep := ""; word_fmt := "%.12X" |}.
Definition mac_pgsql := {| word_size := 24; num_words := 2; word_sep := ":"; word_fmt := "%.6x" |}.
Definition eui64_base := {| word_size := 8; num_words := 8; word_sep := "-"; word_fmt := "%.2X" |}.
Definition eui64_unix := {| word_size := 8; num_words := 8; word_sep := ":"; word_fmt := "%x" |}.
Definition eui64_unix_expanded := {| word_size := 8; num_words := 8; word_sep := ":"; word_fmt := "%.2x" |}.
Definition eui64_cisco := {| word_size := 16; num_words := 4; word_sep := "."; word_fmt := "%.4x" |}.
Definition eui64_bare := {| word_size := 64; num_words := 1; word_sep := ""; word_fmt := "%.16X" |}.

(* (name, module version, class) in definition order; pinned to the source by Proofs/GenOk_C08.v *)
Definition builtin_dialects : list (string * (Z * dialect)) :=
  [("mac_eui48"%string, (48, mac_eui48)); ("mac_unix"%string, (48, mac_unix));
   ("mac_unix_expanded"%string, (48, mac_unix_expanded)); ("mac_cisco"%string, (48, mac_cisco));
   ("mac_bare"%string, (48, mac_bare)); ("mac_pgsql"%string, (48, mac_pgsql));
   ("eui64_base"%string, (64, eui64_base)); ("eui64_unix"%string, (64, eui64_unix));
   ("eui64_unix_expanded"%string, (64, eui64_unix_expanded)); ("eui64_cisco"%string, (64, eui64_cisco));
   ("eui64_bare"%string, (64, eui64_bare))].

(* strategy modules eui48 / eui64: width, max_int, DEFAULT_DIALECT *)
Definition ewidth (ver : Z) : Z := if ver =? 64 then 64 else 48.
Definition emax_int (ver : Z) : Z := 2 ^ ewidth ver - 1.
Definition default_dialect (ver : Z) : dialect := if ver =? 64 then eui64_base else mac_eui48.

(* IAB.IAB_EUI_VALUES *)
Definition iab_values : list Z := [20674; 4249685].   (* 0x0050c2, 0x40d855 *)

(* ------------------------------------------------------------------ word_fmt % word *)
(* the printf subset used by dialect classes: %x %X %.<k>x %.<k>X %0<k>x %0<k>X, k decimal *)
Fixpoint dec_digits (l : list ascii) (acc : nat) : option (nat * list ascii) :=
  match l with
  | c :: r => if is_digit c then dec_digits r (acc * 10 + Z.to_nat (code c - 48))%nat else Some (acc, l)
  | [] => Some (acc, l)
  end.

Definition conv_char (l : list ascii) : option bool :=      (* Some upper *)
  match l with
  | [c] => if ascii_eqb c "x"%char then Some false else if ascii_eqb c "X"%char then Some true else None
  | _ => None
  end.

Definition parse_fmt (f : string) : option (bool * nat) :=
  match chars f with
  | p :: r =>
      if ascii_eqb p "%"%char then
        match r with
        | c :: r' =>
            if ascii_eqb c "."%char || ascii_eqb c "0"%char then
              match r' with
              | d :: _ => if is_digit d then
                            match dec_digits r' 0 with
                            | Some (k, rest) => match conv_char rest with Some u => Some (u, k) | None => None end
                            | None => None
                            end
                          else None
              | [] => None
              end
            else match conv_char r with Some u => Some (u, O) | None => None end
        | [] => None
        end
      else None
  | [] => None
  end.

(* `fmt % n` for n >= 0 ('%.0x' % 0 is '0' in Python, as here); anything outside the subset is not modelled *)
Definition apply_fmt (f : string) (n : Z) : outcome string :=
  match parse_fmt f with
  | Some (u, k) => if n <? 0 then Raise Unsupported else Ok (if u then fmt_X_pad k n else fmt_x_pad k n)
  | None => Raise Unsupported
  end.

(* ------------------------------------------------------------------ strategy/__init__.py word helpers *)
(* the `for _ in range(num_words)` loop of int_to_words; consing gives the reversed() order directly *)
Fixpoint words_loop (n : nat) (int_val ws : Z) (acc : list Z) : list Z :=
  match n with
  | O => acc
  | S k => words_loop k (Z.shiftr int_val ws) ws (Z.land int_val (2 ^ ws - 1) :: acc)
  end.

Definition int_to_words (int_val ws nw : Z) : outcome (list Z) :=
  if (ws <? 0) || (nw <? 0) then Raise Unsupported        (* 2 ** negative is a float in Python *)
  else
    let max_int := 2 ^ (nw * ws) - 1 in
    if negb ((0 <=? int_val) && (int_val <=? max_int)) then Raise IndexError
    else Ok (words_loop (Z.to_nat nw) int_val ws []).

Definition valid_words (words : list Z) (ws nw : Z) : bool :=
  (Z.of_nat (List.length words) =? nw) && forallb (fun i => (0 <=? i) && (i <=? 2 ^ ws - 1)) words.

(* for i, num in enumerate(reversed(words)): int_val |= num << word_size * i *)
Fixpoint w2i_loop (rwords : list Z) (i ws acc : Z) : Z :=
  match rwords with
  | [] => acc
  | num :: r => w2i_loop r (i + 1) ws (Z.lor acc (Z.shiftl num (ws * i)))
  end.

Definition words_to_int (words : list Z) (ws nw : Z) : outcome Z :=
  if ws <? 0 then Raise Unsupported
  else if negb (valid_words words ws nw) then Raise ValueError
  else Ok (w2i_loop (rev words) 0 ws 0).

(* BYTES_TO_BITS[b] *)
Definition byte_bits (b : Z) : list ascii := chars (fmt_b_pad 8 b).

(* while word: bits.append(BYTES_TO_BITS[word & 255]); word >>= 8   -- then bits.reverse(); consing reverses *)
Fixpoint bits_loop (fuel : nat) (word : Z) (acc : list (list ascii)) : option (list (list ascii)) :=
  if word =? 0 then Some acc
  else match fuel with
       | O => None
       | S f => bits_loop f (Z.shiftr word 8) (byte_bits (Z.land word 255) :: acc)
       end.

Definition last_n {A} (n : nat) (l : list A) : list A := skipn (List.length l - n) l.

Definition word_bits (ws word : Z) : outcome (list ascii) :=
  match bits_loop (Z.to_nat (Z.log2 word / 8 + 2)) word [] with
  | None => Raise OutOfFuel
  | Some bs =>
      let zeros := repeat_char ch_0 (Z.to_nat ws) in
      let bit_str := match List.concat bs with [] => zeros | s => s end in
      (* ('0' * word_size + bit_str)[-word_size:]   ([-0:] is the whole string) *)
      Ok (if ws =? 0 then zeros ++ bit_str else last_n (Z.to_nat ws) (zeros ++ bit_str))
  end.

Fixpoint map_outcome {A B} (f : A -> outcome B) (l : list A) : outcome (list B) :=
  match l with
  | [] => Ok []
  | a :: r => do b <- f a; do bs <- map_outcome f r; Ok (b :: bs)
  end.

Definition int_to_bits (int_val ws nw : Z) (sep : string) : outcome string :=
  do words <- int_to_words int_val ws nw;
  do bws <- map_outcome (word_bits ws) words;
  Ok (str_of (join_chars (chars sep) bws)).

(* int_to_bin: bin(int_val), IndexError when longer than width *)
Definition int_to_bin (int_val w : Z) : outcome string :=
  if int_val <? 0 then Raise Unsupported
  else let digs := fmt_nat 2 false int_val in
       if w <? Z.of_nat (List.length digs) then Raise IndexError
       else Ok (String "0"%char (String "b"%char (str_of digs))).

(* ------------------------------------------------------------------ RE_MAC_FORMATS / RE_EUI64_FORMATS *)
(* The patterns have two shapes; `pat_regex` renders a pattern back to its source text and
   Proofs/GenOk_C08.v proves that the rendered lists are the pattern strings found in the source.
   Matching is re.compile(p, re.IGNORECASE).findall(addr): anchored at 0, `$` also matches before one
   trailing newline; groups are separated by a non-hex literal, so each group is a maximal hex run. *)
Inductive pat :=
| PGroups (n lo hi : nat) (sep : ascii)   (* ^(H{lo,hi})<sep>(H{lo,hi})...$  with n groups *)
| PBare (k : nat).                        (* ^(HHH...H)$  with k digits *)

Definition mac_pats : list pat :=
  [PGroups 6 1 2 ":"%char; PGroups 6 1 2 "-"%char;
   PGroups 3 1 4 ":"%char; PGroups 3 1 4 "-"%char; PGroups 3 1 4 "."%char;
   PGroups 2 5 6 "-"%char; PGroups 2 5 6 ":"%char;
   PBare 12; PBare 11].

Definition eui64_pats : list pat :=
  [PGroups 8 1 2 ":"%char; PGroups 8 1 2 "-"%char;
   PGroups 4 1 4 ":"%char; PGroups 4 1 4 "-"%char; PGroups 4 1 4 "."%char;
   PBare 16].

Definition hex_class : string := "[0-9A-F]".
Fixpoint str_repeat (s : string) (n : nat) : string :=
  match n with O => EmptyString | S k => String.append s (str_repeat s k) end.
Definition small_nat_str (n : nat) : string := fmt_d (Z.of_nat n).
Definition pat_regex (p : pat) : string :=
  match p with
  | PGroups n lo hi sep =>
      let g := String.append "(" (String.append hex_class (String.append "{" (String.append (small_nat_str lo)
               (String.append "," (String.append (small_nat_str hi) "})"))))) in
      let s := if ascii_eqb sep "."%char then "\."%string else String sep EmptyString in
      String.append "^" (String.append (join s (repeat g n)) "$")
  | PBare k => String.append "^(" (String.append (str_repeat hex_class k) ")$")
  end.

Definition is_hex (c : ascii) : bool := match digit_in 16 c with Some _ => true | None => false end.
Definition ch_nl : ascii := ascii_of_N 10.

(* what `$` leaves for the groups: the string without one trailing newline *)
Definition strip_nl (l : list ascii) : list ascii :=
  match rev l with
  | c :: r => if ascii_eqb c ch_nl then rev r else l
  | [] => l
  end.

Definition field_ok (lo hi : nat) (f : list ascii) : bool :=
  forallb is_hex f && Nat.leb lo (List.length f) && Nat.leb (List.length f) hi.

(* findall(addr)[0] as a list of groups, None when the list is empty *)
Definition match_pat (p : pat) (l : list ascii) : option (list string) :=
  match p with
  | PGroups n lo hi sep =>
      let fs := split_chars sep (strip_nl l) [] in
      if Nat.eqb (List.length fs) n && forallb (field_ok lo hi) fs then Some (map str_of fs) else None
  | PBare k =>
      let b := strip_nl l in
      if field_ok k k b then Some [str_of b] else None
  end.

Fixpoint first_match (ps : list pat) (l : list ascii) : option (list string) :=
  match ps with
  | [] => None
  | p :: r => match match_pat p l with Some ws => Some ws | None => first_match r l end
  end.

(* valid_str of either module *)
Definition valid_str (ver : Z) (s : string) : bool :=
  match first_match (if ver =? 64 then eui64_pats else mac_pats) (chars s) with Some _ => true | None => false end.

(* ------------------------------------------------------------------ str_to_int *)
Inductive earg_base := BStr (s : string) | BInt (z : Z) | BOther.

Definition int16 (s : string) : outcome Z :=
  match py_int 16 s with Some v => Ok v | None => Raise ValueError end.

(* int(''.join(['%.<k>x' % int(w, 16) for w in words]), 16) *)
Definition hexjoin (k : nat) (words : list string) : outcome Z :=
  do ws <- map_outcome int16 words;
  int16 (join EmptyString (map (fmt_x_pad k) ws)).

Definition str_to_int_48 (a : earg_base) : outcome Z :=
  match a with
  | BStr s =>
      match first_match mac_pats (chars s) with
      | None => Raise AddrFormatError
      | Some words =>
          match words with
          | [_; _; _; _; _; _] => hexjoin 2 words
          | [_; _; _] => hexjoin 4 words
          | [_; _] => hexjoin 6 words
          | [w] => do v <- int16 w; int16 (fmt_x_pad 12 v)
          | _ => Raise AddrFormatError
          end
      end
  | _ => Raise TypeError
  end.

Definition str_to_int_64 (a : earg_base) : outcome Z :=
  match a with
  | BStr s =>
      match first_match eui64_pats (chars s) with
      | None => Raise AddrFormatError
      | Some words =>
          match words with
          | [_; _; _; _; _; _; _; _] => hexjoin 2 words
          | [_; _; _; _] => hexjoin 4 words
          | [w] => do v <- int16 w; int16 (fmt_x_pad 16 v)
          | _ => Raise AddrFormatError
          end
      end
  | _ => Raise AddrFormatError      (* findall raises TypeError, turned into AddrFormatError *)
  end.

Definition str_to_int (ver : Z) (a : earg_base) : outcome Z :=
  if ver =? 64 then str_to_int_64 a else str_to_int_48 a.

(* int_to_str(int_val, dialect) of either module *)
Definition int_to_str (int_val : Z) (d : dialect) : outcome string :=
  do words <- int_to_words int_val (word_size d) (num_words d);
  do tokens <- map_outcome (apply_fmt (word_fmt d)) words;
  Ok (join (word_sep d) tokens).

(* ------------------------------------------------------------------ class EUI *)
Record eui := { ever : Z; evalue : Z; edialect : dialect }.

Inductive earg := AStr (s : string) | AInt (z : Z) | AEui (e : eui) | AOther.
Inductive darg := DNone | DRec (d : dialect) | DBad.

Definition base_of (a : earg) : earg_base :=
  match a with AStr s => BStr s | AInt z => BInt z | AEui _ => BOther | AOther => BOther end.

(* int(value) *)
Definition py_to_int (a : earg) : outcome Z :=
  match a with
  | AStr s => match py_int 10 s with Some v => Ok v | None => Raise ValueError end
  | AInt z => Ok z
  | AEui e => Ok (evalue e)          (* BaseIdentifier.__int__ *)
  | AOther => Raise TypeError
  end.

(* the integer fallback of one module: Ok None = try the next module *)
Definition int_fallback (a : earg) (ver : Z) : outcome (option Z) :=
  match py_to_int a with
  | Ok i => if (0 <=? i) && (i <=? emax_int ver) then Ok (Some i) else Ok None
  | Raise ValueError => Ok None
  | Raise e => Raise e
  end.

(* _set_value, version implicit: both string parsers first, then the integer fallback (F-11 repaired) *)
Definition detect_version (a : earg) : outcome (Z * Z) :=
  match str_to_int_48 (base_of a) with
  | Ok v => Ok (48, v)
  | Raise AddrFormatError =>
      match str_to_int_64 (base_of a) with
      | Ok v => Ok (64, v)
      | Raise AddrFormatError =>
          match int_fallback a 48 with
          | Ok (Some i) => Ok (48, i)
          | Ok None =>
              match int_fallback a 64 with
              | Ok (Some i) => Ok (64, i)
              | Ok None => Raise AddrFormatError
              | Raise e => Raise e
              end
          | Raise e => Raise e
          end
      | Raise e => Raise e
      end
  | Raise e => Raise e
  end.

(* _set_value, version explicit *)
Definition set_value_ver (ver : Z) (a : earg) : outcome Z :=
  match a with
  | AStr s => str_to_int ver (BStr s)      (* AddrFormatError re-raised as AddrFormatError *)
  | _ => do i <- py_to_int a;
         if (0 <=? i) && (i <=? emax_int ver) then Ok i else Raise AddrFormatError
  end.

(* _validate_dialect *)
Definition validate_dialect (ver : Z) (d : darg) : outcome dialect :=
  match d with
  | DNone => Ok (default_dialect ver)
  | DRec r => Ok r
  | DBad => Raise TypeError
  end.

(* EUI.__init__(addr, version, dialect) *)
Definition eui_init (a : earg) (version : option Z) (d : darg) : outcome eui :=
  match a with
  | AEui e =>
      match version with
      | Some v => if negb (v =? ever e) then Raise ValueError else Ok e
      | None => Ok e
      end
  | _ =>
      do m <- match version with
              | Some v => if v =? 48 then Ok (Some 48) else if v =? 64 then Ok (Some 64) else Raise ValueError
              | None => match a with
                        | AInt i => if (0 <=? i) && (i <=? emax_int 48) then Ok (Some 48)
                                    else if (emax_int 48 <? i) && (i <=? emax_int 64) then Ok (Some 64)
                                    else Ok None
                        | _ => Ok None
                        end
              end;
      do vv <- match m with
               | None => detect_version a
               | Some ver => do v <- set_value_ver ver a; Ok (ver, v)
               end;
      do dd <- validate_dialect (fst vv) d;
      Ok {| ever := fst vv; evalue := snd vv; edialect := dd |}
  end.

(* e.value = x on a constructed object *)
Definition eui_set_value (e : eui) (a : earg) : outcome eui :=
  do v <- set_value_ver (ever e) a;
  Ok {| ever := ever e; evalue := v; edialect := edialect e |}.

(* e.dialect = d *)
Definition eui_set_dialect (e : eui) (d : darg) : outcome eui :=
  do dd <- validate_dialect (ever e) d;
  Ok {| ever := ever e; evalue := evalue e; edialect := dd |}.

(* EUI.oui: the integer handed to OUI(...) *)
Definition eui_oui (e : eui) : option Z :=
  if ever e =? 48 then Some (Z.shiftr (evalue e) 24)
  else if ever e =? 64 then Some (Z.shiftr (evalue e) 40)
  else None.

(* EUI.words: self._module.int_to_words(self._value) -- module default dialect *)
Definition eui_words (e : eui) : outcome (list Z) :=
  let d := default_dialect (ever e) in int_to_words (evalue e) (word_size d) (num_words d).

(* EUI.ei (F-08 repaired: octets of the value) *)
Definition eui_ei (e : eui) : outcome (option string) :=
  if ever e =? 48 then
    do ws <- eui_words e;
    let sl := firstn 3 (skipn 3 ws) in
    if Nat.eqb (List.length sl) 3 then Ok (Some (join "-" (map (fmt_X_pad 2) sl))) else Raise TypeError
  else if ever e =? 64 then
    do ws <- eui_words e;
    let sl := firstn 5 (skipn 3 ws) in
    if Nat.eqb (List.length sl) 5 then Ok (Some (join "-" (map (fmt_X_pad 2) sl))) else Raise TypeError
  else Ok None.

Definition zmem (x : Z) (l : list Z) : bool := existsb (Z.eqb x) l.

Definition eui_is_iab (e : eui) : bool := zmem (Z.shiftr (evalue e) 24) iab_values.

(* IAB.split_iab_mac(eui_int, strict) *)
Definition split_iab_mac (eui_int : Z) (strict : bool) : outcome (Z * Z) :=
  if zmem (Z.shiftr eui_int 12) iab_values then Ok (eui_int, 0)
  else
    let user_mask := 2 ^ 12 - 1 in
    let iab_mask := Z.lxor (2 ^ 48 - 1) user_mask in
    let iab_bits := Z.shiftr eui_int 12 in
    let user_bits := Z.lor eui_int iab_mask - iab_mask in
    if zmem (Z.shiftr iab_bits 12) iab_values then
      (if strict && negb (user_bits =? 0) then Raise ValueError else Ok (iab_bits, user_bits))
    else Raise ValueError.

(* EUI.iab: the value the IAB object holds (registry lookup excluded) *)
Definition eui_iab (e : eui) : outcome (option Z) :=
  if eui_is_iab e then do r <- split_iab_mac (Z.shiftr (evalue e) 12) false; Ok (Some (fst r))
  else Ok None.

(* Python sequence indexing with a possibly negative index *)
Definition py_index {A} (l : list A) (idx : Z) : option A :=
  let n := Z.of_nat (List.length l) in
  if idx <? 0 then (if idx + n <? 0 then None else nth_error l (Z.to_nat (idx + n)))
  else nth_error l (Z.to_nat idx).

(* EUI.__getitem__(idx), integer index *)
Definition eui_getitem (e : eui) (idx : Z) : outcome Z :=
  let d := edialect e in
  let nw := num_words d in
  if negb ((- nw <=? idx) && (idx <=? nw - 1)) then Raise IndexError
  else do words <- int_to_words (evalue e) (word_size d) nw;
       match py_index words idx with Some w => Ok w | None => Raise IndexError end.

Fixpoint list_set {A} (l : list A) (i : nat) (x : A) : list A :=
  match l, i with
  | [], _ => []
  | _ :: r, O => x :: r
  | a :: r, S k => a :: list_set r k x
  end.

(* EUI.__setitem__(idx, value), integer arguments (F-09 repaired) *)
Definition eui_setitem (e : eui) (idx value : Z) : outcome eui :=
  let d := edialect e in
  if negb ((0 <=? idx) && (idx <=? num_words d - 1)) then Raise IndexError
  else if negb ((0 <=? value) && (value <=? 2 ^ word_size d - 1)) then Raise IndexError
  else do words <- int_to_words (evalue e) (word_size d) (num_words d);
       if negb (Z.to_nat idx <? List.length words)%nat then Raise IndexError
       else do v <- words_to_int (list_set words (Z.to_nat idx) value) (word_size d) (num_words d);
            Ok {| ever := ever e; evalue := v; edialect := d |}.

(* comparisons and hash: on the tuple (version, value) *)
Definition eui_key (e : eui) : Z * Z := (ever e, evalue e).
Definition key_eqb (a b : Z * Z) : bool := (fst a =? fst b) && (snd a =? snd b).
Definition key_ltb (a b : Z * Z) : bool := (fst a <? fst b) || ((fst a =? fst b) && (snd a <? snd b)).
Definition eui_eq (a b : eui) : bool := key_eqb (eui_key a) (eui_key b).
Definition eui_ne (a b : eui) : bool := negb (key_eqb (eui_key a) (eui_key b)).
Definition eui_lt (a b : eui) : bool := key_ltb (eui_key a) (eui_key b).
Definition eui_le (a b : eui) : bool := key_ltb (eui_key a) (eui_key b) || key_eqb (eui_key a) (eui_key b).
Definition eui_gt (a b : eui) : bool := key_ltb (eui_key b) (eui_key a).
Definition eui_ge (a b : eui) : bool := key_ltb (eui_key b) (eui_key a) || key_eqb (eui_key a) (eui_key b).
Definition eui_hash_key (e : eui) : Z * Z := eui_key e.    (* hash((version, value)) *)

(* EUI.bits(word_sep) (F-10 repaired): module default dialect, explicit separator honoured *)
Definition eui_bits (e : eui) (sep : option string) : outcome string :=
  let d := default_dialect (ever e) in
  int_to_bits (evalue e) (word_size d) (num_words d) (match sep with Some s => s | None => word_sep d end).

(* big-endian bytes of n in k bytes, as characters *)
Fixpoint be_bytes (k : nat) (n : Z) : list ascii :=
  match k with
  | O => []
  | S j => chr (Z.land (Z.shiftr n (8 * Z.of_nat j)) 255) :: be_bytes j n
  end.

(* EUI.packed: struct.pack('>HI', v >> 32, v & 0xffffffff) / struct.pack('>8B', *words) *)
Definition eui_packed (e : eui) : outcome string :=
  if ever e =? 64 then
    do ws <- eui_words e;
    if Nat.eqb (List.length ws) 8 && forallb (fun w => (0 <=? w) && (w <=? 255)) ws
    then Ok (str_of (map chr ws)) else Raise StructError
  else
    let hi := Z.shiftr (evalue e) 32 in
    if (0 <=? hi) && (hi <=? 65535) then Ok (str_of (be_bytes 2 hi ++ be_bytes 4 (Z.land (evalue e) 4294967295)))
    else Raise StructError.

Definition eui_bin (e : eui) : outcome string := int_to_bin (evalue e) (ewidth (ever e)).

(* EUI.eui64() *)
Definition eui_eui64 (e : eui) : outcome eui :=
  let new_value :=
    if ever e =? 48 then
      let first_three := Z.shiftr (evalue e) 24 in
      let last_three := Z.land (evalue e) 16777215 in
      Z.lor (Z.lor (Z.shiftl first_three 40) 1099478073344) last_three      (* 0xfffe000000 *)
    else evalue e in
  eui_init (AInt new_value) (Some 64) DNone.

(* EUI.modified_eui64() *)
Definition eui_modified (e : eui) : outcome eui :=
  do e64 <- eui_eui64 e;
  Ok {| ever := ever e64; evalue := Z.lxor (evalue e64) 144115188075855872; edialect := edialect e64 |}.  (* 2^57 *)

(* EUI.ipv6(prefix), integer prefix: IPAddress(int(prefix) + int(modified), version=6) *)
Definition eui_ipv6 (e : eui) (prefix : Z) : outcome (Z * Z) :=
  do m <- eui_modified e;
  addr_of_int_ver (prefix + evalue m) 6.

Definition eui_ipv6_link_local (e : eui) : outcome (Z * Z) :=
  eui_ipv6 e 338288524927261089654018896841347694592.      (* 0xfe80 << 112 *)

(* EUI.format(dialect), __str__ *)
Definition eui_format (e : eui) (d : darg) : outcome string :=
  do dd <- validate_dialect (ever e) d;
  int_to_str (evalue e) dd.
Definition eui_str (e : eui) : outcome string := int_to_str (evalue e) (edialect e).
