(* Model/SrcPreludeEui2.v — symbols that the generated translation of the remaining functions of netaddr/strategy/eui48.py,
   eui64.py and of class EUI (Gen/pysrc_eui48b_gen.v, pysrc_eui64b_gen.v, pysrc_euib_gen.v, written by harness/gen/pysrc.py,
   block SRCF) uses.  Each symbol is an existing hand-model function (named) or a small definition.  No proofs here. *)
From Coq Require Import ZArith List Bool String Ascii.
From NV Require Import Base.PyVal Base.PyStr Model.Ip Model.Codec Model.Eui.
Import ListNotations.
Open Scope Z_scope.

(* a dialect class as the record of the four attributes the code reads (Model/Eui.v dialect); the projections under names that
   no Python local can shadow *)
Notation dialect_t := Eui.dialect (only parsing).
Definition mk_dialect (ws nw : Z) (sep fmt : string) : dialect_t :=
  {| Eui.word_size := ws; Eui.num_words := nw; Eui.word_sep := sep; Eui.word_fmt := fmt |}.
Definition d_word_size (d : dialect_t) : Z := Eui.word_size d.
Definition d_num_words (d : dialect_t) : Z := Eui.num_words d.
Definition d_word_sep (d : dialect_t) : string := Eui.word_sep d.
Definition d_word_fmt (d : dialect_t) : string := Eui.word_fmt d.
(* a dialect handed to a callee that was translated with the pair (word_size, num_words) *)
Definition d_pair (d : dialect_t) : Z * Z := (d_word_size d, d_num_words d).

(* struct.pack(fmt, v1, ..) / struct.unpack(fmt, buf) for the big-endian unsigned formats: the byte width of every field is
   read from the format literal by the translator ('>HI' = [2; 4], '>6B' = six 1s); a bytes object is the list of its byte
   values.  Model/Codec.v struct_pack / struct_unpack (struct.error = StructError for a value out of range, a wrong argument
   count, a wrong buffer length). *)
Definition py_struct_pack (sizes : list nat) (vals : list Z) : outcome (list Z) := Codec.struct_pack sizes vals.
Definition py_struct_unpack (sizes : list nat) (buf : list Z) : outcome (list Z) := Codec.struct_unpack sizes buf.

(* netaddr.strategy.int_to_bits, which is not translated: its hand model Model/Eui.v int_to_bits *)
Definition py_int_to_bits (int_val word_size num_words : Z) (word_sep : string) : outcome string :=
  Eui.int_to_bits int_val word_size num_words word_sep.

(* l[idx] for a list and a computed int index (negative counts from the end; IndexError outside) *)
Definition py_getitem_o {A} (l : list A) (idx : Z) : outcome A :=
  match Eui.py_index l idx with Some x => Ok x | None => Raise IndexError end.

(* l[idx] = x on a list the function owns *)
Definition py_setitem_o {A} (l : list A) (idx : Z) (x : A) : outcome (list A) :=
  let n := Z.of_nat (List.length l) in
  let i := if idx <? 0 then idx + n else idx in
  if (0 <=? i) && (i <? n) then Ok (Eui.list_set l (Z.to_nat i) x) else Raise IndexError.

(* l[a:b] for literals 0 <= a <= b *)
Definition py_slice_lit {A} (a b : Z) (l : list A) : list A := firstn (Z.to_nat (b - a)) (skipn (Z.to_nat a) l).

(* `fmt % n` for a format of one integer conversion: Model/Eui.v apply_fmt (%x %X %.<k>x %.<k>X %0<k>x %0<k>X; Unsupported
   outside that subset and for n < 0) *)
Definition py_fmt_int (fmt : string) (n : Z) : outcome string := Eui.apply_fmt fmt n.

(* `fmt % tuple(l)`: the format is cut at every '%'; the text before the first one is copied, every later piece is one
   conversion (as py_fmt_int, up to and including its x / X) followed by literal text; TypeError when the number of
   conversions differs from the number of values ("not enough arguments" / "not all arguments converted") *)
Fixpoint take_spec (l : list ascii) (acc : list ascii) : list ascii * list ascii :=
  match l with
  | [] => (rev acc, [])
  | c :: r => if ascii_eqb c "x"%char || ascii_eqb c "X"%char then (rev (c :: acc), r) else take_spec r (c :: acc)
  end.
Fixpoint fmt_pieces (pieces : list (list ascii)) (vals : list Z) : outcome (list ascii) :=
  match pieces, vals with
  | [], [] => Ok []
  | p :: ps, v :: vs =>
      let '(spec, lit) := take_spec p [] in
      do s <- py_fmt_int (String "%"%char (str_of spec)) v;
      do r <- fmt_pieces ps vs;
      Ok (chars s ++ lit ++ r)%list
  | _, _ => Raise TypeError
  end.
Definition py_fmt_ints (fmt : string) (vals : list Z) : outcome string :=
  match split_chars "%"%char (chars fmt) [] with
  | [] => Raise Unsupported
  | pre :: pieces => do r <- fmt_pieces pieces vals; Ok (str_of (pre ++ r)%list)
  end.

(* [f(x) for x in xs] where f can raise: left to right, the first exception wins (Model/Eui.v map_outcome) *)
Definition py_map_o {A B} (f : A -> outcome B) (l : list A) : outcome (list B) := Eui.map_outcome f l.

(* hash((a, b)): represented by the tuple that is hashed *)
Definition py_hash_pair (k : Z * Z) : Z * Z := k.

(* ---- the compiled regular expressions (RE_MAC_FORMATS / RE_EUI64_FORMATS = Model/Eui.v mac_pats / eui64_pats) ----
   regexp.findall(text) for an anchored pattern: [] or [the groups of the only match] = None | Some groups (Eui.match_pat);
   the groups of a match are a tuple of text, or -- for a pattern with exactly one group -- that group's text itself *)
Definition py_findall (p : Eui.pat) (s : string) : option (list string) := Eui.match_pat p (chars s).
Definition py_matches_len (m : option (list string)) : Z := match m with Some _ => 1 | None => 0 end.
Definition py_found (m : option (list string)) : bool := match m with Some _ => true | None => false end.
Definition py_match0 (m : option (list string)) : outcome (list string) :=
  match m with Some g => Ok g | None => Raise IndexError end.
Definition py_is_tuple (g : list string) : bool := negb (Nat.eqb (List.length g) 1).
Definition py_group_str (g : list string) : string := match g with [s] => s | _ => EmptyString end.
(* truth of `None or groups`: a tuple of groups is never empty; a single group is true unless it is '' *)
Definition py_optgroups_truthy (og : option (list string)) : bool :=
  match og with
  | None => false
  | Some g => if py_is_tuple g then true else negb (String.eqb (py_group_str g) EmptyString)
  end.
