(* Model/Merge.v — iprange_to_cidrs (netaddr/ip/__init__.py 1795-1828) and cidr_merge (1577-1625), as written
   (after the fix: unmerged networks are returned as `original.cidr`).  Built on Model/Partition.v and Model/Span.v. *)
From Coq Require Import ZArith List Bool.
From NV Require Import Base.PyVal Model.Ip Model.Partition Model.Span.
Import ListNotations.
Open Scope Z_scope.

(* list.pop(): last element and the rest; IndexError on an empty list *)
Fixpoint pop_last {A} (l : list A) : outcome (list A * A) :=
  match l with
  | [] => Raise IndexError
  | [x] => Ok ([], x)
  | x :: r => do p <- pop_last r; Ok (x :: fst p, snd p)
  end.

Definition net_of_cblk (ver : Z) (b : cblk) : net := {| nver := ver; nval := fst b; nplen := snd b |}.
Definition cblk_of_net (n : net) : cblk := (nval n, nplen n).

(* iprange_to_cidrs(start, end), both already IPNetwork objects *)
Definition iprange_to_cidrs (start end_ : net) : outcome (list net) :=
  let lo := nfirst width start in
  let hi := nlast width end_ in
  do cidr_span <- spanning_cidr [start; end_];
  let ver := nver start in
  let w := width ver in
  do st <- (if nfirst width cidr_span <? lo then
              do exclude <- Span.net_of_tuple width ver (lo - 1) w;
              do parts <- cidr_partition w (cblk_of_net cidr_span) (cblk_of_net exclude);
              let '(_, _, after) := parts in
              do p <- pop_last after;
              Ok (fst p, snd p)
            else Ok ([], cblk_of_net cidr_span));
  let '(cidr_list, span) := st in
  if net_last w (fst span) (snd span) >? hi then
    do exclude <- Span.net_of_tuple width ver (hi + 1) w;
    do parts <- cidr_partition w span (cblk_of_net exclude);
    let '(before, _, _) := parts in
    Ok (map (net_of_cblk ver) (cidr_list ++ before))
  else Ok (map (net_of_cblk ver) (cidr_list ++ [span])).

(* ---- cidr_merge ---- *)
(* an input item after `IPNetwork(ip)` conversion: a network (host bits kept) or a range *)
Inductive mitem := MNet (n : net) | MRange (ver s e : Z).
Definition mi_ver (m : mitem) := match m with MNet n => nver n | MRange v _ _ => v end.
Definition mi_first (m : mitem) := match m with MNet n => nfirst width n | MRange _ s _ => s end.
Definition mi_last (m : mitem) := match m with MNet n => nlast width n | MRange _ _ e => e end.

(* (version, last, first, original-or-None) *)
Definition rtuple := (Z * Z * Z * option mitem)%type.
Definition rt_ver (t : rtuple) := fst (fst (fst t)).
Definition rt_last (t : rtuple) := snd (fst (fst t)).
Definition rt_first (t : rtuple) := snd (fst t).
Definition rt_orig (t : rtuple) := snd t.

(* ranges.sort(): lexicographic on (version, last, first); ties (identical ranges) are merged by the scan
   below whatever their relative order, so the 4th tuple component never decides the result *)
Definition rt_leb (a b : rtuple) : bool :=
  if rt_ver a <? rt_ver b then true else if rt_ver b <? rt_ver a then false
  else if rt_last a <? rt_last b then true else if rt_last b <? rt_last a then false
  else rt_first a <=? rt_first b.
Fixpoint rt_insert (x : rtuple) (l : list rtuple) : list rtuple :=
  match l with
  | [] => [x]
  | y :: r => if rt_leb x y then x :: l else y :: rt_insert x r
  end.
Definition rt_sort (l : list rtuple) : list rtuple := fold_right rt_insert [] l.

(* the backward `while i > 0` scan: `cur` = ranges[i], `before` = ranges[0..i-1] reversed, `done` = ranges[i+1..] *)
Fixpoint merge_scan (cur : rtuple) (before : list rtuple) (done : list rtuple) : list rtuple :=
  match before with
  | [] => cur :: done
  | prev :: before' =>
      if (rt_ver cur =? rt_ver prev) && (rt_first cur - 1 <=? rt_last prev)
      then merge_scan (rt_ver cur, rt_last cur, Z.min (rt_first prev) (rt_first cur), None) before' done
      else merge_scan prev before' (cur :: done)
  end.

Definition merge_ranges (l : list rtuple) : list rtuple :=
  match rev (rt_sort l) with
  | [] => []
  | last :: before => merge_scan last before []
  end.

Definition addr_net (ver v : Z) : net := {| nver := ver; nval := v; nplen := width ver |}.

Fixpoint emit_merged (l : list rtuple) : outcome (list net) :=
  match l with
  | [] => Ok []
  | t :: r =>
      do here <- (match rt_orig t with
                  | Some (MRange ver s e) => iprange_to_cidrs (addr_net ver s) (addr_net ver e)
                  | Some (MNet n) => let c := net_cidr (width (nver n)) (nval n) (nplen n) in
                                     Ok [{| nver := nver n; nval := fst c; nplen := snd c |}]
                  | None => iprange_to_cidrs (addr_net (rt_ver t) (rt_first t)) (addr_net (rt_ver t) (rt_last t))
                  end);
      do rest <- emit_merged r;
      Ok (here ++ rest)
  end.

Definition cidr_merge (items : list mitem) : outcome (list net) :=
  emit_merged (merge_ranges (map (fun m => (mi_ver m, mi_last m, mi_first m, Some m)) items)).
