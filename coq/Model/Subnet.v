(* Model/Subnet.v — IPNetwork.subnet / supernet / __iadd__ / __isub__ / next / previous / iter_hosts and the
   helper iter_iprange of netaddr/ip/__init__.py.  Each definition mirrors the Python method named in its
   comment.  Networks are pairs (value, prefixlen) over a family of width w; addresses are (version, value).
   Python generators are modelled as a state plus a step function (one loop iteration per step). *)
From Coq Require Import ZArith List Bool.
From NV Require Import Base.PyVal Model.Ip.
Import ListNotations.
Open Scope Z_scope.

(* ---- generators ---- *)
Section Gen.
Context {St A : Type}.
(* one resumption of the generator: None = StopIteration, Some (Raise e, _) = the body raised e *)
Variable step : St -> option (outcome A * St).

(* list(itertools.islice(gen, n)) *)
Fixpoint gen_take (n : nat) (s : St) : outcome (list A) :=
  match n with
  | O => Ok []
  | S n' => match step s with
            | None => Ok []
            | Some (Raise e, _) => Raise e
            | Some (Ok a, s') => do rest <- gen_take n' s'; Ok (a :: rest)
            end
  end.
End Gen.

(* ---- pieces of IPNetwork used below, on (value, prefixlen) pairs ---- *)
Definition wnet := (Z * Z)%type.

(* IPNetwork('%s/%d' % (addr, prefixlen), version): the text round trip int_to_str / str_to_int is the
   identity on in-range values (properties C01/C03); parse_ip_network (lines 827-829) re-checks the prefix. *)
Definition net_of_cidr_str (w value plen : Z) : outcome wnet :=
  if negb ((0 <=? plen) && (plen <=? w)) then Raise AddrFormatError else Ok (value, plen).

(* BaseIP._set_value with an int argument (lines 32-38) *)
Definition set_value_w (w : Z) (n : wnet) (z : Z) : outcome wnet :=
  if negb ((0 <=? z) && (z <=? max_int_w w)) then Raise AddrFormatError else Ok (z, snd n).

(* IPNetwork._set_prefixlen with an int argument (lines 986-992) *)
Definition set_prefixlen_w (w : Z) (n : wnet) (z : Z) : outcome wnet :=
  if negb ((0 <=? z) && (z <=? w)) then Raise AddrFormatError else Ok (fst n, z).

(* IPNetwork.cidr (lines 1078-1086): `1 << (width - prefixlen)` raises ValueError("negative shift count")
   when the prefix exceeds the width; then the tuple constructor (parse_ip_network lines 774-785). *)
Definition cidr_checked (w : Z) (n : wnet) : outcome wnet :=
  let '(v, p) := n in
  if w - p <? 0 then Raise ValueError
  else
    let value := Z.land v (netmask_int w p) in
    if negb ((0 <=? value) && (value <=? max_int_w w)) then Raise AddrFormatError
    else if negb ((0 <=? p) && (p <=? w)) then Raise AddrFormatError
    else Ok (value, p).

(* ---- IPNetwork.__iadd__ / __isub__ (lines 1088-1128) ---- *)
Definition net_iadd (w : Z) (n : wnet) (num : Z) : outcome wnet :=
  let '(v, p) := n in
  let new_value := net_network w v p + net_size w v p * num in
  if new_value + (net_size w v p - 1) >? max_int_w w then Raise IndexError
  else if new_value <? 0 then Raise IndexError
  else Ok (new_value, p).

Definition net_isub (w : Z) (n : wnet) (num : Z) : outcome wnet :=
  let '(v, p) := n in
  let new_value := net_network w v p - net_size w v p * num in
  if new_value <? 0 then Raise IndexError
  else if new_value + (net_size w v p - 1) >? max_int_w w then Raise IndexError
  else Ok (new_value, p).

(* a raising in-place operator leaves the receiver as it was *)
Definition apply_inplace (f : wnet -> outcome wnet) (n : wnet) : wnet * option exn :=
  match f n with Ok n' => (n', None) | Raise e => (n, Some e) end.

(* ---- IPNetwork.previous / next (lines 1230-1252) ---- *)
Definition net_previous (w : Z) (n : wnet) (step : Z) : outcome wnet :=
  let '(v, p) := n in
  do ip_copy <- net_of_cidr_str w (net_network w v p) p;
  net_isub w ip_copy step.

Definition net_next (w : Z) (n : wnet) (step : Z) : outcome wnet :=
  let '(v, p) := n in
  do ip_copy <- net_of_cidr_str w (net_network w v p) p;
  net_iadd w ip_copy step.

(* ---- IPNetwork.supernet (lines 1254-1275) ---- *)
(* the `while supernet._prefixlen != self._prefixlen` loop; sv is the value of the mutable copy,
   r its current _prefixlen *)
Fixpoint supernet_loop (fuel : nat) (w sv r p : Z) : outcome (list wnet) :=
  match fuel with
  | O => Raise OutOfFuel
  | S f => if negb (r =? p) then
             do c <- cidr_checked w (sv, r);
             do rest <- supernet_loop f w sv (r + 1) p;
             Ok (c :: rest)
           else Ok []
  end.

Definition supernet (w : Z) (n : wnet) (prefixlen : Z) : outcome (list wnet) :=
  let '(v, p) := n in
  if negb ((0 <=? prefixlen) && (prefixlen <=? w)) then Raise ValueError
  else
    do sn <- cidr_checked w (v, p);
    supernet_loop (Z.to_nat w + 2) w (fst sn) prefixlen p.

(* ---- IPNetwork.subnet (lines 1277-1316) ---- *)
Record subnet_gen := { sg_base : Z; sg_q : Z; sg_count : Z; sg_i : Z }.

(* the code before the loop; Ok None is the bare `return` (a generator that yields nothing).
   A prefixlen above the width makes `2 ** (width - prefixlen)` a float: not modelled. *)
Definition subnet_start (w : Z) (n : wnet) (prefixlen : Z) (count : option Z) : outcome (option subnet_gen) :=
  let '(v, p) := n in
  if negb ((0 <=? p) && (p <=? w)) then Raise ValueError
  else if negb (p <=? prefixlen) then Ok None
  else if w - prefixlen <? 0 then Raise Unsupported
  else
    let max_subnets := 2 ^ (w - p) / 2 ^ (w - prefixlen) in
    let count := match count with None => max_subnets | Some c => c end in
    if negb ((1 <=? count) && (count <=? max_subnets)) then Raise ValueError
    else Ok (Some {| sg_base := net_first w v p; sg_q := prefixlen; sg_count := count; sg_i := 0 |}).

(* one iteration of `while(i < count)` *)
Definition subnet_next (w : Z) (g : subnet_gen) : option (outcome wnet * subnet_gen) :=
  if sg_i g <? sg_count g then
    let r := do s0 <- net_of_cidr_str w (sg_base g) (sg_q g);
             do s1 <- set_value_w w s0 (fst s0 + net_size w (fst s0) (snd s0) * sg_i g);
             set_prefixlen_w w s1 (sg_q g) in
    Some (r, {| sg_base := sg_base g; sg_q := sg_q g; sg_count := sg_count g; sg_i := sg_i g + 1 |})
  else None.

(* (count local, list(islice(self.subnet(prefixlen, count), k))) *)
Definition subnet_take (w : Z) (n : wnet) (prefixlen : Z) (count : option Z) (k : nat) : outcome (Z * list wnet) :=
  do og <- subnet_start w n prefixlen count;
  match og with
  | None => Ok (0, [])
  | Some g => do l <- gen_take (subnet_next w) k g; Ok (sg_count g, l)
  end.

(* ---- iter_iprange (lines 1748-1791); addresses are (version, value) ---- *)
Record iprange_gen := { ig_ver : Z; ig_index : Z; ig_stop : Z; ig_step : Z }.

Definition iter_iprange (start stop : Z * Z) (step : Z) : outcome iprange_gen :=
  if negb (fst start =? fst stop) then Raise TypeError
  else if step =? 0 then Raise ValueError
  else Ok {| ig_ver := fst start; ig_index := snd start - step; ig_stop := snd stop; ig_step := step |}.

(* one iteration of `while True` *)
Definition iprange_next (g : iprange_gen) : option (outcome (Z * Z) * iprange_gen) :=
  let index := ig_index g + ig_step g in
  let g' := {| ig_ver := ig_ver g; ig_index := index; ig_stop := ig_stop g; ig_step := ig_step g |} in
  if ig_step g <? 0 then
    (if negb (index >=? ig_stop g) then None else Some (addr_of_int_ver index (ig_ver g), g'))
  else
    (if negb (index <=? ig_stop g) then None else Some (addr_of_int_ver index (ig_ver g), g')).

(* number of addresses a fresh iter_iprange generator will still yield (used by the harness to compare
   the extent of generators too large to exhaust) *)
Definition iprange_remaining (g : iprange_gen) : Z :=
  let first := ig_index g + ig_step g in
  if ig_step g <? 0 then (if first >=? ig_stop g then (first - ig_stop g) / (- ig_step g) + 1 else 0)
  else if ig_step g =? 0 then 0
  else (if first <=? ig_stop g then (ig_stop g - first) / ig_step g + 1 else 0).

(* ---- IPNetwork.iter_hosts (lines 1318-1360); Ok None is `iter([])` ---- *)
Definition iter_hosts (ver : Z) (n : wnet) : outcome (option iprange_gen) :=
  let '(v, p) := n in
  let w := width ver in
  if ver =? 4 then
    if net_size w v p >=? 4 then
      do a <- addr_of_int_ver (net_first w v p + 1) ver;
      do b <- addr_of_int_ver (net_last w v p - 1) ver;
      omap Some (iter_iprange a b 1)
    else
      do a <- addr_of_int_ver (net_first w v p) ver;
      do b <- addr_of_int_ver (net_last w v p) ver;
      omap Some (iter_iprange a b 1)
  else
    if net_size w v p >=? 2 then
      do a <- addr_of_int_ver (net_first w v p + 1) ver;
      do b <- addr_of_int_ver (net_last w v p) ver;
      omap Some (iter_iprange a b 1)
    else Ok None.

(* (number of hosts, list(islice(self.iter_hosts(), k))) *)
Definition hosts_take (ver : Z) (n : wnet) (k : nat) : outcome (Z * list (Z * Z)) :=
  do og <- iter_hosts ver n;
  match og with
  | None => Ok (0, [])
  | Some g => do l <- gen_take iprange_next k g; Ok (iprange_remaining g, l)
  end.
